// sqlwhere regenerates lean/Hostd/Gen/ChainSql.lean from the CURRENT source: the WHERE clauses of the
// seven ContractActions selection queries (persist/sqlite/contracts.go) and of the two reject queries
// (persist/sqlite/consensus.go) are parsed and translated to Bool predicates over the model's
// `Contract` row; the placeholders are bound to the Go arguments of the Query call.
package main

import (
	"fmt"
	"go/ast"
	"go/parser"
	"go/token"
	"os"
	"path/filepath"
	"regexp"
	"sort"
	"strconv"
	"strings"
)

type qspec struct {
	file, fn string
	lean     string // generated def name
	ver      string
	params   string // Lean binder list
}

var specs = []qspec{
	{"persist/sqlite/contracts.go", "rebroadcastContracts", "genRebroadcast1", "v1", ""},
	{"persist/sqlite/contracts.go", "broadcastRevision", "genRevision1", "v1", "(lo hi : Nat) "},
	{"persist/sqlite/contracts.go", "proofContracts", "genProof1", "v1", "(h : Nat) "},
	{"persist/sqlite/contracts.go", "rebroadcastV2Contracts", "genRebroadcast2", "v2", ""},
	{"persist/sqlite/contracts.go", "broadcastV2Revision", "genRevision2", "v2", "(lo hi : Nat) "},
	{"persist/sqlite/contracts.go", "proofV2Contracts", "genProof2", "v2", "(h : Nat) "},
	{"persist/sqlite/contracts.go", "expireV2Contracts", "genExpire2", "v2", "(h : Nat) "},
	{"persist/sqlite/consensus.go", "rejectContracts", "genReject1", "v1", "(height : Nat) "},
	{"persist/sqlite/consensus.go", "rejectV2Contracts", "genReject2", "v2", "(height : Nat) "},
}

// Go argument expression -> Lean term / status constant.  Heights are recognised by the TYPE of the
// parameter they come from (a types.ChainIndex parameter's .Height; the function's uint64 parameter),
// through local aliases (`height := index.Height`), not by the names the source happens to use.
func (c *conv) argTerm(e ast.Expr) (term string, status string, isV1Const bool) {
	switch x := e.(type) {
	case *ast.ParenExpr:
		return c.argTerm(x.X)
	case *ast.SelectorExpr:
		n := x.Sel.Name
		if strings.HasPrefix(n, "V2ContractStatus") {
			return "", strings.ToLower(strings.TrimPrefix(n, "V2ContractStatus")), false
		}
		if strings.HasPrefix(n, "ContractStatus") {
			return "", strings.ToLower(strings.TrimPrefix(n, "ContractStatus")), true
		}
		if id, ok := x.X.(*ast.Ident); ok && n == "Height" && (c.idxParams[id.Name] || (len(c.idxParams) == 0 && id.Name == "index")) {
			return "H", "", false
		}
	case *ast.Ident:
		if c.u64Params[x.Name] {
			if c.lohi {
				return "HI", "", false
			}
			return "height", "", false
		}
		if l, ok := c.locals[x.Name]; ok && c.depth < 4 {
			c.depth++
			defer func() { c.depth-- }()
			return c.argTerm(l)
		}
		switch x.Name { // fallback: the names of the pinned source
		case "revisionBroadcastHeight":
			return "HI", "", false
		case "height":
			return "height", "", false
		}
	}
	return "?", "", false
}

var tokRe = regexp.MustCompile(`\$\d+|\?|<>|!=|<=|>=|=|<|>|\(|\)|[A-Za-z_][A-Za-z_0-9.]*`)

type conv struct {
	idxParams map[string]bool     // parameters of type types.ChainIndex
	u64Params map[string]bool     // parameters of type uint64
	locals    map[string]ast.Expr // locals defined once by `x := expr`
	lohi      bool
	depth     int
	ver       string
	args      []ast.Expr
	next      int
	notes     []string
	hasElm    bool
}

func (c *conv) param(tok string) ast.Expr {
	if strings.HasPrefix(tok, "$") {
		n, _ := strconv.Atoi(tok[1:])
		if n >= 1 && n <= len(c.args) {
			return c.args[n-1]
		}
		return nil
	}
	if c.next < len(c.args) {
		c.next++
		return c.args[c.next-1]
	}
	return nil
}

func col(name string) string {
	if i := strings.LastIndex(name, "."); i >= 0 {
		name = name[i+1:]
	}
	return strings.ToLower(name)
}

// numeric column -> Lean term
func numCol(name string) string {
	switch col(name) {
	case "window_start", "proof_height":
		return "c.wStart"
	case "window_end", "expiration_height":
		return "c.wEnd"
	case "negotiation_height":
		return "c.neg"
	}
	return ""
}

func leanOp(op string) string {
	switch op {
	case "<=":
		return "≤"
	case ">=":
		return "≥"
	case "<>", "!=":
		return "≠"
	}
	return op
}

func (c *conv) numParam(e ast.Expr, lohi bool) string {
	t, _, _ := c.argTerm(e)
	switch t {
	case "H":
		if lohi {
			return "lo"
		}
		return "h"
	case "HI":
		return "hi"
	case "height":
		return "height"
	}
	c.notes = append(c.notes, "unknown numeric argument")
	return "0"
}

// atom translates tokens[i:] and returns (lean bool term, tokens consumed)
func (c *conv) atom(t []string, lohi bool) (string, int) {
	name := t[0]
	cn := col(name)
	at := func(i int) string {
		if i < len(t) {
			return t[i]
		}
		return ""
	}
	up := func(i int) string { return strings.ToUpper(at(i)) }
	switch {
	case up(1) == "IS" && up(2) == "NOT" && up(3) == "NULL":
		switch cn {
		case "confirmation_index":
			return "c.confirmed", 4
		case "resolution_height", "resolution_index":
			return "c.resH.isSome", 4
		}
	case up(1) == "IS" && up(2) == "NULL":
		switch cn {
		case "confirmation_index":
			return "!c.confirmed", 3
		case "resolution_height", "resolution_index":
			return "c.resH.isNone", 3
		}
	case up(1) == "BETWEEN" && up(3) == "AND":
		if nc := numCol(name); nc != "" {
			lo := c.numParam(c.param(at(2)), lohi)
			hi := c.numParam(c.param(at(4)), lohi)
			return fmt.Sprintf("decide (%s ≤ %s) && decide (%s ≤ %s)", lo, nc, nc, hi), 5
		}
	case cn == "formation_confirmed" && at(1) == "=":
		if up(2) == "TRUE" {
			return "c.confirmed", 3
		} else if up(2) == "FALSE" {
			return "!c.confirmed", 3
		}
	case cn == "formation_confirmed":
		return "c.confirmed", 1
	case cn == "contract_status" && (at(1) == "<>" || at(1) == "!=" || at(1) == "="):
		_, st, v1c := c.argTerm(c.param(at(2)))
		if st == "" {
			break
		}
		neq := at(1) != "="
		if c.ver == "v2" && v1c {
			// an INTEGER parameter compared with the TEXT status column never matches (SQLite affinity)
			c.notes = append(c.notes, "v1 integer status constant bound against the TEXT column of contracts_v2")
			return fmt.Sprintf("%v", neq), 3
		}
		if neq {
			return fmt.Sprintf("(c.status != .%s)", st), 3
		}
		return fmt.Sprintf("(c.status == .%s)", st), 3
	case (cn == "confirmed_revision_number" || cn == "revision_number") && (at(1) == "!=" || at(1) == "<>"):
		o := col(at(2))
		if (cn == "confirmed_revision_number" && o == "revision_number") || (cn == "revision_number" && o == "revision_number") {
			return "(c.confRev != some c.rev)", 3
		}
	case numCol(name) != "" && (at(1) == "<" || at(1) == "<=" || at(1) == ">" || at(1) == ">=" || at(1) == "="):
		p := c.numParam(c.param(at(2)), lohi)
		return fmt.Sprintf("decide (%s %s %s)", numCol(name), leanOp(at(1)), p), 3
	}
	c.notes = append(c.notes, "atom not understood: "+strings.Join(t[:min(len(t), 4)], " "))
	return "false", len(t)
}

func min(a, b int) int {
	if a < b {
		return a
	}
	return b
}

func (c *conv) where(sql string, lohi bool) string {
	low := strings.ToLower(sql)
	if strings.Contains(low, "inner join contract_v2_state_elements") {
		c.hasElm = true
	}
	i := strings.LastIndex(strings.ToUpper(sql), "WHERE")
	if i < 0 {
		c.notes = append(c.notes, "no WHERE clause")
		return "false"
	}
	toks := tokRe.FindAllString(sql[i+5:], -1)
	var conj []string
	for len(toks) > 0 {
		if strings.ToUpper(toks[0]) == "AND" {
			toks = toks[1:]
			continue
		}
		if u := strings.ToUpper(toks[0]); u == "OR" || u == "NOT" || u == "(" || u == "LIMIT" || u == "ORDER" {
			c.notes = append(c.notes, "unsupported connective "+u)
			return "false"
		}
		// BETWEEN consumes its own AND
		term, n := c.atom(toks, lohi)
		conj = append(conj, term)
		toks = toks[n:]
	}
	if c.hasElm {
		conj = append(conj, "c.confRev.isSome")
	}
	return strings.Join(conj, " && ")
}

func main() {
	repo, out := os.Args[1], os.Args[2]
	fset := token.NewFileSet()
	files := map[string]*ast.File{}
	var b strings.Builder
	b.WriteString("import Hostd.Model.Chain\n/-! GENERATED by extract/sqlwhere from persist/sqlite/{contracts,consensus}.go — do not edit. -/\nnamespace Hostd.Chain.Gen\nopen Hostd.Chain\n\n")
	var allNotes []string
	// all non-test files of the package: the query helpers may live in any of them, their SQL in constants
	pkgFuncs := map[string]*ast.FuncDecl{}
	pkgConsts := map[string]string{}
	names, _ := filepath.Glob(filepath.Join(repo, "persist/sqlite", "*.go"))
	sort.Strings(names)
	for _, src := range names {
		base := filepath.Base(src)
		if strings.HasSuffix(base, "_test.go") || strings.HasPrefix(base, "zz_verif") {
			continue
		}
		f, err := parser.ParseFile(fset, src, nil, 0)
		if err != nil {
			fmt.Fprintln(os.Stderr, err)
			os.Exit(2)
		}
		files[src] = f
		for _, d := range f.Decls {
			switch x := d.(type) {
			case *ast.FuncDecl:
				if pkgFuncs[x.Name.Name] == nil {
					pkgFuncs[x.Name.Name] = x
				}
			case *ast.GenDecl:
				for _, spc := range x.Specs {
					if vs, ok := spc.(*ast.ValueSpec); ok {
						for i, nm := range vs.Names {
							if i < len(vs.Values) {
								if lit, ok := vs.Values[i].(*ast.BasicLit); ok && lit.Kind == token.STRING {
									v, _ := strconv.Unquote(lit.Value)
									pkgConsts[nm.Name] = v
								}
							}
						}
					}
				}
			}
		}
	}
	for _, sp := range specs {
		fd := pkgFuncs[sp.fn]
		c := &conv{ver: sp.ver, idxParams: map[string]bool{}, u64Params: map[string]bool{}, locals: map[string]ast.Expr{}, lohi: strings.Contains(sp.params, "lo hi")}
		if fd != nil && fd.Type.Params != nil {
			for _, f := range fd.Type.Params.List {
				tn := ""
				switch t := f.Type.(type) {
				case *ast.SelectorExpr:
					tn = t.Sel.Name
				case *ast.Ident:
					tn = t.Name
				}
				for _, nm := range f.Names {
					switch tn {
					case "ChainIndex":
						c.idxParams[nm.Name] = true
					case "uint64":
						c.u64Params[nm.Name] = true
					}
				}
			}
			assigned := map[string]int{}
			ast.Inspect(fd.Body, func(n ast.Node) bool {
				if as, ok := n.(*ast.AssignStmt); ok && len(as.Lhs) == 1 && len(as.Rhs) == 1 {
					if id, ok := as.Lhs[0].(*ast.Ident); ok {
						assigned[id.Name]++
						if as.Tok == token.DEFINE {
							c.locals[id.Name] = as.Rhs[0]
						}
					}
				}
				return true
			})
			for n, k := range assigned {
				if k != 1 {
					delete(c.locals, n)
				}
			}
		}
		body := "false"
		if fd == nil {
			c.notes = append(c.notes, "function not found")
		} else {
			consts := map[string]string{}
			var sql string
			ast.Inspect(fd.Body, func(n ast.Node) bool {
				switch x := n.(type) {
				case *ast.ValueSpec:
					for i, nm := range x.Names {
						if i < len(x.Values) {
							if lit, ok := x.Values[i].(*ast.BasicLit); ok && lit.Kind == token.STRING {
								s, _ := strconv.Unquote(lit.Value)
								consts[nm.Name] = s
							}
						}
					}
				case *ast.CallExpr:
					if sel, ok := x.Fun.(*ast.SelectorExpr); ok && sel.Sel.Name == "Query" && len(x.Args) >= 1 && sql == "" {
						switch a := x.Args[0].(type) {
						case *ast.BasicLit:
							sql, _ = strconv.Unquote(a.Value)
						case *ast.Ident:
							sql = consts[a.Name]
							if sql == "" {
								sql = pkgConsts[a.Name]
							}
						}
						c.args = x.Args[1:]
					}
				}
				return true
			})
			if sql == "" {
				c.notes = append(c.notes, "query text not found")
			} else {
				body = c.where(sql, strings.Contains(sp.params, "lo hi"))
			}
			fmt.Fprintf(&b, "/-- %s (%s) -/\n", sp.fn, fset.Position(fd.Pos()))
		}
		fmt.Fprintf(&b, "def %s %s(c : Contract) : Bool :=\n  c.ver == .%s && %s\n\n", sp.lean, sp.params, sp.ver, body)
		for _, n := range c.notes {
			allNotes = append(allNotes, sp.fn+": "+n)
		}
	}
	fmt.Fprintf(&b, "/-- the translator understood every clause -/\ndef genSqlUnderstood : Bool := %v\n\n/- extractor notes:\n", len(allNotes) == 0)
	for _, n := range allNotes {
		b.WriteString("   " + n + "\n")
	}
	b.WriteString("-/\n\nend Hostd.Chain.Gen\n")
	if err := os.WriteFile(out, []byte(b.String()), 0o644); err != nil {
		fmt.Fprintln(os.Stderr, err)
		os.Exit(2)
	}
}
