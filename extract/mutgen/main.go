// mutgen enumerates small syntactic mutations of one Go source file (sensitivity probe of the checks, see
// lib/mutsweep2.py; never part of a check). usage: mutgen <file.go> [func-name-regex]
// output: JSON list of {id, kind, func, line, off, len, orig, repl}
package main

import (
	"encoding/json"
	"fmt"
	"go/ast"
	"go/parser"
	"go/token"
	"os"
	"regexp"
	"strings"
)

type mutant struct {
	ID   string `json:"id"`
	Kind string `json:"kind"`
	Func string `json:"func"`
	Line int    `json:"line"`
	Off  int    `json:"off"`
	Len  int    `json:"len"`
	Orig string `json:"orig"`
	Repl string `json:"repl"`
}

var swaps = map[token.Token]string{
	token.EQL: "!=", token.NEQ: "==", token.LSS: "<=", token.LEQ: "<", token.GTR: ">=", token.GEQ: ">",
	token.LAND: "||", token.LOR: "&&", token.ADD: "-", token.SUB: "+",
}

var sqlKW = regexp.MustCompile(`(?i)\b(SELECT|UPDATE|INSERT|DELETE|WHERE)\b`)

type sqlSwap struct {
	re   *regexp.Regexp
	repl string
}

var sqlSwaps = []sqlSwap{
	{regexp.MustCompile(`<=`), "<"}, {regexp.MustCompile(`>=`), ">"},
	{regexp.MustCompile(`[^<>!=]<[^<>=]`), "\x00<="}, {regexp.MustCompile(`[^<>!=]>[^<>=]`), "\x00>="},
	{regexp.MustCompile(`<>`), "="}, {regexp.MustCompile(`!=`), "="},
	{regexp.MustCompile(`(?i) AND `), " OR "}, {regexp.MustCompile(`(?i) OR `), " AND "},
	{regexp.MustCompile(`[a-z_)0-9] ?\+ ?[$a-z_(0-9]`), "\x01-"}, {regexp.MustCompile(`[a-z_)0-9] ?- ?[$a-z_(0-9]`), "\x01+"},
	{regexp.MustCompile(`\$1\b`), "$2"}, {regexp.MustCompile(`\$2\b`), "$1"},
	{regexp.MustCompile(`(?i) ASC\b`), " DESC"}, {regexp.MustCompile(`(?i) IS NOT NULL`), " IS NULL"}, {regexp.MustCompile(`(?i) IS NULL`), " IS NOT NULL"},
	{regexp.MustCompile(`(?i) NOT IN `), " IN "},
}

func main() {
	path := os.Args[1]
	var fre *regexp.Regexp
	if len(os.Args) > 2 {
		fre = regexp.MustCompile(os.Args[2])
	}
	src, err := os.ReadFile(path)
	if err != nil {
		panic(err)
	}
	fset := token.NewFileSet()
	f, err := parser.ParseFile(fset, path, src, 0)
	if err != nil {
		panic(err)
	}
	var out []mutant
	add := func(kind, fn string, pos token.Pos, n int, repl string) {
		p := fset.Position(pos)
		out = append(out, mutant{ID: fmt.Sprintf("%s_%d_%d", kind, p.Line, len(out)), Kind: kind, Func: fn, Line: p.Line, Off: p.Offset, Len: n, Orig: string(src[p.Offset : p.Offset+n]), Repl: repl})
	}
	for _, d := range f.Decls {
		fd, ok := d.(*ast.FuncDecl)
		if !ok || fd.Body == nil {
			continue
		}
		name := fd.Name.Name
		if fre != nil && !fre.MatchString(name) {
			continue
		}
		ast.Inspect(fd.Body, func(n ast.Node) bool {
			switch x := n.(type) {
			case *ast.BinaryExpr:
				if r, ok := swaps[x.Op]; ok {
					// skip string concatenation
					if x.Op == token.ADD {
						if bl, ok := x.X.(*ast.BasicLit); ok && bl.Kind == token.STRING {
							return true
						}
						if bl, ok := x.Y.(*ast.BasicLit); ok && bl.Kind == token.STRING {
							return true
						}
					}
					// `err != nil` / `err == nil` flips are blanket breakage: skip
					if id, ok := x.Y.(*ast.Ident); ok && id.Name == "nil" {
						if xi, ok := x.X.(*ast.Ident); ok && (xi.Name == "err" || strings.HasSuffix(xi.Name, "Err")) {
							return true
						}
					}
					add("binop", name, x.OpPos, len(x.Op.String()), r)
				}
			case *ast.BasicLit:
				if x.Kind == token.INT && len(x.Value) < 6 {
					add("intlit", name, x.Pos(), len(x.Value), "("+x.Value+"+1)")
				}
				if x.Kind == token.STRING && sqlKW.MatchString(x.Value) {
					base := fset.Position(x.Pos()).Offset
					for _, sw := range sqlSwaps {
						for _, loc := range sw.re.FindAllStringIndex(x.Value, -1) {
							orig := x.Value[loc[0]:loc[1]]
							repl := sw.repl
							switch {
							case strings.HasPrefix(repl, "\x00"): // keep the guard characters around a comparison operator
								repl = orig[:1] + repl[1:] + orig[len(orig)-1:]
							case strings.HasPrefix(repl, "\x01"):
								repl = strings.NewReplacer("+", "\x02", "-", "\x03").Replace(orig)
								if sw.repl[1:] == "-" {
									repl = strings.Replace(repl, "\x02", "-", 1)
								} else {
									repl = strings.Replace(repl, "\x03", "+", 1)
								}
								repl = strings.NewReplacer("\x02", "+", "\x03", "-").Replace(repl)
							}
							if repl == orig {
								continue
							}
							// "$N" placeholders are named parameters numbered by first appearance: renaming one
							// to a name that does not occur elsewhere in the statement changes nothing
							if strings.HasPrefix(orig, "$") && !strings.Contains(x.Value, repl) {
								continue
							}
							p := fset.Position(x.Pos())
							line := p.Line + strings.Count(x.Value[:loc[0]], "\n")
							out = append(out, mutant{ID: fmt.Sprintf("sql_%d_%d", line, len(out)), Kind: "sql", Func: name, Line: line, Off: base + loc[0], Len: loc[1] - loc[0], Orig: orig, Repl: repl})
						}
					}
				}
			case *ast.IfStmt:
				// drop a guarded call: `if err := f(...); err != nil { return ... }`  ->  removed
				if x.Init != nil && x.Else == nil {
					if as, ok := x.Init.(*ast.AssignStmt); ok && len(as.Lhs) == 1 {
						if id, ok := as.Lhs[0].(*ast.Ident); ok && id.Name == "err" {
							if _, ok := as.Rhs[0].(*ast.CallExpr); ok {
								s, e := fset.Position(x.Pos()).Offset, fset.Position(x.End()).Offset
								out = append(out, mutant{ID: fmt.Sprintf("dropcall_%d_%d", fset.Position(x.Pos()).Line, len(out)), Kind: "dropcall", Func: name, Line: fset.Position(x.Pos()).Line, Off: s, Len: e - s, Orig: string(src[s:e]), Repl: "{}"})
							}
						}
					}
				}
				// negate a non-error condition
				if be, ok := x.Cond.(*ast.BinaryExpr); ok {
					if id, ok := be.Y.(*ast.Ident); ok && id.Name == "nil" {
						return true
					}
				}
				if _, ok := x.Cond.(*ast.Ident); ok || isCallOrUnary(x.Cond) {
					s, e := fset.Position(x.Cond.Pos()).Offset, fset.Position(x.Cond.End()).Offset
					out = append(out, mutant{ID: fmt.Sprintf("negcond_%d_%d", fset.Position(x.Pos()).Line, len(out)), Kind: "negcond", Func: name, Line: fset.Position(x.Pos()).Line, Off: s, Len: e - s, Orig: string(src[s:e]), Repl: "!(" + string(src[s:e]) + ")"})
				}
			case *ast.ExprStmt:
				if _, ok := x.X.(*ast.CallExpr); ok {
					s, e := fset.Position(x.Pos()).Offset, fset.Position(x.End()).Offset
					txt := string(src[s:e])
					if strings.Contains(txt, "Unlock") || strings.Contains(txt, "Lock()") || strings.HasPrefix(txt, "log.") || strings.Contains(txt, ".log.") || strings.HasPrefix(txt, "panic(") || strings.Contains(txt, "Debug(") {
						return true
					}
					out = append(out, mutant{ID: fmt.Sprintf("dropstmt_%d_%d", fset.Position(x.Pos()).Line, len(out)), Kind: "dropstmt", Func: name, Line: fset.Position(x.Pos()).Line, Off: s, Len: e - s, Orig: txt, Repl: "{}"})
				}
			case *ast.IncDecStmt:
				s := fset.Position(x.TokPos).Offset
				r := "--"
				if x.Tok == token.DEC {
					r = "++"
				}
				out = append(out, mutant{ID: fmt.Sprintf("incdec_%d_%d", fset.Position(x.Pos()).Line, len(out)), Kind: "incdec", Func: name, Line: fset.Position(x.Pos()).Line, Off: s, Len: 2, Orig: string(src[s : s+2]), Repl: r})
			}
			return true
		})
	}
	json.NewEncoder(os.Stdout).Encode(out)
}

func isCallOrUnary(e ast.Expr) bool {
	switch e.(type) {
	case *ast.CallExpr, *ast.UnaryExpr, *ast.SelectorExpr:
		return true
	}
	return false
}
