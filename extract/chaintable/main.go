// chaintable regenerates lean/Hostd/Gen/ChainTable.lean from persist/sqlite/consensus.go of the
// repository's CURRENT working tree: for each of the apply*/revert* transition functions and
// RejectContracts it interprets the loop body for every concrete prior status and records
// skip / panic / go(target status, confirmation and resolution column operation, ordered metric
// helper calls with their `negative` flag), plus the placeholder/argument counts of the update
// statements. Unknown constructs are emitted as `Cell.error` with a comment so that no obligation
// accepts them silently.
package main

import (
	"fmt"
	"go/ast"
	"go/parser"
	"go/token"
	"os"
	"path/filepath"
	"regexp"
	"sort"
	"strconv"
	"strings"
)

// package-level string constants and functions of persist/sqlite (filled by main)
var pkgConsts = map[string]string{}
var pkgFuncs = map[string]*ast.FuncDecl{}

var statuses = []string{"pending", "rejected", "active", "successful", "failed", "renewed"}

type fnSpec struct {
	goName string
	ver    string // v1 | v2
	fn     string // Lean Fn constructor
	param  string // value of the `status` parameter, if the Go function has one
}

var specs = []fnSpec{
	{"applyContractFormation", "v1", "aForm", ""},
	{"applySuccessfulContracts", "v1", "aSucc", ""},
	{"applyFailedContracts", "v1", "aFail", ""},
	{"revertContractFormation", "v1", "rForm", ""},
	{"revertSuccessfulContracts", "v1", "rSucc", ""},
	{"revertFailedContracts", "v1", "rFail", ""},
	{"applyV2ContractFormation", "v2", "aForm", ""},
	{"applySuccessfulV2Contracts", "v2", "aSucc", "successful"},
	{"applySuccessfulV2Contracts", "v2", "aRenew", "renewed"},
	{"applyFailedV2Contracts", "v2", "aFail", ""},
	{"revertV2ContractFormation", "v2", "rForm", ""},
	{"revertSuccessfulV2Contracts", "v2", "rSucc", "successful"},
	{"revertSuccessfulV2Contracts", "v2", "rRenew", "renewed"},
	{"revertFailedV2Contracts", "v2", "rFail", ""},
}

type cell struct {
	kind     string // skip | panic | error | go
	target   string
	conf     string // keep | set | clear
	res      string
	ops      []string // "(.potential, false)"
	note     string
	argsOK   bool
	execSeen bool
}

// functions whose effect the interpreter knows (metric helpers) or that have none on the table
var knownHelper = map[string]bool{
	"updatePotentialRevenueMetrics": true, "updateV2PotentialRevenueMetrics": true, "updateEarnedRevenueMetrics": true,
	"updateV2EarnedRevenueMetrics": true, "updateCollateralMetrics": true, "updateStatusMetrics": true, "updateV2StatusMetrics": true,
	"getContractStateStmt": true, "getV2ContractStateStmt": true, "incrementCurrencyStatStmt": true, "incrementNumericStatStmt": true,
	"encode": true, "decode": true, "decodeNullable": true,
}

type interp struct {
	ret       bool // a return statement of an inlined helper was reached
	depth     int
	fset      *token.FileSet
	status    string            // concrete prior status
	param     string            // concrete `status` parameter
	paramName string            // name of the Go parameter of a status type
	stmts     map[string]string // prepared statement variable -> SQL text
	c         *cell
	done      bool
	unknown   []string
}

func constStatus(e ast.Expr) (string, bool) {
	sel, ok := e.(*ast.SelectorExpr)
	if !ok {
		return "", false
	}
	n := sel.Sel.Name
	for _, p := range []string{"V2ContractStatus", "ContractStatus"} {
		if strings.HasPrefix(n, p) {
			return strings.ToLower(strings.TrimPrefix(n, p)), true
		}
	}
	return "", false
}

// statusExpr resolves an expression denoting a status: state.Status, the `status` parameter, or a constant
func (in *interp) statusExpr(e ast.Expr) (string, bool) {
	if s, ok := constStatus(e); ok {
		return s, true
	}
	switch x := e.(type) {
	case *ast.SelectorExpr:
		// <row variable>.Status: the prior status of the row being processed (whatever the local is called;
		// package-qualified constants were handled by constStatus above)
		if _, ok := x.X.(*ast.Ident); ok && x.Sel.Name == "Status" {
			return in.status, true
		}
	case *ast.Ident:
		if in.param != "" && (x.Name == in.paramName || (in.paramName == "" && x.Name == "status")) {
			return in.param, true
		}
	}
	return "", false
}

// evalCond: (value, isStatusCondition). Non-status conditions (err != nil, n != 1) are the error path: false.
func (in *interp) evalCond(e ast.Expr) (bool, bool) {
	switch x := e.(type) {
	case *ast.ParenExpr:
		return in.evalCond(x.X)
	case *ast.BinaryExpr:
		switch x.Op {
		case token.LAND, token.LOR:
			a, oka := in.evalCond(x.X)
			b, okb := in.evalCond(x.Y)
			if !oka || !okb {
				return false, false
			}
			if x.Op == token.LAND {
				return a && b, true
			}
			return a || b, true
		case token.EQL, token.NEQ:
			a, oka := in.statusExpr(x.X)
			b, okb := in.statusExpr(x.Y)
			if oka && okb {
				if x.Op == token.EQL {
					return a == b, true
				}
				return a != b, true
			}
		}
	}
	return false, false
}

var (
	wsRe    = regexp.MustCompile(`\s+`)
	eqRe    = regexp.MustCompile(`\s*=\s*`)
	aliasRe = regexp.MustCompile(`\b[a-z_][a-z_0-9]*\.([a-z_]+)`)
	cmtRe   = regexp.MustCompile(`--[^\n]*`)
)

// normSQL: lower case, comments and table aliases removed, whitespace collapsed, no blanks around `=`
func normSQL(sql string) string {
	s := strings.ToLower(cmtRe.ReplaceAllString(sql, " "))
	s = aliasRe.ReplaceAllString(s, "$1")
	s = wsRe.ReplaceAllString(s, " ")
	s = eqRe.ReplaceAllString(s, "=")
	return s
}

func boolLit(e ast.Expr) (bool, bool) {
	if id, ok := e.(*ast.Ident); ok {
		if id.Name == "true" {
			return true, true
		} else if id.Name == "false" {
			return false, true
		}
	}
	return false, false
}

func (in *interp) call(c *ast.CallExpr) {
	name := ""
	switch f := c.Fun.(type) {
	case *ast.Ident:
		name = f.Name
	case *ast.SelectorExpr:
		if id, ok := f.X.(*ast.Ident); ok {
			name = id.Name + "." + f.Sel.Name
		}
	}
	bucket := map[string]string{
		"updatePotentialRevenueMetrics": "potential", "updateV2PotentialRevenueMetrics": "potential",
		"updateEarnedRevenueMetrics": "earned", "updateV2EarnedRevenueMetrics": "earned",
	}
	if fd, ok := pkgFuncs[name]; ok && fd.Body != nil && !knownHelper[name] && in.depth < 3 && c.Fun != nil {
		if _, isIdent := c.Fun.(*ast.Ident); isIdent {
			// a helper of the package: interpret its body in place; prepared statements passed as
			// arguments keep their SQL text under the helper's parameter names
			saved := in.stmts
			child := map[string]string{}
			for k, v := range saved {
				child[k] = v
			}
			for k, v := range preparedStmts(fd) {
				child[k] = v
			}
			if fd.Type.Params != nil {
				i := 0
				for _, f := range fd.Type.Params.List {
					for _, nm := range f.Names {
						if i < len(c.Args) {
							if id, ok := c.Args[i].(*ast.Ident); ok {
								if sql, ok := saved[id.Name]; ok {
									child[nm.Name] = sql
								}
							}
						}
						i++
					}
				}
			}
			in.stmts = child
			in.depth++
			in.block(fd.Body)
			in.ret = false
			in.depth--
			in.stmts = saved
			return
		}
	}
	switch {
	case name == "panic":
		in.c.kind, in.done = "panic", true
	case bucket[name] != "" && len(c.Args) >= 2:
		neg, ok := boolLit(c.Args[1])
		if !ok {
			in.unknown = append(in.unknown, name+": negative flag is not a literal")
		}
		in.c.ops = append(in.c.ops, fmt.Sprintf("(.%s, %v)", bucket[name], neg))
	case name == "updateCollateralMetrics" && len(c.Args) >= 3:
		neg, ok := boolLit(c.Args[2])
		if !ok {
			in.unknown = append(in.unknown, name+": negative flag is not a literal")
		}
		in.c.ops = append(in.c.ops, fmt.Sprintf("(.collateral, %v)", neg))
	case (name == "updateStatusMetrics" || name == "updateV2StatusMetrics") && len(c.Args) >= 2:
		old, ok1 := in.statusExpr(c.Args[0])
		nw, ok2 := in.statusExpr(c.Args[1])
		if !ok1 || !ok2 || old != in.status {
			in.unknown = append(in.unknown, fmt.Sprintf("%s: old status argument is not the row's status (%v)", name, old))
		}
		if in.c.target == "" {
			in.c.target = "?" + nw
		} else if strings.TrimPrefix(in.c.target, "?") != nw {
			in.unknown = append(in.unknown, fmt.Sprintf("status metric moves to %s but the row is set to %s", nw, in.c.target))
		}
	case strings.HasSuffix(name, ".Exec") && in.stmts[strings.TrimSuffix(name, ".Exec")] != "":
		sql := in.stmts[strings.TrimSuffix(name, ".Exec")]
		if !strings.Contains(strings.ToLower(sql), "contract_status") {
			return // element insert/update/delete statements: not part of the status table
		}
		in.c.execSeen = true
		in.c.kind = "go"
		ph := strings.Count(sql, "?")
		for i := 1; i <= 9; i++ {
			if strings.Contains(sql, "$"+strconv.Itoa(i)) {
				ph++
			}
		}
		in.c.argsOK = ph == len(c.Args)
		tgt := ""
		for _, a := range c.Args {
			if s, ok := in.statusExpr(a); ok {
				if _, isConst := constStatus(a); isConst || true {
					tgt = s
				}
			}
		}
		if tgt == "" {
			in.unknown = append(in.unknown, "update statement without a status argument")
		}
		if strings.HasPrefix(in.c.target, "?") && strings.TrimPrefix(in.c.target, "?") != tgt {
			in.unknown = append(in.unknown, fmt.Sprintf("status metric moves to %s but the row is set to %s", in.c.target, tgt))
		}
		in.c.target = tgt
		low := normSQL(sql)
		switch {
		case strings.Contains(low, "formation_confirmed=true"), strings.Contains(low, "confirmation_index=$"), strings.Contains(low, "confirmation_index=?"):
			in.c.conf = "set"
		case strings.Contains(low, "formation_confirmed=false"), strings.Contains(low, "confirmation_index=null"):
			in.c.conf = "clear"
		}
		switch {
		case strings.Contains(low, "resolution_height=null"), strings.Contains(low, "resolution_index=null"):
			in.c.res = "clear"
		case strings.Contains(low, "resolution_height=?"), strings.Contains(low, "resolution_index=?"), strings.Contains(low, "resolution_height=$"), strings.Contains(low, "resolution_index=$"):
			in.c.res = "set"
		}
	}
}

func (in *interp) expr(e ast.Expr) {
	ast.Inspect(e, func(n ast.Node) bool {
		if in.done {
			return false
		}
		if c, ok := n.(*ast.CallExpr); ok {
			// arguments first? calls in arguments are not metric calls; handle this call only
			in.call(c)
			return false
		}
		return true
	})
}

func (in *interp) block(b *ast.BlockStmt) {
	for _, s := range b.List {
		if in.done || in.ret {
			return
		}
		in.stmt(s)
	}
}

func (in *interp) stmt(s ast.Stmt) {
	switch x := s.(type) {
	case *ast.ExprStmt:
		in.expr(x.X)
	case *ast.AssignStmt:
		for _, r := range x.Rhs {
			in.expr(r)
		}
	case *ast.BranchStmt:
		if x.Tok == token.CONTINUE {
			if !in.c.execSeen {
				in.c.kind = "skip"
			}
			in.done = true
		}
	case *ast.ReturnStmt:
		// in the loop body of the table function: only reached on the error path; inside an inlined helper
		// a reached return ends the helper (conditions of error paths are never taken)
		if in.depth > 0 {
			if !in.c.execSeen && in.c.kind == "error" {
				in.c.kind = "skip"
			}
			in.ret = true
		}
	case *ast.IfStmt:
		if x.Init != nil {
			in.stmt(x.Init)
			if in.done {
				return
			}
		}
		v, isStatus := in.evalCond(x.Cond)
		if isStatus && v {
			in.block(x.Body)
			return
		}
		// error-path conditions are assumed false; status conditions evaluated concretely
		if x.Else != nil {
			switch e := x.Else.(type) {
			case *ast.IfStmt:
				in.stmt(e)
			case *ast.BlockStmt:
				in.block(e)
			}
		}
	case *ast.BlockStmt:
		in.block(x)
	case *ast.DeclStmt, *ast.DeferStmt:
	default:
		in.unknown = append(in.unknown, fmt.Sprintf("statement %T", s))
	}
}

func preparedStmts(fn *ast.FuncDecl) map[string]string {
	out := map[string]string{}
	localConsts := map[string]string{}
	ast.Inspect(fn.Body, func(n ast.Node) bool {
		if vs, ok := n.(*ast.ValueSpec); ok {
			for i, nm := range vs.Names {
				if i < len(vs.Values) {
					if lit, ok := vs.Values[i].(*ast.BasicLit); ok && lit.Kind == token.STRING {
						v, _ := strconv.Unquote(lit.Value)
						localConsts[nm.Name] = v
					}
				}
			}
		}
		return true
	})
	ast.Inspect(fn.Body, func(n ast.Node) bool {
		as, ok := n.(*ast.AssignStmt)
		if !ok || len(as.Rhs) != 1 || len(as.Lhs) < 1 {
			return true
		}
		c, ok := as.Rhs[0].(*ast.CallExpr)
		if !ok {
			return true
		}
		sel, ok := c.Fun.(*ast.SelectorExpr)
		if !ok || sel.Sel.Name != "Prepare" || len(c.Args) != 1 {
			return true
		}
		text := ""
		switch a := c.Args[0].(type) {
		case *ast.BasicLit:
			text, _ = strconv.Unquote(a.Value)
		case *ast.Ident:
			if v, ok := localConsts[a.Name]; ok {
				text = v
			} else {
				text = pkgConsts[a.Name]
			}
		}
		if id, ok := as.Lhs[0].(*ast.Ident); ok && text != "" {
			out[id.Name] = text
		}
		return true
	})
	return out
}

// statusParamName: the parameter of the function whose type is a contract status type
func statusParamName(fd *ast.FuncDecl) string {
	if fd.Type.Params == nil {
		return ""
	}
	for _, f := range fd.Type.Params.List {
		tn := ""
		switch t := f.Type.(type) {
		case *ast.SelectorExpr:
			tn = t.Sel.Name
		case *ast.Ident:
			tn = t.Name
		}
		if strings.HasSuffix(tn, "ContractStatus") && len(f.Names) > 0 {
			return f.Names[0].Name
		}
	}
	return ""
}

// assignedFrom: the first variable assigned from a call of the function `callee` inside fn
func assignedFrom(fn *ast.FuncDecl, callee string) string {
	name := ""
	ast.Inspect(fn.Body, func(n ast.Node) bool {
		as, ok := n.(*ast.AssignStmt)
		if !ok || name != "" || len(as.Rhs) != 1 || len(as.Lhs) < 1 {
			return true
		}
		if c, ok := as.Rhs[0].(*ast.CallExpr); ok {
			if id, ok := c.Fun.(*ast.Ident); ok && id.Name == callee {
				if l, ok := as.Lhs[0].(*ast.Ident); ok {
					name = l.Name
				}
			}
		}
		return true
	})
	return name
}

func loopBody(fn *ast.FuncDecl, rangeOver string) *ast.BlockStmt {
	var body *ast.BlockStmt
	ast.Inspect(fn.Body, func(n ast.Node) bool {
		if r, ok := n.(*ast.RangeStmt); ok && body == nil {
			if rangeOver == "" {
				body = r.Body
				return false
			}
			if id, ok := r.X.(*ast.Ident); ok && id.Name == rangeOver {
				body = r.Body
				return false
			}
		}
		return true
	})
	return body
}

func main() {
	repo := "/repo"
	if len(os.Args) > 1 {
		repo = os.Args[1]
	}
	out := os.Args[2]
	fset := token.NewFileSet()
	// every non-test file of the package: functions may be moved between files, SQL text hoisted into constants
	dir := filepath.Join(repo, "persist/sqlite")
	names, _ := filepath.Glob(filepath.Join(dir, "*.go"))
	sort.Strings(names)
	funcs := map[string]*ast.FuncDecl{}
	for _, src := range names {
		base := filepath.Base(src)
		if strings.HasSuffix(base, "_test.go") || strings.HasPrefix(base, "zz_verif") {
			continue
		}
		f, err := parser.ParseFile(fset, src, nil, 0)
		if err != nil {
			fmt.Fprintln(os.Stderr, err)
			os.Exit(2)
		}
		for _, d := range f.Decls {
			switch x := d.(type) {
			case *ast.FuncDecl:
				if x.Recv == nil || funcs[x.Name.Name] == nil {
					funcs[x.Name.Name] = x
				}
			case *ast.GenDecl:
				for _, sp := range x.Specs {
					if vs, ok := sp.(*ast.ValueSpec); ok {
						for i, nm := range vs.Names {
							if i < len(vs.Values) {
								if lit, ok := vs.Values[i].(*ast.BasicLit); ok && lit.Kind == token.STRING {
									v, _ := strconv.Unquote(lit.Value)
									pkgConsts[nm.Name] = v
								}
							}
						}
					}
				}
			}
		}
	}
	pkgFuncs = funcs
	var b strings.Builder
	b.WriteString("import Hostd.Model.Chain\n/-! GENERATED by extract/chaintable from persist/sqlite/consensus.go — do not edit. -/\nnamespace Hostd.Chain.Gen\nopen Hostd.Chain\n\n")
	b.WriteString("def genTable : Table\n")
	var notes []string
	argsOK := true
	emit := func(ver, fn, st string, c *cell, pos string) {
		switch c.kind {
		case "skip":
			fmt.Fprintf(&b, "  | .%s, .%s, .%s => .skip\n", ver, fn, st)
		case "panic":
			fmt.Fprintf(&b, "  | .%s, .%s, .%s => .panic\n", ver, fn, st)
		case "go":
			conf, res := c.conf, c.res
			if conf == "" {
				conf = "keep"
			}
			if res == "" {
				res = "keep"
			}
			fmt.Fprintf(&b, "  | .%s, .%s, .%s => .go ⟨.%s, .%s, .%s, [%s]⟩\n", ver, fn, st, c.target, conf, res, strings.Join(c.ops, ", "))
			if !c.argsOK {
				argsOK = false
				notes = append(notes, fmt.Sprintf("%s %s/%s: Exec argument count differs from the statement's placeholders (%s)", fn, ver, st, pos))
			}
		default:
			fmt.Fprintf(&b, "  | .%s, .%s, .%s => .error  -- not understood (%s)\n", ver, fn, st, pos)
		}
	}
	for _, sp := range specs {
		fd := funcs[sp.goName]
		if fd == nil {
			notes = append(notes, "missing function "+sp.goName)
			for _, st := range statuses {
				emit(sp.ver, sp.fn, st, &cell{kind: "error"}, "function not found")
			}
			continue
		}
		body := loopBody(fd, "")
		pos := fset.Position(fd.Pos()).String()
		for _, st := range statuses {
			in := &interp{fset: fset, status: st, param: sp.param, paramName: statusParamName(fd), stmts: preparedStmts(fd), c: &cell{kind: "error"}}
			if body != nil {
				in.block(body)
			}
			if len(in.unknown) > 0 {
				in.c.kind = "error"
				notes = append(notes, fmt.Sprintf("%s %s/%s: %s", sp.goName, sp.ver, st, strings.Join(in.unknown, "; ")))
			}
			emit(sp.ver, sp.fn, st, in.c, pos)
		}
	}
	// v1 has no renewal resolution
	for _, fn := range []string{"aRenew", "rRenew"} {
		for _, st := range statuses {
			emit("v1", fn, st, &cell{kind: "error"}, "no v1 renewal")
		}
	}
	// RejectContracts: two loops (v1 over `rejected`, v2 over `rejectedV2`)
	if fd := funcs["RejectContracts"]; fd != nil {
		for _, lv := range [][2]string{{"v1", "rejected"}, {"v2", "rejectedV2"}} {
			// the id lists come from rejectContracts / rejectV2Contracts, whatever the locals are called
			if n := assignedFrom(fd, map[string]string{"v1": "rejectContracts", "v2": "rejectV2Contracts"}[lv[0]]); n != "" {
				lv[1] = n
			}
			body := loopBody(fd, lv[1])
			for _, st := range statuses {
				in := &interp{fset: fset, status: st, stmts: preparedStmts(fd), c: &cell{kind: "error"}}
				if body != nil {
					in.block(body)
				}
				if len(in.unknown) > 0 {
					in.c.kind = "error"
					notes = append(notes, fmt.Sprintf("RejectContracts %s/%s: %s", lv[0], st, strings.Join(in.unknown, "; ")))
				}
				emit(lv[0], "reject", st, in.c, fset.Position(fd.Pos()).String())
			}
		}
	} else {
		notes = append(notes, "missing function RejectContracts")
	}
	fmt.Fprintf(&b, "\n/-- every `Exec` of a status update passes as many arguments as the statement has placeholders -/\ndef genArgsOK : Bool := %v\n", argsOK)
	sort.Strings(notes)
	b.WriteString("\n/- extractor notes:\n")
	for _, n := range notes {
		b.WriteString("   " + n + "\n")
	}
	b.WriteString("-/\n\nend Hostd.Chain.Gen\n")
	if err := os.WriteFile(out, []byte(b.String()), 0o644); err != nil {
		fmt.Fprintln(os.Stderr, err)
		os.Exit(2)
	}
}
