import Hostd.Drive.Mdm
open Hostd
def main : IO Unit := do
  Proto.loop (← IO.getStdin) ({} : Drive.Mdm.DState) Drive.Mdm.step Drive.Mdm.stats
