import Hostd.Drive.Mdm
open Hostd

/-- `drv_mdm [site ...]`: every argument names a repair that the tree under test contains in
addition to `Hostd.Mdm.deployed` (a `Fixes` field name, a patch number 1-9, `all`, `none`). -/
def main (args : List String) : IO UInt32 := do
  let mut fx := Mdm.deployed
  for a in args do
    match fx.enable a with
    | some f => fx := f
    | none =>
      IO.eprintln s!"drv_mdm: unknown repair '{a}'"
      IO.println s!"BADLINE line=0 op=driver why=unknown_repair_{a}"
      return 2
  Proto.loop (← IO.getStdin) ({} : Drive.Mdm.DState) (Drive.Mdm.step fx) Drive.Mdm.stats
  return 0
