import Hostd.Drive.Sectors
open Hostd
def main : IO Unit := do
  Proto.loop (← IO.getStdin) ({} : Drive.Sectors.DState) Drive.Sectors.step Drive.Sectors.stats
