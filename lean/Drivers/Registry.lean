import Hostd.Drive.Registry
open Hostd
def main : IO Unit := do
  Proto.loop (← IO.getStdin) ({} : Drive.Registry.DState) Drive.Registry.step Drive.Registry.stats
