import Hostd.Drive.Lock
open Hostd
def main : IO Unit := do
  Proto.loop (← IO.getStdin) ({} : Drive.Lock.DState) Drive.Lock.step Drive.Lock.stats
