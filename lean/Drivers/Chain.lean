import Hostd.Drive.Chain
open Hostd
def main : IO Unit := do
  Proto.loop (← IO.getStdin) ({} : Drive.Chain.DState) Drive.Chain.step Drive.Chain.stats
