import Hostd.Drive.Chain
open Hostd
/-- `drv_chain [focus]`: with a focus prefix (`c01/`, `c05/`, `c06/`) only that property's flags are
reported and only they end the checking of a history. -/
def main (args : List String) : IO Unit := do
  let focus := args.headD ""
  Proto.loop (← IO.getStdin) ({ focus } : Drive.Chain.DState) Drive.Chain.step Drive.Chain.stats
