import Hostd.Drive.Query
open Hostd
def main : IO Unit := do
  Proto.loop (← IO.getStdin) ({} : Drive.Query.DState) Drive.Query.step Drive.Query.stats
