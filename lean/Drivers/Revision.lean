import Hostd.Drive.Revision
open Hostd
/-- `drv_revision [fixed]`: replays a trace of the `revision` engine on the model
(`fixed` selects the repaired variant of the validators, see Model/Revision.lean). -/
def main (args : List String) : IO Unit := do
  let fx := args.contains "fixed"
  Proto.loop (← IO.getStdin) ({ fx := fx } : Drive.Revision.DState) Drive.Revision.step Drive.Revision.stats
