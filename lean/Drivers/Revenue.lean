import Hostd.Drive.Revenue
open Hostd
def main : IO Unit := do
  Proto.loop (← IO.getStdin) ({} : Drive.Revenue.DState) Drive.Revenue.step Drive.Revenue.stats
