import Hostd.Drive.Volumes
open Hostd
def main : IO Unit := do
  Proto.loop (← IO.getStdin) ({} : Drive.Volumes.DState) Drive.Volumes.step Drive.Volumes.stats
