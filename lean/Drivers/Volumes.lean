import Hostd.Drive.Volumes
open Hostd
/-- arguments: `cachecopy` (sector cache holds private copies), `rollbackchecked` (StoreSector's rollback
is conditional) select the repaired behaviour the model expects; none = the tree as first verified -/
def main (args : List String) : IO Unit := do
  let f : Volumes.Facts := { Volumes.Facts.code with cacheCopies := args.contains "cachecopy", rollbackChecked := args.contains "rollbackchecked" }
  Proto.loop (← IO.getStdin) ({ f := f } : Drive.Volumes.DState) Drive.Volumes.step Drive.Volumes.stats
