import Hostd.Drive.Volumes
open Hostd
/-- arguments: `cachecopy` (sector cache holds private copies), `rollbackchecked` (StoreSector's rollback
is conditional), `syncserial` (Sync is serialised and clears the dirty flag before the fsync), `resizelocked`
(ResizeVolume reads the size under the status guard), `removeused` (a forced removal batch lowers used_sectors) select the repaired behaviour the model expects;
none = the tree as first verified -/
def main (args : List String) : IO Unit := do
  let f : Volumes.Facts := { Volumes.Facts.code with
    cacheCopies := args.contains "cachecopy"
    rollbackChecked := args.contains "rollbackchecked"
    syncSerial := args.contains "syncserial"
    resizeStatLocked := args.contains "resizelocked"
    removeUpdatesUsed := args.contains "removeused" }
  Proto.loop (← IO.getStdin) ({ f := f } : Drive.Volumes.DState) Drive.Volumes.step Drive.Volumes.stats
