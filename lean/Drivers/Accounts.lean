import Hostd.Proto
import Hostd.Drive.Accounts
open Hostd
def main : IO Unit := do
  Proto.loop (← IO.getStdin) ({} : Drive.Accounts.DState) Drive.Accounts.step Drive.Accounts.stats
