import Hostd.Proto
/-- stub driver for the `accounts` engine; replaced when the engine is built -/
def main : IO Unit := IO.println "STATS lines=0 flagged=0"
