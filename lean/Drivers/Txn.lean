import Hostd.Drive.Txn
open Hostd
def main (args : List String) : IO Unit := do
  let init : Drive.Txn.DState := { fixed := Drive.Txn.parseArgs args, focus := Drive.Txn.parseFocus args }
  Proto.loop (← IO.getStdin) init Drive.Txn.step Drive.Txn.stats
