import Hostd.Drive.Txn
open Hostd
def main : IO Unit := do
  Proto.loop (← IO.getStdin) ({} : Drive.Txn.DState) Drive.Txn.step Drive.Txn.stats
