import Hostd.Drive.Wallet
open Hostd
def main (args : List String) : IO Unit := do
  Proto.loop (← IO.getStdin) ({ strictF1 := args.contains "--strict-formation1" } : Drive.Wallet.DState) Drive.Wallet.step Drive.Wallet.stats
