import Hostd.Drive.Wallet
open Hostd
def main : IO Unit := do
  Proto.loop (← IO.getStdin) ({} : Drive.Wallet.DState) Drive.Wallet.step Drive.Wallet.stats
