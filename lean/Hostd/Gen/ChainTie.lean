import Hostd.Gen.ChainTable
import Hostd.Props.C05
/-!
Per-run obligations on the transition table REGENERATED from persist/sqlite/consensus.go
(`Gen/ChainTable.lean`, written by `extract/chaintable` at the start of every check):

* `gen_core_eq`   every cell of the regenerated table agrees with the table the C01 theorems and the
                  model driver use (`codeTable`) on outcome, target status and the confirmation /
                  resolution column operation;
* `gen_cellsOK`   the regenerated metric helper calls (any order) are metric-correct in every cell,
                  so the C05 theorems hold for the table the code implements *now*
                  (`C05_gen_metrics_eq_recompute`);
* `gen_args_ok`   every status update passes as many arguments as its statement has placeholders.
A change of a status constant, a dropped/extra/sign-flipped metric call, a skipped revert branch or a
missing `Exec` argument in consensus.go makes one of these fail to check.
-/
namespace Hostd.Chain.Gen
open Hostd.Chain

/-- a cell without its metric calls -/
def cellCore : Cell → Cell
  | .go g => .go { g with ops := [] }
  | c => c

theorem gen_core_eq (v : Ver) (f : Fn) (s : St) : cellCore (genTable v f s) = cellCore (codeTable v f s) := by
  cases v <;> cases f <;> cases s <;> rfl

set_option maxRecDepth 4000 in
theorem gen_cellsOK : CellsOK genTable := by
  intro c fn g rest h
  obtain ⟨id, ver, status, confirmed, confH, resH, rev, confRev, neg, wStart, wEnd, locked, usage⟩ := c
  cases ver <;> cases fn <;> cases status <;> simp [genTable] at h <;> subst h <;>
    simp [fireM, genTable, countMove, countGet, countSet, metricOps, metricOp, contrib, Metrics.add,
      bind, Except.bind, pure, Except.pure] <;>
    (try simp [Rev6.add, Nat.add_comm]) <;> (try omega)

theorem gen_args_ok : genArgsOK = true := rfl

/-- the contract part of every transition is the same for the regenerated table -/
theorem fireC_gen_eq (fn : Fn) (h : Nat) (c : Contract) : fireC genTable fn h c = fireC codeTable fn h c := by
  have := gen_core_eq c.ver fn c.status
  unfold fireC
  cases hg : genTable c.ver fn c.status <;> cases hc : codeTable c.ver fn c.status <;>
    simp [hg, hc, cellCore] at this ⊢
  rename_i g1 g2
  cases g1; cases g2
  simp only [Go.mk.injEq] at this
  obtain ⟨rfl, rfl, rfl, _⟩ := this
  simp

/-- C05 for the table the current source implements -/
theorem C05_gen_metrics_eq_recompute (rb : Nat) (ops : List Op) :
    (runOps genTable rb {} ops).m = recompute (runOps genTable rb {} ops).cs :=
  C05_metrics_eq_recompute gen_cellsOK rb ops {} rfl

end Hostd.Chain.Gen
