import Hostd.Gen.ChainSql
import Hostd.Props.C06
/-!
Per-run obligations on the WHERE clauses REGENERATED from the current source
(`Gen/ChainSql.lean`, written by `extract/sqlwhere`): each regenerated predicate equals, on every
row and for every height/buffer, the predicate the C06/C01 theorems and the model driver use.
Reordered conjuncts or `a > b` written `b < a` still check; a changed operator, column, constant
(e.g. a v1 status constant in a v2 query) or dropped clause does not.
-/
namespace Hostd.Chain.Gen
open Hostd.Chain

theorem gen_sql_understood : genSqlUnderstood = true := rfl

theorem gen_rebroadcast1_eq (c : Contract) : genRebroadcast1 c = selRebroadcast1 c := by
  unfold genRebroadcast1 selRebroadcast1
  cases c.ver <;> cases c.confirmed <;> cases c.status <;> rfl

theorem gen_rebroadcast2_eq (c : Contract) : genRebroadcast2 c = selRebroadcast2 c := by
  unfold genRebroadcast2 selRebroadcast2
  cases c.ver <;> cases c.confirmed <;> cases c.status <;> rfl

theorem gen_revision1_eq (h buf : Nat) (c : Contract) : genRevision1 h (h + buf) c = selRevision1 h buf c := by
  unfold genRevision1 selRevision1
  cases c.ver <;> cases c.confirmed <;> simp <;> grind

theorem gen_revision2_eq (h buf : Nat) (c : Contract) : genRevision2 h (h + buf) c = selRevision2 h buf c := by
  unfold genRevision2 selRevision2
  cases c.ver <;> cases c.confirmed <;> cases c.resH <;> cases hr : c.confRev <;> simp <;> grind

theorem gen_proof1_eq (h : Nat) (c : Contract) : genProof1 h c = selProof1 h c := by
  unfold genProof1 selProof1
  cases c.ver <;> cases c.confirmed <;> cases c.resH <;> simp <;> grind

theorem gen_proof2_eq (h : Nat) (c : Contract) : genProof2 h c = selProof2 h c := by
  unfold genProof2 selProof2
  cases c.ver <;> cases c.confirmed <;> cases c.resH <;> cases c.confRev <;> simp <;> grind

theorem gen_expire2_eq (h : Nat) (c : Contract) : genExpire2 h c = selExpire2 h c := by
  unfold genExpire2 selExpire2
  cases c.ver <;> cases c.resH <;> cases c.confRev <;> simp <;> grind

theorem gen_reject1_eq (height : Nat) (c : Contract) : genReject1 height c = rejectSel .v1 height c := by
  unfold genReject1 rejectSel
  cases c.ver <;> cases c.confirmed <;> cases c.status <;> simp

theorem gen_reject2_eq (height : Nat) (c : Contract) : genReject2 height c = rejectSel .v2 height c := by
  unfold genReject2 rejectSel
  cases c.ver <;> cases c.confirmed <;> cases c.status <;> simp

/-- C06 for the queries the current source contains -/
theorem C06_gen_proof1_exact (c : Contract) (h : Nat) (hr : RowInv c) (hfail : c.status = .failed → c.wEnd ≤ h) :
    genProof1 h c = true ↔ c.ver = .v1 ∧ c.status = .active ∧ c.wStart ≤ h ∧ h < c.wEnd := by
  rw [gen_proof1_eq]; exact proof1_exact c h hr hfail

end Hostd.Chain.Gen
