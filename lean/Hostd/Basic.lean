def hello := "world"
