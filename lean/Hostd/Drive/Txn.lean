import Hostd.Proto
import Hostd.Model.Txn
/-!
Driver for the `txn` engine (C09, C18).

`op` lines: one exported mutating operation executed uninterrupted on a twin
store and, for every listed statement index `k`, with an injected failure on
the main store.  The driver
* looks the operation up in the shape table of Model/Txn.lean and compares the
  number of WRITING transactions the code performed (SQLite's own change
  counter) with the table's kind (`shape/<op>` mismatch),
* executes the model (`exec`) on the table's shape for the same `k` and
  evaluates the property on the implementation's own observations: a failed
  call left every getter as it was, caches agree with the database, integrity
  checks pass, the retry ends where the uninterrupted twin ended.
`restart` lines: every component the same before and after re-opening.
`resume` lines: interrupted chain batches resumed from the persisted marker.
-/
namespace Hostd.Drive.Txn
open Hostd.Proto Hostd.Txn

structure DState where
  fixed     : List String := []   -- repairs the configuration says the tree contains (`--fixed=a,b`)
  focus     : List String := []   -- `--focus=p1,p2`: only verdicts whose name starts with one of these count
                                  -- (C09 and C18 share the engine; a flag of the sibling must not end a history)
  dead      : Bool := false
  hists     : Nat := 0
  ops       : Nat := 0
  faults    : Nat := 0
  kills     : Nat := 0
  retries   : Nat := 0
  restarts  : Nat := 0
  resumes   : Nat := 0
  batchSteps : Nat := 0
  deviantSeen : Nat := 0      -- table says "mirror first", implementation observed to disagree
  deviantFixed : Nat := 0     -- table says "mirror first", implementation fine (table stale after a fix)
  ctorStale : Nat := 0        -- constructor fact says "does not load", implementation reloads
  hooksLive : Nat := 0        -- webhooks registered through the manager and not removed (model of the table)
  opsSeen   : List String := []

def countChar (c : Char) (s : String) : Nat := (s.toList.filter (· == c)).length

/-- the model's verdict for a failure at statement `k` of an operation with `n` statement points:
(database changed?, mirror agrees?) -/
def predict (o : OpShape) (n k : Nat) : Bool × Bool :=
  let stmts := n - 2
  let m : Sem Nat Nat := { eff := fun _ v => v + 1, goal := stmts }
  let r := exec m (o.expand [stmts]) (some k) (quiescent id 0)
  (r.1.db != 0, r.1.mirror == r.1.db)

def splitColon (s : String) : List String := s.splitOn ":"

/-- counter deltas come as `m1/r1/m2/r2/…`; every stored counter must move with its recount -/
def deltasConsistent (s : String) : Bool :=
  if s == "0" || s == "na" then true
  else
    let rec go : List String → Bool
      | a :: b :: rest => a == b && go rest
      | [_] => false
      | [] => true
    go (s.splitOn "/")

def noEffectName (name : String) : String :=
  if name == "UpdateChainState" then "c09/chain_batch_atomic" else s!"c09/failed_op_no_effect/{name}"

def checkFault (name : String) (kind : Option Kind) (diff : String) (e : String) : List Verdict :=
  match splitColon e with
  | k :: res :: fired :: st :: cache :: integ :: dv :: wh =>
    let whereS := ":".intercalate wh
    let unchanged := st == "b" || st == "ba"
    let v1 : List Verdict := if integ == "ok" then [] else [.monitor "c09/integrity_check" s!"op={name},k={k},result={integ}"]
    let v2 : List Verdict :=
      if res != "ok" then
        match kind with
        | some .batched =>
          if deltasConsistent dv then [] else [.monitor s!"c09/batch_atomic/{name}" s!"k={k},at={whereS},deltas={dv}"]
        | some .indexer =>
          -- the call may fail after some batches were committed; `dv` lists the components that moved during
          -- this attempt: chain data must never move without the processed-tip marker
          if dv == "-" || dv == "0" || (dv.splitOn "+").contains "tip" then []
          else [.monitor "c09/chain_batch_atomic" s!"k={k},at={whereS},moved_without_tip={dv}"]
        | _ =>
          if fired == "1" && !unchanged then [.monitor (noEffectName name) s!"k={k},at={whereS},res={res},changed={diff}"] else []
      else if fired == "1" then
        -- the injected error was swallowed and the call reported success: then everything must be there
        if st == "a" || st == "ba" then [] else [.monitor s!"c09/swallowed_failure_partial/{name}" s!"k={k},at={whereS},changed={diff}"]
      else []
    let v3 : List Verdict :=
      if cache == "-" then [] else [.monitor s!"c09/cache_agrees_after_failure/{name}" s!"k={k},at={whereS},res={res},disagree={cache}"]
    v1 ++ v2 ++ v3
  | _ => [.badline s!"fault entry {e}"]

def checkCopy (name : String) (kind : Option Kind) (e : String) : List Verdict :=
  match splitColon e with
  | [k, st, integ, res, eq] =>
    let v1 : List Verdict := if integ == "ok" then [] else [.monitor "c09/integrity_check" s!"op={name},killed_at={k},result={integ}"]
    let v2 : List Verdict :=
      match kind with
      | some .batched => []
      | _ => if st == "b" || st == "ba" then [] else [.monitor s!"c09/killed_op_no_effect/{name}" s!"k={k},state={st}"]
    let v3 : List Verdict := if eq == "1" then [] else [.monitor s!"c09/retry_converges/{name}" s!"after_kill_at={k},retry={res}"]
    v1 ++ v2 ++ v3
  | _ => [.badline s!"copy entry {e}"]

def isSetupHelper (name : String) : Bool := name == "StoreSectors"

/-- `--fixed=webhooks,syncdb,settings,pin` -/
def parseArgs (args : List String) : List String :=
  args.foldl (fun acc a =>
    if a.startsWith "--fixed=" then acc ++ ((a.drop 8).toString.splitOn ",").filter (· ≠ "") else acc) []

/-- the transaction the `k`-th statement point of a call belongs to (`kinds`: one letter per point,
`c` = commit), as its letter in `txs` (`w` writing, `r` read-only) and whether a writing one came before -/
def parseFocus (args : List String) : List String :=
  args.foldl (fun acc a =>
    if a.startsWith "--focus=" then acc ++ ((a.drop 8).toString.splitOn ",").filter (· ≠ "") else acc) []

def inFocus (focus : List String) : Verdict → Bool
  | .monitor nm _ => focus.isEmpty || focus.any (nm.startsWith ·)
  | .mismatch f _ _ => focus.isEmpty || focus.any (f.startsWith ·)
  | _ => true

def followUpPoint (kinds txs : String) (k : Nat) : Bool :=
  let t := ((kinds.toList.take k).filter (· == 'c')).length
  let ts := txs.toList
  match ts[t]? with
  | some 'r' => (ts.take t).contains 'w'
  | _ => false

/-- A selected fact says the operation writes its mirror too early / too late; the implementation was
observed NOT to: the fact is stale (the repair is in the tree but not in the configuration). -/
def staleFact (fixed : List String) (name kinds txs mchg : String) (fs : List String) : Bool :=
  match (deviantTable fixed).find? (·.name == name) with
  | none => false
  | some o =>
    let fired := fs.filterMap fun e => match splitColon e with
      | k :: res :: f :: _ :: cache :: _ => if res != "ok" && f == "1" then some (k.toNat?.getD 0, cache) else none
      | _ => none
    if o.kind == .indexer then
      -- a reported failure inside a follow-up transaction, tip still agreeing.  Statement indices are those of
      -- the uninterrupted run (`kinds`), so only attempts that started from the same state count: everything up
      -- to and including the first attempt that moved the database.
      let rec go (clean : Bool) : List String → Bool
        | [] => false
        | e :: rest =>
          match splitColon e with
          | k :: res :: f :: st :: cache :: _ =>
            let here := clean && res != "ok" && f == "1" && cache == "-" && followUpPoint kinds txs (k.toNat?.getD 0)
            here || go (clean && (st == "b" || st == "ba")) rest
          | _ => go clean rest
      go true fs
    else
      -- the operation changes the mirrored value, a call failed, and not once did the mirror run ahead
      mchg != "-" && !fired.isEmpty && fired.all fun (_, cache) => cache == "-"

def stepOp (d : DState) (l : Line) : DState × List Verdict :=
  match getStr l.args "name", getStr l.obs "twin", getNat l.obs "n", getStr l.obs "txs",
        getStrList l.obs "f", getStrList l.obs "cr", getStr l.obs "retry", getNat l.obs "eq",
        getStr l.obs "cache", getStr l.obs "integ" with
  | some name, some twin, some n, some txs, some fs, some crs, some retry, some eq, some cache, some integ =>
    let diff := (getStr l.obs "diff").getD "-"
    let rdiff := (getStr l.obs "rdiff").getD "-"
    let shape := findShapeIn d.fixed name
    let kind := shape.map (·.kind)
    let w := countChar 'w' txs
    -- 1. the table knows the operation, and the number of writing transactions fits its kind
    let vShape : List Verdict :=
      match shape with
      | none => if isSetupHelper name then [] else [.mismatch "shape_table" "listed" name]
      | some o =>
        if twin != "ok" then []
        else match o.kind with
          | .single => if w ≤ 1 then [] else [.mismatch s!"shape/{name}" "one_writing_transaction" txs]
          | .storeSector => if w ≤ 2 then [] else [.mismatch s!"shape/{name}" "reservation_plus_compensation" txs]
          | .indexer => if (txs.splitOn "ww").length ≤ 1 then [] else [.mismatch s!"shape/{name}" "one_writing_transaction_per_batch" txs]
          | .batched => []
    -- 2. every injected failure
    let vF := fs.foldl (fun acc e => acc ++ checkFault name kind diff e) []
    -- 3. every kill point
    let vC := crs.foldl (fun acc e => acc ++ checkCopy name kind e) []
    -- 3b. the indexer killed right after each of its batches (`j:markerHeight:markerOK:moved:integ:resync:eq`)
    let kls := (getStrList l.obs "kl").getD []
    let vK := kls.foldl (fun acc e =>
      match splitColon e with
      | [j, h, mok, moved, kinteg, res, keq] =>
        let a1 : List Verdict := if kinteg == "ok" then [] else [.monitor "c09/integrity_check" s!"op={name},killed_after_batch={j},result={kinteg}"]
        -- the persisted marker must name the block whose effects the database holds
        let a2 : List Verdict :=
          if mok == "1" then []
          else if mok == "0" then [.monitor "c09/chain_batch_atomic" s!"killed_after_batch={j},marker_height={h},state_is_not_the_markers,differs={moved}"]
          else [.mismatch "marker_reference" "built" mok]
        let a3 : List Verdict := if keq == "1" then [] else
          [.monitor "c09/resume_converges" s!"killed_after_batch={j},marker_height={h},resync={res}"]
        acc ++ a1 ++ a2 ++ a3
      | _ => acc ++ [.badline s!"kill entry {e}"]) []
    -- 4. the retry and the state it leaves
    let vR : List Verdict :=
      if retry == "skip" then []
      else if retry == twin && eq == 1 then []
      else [.monitor s!"c09/retry_converges/{name}" s!"twin={twin},retry={retry},differs={rdiff}"]
    let vCache : List Verdict :=
      if cache == "-" || retry != "ok" then [] else [.monitor s!"c09/cache_agrees_after_success/{name}" s!"disagree={cache}"]
    let vI : List Verdict := if integ == "ok" then [] else [.monitor "c09/integrity_check" s!"op={name},after_retry,result={integ}"]
    -- model bookkeeping: deviant shapes, live webhooks
    let firedFail := fs.any fun e => match splitColon e with
      | _ :: res :: fired :: _ => res != "ok" && fired == "1"
      | _ => false
    let cacheBad := fs.any fun e => match splitColon e with
      | _ :: _ :: _ :: _ :: c :: _ => c != "-"
      | _ => false
    let modelDisagrees := (deviantTable d.fixed).any (·.name == name) && n ≥ 2
    let kinds := (getStr l.obs "kinds").getD ""
    let mchg := (getStr l.obs "mchg").getD "-"
    let vStale : List Verdict :=
      if staleFact d.fixed name kinds txs mchg fs then
        [.mismatch s!"shape_fact/{name}" "deviant_shape_selected" "implementation_keeps_mirror_in_step"]
      else []
    let d := { d with ops := d.ops + 1, faults := d.faults + fs.length, kills := d.kills + crs.length,
                      retries := d.retries + (if retry == "skip" then 0 else 1),
                      deviantSeen := d.deviantSeen + (if modelDisagrees && firedFail && cacheBad then 1 else 0),
                      deviantFixed := d.deviantFixed + (if modelDisagrees && firedFail && !cacheBad then 1 else 0),
                      opsSeen := if d.opsSeen.contains name then d.opsSeen else name :: d.opsSeen }
    let d := if twin == "ok" && name == "W.Register" then { d with hooksLive := d.hooksLive + 1 }
             else if twin == "ok" && name == "W.Remove" then { d with hooksLive := d.hooksLive - 1 } else d
    let vs := vShape ++ vF ++ vC ++ vK ++ vR ++ vCache ++ vI ++ vStale
    (d, vs)
  | _, _, _, _, _, _, _, _, _, _ =>
    match getStr l.obs "bad" with
    | some why => (d, [.badline why])
    | none => (d, [.badline "op fields"])

def stepRestart (d : DState) (l : Line) : DState × List Verdict :=
  match getStrList l.obs "dlvb", getStrList l.obs "dlva", getStrList l.obs "alters", getStr l.obs "integ" with
  | some dlvb, some dlva, some alters, some integ =>
    -- a data file was removed / restored since the previous restart: availability and readability of the
    -- sectors in it are then SUPPOSED to change; the absolute rule below takes over for those components
    let fschg := (getStr l.obs "fschg") == some "1"
    let comps := l.obs.filter fun kv => kv.1.startsWith "c:" && !(fschg && (kv.1 == "c:volumes" || kv.1 == "c:sectors"))
    -- the model's rule at THIS restart (`volumes_available_at_every_restart`, `write_iff_file_and_room`):
    -- entries `id:file:stored:listed:byid:status:ro:used:total`
    let vols := (getStrList l.obs "vols").getD []
    let parsed : List (Restart.Vol × String) := vols.filterMap fun e =>
      match splitColon e with
      | [id, file, stored, listed, byid, status, ro, used, total] =>
        some ({ id := id.toNat?.getD 0, fileOk := file == "1", available := stored == "1",
                room := ro == "0" && used.toNat?.getD 0 < total.toNat?.getD 0 },
              s!"{id}:file={file},stored={stored},listed={listed},byid={byid},status={status}")
      | _ => none
    let model := Restart.restartVols (parsed.map (·.1))       -- what a restart must leave: available := fileOk
    let vVol : List Verdict := (vols.zip (parsed.zip model)).foldl (fun acc (e, ((_, txt), want)) =>
      match splitColon e with
      | [_, _, stored, listed, byid, status, _, _, _] =>
        let w := if want.available then "1" else "0"
        let statusOk := (status == "ready") == want.available
        if stored == w && listed == w && byid == w && statusOk then acc
        else acc ++ [.monitor "c18/volume_available_iff_file_opens" txt]
      | _ => acc ++ [.badline s!"vol entry {e}"]) []
    let vWr : List Verdict :=
      match getStr l.obs "wr" with
      | some wr =>
        let want := Restart.canWrite model
        if (wr == "ok") == want then [] else
          [.monitor "c18/write_iff_volume_available" s!"write={wr},model_can_write={want},vols={showStrList vols}"]
      | none => []
    let vC := comps.foldl (fun acc kv =>
      if kv.2 == "1" then acc else acc ++ [.monitor s!"c18/restart_same/{(kv.1.drop 2).toString}" s!"mode={(getStr l.args "mode").getD "?"},pending_migrations={(getStr l.args "mig").getD "0"}"]) []
    let vD : List Verdict := if dlvb == dlva then [] else
      [.monitor "c18/webhook_delivery_after_restart" s!"before={showStrList dlvb},after={showStrList dlva}"]
    let vA : List Verdict := if alters.isEmpty then [] else [.monitor "c18/open_alters_data" s!"tables={showStrList alters}"]
    let vI : List Verdict := if integ == "ok" then [] else [.monitor "c09/integrity_check" s!"after_restart,result={integ}"]
    -- the constructor fact of the model against what was observed (informational)
    let hooksSame := (lookup l.obs "c:webhooks") == some "1"
    let nhooks := (getNat l.obs "nhooks").getD 0
    let stale := !(Restart.webhooksCtorOf d.fixed).loads && nhooks > 0 && hooksSame
    let vStale : List Verdict :=
      if stale then [.mismatch "ctor_fact/webhooks.NewManager" "does_not_load_selected" "hooks_served_after_restart"] else []
    let d := { d with restarts := d.restarts + 1, ctorStale := d.ctorStale + (if stale then 1 else 0) }
    let vs := vC ++ vD ++ vA ++ vI ++ vStale ++ vVol ++ vWr
    (d, vs)
  | _, _, _, _ =>
    match getStr l.obs "bad" with
    | some why => (d, [.badline why])
    | none => (d, [.badline "restart fields"])

def stepResume (d : DState) (l : Line) : DState × List Verdict :=
  match getStr l.obs "twin", getStrList l.obs "steps", getNat l.obs "eq", getStr l.obs "integ" with
  | some twin, some steps, some eq, some integ =>
    let moved := (getStr l.obs "moved").getD "-"
    let vT : List Verdict := if twin == "ok" then [] else [.mismatch "resume_twin" "ok" twin]
    let vS := steps.foldl (fun acc e =>
      match splitColon e with
      | [i, size, what, res, fired, st] =>
        if fired == "1" && res != "ok" && st != "b" then
          acc ++ [.monitor "c09/chain_batch_atomic" s!"batch={i},size={size},{what},moved={moved}"]
        else acc
      | _ => acc ++ [.badline s!"step {e}"]) []
    let vE : List Verdict :=
      if twin == "ok" && eq != 1 then
        [.monitor "c09/resume_converges" s!"differs={(getStr l.obs "diff").getD "?"},tip_main={(getStr l.obs "tipm").getD "?"},tip_twin={(getStr l.obs "tipt").getD "?"}"]
      else []
    let vI : List Verdict := if integ == "ok" then [] else [.monitor "c09/integrity_check" s!"after_resume,result={integ}"]
    let d := { d with resumes := d.resumes + 1, batchSteps := d.batchSteps + steps.length }
    let vs := vT ++ vS ++ vE ++ vI
    (d, vs)
  | _, _, _, _ => (d, [.badline "resume fields"])

/-- overlapping budgets on one account, the commit of one of them failing -/
def stepBudgets (d : DState) (l : Line) : DState × List Verdict :=
  match getStr l.obs "twin", getStr l.obs "open", getStr l.obs "res", getNat l.obs "fired", getNat l.obs "same",
        getNat l.obs "agree_open", getNat l.obs "agree_closed", getNat l.obs "eq", getStr l.obs "integ" with
  | some twin, some opn, some res, some fired, some same, some ao, some ac, some eq, some integ =>
    if twin != "ok" || opn != "ok" || res == "skip" then (d, [])     -- the account could not cover the budgets
    else
      let mode := (getStr l.args "mode").getD "?"
      let k := (getStr l.args "k").getD "?"
      let whereS := (getStr l.obs "at").getD "?"
      let failed := fired == 1 && !(res.startsWith "ok")
      let v1 : List Verdict := if integ == "ok" then [] else [.monitor "c09/integrity_check" s!"budgets,result={integ}"]
      let v2 : List Verdict := if failed && same == 0 then
        [.monitor "c09/failed_op_no_effect/A.BudgetCommit" s!"k={k},at={whereS},others_open"] else []
      let v3 : List Verdict := if failed && ao == 0 then
        [.monitor "c09/cache_agrees_after_failure/A.BudgetCommit" s!"k={k},at={whereS},mode={mode},other_budgets_open"] else []
      let v4 : List Verdict := if ac == 0 then
        [.monitor "c09/cache_agrees_after_success/A.BudgetCommit" s!"mode={mode},all_budgets_closed"] else []
      let v5 : List Verdict := if eq == 0 || (res.splitOn "+").length > 1 then
        [.monitor "c09/retry_converges/A.BudgetCommit" s!"mode={mode},res={res},k={k}"] else []
      let cache := (getStr l.obs "cache").getD "-"
      let v6 : List Verdict := if cache == "-" then [] else [.monitor "c09/cache_agrees_after_success/A.BudgetCommit" s!"disagree={cache}"]
      ({ d with ops := d.ops + 1, faults := d.faults + fired }, v1 ++ v2 ++ v3 ++ v4 ++ v5 ++ v6)
  | _, _, _, _, _, _, _, _, _ =>
    match getStr l.obs "bad" with
    | some why => (d, [.badline why])
    | none => (d, [.badline "budgets fields"])

def stepRaw (d : DState) (l : Line) : DState × List Verdict :=
  if l.op == "op" then stepOp d l
  else if l.op == "restart" || l.op == "irestart" then stepRestart d l
  else if l.op == "resume" then stepResume d l
  else if l.op == "budgets" then stepBudgets d l
  else if l.op == "vop" then
    match getStr l.obs "twin", getStr l.obs "res" with
    | some t, some r =>
      let name := (getStr l.args "name").getD "?"
      let cache := (getStr l.obs "cache").getD "-"
      let v1 : List Verdict := if t == r then [] else [.mismatch "vop" t r]
      -- the volume manager's in-memory volumes against the persisted rows after the operation
      let v2 : List Verdict := if cache == "-" then [] else [.monitor s!"c09/cache_agrees_after_success/{name}" s!"disagree={cache}"]
      (d, v1 ++ v2)
    | _, _ => (d, [.badline "vop fields"])
  else if l.op == "deliver" then
    -- who received the event against who is registered for its scope in the database
    match getStrList l.obs "want", getStrList l.obs "got" with
    | some want, some got =>
      if want == got then (d, []) else
        (d, [.monitor "c09/webhook_delivery_matches_store" s!"registered={showStrList want},received={showStrList got}"])
    | _, _ => (d, [.badline "deliver fields"])
  else (d, [.badline "unknown op"])

/-- Verdicts outside the focus are dropped.  A flagged `op`/`resume` line ends the history (the two
sides may have diverged); a flagged restart line does not: every restart line compares one side with
itself before/after, so later restarts of the same history remain meaningful. -/
def step (d : DState) (l : Line) : DState × List Verdict :=
  if l.op == "reset" then ({ d with dead := false, hists := d.hists + 1, hooksLive := 0 }, [])
  else if d.dead then (d, [])
  else
    let (d', vs) := stepRaw d l
    let vs := vs.filter (inFocus d.focus)
    let fatal := !vs.isEmpty && !(l.op == "restart" || l.op == "irestart" || l.op == "deliver")
    ({ d' with dead := fatal }, vs)

def stats (d : DState) : String :=
  s!"hists={d.hists} ops={d.ops} faults={d.faults} kills={d.kills} retries={d.retries} restarts={d.restarts} resumes={d.resumes} batchsteps={d.batchSteps} opkinds={d.opsSeen.length} deviant_seen={d.deviantSeen} deviant_fixed={d.deviantFixed} ctor_fact_stale={d.ctorStale} fixed={"+".intercalate d.fixed}"

end Hostd.Drive.Txn
