import Hostd.Proto
import Hostd.Model.Revision
/-!
Driver for the `revision` engine (C07, C12).  Every trace line is an
independent input case.  For each line the driver

* evaluates the model (`Hostd.Revision.*`) on the inputs and compares the
  outcome CLASS (accept / reject / panic) and, on acceptance, the returned
  values with what the implementation answered  → `MISMATCH <fn>/class|ret`;
* independently of the model, evaluates the property clauses
  (`revisionClauses`, `clearingClauses`, `contractClauses`, closed forms) on the
  implementation's own verdict                     → `MONITOR accept_safe/<fn>/<clause>`,
  `MONITOR closed_form/<fn>/<field>`, and reports every panic of the
  implementation                                    → `MONITOR no_panic/<fn>/<root cause>`.

`drv_revision fixed` evaluates the repaired variant of the model (`fx = true`).
-/
namespace Hostd.Drive.Revision
open Hostd.Proto Hostd.Revision

structure DState where
  fx      : Bool := false
  cases   : Nat := 0
  accepts : Nat := 0
  rejects : Nat := 0
  panics  : Nat := 0
  clausesChecked : Nat := 0

def parseOut (s : String) : Option Out :=
  match s.splitOn ":" with
  | [a, v] => do
    let a ← a.toNat?
    let v ← v.toNat?
    pure { addr := a, val := v }
  | _ => none

def getOuts (kv : List (String × String)) (k : String) : Option (List Out) :=
  (getStrList kv k).bind fun l => l.mapM parseOut

def getRev (kv : List (String × String)) (p : String) : Option Rev := do
  let no ← getNat kv (p ++ ".no")
  let ws ← getNat kv (p ++ ".ws")
  let we ← getNat kv (p ++ ".we")
  let uh ← getNat kv (p ++ ".uh")
  let uc ← getNat kv (p ++ ".uc")
  let fs ← getNat kv (p ++ ".fs")
  let root ← getNat kv (p ++ ".root")
  let v ← getOuts kv (p ++ ".v")
  let m ← getOuts kv (p ++ ".m")
  pure { revNo := no, wStart := ws, wEnd := we, unlockHash := uh, ucHash := uc, filesize := fs, root := root,
         valid := v, missed := m }

def getSettings (kv : List (String × String)) : Option Settings := do
  let ws ← getNat kv "s.ws"
  let md ← getNat kv "s.md"
  let addr ← getNat kv "s.addr"
  let cp ← getNat kv "s.cp"
  let mc ← getNat kv "s.mc"
  let sp ← getNat kv "s.sp"
  let col ← getNat kv "s.col"
  let rc ← getNat kv "s.rc"
  let brp ← getNat kv "s.brp"
  pure { windowSize := ws, maxDuration := md, address := addr, contractPrice := cp, maxCollateral := mc,
         storagePrice := sp, collateral := col, renewCost := rc, baseRPCPrice := brp }

def showOuts (l : List Out) : String :=
  "[" ++ ",".intercalate (l.map fun o => s!"{o.addr}:{o.val}") ++ "]"

/-- canonical text of a revision (what `Revise` / `ClearingRevision` return) -/
def showRev (r : Rev) : String :=
  s!"{r.revNo}/{r.wStart}/{r.wEnd}/{r.unlockHash}/{r.ucHash}/{r.filesize}/{r.root}/{showOuts r.valid}/{showOuts r.missed}"

def recList (r : Recorded) : List Nat := [r.locked, r.rpcRevenue, r.storageRevenue, r.risked, r.clearingRPC]
def recNames : List String := ["locked", "rpc_revenue", "storage_revenue", "risked_collateral", "clearing_rpc_revenue"]

/-- outcome class of the implementation -/
def implClass (res : String) : String := if res.startsWith "panic" then "panic" else res

/-- Verdicts for one case.  `model` carries the canonical text of the returned value. -/
def judge (fn res : String) (implRet : String) (model : Res String) (clauses : List (String × Bool))
    (closed : List (String × Bool)) : List Verdict :=
  let icls := implClass res
  let mcls := match model with | .ok _ => "accept" | .reject _ => "reject" | .panic _ => "panic"
  let mons : List Verdict :=
    if icls == "panic" then
      let kind := (res.drop 6).toString
      let label := match model with
        | .panic s => if s.kind == kind then s.label else "unmodelled_" ++ kind
        | _ => "unmodelled_" ++ kind
      [.monitor s!"no_panic/{fn}/{label}" res]
    else if icls == "accept" then
      (clauses.filter (fun c => !c.2)).map (fun c => .monitor s!"accept_safe/{fn}/{c.1}" "accepted_input_violates_clause")
      ++ (closed.filter (fun c => !c.2)).map (fun c => .monitor s!"closed_form/{fn}/{c.1}" implRet)
    else []
  let mis : List Verdict :=
    if mcls != icls then [.mismatch s!"{fn}/class" mcls res]
    else match model with
      | .ok r => if r == implRet then [] else [.mismatch s!"{fn}/ret" r implRet]
      | _ => []
  mons ++ mis

def count (d : DState) (res : String) (nclauses : Nat) : DState :=
  let d := { d with cases := d.cases + 1 }
  match implClass res with
  | "accept" => { d with accepts := d.accepts + 1, clausesChecked := d.clausesChecked + nclauses }
  | "panic" => { d with panics := d.panics + 1 }
  | _ => { d with rejects := d.rejects + 1 }

def natListStr (l : List Nat) : String := showNatList l

/-- pointwise comparison of the recorded figures with their closed form -/
def closedRec (impl : Option (List Nat)) (spec : Option Recorded) : List (String × Bool) :=
  match impl, spec with
  | some l, some r => (recNames.zip (l.zip (recList r))).map fun (n, a, b) => (n, a == b)
  | some _, none => [("defined", false)]
  | none, _ => []

def closedList (names : List String) (impl : Option (List Nat)) (spec : Option (List Nat)) : List (String × Bool) :=
  match impl, spec with
  | some l, some r => if l.length == r.length then (names.zip (l.zip r)).map fun (n, a, b) => (n, a == b)
                      else [("arity", false)]
  | some _, none => [("defined", false)]
  | none, _ => []


/-! ### signing sites -/

def siteOf : String → Option (SignSite × String)
  | "s2roots" => some (.rhp2SectorRoots, "rhp2.rpcSectorRoots")
  | "s2read" => some (.rhp2Read, "rhp2.rpcRead")
  | "s2write" => some (.rhp2Write, "rhp2.rpcWrite")
  | "s3pay" => some (.rhp3Pay, "rhp3.processContractPayment")
  | "s3fund" => some (.rhp3Fund, "rhp3.processFundAccountPayment")
  | "s3exec" => some (.rhp3Finalize, "rhp3.finalize")
  | _ => none

def replaceVals (l : List Out) (vs : List Nat) : List Out :=
  List.zipWith (fun o v => { o with val := v }) l vs

/-- the contract stored by AddContract / RenewContract must be the requested one (as its initial revision) -/
def sameContract (f n : Rev) : Bool :=
  n.revNo == 1 && n.wStart == f.wStart && n.wEnd == f.wEnd && n.unlockHash == f.unlockHash && n.filesize == f.filesize
    && n.root == f.root && n.valid == f.valid && n.missed == f.missed

/-- package directory of a source path (`rhp/v3/payments.go` ↦ `rhp/v3`): the tie is package + function,
so that moving a function to another file of its package is not a difference -/
def pkgOf (file : String) : String := "/".intercalate ((file.splitOn "/").dropLast)

/-- `signsites list=[file:fn:n,…] edges=[pkg:caller>callee,…]`: the functions of rhp/v2, rhp/v3 that call
`SignHash` and the call edges of the package through which a signing function is reached, read from
the source tree, against the model's table `signingSites`.  The tie is per package and function, and
it follows helpers: a function that signs but is not in the table is attributed to its callers — it
is a difference only if some chain of callers ends in a function outside the table; a table function
is present if it signs itself or reaches a signing function. -/
def signSitesStep (d : DState) (l : Line) : DState × List Verdict :=
  match getStrList l.obs "list" with
  | none => (d, [.badline "signsites list"])
  | some items =>
    let parsed := items.map fun it => match it.splitOn ":" with
      | [file, fn, n] => (pkgOf file, fn, n.toNat?.getD 0)
      | _ => (it, "", 0)
    let edges : List (String × String × String) := ((getStrList l.obs "edges").getD []).filterMap fun e =>
      match e.splitOn ":" with
      | [pkg, cc] => (match cc.splitOn ">" with
          | [caller, callee] => some (pkg, caller, callee)
          | _ => none)
      | _ => none
    let inTable (pkg fn : String) : Bool := signingSites.any fun i => pkgOf i.file == pkg && i.fn == fn
    let signs (pkg fn : String) : Bool := parsed.any fun (p, f, _) => p == pkg && f == fn
    let callersOf (pkg fn : String) : List String := (edges.filter fun (p, _, callee) => p == pkg && callee == fn).map (·.2.1)
    let calleesOf (pkg fn : String) : List String := (edges.filter fun (p, caller, _) => p == pkg && caller == fn).map (·.2.2)
    -- covered: in the table, or it has callers and every caller is covered
    let rec covered (fuel : Nat) (pkg fn : String) : Bool :=
      match fuel with
      | 0 => false
      | fuel + 1 =>
        inTable pkg fn ||
          (let cs := callersOf pkg fn
           !cs.isEmpty && cs.all fun c => covered fuel pkg c)
    -- reachesSign: signs itself or calls (transitively) a function that does
    let rec reachesSign (fuel : Nat) (pkg fn : String) : Bool :=
      match fuel with
      | 0 => false
      | fuel + 1 => signs pkg fn || (calleesOf pkg fn).any fun c => reachesSign fuel pkg c
    let extra : List Verdict := parsed.filterMap fun (pkg, fn, n) =>
      if covered 6 pkg fn then none
      else some (.mismatch s!"signsites/{pkg}:{fn}" "0" (toString n))
    let missing : List Verdict := signingSites.filterMap fun i =>
      if reachesSign 6 (pkgOf i.file) i.fn then none
      else some (.mismatch s!"signsites/{pkgOf i.file}:{i.fn}" "1" "0")
    (d, extra ++ missing)


/-- verdicts for one step of a session: `before` is what the STORE held before the request (from the
implementation's own commits), `model` what the session model predicts for the step -/
def stepVerdicts (name : String) (site : SignSite) (before : Rev) (i : SiteIn) (res : String) (sig : Nat)
    (o : Option Rev) (amt : Nat) (model : Res (Rev × Nat)) (hostSetsFile : Bool) : List Verdict :=
  let res := if res == "none" then "reject" else res
  let canon (r : Rev) (cr : Nat) : String :=
    (if hostSetsFile then showRev { r with filesize := 0, root := 0 } else showRev r) ++ "/" ++ toString cr
  let i : SiteIn := { i with cur := before }
  let signed : Option Rev := match o with
    | some o => some o
    | none =>
      if sig == 1 && i.vv.length == before.valid.length && i.mv.length == before.missed.length then
        some { before with revNo := i.no, valid := replaceVals before.valid i.vv, missed := replaceVals before.missed i.mv }
      else none
  let implRet := match signed with | some o => canon o amt | none => ""
  let cl : List (String × Bool) := match signed with
    | some o => siteClauses site i o amt ++
        [("revision_number_increases", decide (o.revNo > before.revNo)),
         ("signature_over_expected_revision", sig != 2), ("renter_signed_this_revision", i.sigOK)]
    | none => [("signed_revision_known", false)]
  judge name res implRet (model.bind fun (r, cr) => .ok (canon r cr)) cl []

def step (d : DState) (l : Line) : DState × List Verdict :=
  let fx := d.fx
  if l.op == "signsites" then signSitesStep d l else
  match getStr l.obs "res" with
  | none => (d, [.badline "no res"])
  | some res =>
    let ret := (getStr l.obs "ret").getD ""
    let retL := getNatList l.obs "ret"
    let bad : DState × List Verdict := (d, [.badline "fields"])
    -- bs: 1 = the renter's clearing / final revision signature is invalid, 2 = the one over the new contract
    let bs := (getNat l.args "bs").getD 0
    let sg : Sigs := { clearing := bs != 1, contract := bs != 2 }
    -- blocks connected between the arrival of the RPC id and the arrival of the request body
    let dh1 := (getNat l.args "dh1").getD 0
    let sigClauses : List (String × Bool) := [("clearing_renter_signed_this_revision", bs != 1), ("renter_signed_new_contract", bs != 2)]
    let fin (fn : String) (implRet : String) (model : Res String) (cl closed : List (String × Bool)) :=
      (count d res (cl.length + closed.length), judge fn res implRet model cl closed)
    match l.op with
    | "vstd" =>
      match getRev l.args "c", getRev l.args "r" with
      | some c, some r =>
        fin "validateStdRevision" "" ((validateStd fx c r).bind fun _ => .ok "")
          ((revisionClauses c r 0 0).filter fun cl => !cl.1.startsWith "host_") []
      | _, _ => bad
    | "vrev" =>
      match getRev l.args "c", getRev l.args "r", getNat l.args "pay", getNat l.args "coll" with
      | some c, some r, some pay, some coll =>
        fin "ValidateRevision" ret ((validateRevision fx c r pay coll).bind fun (t, b) => .ok (natListStr [t, b]))
          (revisionClauses c r pay coll)
          (closedList ["transfer", "burn"] (if implClass res == "accept" then retL else none)
            (match hostVal r.valid, hostVal c.valid, hostVal c.missed, hostVal r.missed with
             | some a, some b, some x, some y => some [a - b, x - y] | _, _, _, _ => none))
      | _, _, _, _ => bad
    | "vprog" =>
      match getRev l.args "c", getRev l.args "r", getNat l.args "storage", getNat l.args "coll" with
      | some c, some r, some storage, some coll =>
        fin "ValidateProgramRevision" ret ((validateProgram fx c r storage coll).bind fun b => .ok (natListStr [b]))
          (revisionClauses c r 0 (storage + coll)) []
      | _, _, _, _ => bad
    | "vpay" =>
      match getRev l.args "c", getRev l.args "r", getNat l.args "pay" with
      | some c, some r, some pay =>
        fin "ValidatePaymentRevision" "" ((validatePayment fx c r pay).bind fun _ => .ok "") (revisionClauses c r pay 0) []
      | _, _, _ => bad
    | "vclr" =>
      match getRev l.args "c", getRev l.args "r", getNat l.args "pay" with
      | some c, some r, some pay =>
        fin "ValidateClearingRevision" ret ((validateClearing fx c r pay).bind fun t => .ok (natListStr [t]))
          (clearingClauses c r pay) []
      | _, _, _ => bad
    | "revise" =>
      match getRev l.args "c", getNat l.args "no", getNatList l.args "vv", getNatList l.args "mv" with
      | some c, some no, some vv, some mv =>
        let implRev := (getRev l.obs "o").map showRev |>.getD ""
        -- what Revise must guarantee about its result, evaluated on the implementation's result
        let cl : List (String × Bool) := match getRev l.obs "o" with
          | some o => [("revno_set_and_increases", o.revNo == no && decide (no > c.revNo)),
                       ("values_as_supplied", vals o.valid == vv && vals o.missed == mv),
                       ("addresses_unchanged", addrs o.valid == addrs c.valid && addrs o.missed == addrs c.missed),
                       ("other_fields_unchanged", o.wStart == c.wStart && o.wEnd == c.wEnd && o.unlockHash == c.unlockHash
                          && o.ucHash == c.ucHash && o.filesize == c.filesize && o.root == c.root)]
          | none => []
        fin "Revise" implRev ((revise c no vv mv).bind fun o => .ok (showRev o)) cl []
      | _, _, _, _ => bad
    | "clearing" =>
      match getRev l.args "c", getNatList l.args "vv" with
      | some c, some vv =>
        let implRev := (getRev l.obs "o").map showRev |>.getD ""
        let cl : List (String × Bool) := match getRev l.obs "o" with
          | some o => [("revno_max", o.revNo == maxRev && decide (c.revNo < maxRev)),
                       ("file_zeroed", o.filesize == 0 && o.root == 0),
                       ("missed_equals_valid", o.missed == o.valid),
                       ("values_as_supplied", vals o.valid == vv),
                       ("addresses_unchanged", addrs o.valid == addrs c.valid),
                       ("other_fields_unchanged", o.wStart == c.wStart && o.wEnd == c.wEnd && o.unlockHash == c.unlockHash
                          && o.ucHash == c.ucHash)]
          | none => []
        fin "ClearingRevision" implRev ((clearingRevision c vv).bind fun o => .ok (showRev o)) cl []
      | _, _ => bad
    | "form" =>
      match getRev l.args "f", getNat l.args "rk", getNat l.args "h", getSettings l.args with
      | some f, some rk, some h, some st =>
        let locked := match retL with | some [x] => x | _ => 0
        fin "validateContractFormation" ret ((validateFormation f (10 + rk) h st).bind fun c => .ok (natListStr [c]))
          (contractClauses f h st 0 locked)
          (closedList ["collateral"] (if implClass res == "accept" then retL else none)
            ((hostVal f.valid).map fun vh => [vh - st.contractPrice]))
      | _, _, _, _ => bad
    | "renew2" =>
      match getRev l.args "e", getRev l.args "f", getNat l.args "rk", getNat l.args "base", getNat l.args "risk",
            getNat l.args "h", getSettings l.args with
      | some e, some f, some rk, some base, some risk, some h, some st =>
        let locked := match retL with | some [_, _, x] => x | _ => 0
        -- the base revenue handed to the RHP2 validator already contains the contract price
        fin "rhp2.validateContractRenewal" ret
          ((validateRenewal2 fx e f (10 + rk) base risk h st).bind fun (a, b, c) => .ok (natListStr [a, b, c]))
          (contractClauses f h { st with contractPrice := 0 } base locked)
          (closedList ["storage_revenue", "risked_collateral", "locked_collateral"] (if implClass res == "accept" then retL else none)
            (match hostVal f.valid, hostVal f.missed with
             | some vh, some mh => some [base, (vh - mh) - base, vh - base] | _, _ => none))
      | _, _, _, _, _, _, _ => bad
    | "renew3" =>
      match getRev l.args "e", getRev l.args "f", getNat l.args "rk", getNat l.args "base", getNat l.args "risk",
            getNat l.args "h", getSettings l.args with
      | some e, some f, some rk, some base, some risk, some h, some st =>
        let locked := match retL with | some [_, x] => x | _ => 0
        fin "rhp3.validateContractRenewal" ret
          ((validateRenewal3 fx e f (10 + rk) base risk h st).bind fun (a, b) => .ok (natListStr [a, b]))
          (contractClauses f h st base locked)
          (closedList ["risked_collateral", "locked_collateral"] (if implClass res == "accept" then retL else none)
            (match hostVal f.valid, hostVal f.missed with
             | some vh, some mh => some [(vh - mh) - base, vh - (st.contractPrice + base)] | _, _ => none))
      | _, _, _, _, _, _, _ => bad
    | "s2roots" | "s2read" | "s2write" | "s3pay" | "s3fund" | "s3exec" =>
      match siteOf l.op, getRev l.args "c", getRev l.args "p", getNat l.args "sigok", getNat l.args "price", getNat l.args "burn" with
      | some (site, name), some c, some p, some sigok, some price, some burn =>
        let i : SiteIn := { cur := c, no := p.revNo, vv := vals p.valid, mv := vals p.missed, price := price, burn := burn,
                            sigOK := sigok == 1 }
        let sig := (getNat l.obs "sig").getD 0
        let amt := (getNat l.obs "amt").getD 0
        -- rpcWrite and the program finalisation set file size and Merkle root themselves
        let hostSetsFile := l.op == "s2write" || l.op == "s3exec"
        let canon (r : Rev) (cr : Nat) : String :=
          (if hostSetsFile then showRev { r with filesize := 0, root := 0 } else showRev r) ++ "/" ++ toString cr
        let model : Res String := (signRevise fx site i).bind fun (r, cr) => .ok (canon r cr)
        -- what the implementation signed: the revision it stored / credited, else (signature verified by the
        -- renter over it) the current revision with the requested number and values
        let signed : Option Rev := match getRev l.obs "o" with
          | some o => some o
          | none =>
            if sig == 1 && i.vv.length == c.valid.length && i.mv.length == c.missed.length then
              some { c with revNo := p.revNo, valid := replaceVals c.valid i.vv, missed := replaceVals c.missed i.mv }
            else none
        let implRet := match signed with | some o => canon o amt | none => ""
        let cl : List (String × Bool) := match signed with
          | some o => siteClauses site i o amt ++
              [("signature_over_expected_revision", sig != 2), ("renter_signed_this_revision", i.sigOK)]
          | none => [("signed_revision_known", false)]
        fin name implRet model cl []
      | _, _, _, _, _, _ => bad
    | "q2" =>
      match getRev l.args "c", getNat l.args "relock", getSettings l.args, getNat l.args "h" with
      | some c, some relock, some st, some h =>
        let nolock := (getNat l.args "nolock").getD 0 == 1
        -- one step of the session as a model operation
        let opOf (k : String) : Option (SessOp × String) :=
          match getStr l.args ("k" ++ k) with
          | some "renew2" =>
            match getRev l.args ("f" ++ k), getNatList l.args ("fv" ++ k), getNat l.args ("rk" ++ k), getNat l.args ("bs" ++ k) with
            | some f, some fv, some rk, some bs =>
              some (.renew f fv (10 + rk) h maxRev st { clearing := bs != 1, contract := bs != 2 }, "renew2")
            | _, _, _, _ => none
          | some "form2" =>
            match getRev l.args ("f" ++ k), getNat l.args ("rk" ++ k), getNat l.args ("bs" ++ k) with
            | some f, some rk, some bs => some (.form f (10 + rk) h maxRev st { clearing := true, contract := bs != 2 }, "form2")
            | _, _, _ => none
          | some kind =>
            match siteOf kind, getRev l.args ("p" ++ k), getNat l.args ("price" ++ k) with
            | some (site, _), some p, some price =>
              some (.rpc site { cur := c, no := p.revNo, vv := vals p.valid, mv := vals p.missed, price := price, burn := 0,
                                sigOK := getNat l.obs ("sigok" ++ k) == some 1 }, kind)
            | _, _, _ => none
          | none => none
        match opOf "1", opOf "2" with
        | some (o1, k1), some (o2, k2) =>
          let (m1, m2) := sessionOps fx codeFacts c (!nolock) o1 o2 (relock == 1)
          let st1 := getRev l.obs "o1"
          -- what the store holds for the locked contract before the second request
          let before2 := st1.getD c
          let verdicts (k : String) (o : SessOp) (kind : String) (before : Rev) (m : Res (Rev × Nat)) : List Verdict :=
            let res := (getStr l.obs ("r" ++ k)).getD "none"
            let sig := (getNat l.obs ("sig" ++ k)).getD 0
            let stored := getRev l.obs ("o" ++ k)
            match o with
            | .rpc site i =>
              let name := match siteOf kind with | some (_, n) => n | none => kind
              stepVerdicts name site before i res sig stored 0 m (site == .rhp2Write)
            | .renew _ fv _ _ _ _ sg =>
              -- the clearing revision persisted over the locked contract, judged against what the store held
              let pay := match renterVal before.valid with
                | some v => if st.baseRPCPrice > v then v else st.baseRPCPrice
                | none => 0
              let cl : List (String × Bool) := match stored with
                | some x => ((clearingClauses before x pay).map fun c => ("clearing_" ++ c.1, c.2)) ++
                    [("clearing_revision_number_increases", decide (x.revNo > before.revNo)),
                     ("clearing_values_as_requested", vals x.valid == fv),
                     ("clearing_signature_over_expected_revision", sig != 2),
                     ("clearing_renter_signed_this_revision", sg.clearing), ("renter_signed_new_contract", sg.contract)]
                | none => [("clearing_stored", false)]
              let res := if res == "none" then "reject" else res
              judge "rpcRenewAndClearContract" res ((stored.map showRev).getD "") (m.bind fun (r, _) => .ok (showRev r)) cl []
            | .form _ _ _ _ _ sg =>
              let res := if res == "none" then "reject" else res
              judge "rpcFormContract" res "" (m.bind fun _ => .ok "") [("renter_signed_new_contract", sg.contract)] []
          (count d res 30, verdicts "1" o1 k1 c m1 ++ verdicts "2" o2 k2 before2 m2)
        | _, _ => bad
      | _, _, _, _ => bad
    | "q3" =>
      match getRev l.args "c", getRev l.args "p1", getRev l.args "p2", getNat l.args "need", getNat l.args "burn" with
      | some c, some p1, some p2, some need, some burn =>
        let mk (p : Rev) (b : Nat) (k : String) : SiteIn :=
          { cur := c, no := p.revNo, vv := vals p.valid, mv := vals p.missed, price := 0, burn := b,
            sigOK := getNat l.obs ("sigok" ++ k) == some 1 }
        let i1 := mk p1 0 "1"
        let i2 := mk p2 burn "2"
        let (m1, m2) := execByContract fx true c i1 i2 need
        let o1 := getRev l.obs "o1"
        let before2 := o1.getD c
        let v1 := stepVerdicts "rhp3.processContractPayment" .rhp3Pay c i1 ((getStr l.obs "r1").getD "none")
                    ((getNat l.obs "sig1").getD 0) o1 ((getNat l.obs "amt1").getD 0) m1 false
        let v2 := stepVerdicts "rhp3.finalize" .rhp3Finalize before2 i2 ((getStr l.obs "r2").getD "none")
                    ((getNat l.obs "sig2").getD 0) (getRev l.obs "o2") 0 m2 true
        (count d res 30, v1 ++ v2)
      | _, _, _, _, _ => bad
    | "rpcform2" =>
      match getRev l.args "f", getNat l.args "rk", getNat l.args "h", getNat l.args "rh", getSettings l.args with
      | some f, some rk, some h, some rh, some st =>
        let rec_ := (getStr l.obs "rec").getD ""
        let recL := getNatList l.obs "rec"
        let locked := match recL with | some (x :: _) => x | _ => 0
        let model : Res String := (rpcForm2At true rh f (10 + rk) h (h + dh1) st sg).bind fun r => .ok (natListStr (recList r))
        let n := (getRev l.obs "n").getD f    -- the signed initial revision handed to AddContract
        fin "rpcFormContract" rec_ model
          (contractClauses n (h + dh1) st 0 locked ++ [("window_end_storable", decide (n.wEnd ≤ maxStorable)), ("stored_contract_is_request", (getRev l.obs "n").all (sameContract f))]
            ++ sigClauses.drop 1)
          (closedRec recL (formRecorded f st))
      | _, _, _, _, _ => bad
    | "rpcrenew2" =>
      match getRev l.args "e", getRev l.args "f", getNatList l.args "fv", getNat l.args "rk", getNat l.args "h",
            getNat l.args "rh", getSettings l.args with
      | some e, some f, some fv, some rk, some h, some rh, some st =>
        let rec_ := (getStr l.obs "rec").getD ""
        let recL := getNatList l.obs "rec"
        let locked := match recL with | some (x :: _) => x | _ => 0
        let model : Res String := (rpcRenew2At fx true rh e f fv (10 + rk) h (h + dh1) st sg).bind fun r => .ok (natListStr (recList r))
        let n := (getRev l.obs "n").getD f    -- signed renewal / clearing revisions handed to RenewContract
        let pay := match renterVal e.valid with
          | some v => if st.baseRPCPrice > v then v else st.baseRPCPrice
          | none => 0
        let clr : List (String × Bool) := match getRev l.obs "x" with
          | some x => (clearingClauses e x pay).map fun c => ("clearing_" ++ c.1, c.2)
          | none => []
        fin "rpcRenewAndClearContract" rec_ model
          (contractClauses n (h + dh1) st (baseCost st.storagePrice e f) locked
            ++ [("window_end_storable", decide (n.wEnd ≤ maxStorable)), ("stored_contract_is_request", (getRev l.obs "n").all (sameContract f))] ++ clr ++ sigClauses)
          (closedRec recL (renew2Recorded e f fv st))
      | _, _, _, _, _, _, _ => bad
    | "rpcrenew3" =>
      match getRev l.args "e", getRev l.args "k", getRev l.args "f", getNat l.args "rk", getNat l.args "h",
            getNat l.args "rh", getSettings l.args with
      | some e, some k, some f, some rk, some h, some rh, some st =>
        let rec_ := (getStr l.obs "rec").getD ""
        let recL := getNatList l.obs "rec"
        let locked := match recL with | some (x :: _) => x | _ => 0
        let model : Res String := (rpcRenew3 fx rh e k f (10 + rk) h st sg).bind fun r => .ok (natListStr (recList r))
        let n := (getRev l.obs "n").getD f
        let x := (getRev l.obs "x").getD k
        fin "handleRPCRenew" rec_ model
          (contractClauses n h st (st.renewCost + baseCost st.storagePrice e f) locked
            ++ [("window_end_storable", decide (n.wEnd ≤ maxStorable)), ("stored_contract_is_request", (getRev l.obs "n").all (sameContract f)),
                ("clearing_stored_is_request", (getRev l.obs "x").all (fun x => showRev x == showRev k))]
            ++ ((clearingClauses e x 0).map fun c => ("clearing_" ++ c.1, c.2)) ++ sigClauses)
          (closedRec recL (renew3Recorded e k f st))
      | _, _, _, _, _, _, _ => bad
    | _ => (d, [.badline "unknown op"])

def stats (d : DState) : String :=
  s!"cases={d.cases} accepts={d.accepts} rejects={d.rejects} panics={d.panics} clauses_checked={d.clausesChecked}"

end Hostd.Drive.Revision
