import Hostd.Proto
import Hostd.Model.Revenue
/-!
Driver of the `revenue` engine (C10).

Every trace line is one RPC against the real RHP2/RHP3 handlers (v1 histories) or the coreutils
RHP4 server on top of the real `contracts.Manager` (v2 histories), followed by the host's own view of
every contract of the history (`Contract().Revision` payouts, `LockedCollateral`, `Usage`;
`V2Contract().HostOutput/TotalCollateral/Usage`) and of the account balances.

MONITOR (a clause of C10 is false on the implementation's own observations):
  c10/v1_conservation/<rpc>       after RPC `<rpc>` some contract has
                                  ValidHostPayout ≠ LockedCollateral + Σ usage categories
  c10/v2_accumulation/<rpc>       after RPC `<rpc>` a v2 contract's recorded usage is not the Usage.Add
                                  fold of the usage arguments the RHP4 server passed (up to account
                                  spending, which may only move unspent funding into the categories)
  c10/v2_output_minus_collateral  HostOutput − TotalCollateral ≠ RenterCost(recorded usage) (+ the
                                  revenue carried over by a refresh)
MISMATCH (model ≠ implementation): accept/reject decision of an RPC, any payout / locked collateral /
usage field / account balance after it, the funding rows oracle, the program cost reported by the host.
-/
namespace Hostd.Drive.Revenue
open Hostd.Proto Hostd.Revenue

/-- the host's view of a v1 contract -/
structure Obs1 where
  id : Nat
  vhp : Nat
  vrp : Nat
  mhp : Nat
  locked : Nat
  u : Usage
  revnum : Nat
deriving Repr

/-- the host's view of a v2 contract -/
structure Obs4 where
  id : Nat
  ho : Nat
  tc : Nat
  u : Usage4
deriving Repr

/-- driver-side bookkeeping for a v2 contract -/
structure M4 where
  id : Nat
  c : Contract4          -- model contract: hostOut, totalColl, Σ usage arguments, carry

structure DState where
  v2 : Bool := false
  s : State := init { maxBal := 0, maxColl := 0 }
  ncontracts : Nat := 0
  basePrice : Nat := 0
  dead : Bool := false
  -- v2
  m4 : List M4 := []
  lastObs4 : List Obs4 := []
  debits : Usage4 := {}        -- Σ usage of the account debits of the history
  v2debit : Bool := false      -- an account debit happened in this history
  -- statistics
  hists : Nat := 0
  rpcs : Nat := 0
  accepted : Nat := 0
  rejected : Nat := 0
  overpaid : Nat := 0
  debitsN : Nat := 0
  multiSource : Nat := 0
  renewals : Nat := 0
  finals : Nat := 0
  checks : Nat := 0
  v2rpcs : Nat := 0

def natsOf (s : String) (sep : String) : Option (List Nat) := (s.splitOn sep).mapM String.toNat?

def parseObs1 (kv : List (String × String)) : Option (List Obs1) :=
  (kv.filter fun p => p.1.startsWith "k").mapM fun p =>
    match (p.1.drop 1).toString.toNat?, natsOf p.2 "/" with
    | some id, some [vhp, vrp, mhp, lc, rpc, sto, ing, egr, rr, rw, af, risk, rn] =>
      some { id, vhp, vrp, mhp, locked := lc, u := { rpc, sto, ing, egr, rr, rw, af, risk }, revnum := rn }
    | _, _ => none

def parseAccts (kv : List (String × String)) : Option (List (Nat × Nat)) :=
  (kv.filter fun p => p.1.startsWith "a" && (p.1.drop 1).toString.toNat?.isSome).mapM fun p =>
    match (p.1.drop 1).toString.toNat?, p.2.toNat? with
    | some id, some b => some (id, b)
    | _, _ => none

def parseObs4 (kv : List (String × String)) : Option (List Obs4) :=
  (kv.filter fun p => p.1.startsWith "k").mapM fun p =>
    match (p.1.drop 1).toString.toNat?, natsOf p.2 "/" with
    | some id, some [ho, tc, rpc, sto, egr, ing, af, risk, _ro] =>
      some { id, ho, tc, u := { rpc, sto, egr, ing, af, risk } }
    | _, _ => none

def outStr : Out → String
  | .ok => "ok" | .reject => "rej" | .panic => "panic"

/-- C10 on one observed v1 contract -/
def conservedObs (o : Obs1) : Bool := o.vhp == o.locked + o.u.revenue

def showU (u : Usage) : String := s!"{u.rpc}/{u.sto}/{u.ing}/{u.egr}/{u.rr}/{u.rw}/{u.af}/{u.risk}"
def showU4 (u : Usage4) : String := s!"{u.rpc}/{u.sto}/{u.egr}/{u.ing}/{u.af}/{u.risk}"

/-- compare the model with every observed contract and account -/
def compare1 (s : State) (obs : List Obs1) (accts : List (Nat × Nat)) : List Verdict :=
  let cv := obs.flatMap fun o =>
    let c := s.ctr o.id
    cmp s!"k{o.id}.vhp" (toString c.vhp) (toString o.vhp) ++
    cmp s!"k{o.id}.vrp" (toString c.vrp) (toString o.vrp) ++
    cmp s!"k{o.id}.mhp" (toString c.mhp) (toString o.mhp) ++
    cmp s!"k{o.id}.locked" (toString c.locked) (toString o.locked) ++
    cmp s!"k{o.id}.usage" (showU c.u) (showU o.u)
  let av := accts.flatMap fun (a, b) => cmp s!"a{a}.balance" (toString (s.bal a)) (toString b)
  -- report one mismatch per line (the first), the rest follows from it
  (cv ++ av).take 1

/-- the RPC kind used in monitor names: payments by contract and by account are different sites -/
def rpcName (l : Line) : String :=
  match getStr l.args "by" with
  | some "c" => l.op ++ "_by_contract"
  | some "a" => l.op ++ "_by_account"
  | _ => l.op

def monitors1 (l : Line) (obs : List Obs1) : List Verdict :=
  (obs.filter fun o => !conservedObs o).take 1 |>.map fun o =>
    .monitor s!"c10/v1_conservation/{rpcName l}"
      s!"k{o.id}:validHostPayout={o.vhp},locked={o.locked},usage={showU o.u},sum={o.locked + o.u.revenue}"

/-- put the model's funding rows of account `a` into the order the implementation will consume them
(oracle), after validating that it is a permutation of the model's rows -/
def adoptOrder (rows : List Row) (a : Nat) (order : List (Nat × Nat)) : Option (List Row) :=
  let mine := (rows.filter fun r => r.acct == a && r.amt != 0).map fun r => (r.cid, r.amt)
  let sorted (l : List (Nat × Nat)) := l.mergeSort fun x y => x.1 < y.1 || (x.1 == y.1 && x.2 ≤ y.2)
  if sorted mine != sorted order then none
  else
    let rec go (rs : List Row) (ord : List (Nat × Nat)) : List Row :=
      match rs with
      | [] => []
      | r :: rest =>
        if r.acct == a && r.amt != 0 then
          match ord with
          | (c, m) :: ord' => { cid := c, acct := a, amt := m } :: go rest ord'
          | [] => r :: go rest []
        else r :: go rest ord
    some (go rows order)

def parseOrder (s : String) : Option (List (Nat × Nat)) :=
  (parseList s).bind fun l => l.mapM fun e =>
    match e.splitOn ":" with
    | [c, m] => match c.toNat?, m.toNat? with
      | some c, some m => some (c, m)
      | _, _ => none
    | _ => none

def F := Facts.current

/-- a v1 line: run the model ops it stands for, return the new model state and the disagreements
about accept/reject -/
def model1 (d : DState) (l : Line) : Option (State × List Verdict × DState) :=
  let s := d.s
  let res := (getStr l.obs "res").getD ""
  let okRes := res.startsWith "ok"
  let g := getNat l.args
  match l.op with
  | "form" =>
    match g "c", g "hp", g "mhp", g "vrp", g "price" with
    | some c, some hp, some mhp, some vrp, some price =>
      let (s', out) := form s c hp mhp vrp price
      let v := cmp "form.res" (outStr out) (if okRes then "ok" else "rej")
      some (s', v, { d with ncontracts := if out == .ok then max d.ncontracts (c+1) else d.ncontracts })
    | _, _, _, _, _ => none
  | "write" | "read" | "roots" =>
    let k := if l.op == "write" then Kind.write else if l.op == "read" then Kind.read else Kind.roots
    match g "c", g "base", g "sto", g "ing", g "egr", g "coll", g "pay", g "burn" with
    | some c, some base, some sto, some ing, some egr, some coll, some pay, some burn =>
      let cost : Cost := { base, sto, ing, egr, coll }
      -- the non-monetary checks the handlers make before charging, from the raw request data
      let b01 (k : String) := (g k).getD 0 == 1
      let wf := match k with
        | .roots => rootsWF ((g "secs").getD 0) ((g "off").getD 0) ((g "n").getD 0)
        | .write => writeWF (b01 "proof") (b01 "upd") (b01 "ust")
        | .read => true
      -- a proposal built on an older revision of the session that would raise the renter's valid
      -- payout or the host's missed payout relative to the latest revision must be refused
      let wf := wf && !(b01 "neg")
      let (s', out) := revise F s c k cost pay burn wf
      let v := cmp s!"{l.op}.res" (outStr out) (if okRes then "ok" else "rej")
      some (s', v, { d with overpaid := if out == .ok && pay > cost.total then d.overpaid + 1 else d.overpaid })
    | _, _, _, _, _, _, _, _ => none
  | "fund" =>
    match g "c", g "a", g "cost", g "tot", g "up", g "mup" with
    | some c, some a, some cost, some tot, some up, some mup =>
      let (s', out) := fund F s c a cost { total := tot, up, mup }
      let v := cmp "fund.res" (match out with | .ok => "ok" | _ => "rej") (if okRes then "ok" else "rej")
      some (s', v, d)
    | _, _, _, _, _, _ => none
  | "pt" | "bal" | "rev" | "exec" =>
    match g "c", g "a", g "amt", getNat l.obs "paid", getNatList l.obs "spent", (getStr l.obs "order").bind parseOrder with
    | some c, some a, some amt, some paid, some [rpc, sto, ing, egr, rr, rw], some order =>
      let byC := getStr l.args "by" == some "c"
      -- 1. the funding rows of the account in the order the implementation consumes them
      match adoptOrder s.rows a order with
      | none => some (s, [.mismatch "funding_rows" (toString ((s.rows.filter fun r => r.acct == a).map fun r => (r.cid, r.amt))) (toString order)], d)
      | some rows =>
        let multi := (order.map (·.1)).eraseDups.length > 1
        let s := { s with rows := rows }
        -- 2. the payment by contract
        let balBefore := s.bal a
        let (s, v1, payOk) :=
          if byC then
            let (s', out) := pay F s c a { total := amt, up := (g "up").getD amt, mup := (g "mup").getD amt }
            (s', cmp s!"{l.op}.paid" (if out == .ok then "1" else "0") (toString paid), out == .ok)
          else (s, [], true)
        -- 2b. a fixed-price RPC whose payment is good and covers the price must be served
        let v1 := v1 ++ (match getNat l.obs "need" with
          | some need =>
            if need == 0 || l.op == "exec" || res.startsWith "panic" then []
            else
              let expect := if byC then payOk && decide (need ≤ amt)
                            else decide (0 < amt) && decide (amt ≤ balBefore) && decide (need ≤ amt)
              cmp s!"{l.op}.accept" (if expect then "ok" else "rej") (if res == "ok" then "ok" else "rej")
          | none => [])
        -- 3. the budget commit
        let spent : Usage := { rpc, sto, ing, egr, rr, rw }
        let charged := res == "ok" || res == "fail"
        let (s, v2) :=
          if charged then
            let (s', out) := debit F s a spent
            (s', cmp s!"{l.op}.debit" (outStr out) "ok")
          else (s, [])
        -- 4. the finalisation
        let (s, v3) :=
          match g "fc", getNat l.obs "fin", getNat l.obs "burn", getNat l.obs "stoc", getNat l.obs "collc" with
          | some fc, some fin, some burn, some stoc, some collc =>
            if fin == 1 then
              let (s', out) := finalize F s fc burn stoc collc
              (s', cmp "exec.finalize" (outStr out) "ok")
            else if res == "finrej" then
              let (_, out) := finalize F s fc burn stoc collc
              (s, cmp "exec.finalize" (outStr out) "rej")
            else (s, [])
          | _, _, _, _, _ => (s, [])
        -- 5. the program cost the host reported = what the account is charged beyond the init cost
        let v4 :=
          match getNat l.obs "htc" with
          | some htc => if l.op == "exec" && res == "ok" then cmp "exec.program_cost" (toString (htc + (getNat l.obs "ibc").getD d.basePrice)) (toString spent.total6) else []
          | none => []
        let d := { d with debitsN := if charged then d.debitsN + 1 else d.debitsN,
                          multiSource := if charged && multi then d.multiSource + 1 else d.multiSource,
                          finals := if (getNat l.obs "fin") == some 1 then d.finals + 1 else d.finals,
                          overpaid := if byC && paid == 1 && amt > spent.total6 then d.overpaid + 1 else d.overpaid }
        some (s, v1 ++ v2 ++ v3 ++ v4, d)
    | _, _, _, _, _, _ => none
  | "renew2" | "renew3" =>
    match g "c", g "new", g "pay", g "minpay", g "hp", g "mhp", g "vrp", g "price", g "sto", g "bcoll" with
    | some c, some nw, some pay, some minpay, some hp, some mhp, some vrp, some price, some sto, some bcoll =>
      let (s', out) := if (g "neg").getD 0 == 1 then (s, Out.reject)
                       else renew F s c nw (l.op == "renew3") pay minpay hp mhp vrp price sto bcoll
      let v := cmp s!"{l.op}.res" (outStr out) (if okRes then "ok" else "rej")
      some (s', v, { d with renewals := if out == .ok then d.renewals + 1 else d.renewals })
    | _, _, _, _, _, _, _, _, _, _ => none
  | "mine" | "unlock" | "setprices" => some (s, [], d)
  | _ => none

def step1 (d : DState) (l : Line) : DState × List Verdict :=
  match getStr l.obs "res" with
  | some "skip" => (d, [])
  | _ =>
  match parseObs1 l.obs, parseAccts l.obs with
  | some obs, some accts =>
    let mon := monitors1 l obs
    if !mon.isEmpty then ({ d with dead := true }, mon)
    else
      let res := (getStr l.obs "res").getD "ok"
      if res.startsWith "panic" then ({ d with dead := true }, [.mismatch "panic" "none" res])
      else if res == "ok_but_renter_error" then ({ d with dead := true }, [])
      else
      match model1 d l with
      | none => (d, [.badline "fields"])
      | some (s', vs, d') =>
        let vs := if vs.isEmpty then compare1 s' obs accts else vs.take 1
        let okRes := res.startsWith "ok"
        ({ d' with s := s', dead := !vs.isEmpty, rpcs := d.rpcs + 1, checks := d.checks + obs.length,
                   accepted := if okRes then d.accepted + 1 else d.accepted,
                   rejected := if okRes then d.rejected else d.rejected + 1 }, vs)
  | _, _ => (d, [.badline "observations"])

/-! ### v2 -/

def parseU4 (f : List Nat) : Option Usage4 :=
  match f with
  | [rpc, sto, egr, ing, af, risk] => some { rpc, sto, egr, ing, af, risk }
  | _ => none

inductive Call where
  | add (ho tc : Nat) (u : Usage4)
  | renew (ho tc : Nat) (u : Usage4)
  | revise (id ho : Nat) (u : Usage4)      -- ReviseV2Contract and CreditAccountsWithContract
  | debit (a : Nat) (u : Usage4)

def parseCall (s : String) : Option Call :=
  match s.splitOn ":" with
  | ["add", ho, tc, u] => do some (.add (← ho.toNat?) (← tc.toNat?) (← (natsOf u "/").bind parseU4))
  | ["renew", ho, tc, u] => do some (.renew (← ho.toNat?) (← tc.toNat?) (← (natsOf u "/").bind parseU4))
  | ["revise", id, ho, u] => do some (.revise (← id.toNat?) (← ho.toNat?) (← (natsOf u "/").bind parseU4))
  | ["credit", id, ho, u] => do some (.revise (← id.toNat?) (← ho.toNat?) (← (natsOf u "/").bind parseU4))
  | ["debit", a, u] => do some (.debit (← a.toNat?) (← (natsOf u "/").bind parseU4))
  | _ => none

def find4 (m : List M4) (id : Nat) : Option M4 := m.find? (·.id == id)
def set4 (m : List M4) (x : M4) : List M4 :=
  if m.any (·.id == x.id) then m.map fun y => if y.id == x.id then x else y else m ++ [x]

def F4 := Facts4.current

def step4d (d : DState) (l : Line) : DState × List Verdict :=
  match parseObs4 l.obs, (getStrList l.obs "calls").bind (·.mapM parseCall) with
  | some obs, some calls =>
    let g := getNat l.args
    -- replay the calls the RHP4 server made on the model
    let (d, vs) := calls.foldl (fun (acc : DState × List Verdict) call =>
      let (d, vs) := acc
      match call with
      | .add ho tc u =>
        match g "c" with
        | some c => ({ d with m4 := set4 d.m4 { id := c, c := insert4 F4 ho tc 0 u } }, vs)
        | none => (d, vs ++ [.badline "add without c"])
      | .renew ho tc u =>
        match g "new", g "c" with
        | some nw, some old =>
          -- a refresh rolls the predecessor's revenue into the new contract
          let carry := if l.op == "refresh4" then
              match d.lastObs4.find? (·.id == old) with
              | some o => o.ho - o.tc
              | none => 0
            else 0
          ({ d with m4 := set4 d.m4 { id := nw, c := insert4 F4 ho tc carry u }, renewals := d.renewals + 1 }, vs)
        | _, _ => (d, vs ++ [.badline "renew without new"])
      | .revise id ho u =>
        match find4 d.m4 id with
        | some m =>
          -- trusted base check: the revision pays exactly the usage (proto4.PayWithContract)
          let v := cmp s!"k{id}.pays_exactly" (toString (m.c.hostOut + u.renterCost)) (toString ho)
          ({ d with m4 := set4 d.m4 { m with c := revise4 F4 m.c ho u } }, vs ++ v)
        | none => (d, vs ++ [.badline "revise of unknown contract"])
      | .debit _ u => ({ d with debits := d.debits.add u, debitsN := d.debitsN + 1, v2debit := true }, vs)) (d, [])
    -- monitors on the implementation's own observations
    let anyDebit := d.v2debit
    let mon := obs.flatMap fun o =>
      match find4 d.m4 o.id with
      | none => []
      | some m =>
        let want := m.c.u
        let accOk :=
          if !anyDebit then o.u == want
          else o.u.renterCost == want.renterCost && o.u.risk == want.risk && o.u.af ≤ want.af &&
               want.rpc ≤ o.u.rpc && want.sto ≤ o.u.sto && want.egr ≤ o.u.egr && want.ing ≤ o.u.ing
        let v1 : List Verdict := if accOk then [] else
          [.monitor s!"c10/v2_accumulation/{l.op}" s!"k{o.id}:recorded={showU4 o.u},sum_of_rpc_usages={showU4 want}"]
        let v2 : List Verdict := if o.ho == o.tc + o.u.renterCost + m.c.carry then [] else
          [.monitor "c10/v2_output_minus_collateral" s!"k{o.id}:hostOutput={o.ho},totalCollateral={o.tc},renterCost={o.u.renterCost},carry={m.c.carry}"]
        v1 ++ v2
    -- correspondence: stored revision = revision passed; the debits are attributed without loss
    let corr := obs.flatMap fun o =>
      match find4 d.m4 o.id with
      | none => [Verdict.mismatch s!"k{o.id}" "unknown" "present"]
      | some m => cmp s!"k{o.id}.hostOutput" (toString m.c.hostOut) (toString o.ho) ++
                  cmp s!"k{o.id}.totalCollateral" (toString m.c.totalColl) (toString o.tc)
    let moved : Usage4 := obs.foldl (fun acc o =>
      match find4 d.m4 o.id with
      | some m => { acc with rpc := acc.rpc + (o.u.rpc - m.c.u.rpc), sto := acc.sto + (o.u.sto - m.c.u.sto),
                             egr := acc.egr + (o.u.egr - m.c.u.egr), ing := acc.ing + (o.u.ing - m.c.u.ing),
                             af := acc.af + (m.c.u.af - o.u.af) }
      | none => acc) {}
    let attr := if obs.length == d.m4.length then
        cmp "debit_attribution" s!"{d.debits.rpc}/{d.debits.sto}/{d.debits.egr}/{d.debits.ing}/{d.debits.rpc + d.debits.sto + d.debits.egr + d.debits.ing}"
                                s!"{moved.rpc}/{moved.sto}/{moved.egr}/{moved.ing}/{moved.af}"
      else []
    let all := if !mon.isEmpty then mon.take 1 else (vs ++ corr ++ attr).take 1
    ({ d with lastObs4 := obs, dead := !all.isEmpty, v2rpcs := d.v2rpcs + 1, checks := d.checks + obs.length,
              accepted := if (getStr l.obs "res") == some "ok" then d.accepted + 1 else d.accepted }, all)
  | _, _ => (d, [.badline "v2 observations"])

def step (d : DState) (l : Line) : DState × List Verdict :=
  if l.op == "reset" then
    let sc : Nat := 1000000000000000000000000
    let bp := (getNat l.args "bp").getD 0
    ({ d with v2 := getStr l.args "net" == some "v2", s := init { maxBal := 100000 * sc, maxColl := 100000 * sc },
              ncontracts := 0, basePrice := bp, dead := false, m4 := [], lastObs4 := [], debits := {}, v2debit := false,
              hists := d.hists + 1 }, [])
  else if d.dead then (d, [])
  else if d.v2 then step4d d l
  else step1 d l

def stats (d : DState) : String :=
  s!"hists={d.hists} rpcs={d.rpcs} v2rpcs={d.v2rpcs} accepted={d.accepted} rejected={d.rejected} overpaid={d.overpaid} debits={d.debitsN} multi_source_debits={d.multiSource} renewals={d.renewals} finalisations={d.finals} contract_checks={d.checks}"

end Hostd.Drive.Revenue
