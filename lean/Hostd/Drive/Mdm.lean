import Hostd.Proto
import Hostd.Model.Mdm
/-!
Driver for the `mdm` engine (C14).  Every trace line is an independent case:
the op half holds all inputs of one hostile request, the obs half what the real
code did (`res=ok|reject|panic` for in-process calls, `res=accept|reject|crash|hang`
for requests sent to a real host over TCP, plus state snapshots).

Verdicts
* `MONITOR no_panic/<site>`  — the implementation panicked / the host process died (site = Go function);
* `MONITOR no_hang/<op>`     — no answer within the harness time limit;
* `MONITOR reject_noop/<what>` — a rejected request changed revision / roots / balance;
* `MONITOR slices_in_bounds/<site>` — an accessor handed out bytes outside the program data;
* `MISMATCH` — the model (with `Hostd.Mdm.deployed` plus the repairs named on the command line) predicts another outcome class than observed.
-/
namespace Hostd.Drive.Mdm
open Hostd.Proto Hostd.Mdm

structure DState where
  cases_   : Nat := 0
  accepts  : Nat := 0
  rejects  : Nat := 0
  panics   : Nat := 0
  hangs    : Nat := 0
  modelPanics : Nat := 0
  modelFree : Nat := 0


/-! ### parsing helpers -/

def splitColon (s : String) : List String := s.splitOn ":"

def natFields (l : List String) : Option (List Nat) := l.mapM String.toNat?

def fld (l : List Nat) (i : Nat) : Nat := l.getD i 0
def fldB (l : List Nat) (i : Nat) : Bool := l.getD i 0 == 1

def parsePdFn : String → Option PdFn
  | "Sector" => some .sector | "Bytes" => some .bytes | "Uint64" => some .uint64
  | "Hash" => some .hash | "UnlockKey" => some .unlockKey | "Signature" => some .signature
  | _ => none

def pdSite : PdFn → Site
  | .sector => .pdSector | .bytes => .pdBytes | .uint64 => .pdUint64
  | .hash => .pdHash | .unlockKey => .pdUnlockKey | .signature => .pdSignature

def parseCostFn : String → Option CostFn
  | "ReadOffset" => some .readOffset | "ReadSector" => some .readSector | "DropSectors" => some .dropSectors
  | "UpdateSector" => some .updateSector | "StoreSector" => some .storeSector | "AppendSector" => some .appendSector
  | _ => none

/-- little-endian uint64 read from sparse program data given as `(offset, value)` words; bytes not covered are zero -/
def byteAt (words : List (Nat × Nat)) (p : Nat) : Nat :=
  match words.find? (fun w => w.1 ≤ p && p < w.1 + 8) with
  | some w => (w.2 / 256 ^ (p - w.1)) % 256
  | none => 0

def rdWords (words : List (Nat × Nat)) (pdLen : Nat) (off : Nat) : Nat :=
  (List.range 8).foldl (fun acc k => if off + k < pdLen then acc + byteAt words (off + k) * 256 ^ k else acc) 0

def parseWords (l : List String) : Option (List (Nat × Nat)) :=
  l.mapM fun it => match splitColon it with
    | [a, b] => match a.toNat?, b.toNat? with
      | some x, some y => some (x, y)
      | _, _ => none
    | _ => none

def parseInstr (it : String) : Option Instr :=
  match splitColon it with
  | [] => none
  | mn :: rest =>
    match natFields rest with
    | none => none
    | some f =>
      match mn with
      | "AS" => some (.appendSector (fld f 0) (fldB f 1))
      | "AR" => some (.appendSectorRoot (fld f 0) (fldB f 1) (fldB f 2))
      | "DS" => some (.dropSectors (fld f 0) (fldB f 1))
      | "HS" => some (.hasSector (fld f 0))
      | "RO" => some (.readOffset (fld f 0) (fld f 1) (fldB f 2))
      | "RS" => some (.readSector (fld f 0) (fld f 1) (fld f 2) (fldB f 3) (fldB f 4))
      | "SW" => some (.swapSector (fld f 0) (fld f 1) (fldB f 2))
      | "US" => some (.updateSector (fld f 0) (fld f 1) (fld f 2) (fldB f 3))
      | "SS" => some (.storeSector (fld f 0) (fld f 1))
      | "RV" => some .revision
      | "RR" => some (.readRegistry (fld f 0) (fld f 1) (fld f 2) (fld f 3) (fldB f 4) (fldB f 5))
      | "RN" => some (.readRegistry (fld f 0) (fld f 1) (fld f 2) 1 (fldB f 4) (fldB f 5))   -- legacy encoding: version 1
      | "UN" => some (.updateRegistry (fld f 0) (fld f 1) (fld f 2) (fld f 3) (fld f 4) (fld f 5) (fld f 6) (fldB f 8) (fldB f 9))
      | "UR" => some (.updateRegistry (fld f 0) (fld f 1) (fld f 2) (fld f 3) (fld f 4) (fld f 5) (fld f 6) (fldB f 8) (fldB f 9))
      | _ => none

def zipCosts : List Instr → List Nat → List Nat → List Nat → List CInstr
  | [], _, _, _ => []
  | i :: r, cs, ss, ks => { i := i, cost := cs.headD 0, storage := ss.headD 0, cstorage := ks.headD 0 } :: zipCosts r cs.tail ss.tail ks.tail

def showOpt : Option Nat → String
  | some n => toString n | none => "?"

/-! ### monitors shared by the wire-level ops -/

structure Snap where
  rv0 : Nat
  rv1 : Nat
  fs0 : Nat
  fs1 : Nat
  nr0 : Nat
  nr1 : Nat
  rh0 : String
  rh1 : String
  rr0 : String := ""   -- Manager.SectorRoots only
  rr1 : String := ""
  pool0 : Nat := 0     -- transactions in the host's pool
  pool1 : Nat := 0
  bal0 : Nat
  charged : Nat
  gained : Nat

def getSnap (obs : List (String × String)) : Option Snap :=
  match getNat obs "rv0", getNat obs "rv1", getNat obs "fs0", getNat obs "fs1", getNat obs "nr0", getNat obs "nr1",
        getStr obs "rh0", getStr obs "rh1", getNat obs "bal0", getNat obs "charged", getNat obs "gained" with
  | some a, some b, some c, some d, some e, some f, some g, some h, some i, some j, some k =>
      some { rv0 := a, rv1 := b, fs0 := c, fs1 := d, nr0 := e, nr1 := f, rh0 := g, rh1 := h, bal0 := i, charged := j, gained := k,
             rr0 := (getStr obs "rr0").getD "", rr1 := (getStr obs "rr1").getD "",
             pool0 := (getNat obs "pool0").getD 0, pool1 := (getNat obs "pool1").getD 0 }
  | _, _, _, _, _, _, _, _, _, _, _ => none

def crashVerdicts (op : String) (obs : List (String × String)) : List Verdict :=
  match getStr obs "res" with
  | some "crash" => [.monitor s!"no_panic/{(getStr obs "site").getD "unknown"}" ((getStr obs "msg").getD "")]
  | some "hang" => [.monitor s!"no_hang/{op}" ""]
  | _ => []

/-- C02: when an RPC that stores or references sectors reported success, no slot holding a sector
the contract (or the request) references may still be waiting for its fsync -/
def syncVerdicts (site : String) (res : String) (obs : List (String × String)) : List Verdict :=
  match res, getNat obs "unsynced" with
  | "accept", some k =>
    if k == 0 then [] else [.monitor s!"c02/rpc_commit_synced/{site}" s!"referenced_unsynced_slots={k},dirty_slots={(getNat obs "dirty").getD 0}"]
  | _, _ => []

/-- a rejected request must leave revision and roots alone -/
def noopVerdicts (sn : Snap) (revisionMayMove : Bool) : List Verdict :=
  (if !revisionMayMove && (sn.rv0 != sn.rv1) then [.monitor "reject_noop/revision" s!"{sn.rv0}->{sn.rv1}"] else []) ++
  (if sn.fs0 != sn.fs1 || sn.nr0 != sn.nr1 then [.monitor "reject_noop/roots" s!"n={sn.nr0}->{sn.nr1},size={sn.fs0}->{sn.fs1}"]
   else if sn.rr0 != sn.rr1 then [.monitor "reject_noop/sector_roots" s!"Manager.SectorRoots {sn.rr0}->{sn.rr1}"] else []) ++
  (if !revisionMayMove && sn.rh0 != sn.rh1 && sn.rv0 == sn.rv1 && sn.nr0 == sn.nr1 then
     [.monitor "reject_noop/contract_content" s!"{sn.rh0}->{sn.rh1}"] else [])

def bump (d : DState) (res : String) : DState :=
  let d := { d with cases_ := d.cases_ + 1 }
  match res with
  | "ok" | "accept" | "alive" => { d with accepts := d.accepts + 1 }
  | "reject" => { d with rejects := d.rejects + 1 }
  | "panic" | "crash" => { d with panics := d.panics + 1 }
  | "hang" => { d with hangs := d.hangs + 1 }
  | _ => d

def v2PayOf : Option String → V2Pay
  | none | some "ok" => .ok
  | some "sumovf" => .sumOverflow
  | _ => .refused

/-- compare an RHP2 model class with the observation -/
def v2Verdicts (op : String) (m : V2Out) (obs : List (String × String)) : List Verdict :=
  let res := (getStr obs "res").getD "?"
  let mon := crashVerdicts op obs
  match getSnap obs, res with
  | _, "crash" =>
      mon ++ (match m with
        | .panic s => cmp "site" s.name ((getStr obs "site").getD "?")
        | o => [.mismatch "res" (reprStr o) "crash"])
  | _, "hang" => mon
  | some sn, "accept" =>
      (match m with
        | .accept | .either => []
        | o => [.mismatch "res" (reprStr o) "accept"])
  | some sn, "reject" =>
      let paid := m == .rejectPaid || m == .either
      noopVerdicts sn paid ++
      (match m with
        | .reject => []
        | .either => []
        | .rejectPaid => if sn.rv1 == sn.rv0 + 1 then [] else [.mismatch "rev" "paid" "unchanged"]
        | o => [.mismatch "res" (reprStr o) "reject"])
  | _, _ => [.badline s!"res={res}"]

/-! ### renewal / formation: request variants → facts of `RenewReq` -/

def renewReqOf (kind : RenewKind) (args : List (String × String)) : Option RenewReq :=
  let g (k : String) (dflt : String) : String := (getStr args k).getD dflt
  let txns := (getNat args "txns").getD 1
  let base : RenewReq :=
    { readable := txns ≤ 200, txns, fcs := (getNat args "fcs").getD 1, revs := (getNat args "revs").getD 1,
      algOk := g "keyalg" "ok" != "bad", keyLen := (getNat args "keylen").getD 32, fsigOk := g "fsig" "ok" != "bad" }
  -- the clearing revision
  let r1 : Option RenewReq :=
    match kind, g "clr" "ok" with
    | .form2, _ => some base
    | _, "ok" => some base
    | .renew3, "unknown" => some { base with clrKnown := false }
    | .renew3, "revnum" | .renew3, "filesize" | .renew3, "root" | .renew3, "window" | .renew3, "uc" | .renew3, "uckeys0"
    | .renew3, "unlockhash" => some { base with clrShapeOk := false }
    | _, "outs0" => some { base with clrValid := 0, clrMissed := 0 }
    | _, "outs1" => some { base with clrValid := 1, clrMissed := 1 }
    | _, "outs3" => some { base with clrValid := 3, clrMissed := 3 }
    | .renew3, "missed3" => some { base with clrMissed := 3 }
    | .renew3, "valid1" => some { base with clrValid := 1 }
    | .renew3, "valid3" => some { base with clrValid := 3 }
    | _, "more" | _, "steal" | _, "sumovf" | .renew2, "under" | .renew3, "differ" | .renew3, "addr" => some { base with clrValuesOk := false }
    | _, _ => none
  -- the new contract
  let fcKey := if kind == .form2 then "fc" else "ren"
  let r2 : Option RenewReq := r1.bind fun r =>
    match g fcKey "ok" with
    | "ok" => some r
    | "filesize" | "filesize1" | "root" | "revnum1" | "wend_small" | "wstart_small" => some { r with fcFieldsOk := false }
    | "wstart_huge" => some { r with hardforkOk := false }
    | "hugeext" => some { r with baseOk := false, fcFieldsOk := false }
    | "wend_huge" =>
      -- without file size there is no base cost, so every validator accepts the huge window; the store cannot hold it
      if kind == .form2 || (getNat args "n").getD 0 == 0 then some { r with storable := false } else some { r with fcRestOk := false }
    | "payout_huge" | "payout_huge_both" | "payout_zero" | "burn" | "void_huge" | "addr" | "addr_missed" | "void"
    | "unlockhash" => some { r with fcRestOk := false }
    | "outs0" => some { r with fcValid := 0, fcMissed := 0 }
    | "valid1" => some { r with fcValid := 1 }
    | "valid3" => some { r with fcValid := 3 }
    | "missed2" => some { r with fcMissed := 2 }
    | "missed4" => some { r with fcMissed := 4 }
    | _ => none
  -- the revision signature
  r2.bind fun r =>
    match g "rsig" "ok" with
    | "ok" => some r
    | "bad" => some { r with rsigOk := false }
    | "len0" => some { r with rsigLen := 0 }
    | "len1" => some { r with rsigLen := 1 }
    | "len63" => some { r with rsigLen := 63 }
    | "len65" => some { r with rsigLen := 65 }
    | "parent" | "pki" | "covered" | "covered2" | "covered0" | "covered9" => some { r with rsigMetaOk := false }
    | _ => none

/-! ### the step function -/

def step (fx : Fixes) (d : DState) (l : Line) : DState × List Verdict :=
  let res := (getStr l.obs "res").getD "?"
  let d := bump d res
  if res == "badcase" then (d, [.badline ((getStr l.obs "why").getD "badcase")]) else
  if l.op == "pd" then
    match (getStr l.args "fn").bind parsePdFn, getNat l.args "len", getNat l.args "off", getNat l.args "n" with
    | some fn, some len, some off, some n =>
      let site := (pdSite fn).name
      let m := run { budget := 0 } (pdSteps fx fn off n len)
      let mon : List Verdict := if res == "panic" then [.monitor s!"no_panic/{site}" s!"len={len},off={off},n={n}"] else []
      let d := match m with | .panic _ => { d with modelPanics := d.modelPanics + 1 } | _ => d
      let vs : List Verdict :=
        match m, res with
        | .panic _, "panic" => []
        | .reject _, "reject" => []
        | .pass _, "ok" =>
          match getNat l.obs "lo", getNat l.obs "hi" with
          | some lo, some hi =>
            (if lo ≤ hi ∧ hi ≤ len then [] else [.monitor s!"slices_in_bounds/{site}" s!"lo={lo},hi={hi},len={len}"]) ++
            cmp "span" s!"{(pdSpan fn off n).1}:{(pdSpan fn off n).2}" s!"{lo}:{hi}"
          | _, _ => [.monitor s!"slices_in_bounds/{site}" "returned bytes are not the requested program data"]
        | o, r => [.mismatch "res" (match o with | .pass _ => "ok" | .reject _ => "reject" | .panic _ => "panic") r]
      (d, mon ++ vs)
    | _, _, _, _ => (d, [.badline "pd fields"])
  else if l.op == "cu" then
    match getStr l.args "op", getNat l.args "n", getNat l.args "a", getNat l.args "b",
          getNat l.obs "cnt", getNatList l.obs "perm", getNat l.obs "origsame" with
    | some op, some n, some a, some b, some cnt, some perm, some same =>
      let uop : Option UOp := match op with
        | "swap" => some (.swap a b) | "trim" => some (.trim a) | "update" => some (.update a)
        | "root" => some (.root a) | "append" => some .append | _ => none
      match uop with
      | none => (d, [.badline "cu op"])
      | some uop =>
        let roots := List.range n
        let (o, roots') := updater roots 99 uop
        let mres := match o with | .pass _ => "ok" | .reject _ => "reject" | .panic _ => "panic"
        let mon : List Verdict :=
          (if res == "panic" then [.monitor s!"no_panic/ContractUpdater.{op}" s!"n={n},a={a},b={b}"] else []) ++
          (if res == "reject" && perm != roots then [.monitor "reject_noop/updater_roots" (showNatList perm)] else []) ++
          (if same != 1 then [.monitor "reject_noop/updater_private_copy" "caller's slice modified"] else [])
        let vs := cmp "res" mres res ++
          (if res == "panic" then [] else cmp "perm" (showNatList roots') (showNatList perm) ++ cmp "cnt" (toString roots'.length) (toString cnt)) ++
          (match uop, getInt l.obs "got" with
            | .root i, some g => if mres == "ok" then cmp "got" (toString (roots.getD i 0)) (toString g) else []
            | _, _ => [])
        (d, mon ++ vs)
    | _, _, _, _, _, _, _ => (d, [.badline "cu fields"])
  else if l.op == "cost" then
    match (getStr l.args "fn").bind parseCostFn, getNat l.args "p1", getNat l.args "p2", getNat l.args "arg" with
    | some fn, some p1, some p2, some arg =>
      let m := run { budget := 0 } (costSteps fn p1 p2 arg)
      let mres := match m with | .panic _ => "panic" | _ => "ok"
      let sane := p1 < 1099511627776 && p2 < 1099511627776
      let mon : List Verdict := if res == "panic" && sane then [.monitor s!"no_panic/cost.{(getStr l.args "fn").getD ""}" s!"arg={arg}"] else []
      (d, mon ++ cmp "res" mres res)
    | _, _, _, _ => (d, [.badline "cost fields"])
  else if l.op == "regclose" then
    match getNat l.args "reads", getNat l.args "writes" with
    | some r, some w =>
      let m := run { budget := 0 } (recorderFlush fx r w)
      let mres := match m with | .panic _ => "panic" | _ => "ok"
      let mon : List Verdict := if res == "panic" then [.monitor s!"no_panic/{Site.recorderFlush.name}" s!"reads={r},writes={w}"] else []
      (d, mon ++ cmp "res" mres res)
    | _, _ => (d, [.badline "regclose fields"])
  else if l.op == "regflush" then
    match getNat l.args "waitms" with
    | some w =>
      let mon := crashVerdicts "regflush" l.obs
      if res == "crash" || res == "hang" then
        let expected := w ≥ 10000 && !fx.regRecorder
        (d, mon ++ (if expected || res == "hang" then [] else [.mismatch "res" "alive" res]) ++
             (if res == "crash" then cmp "site" Site.recorderFlush.name ((getStr l.obs "site").getD "?") else []))
      else if getStr l.obs "write" != some "accept" || getStr l.obs "read" != some "accept" then
        (d, [.badline "registry write/read through the MDM did not succeed"])
      else
        (d, if w ≥ 10500 && !fx.regRecorder then [.mismatch "res" "crash" res] else [])
    | none => (d, [.badline "regflush fields"])
  else if l.op == "hostdied" then
    (d, [.monitor s!"no_panic/{(getStr l.obs "site").getD "unknown"}" s!"host process died after {(getStr l.args "after").getD "?"}"])
  else if l.op == "x3" then
    let mon := crashVerdicts "x3" l.obs
    let sn? := getSnap l.obs
    let budget := (getNat l.args "budget").getD 0
    let k : Int := (getInt l.obs "k").getD (-2)
    let payS := (getStr l.args "pay").getD "acct"
    let byAcct := payS.startsWith "acct"
    -- model-independent monitors on a rejected request
    let noop : List Verdict :=
      match sn?, res with
      | some sn, "reject" =>
        if byAcct then
          noopVerdicts sn false ++
          (if k == -1 && (sn.charged != 0 || sn.gained != 0) then [.monitor "reject_noop/balance_refused" s!"charged={sn.charged},gained={sn.gained}"] else []) ++
          (if sn.charged > budget then [.monitor "reject_noop/overcharge" s!"charged={sn.charged},budget={budget}"] else []) ++
          (if sn.gained != 0 then [.monitor "reject_noop/balance_gained" s!"{sn.gained}"] else [])
        else if payS == "c_ok" && sn.rv1 == sn.rv0 + 1 then
          -- the pay-by-contract revision itself was accepted (a separate, valid step that moves `budget`
          -- from the contract into the account); the program was rejected afterwards
          noopVerdicts sn true ++
          (if sn.charged != 0 || sn.gained > budget then [.monitor "reject_noop/balance_gained" s!"charged={sn.charged},gained={sn.gained},paid={budget}"] else [])
        else
          noopVerdicts sn false ++
          (if sn.charged != 0 || sn.gained != 0 then [.monitor "reject_noop/balance_refused" s!"charged={sn.charged},gained={sn.gained}"] else [])
      | _, _ => []
    let mon := mon ++ syncVerdicts "programExecutor.commit" res l.obs
    if (lookup l.args "mut").isSome && lookup l.args "mut" != some "[]" then
      -- byte-level mutation of a valid request: decoding is core's, no prediction; monitors only
      ({ d with modelFree := d.modelFree + 1 }, mon ++ noop)
    else
    match getNat l.args "n", getNat l.args "pdlen", (getStrList l.args "prog").bind (·.mapM parseInstr) with
    | some n, some pdLen, some instrs =>
      let words := ((getStrList l.args "words").bind parseWords).getD []
      let costs := (getNatList l.obs "costs").getD []
      let stor := (getNatList l.obs "stor").getD []
      let cstor := (getNatList l.obs "cstor").getD stor
      let init := (getNat l.obs "init").getD 0
      let pay : PayMode := match payS with
        | "acct" | "c_ok" => .ok
        | "c_sumovf" => .sumOverflow
        | _ => .refused
      let fin : FinMode := match (getStr l.args "fin").getD "ok" with
        | "ok" => .ok | "sumovf" => .sumOverflow | _ => .refused
      let bal0 := match sn? with | some sn => sn.bal0 | none => budget
      let s0 : HostState := { rev := 0, roots := List.range n, balance := if byAcct then bal0 else bal0 + budget }
      let r : Request := { pay, budget, initCost := init, hasContract := getNat l.args "fcid" == some 1, pdLen,
                           rd := rdWords words pdLen, prog := zipCosts instrs costs stor cstor, fin }
      let (o, s1) := handle fx s0 r
      let d := match o with | .panic .. => { d with modelPanics := d.modelPanics + 1 } | _ => d
      let vs : List Verdict :=
        match o, res, sn? with
        | .panic _ site, "crash", _ => cmp "site" site.name ((getStr l.obs "site").getD "?")
        | _, "hang", _ => []
        | .accept outs, "accept", some sn =>
          cmp "nroots" (toString s1.roots.length) (toString sn.nr1) ++
          cmp "rev" (toString (s1.rev + (if byAcct then 0 else 1))) (toString (sn.rv1 - sn.rv0)) ++
          (if byAcct then cmp "charged" (toString (s0.balance - s1.balance)) (toString sn.charged) else []) ++
          (match getNatList l.obs "outlens" with
            | some ol =>
              if ol.length != outs.length then [.mismatch "outputs" (toString outs.length) (toString ol.length)]
              else if (outs.zip ol).all (fun p => match p.1 with | some x => x == p.2 | none => true) then []
              else [.mismatch "outlens" ("[" ++ ",".intercalate (outs.map showOpt) ++ "]") (showNatList ol)]
            | none => [])
        | .refused, "reject", some sn => cmp "k" "-1" (toString k) ++ cmp "charged" "0" (toString sn.charged)
        | .failed mk _, "reject", some sn =>
          cmp "k" (toString mk) (toString k) ++
          (if byAcct then cmp "charged" (toString (s0.balance - s1.balance)) (toString sn.charged) else [])
        | o, r, _ =>
          [.mismatch "res" (match o with | .accept _ => "accept" | .refused => "reject(refused)" | .failed k _ => s!"reject(k={k})" | .panic k s => s!"crash({k},{s.name})") r]
      (d, mon ++ noop ++ vs)
    | _, _, _ => (d, [.badline "x3 fields"])
  else if l.op == "r3" then
    let mon := crashVerdicts "r3" l.obs
    let payS := (getStr l.args "pay").getD "acct"
    let byContract := payS.startsWith "c_"
    let rpc? : Option Rpc3 := match getStr l.args "rpc" with
      | some "fund" => some .fund | some "bal" => some .balance | some "rev" => some .revision | some "pt" => some .priceTable | _ => none
    match rpc?, getNat l.args "amount", getNat l.args "n" with
    | some rpc, some amount, some n =>
      if res == "hang" then (d, mon) else
      let pay : PayMode := match payS with
        | "acct" | "c_ok" | "none" => .ok
        | "c_sumovf" => .sumOverflow
        | _ => .refused
      let sn? := getSnap l.obs
      let bal0 := match sn? with | some sn => sn.bal0 | none => 0
      let r : PaidReq := { rpc, uidOk := getStr l.args "uid" != some "bad", pay, byContract, amount,
                           cost := (getNat l.obs "cost").getD 0, toSelf := getStr l.args "acct" != some "zero",
                           known := getNat l.args "fcid" != some 0, pays := payS != "none" }
      let s0 : HostState := { rev := 0, roots := List.range n, balance := bal0 }
      let (o, s1) := paid fx s0 r
      let d := match o with | .panic _ => { d with modelPanics := d.modelPanics + 1 } | _ => d
      let stateCmp (sn : Snap) : List Verdict :=
        cmp "rev" (toString s1.rev) (toString (sn.rv1 - sn.rv0)) ++
        cmp "balance" (toString (s1.balance : Int)) (toString ((sn.bal0 : Int) + sn.gained - sn.charged))
      let vs : List Verdict :=
        match o, res, sn? with
        | .panic site, "crash", _ => cmp "site" site.name ((getStr l.obs "site").getD "?")
        | .accept, "accept", some sn => stateCmp sn
        | .reject, "reject", some sn => stateCmp sn
        | o, r, _ => [.mismatch "res" (reprStr o) r]
      -- model-independent monitors
      let noop : List Verdict :=
        match sn?, res with
        | some sn, "reject" =>
          let paidFirst := payS == "c_ok" && sn.rv1 == sn.rv0 + 1
          noopVerdicts sn paidFirst ++
          (if paidFirst then
             (if sn.charged != 0 || sn.gained > amount then [.monitor "reject_noop/balance_gained" s!"charged={sn.charged},gained={sn.gained},paid={amount}"] else [])
           else if sn.charged != 0 || sn.gained != 0 then [.monitor "reject_noop/balance_refused" s!"charged={sn.charged},gained={sn.gained}"] else [])
        | some sn, "accept" =>
          (if !byContract && sn.charged > amount then [.monitor "reject_noop/overcharge" s!"charged={sn.charged},budget={amount}"] else []) ++
          (if sn.fs0 != sn.fs1 || sn.nr0 != sn.nr1 || sn.rr0 != sn.rr1 then [.monitor "reject_noop/sector_roots" "a payment RPC changed the sector roots"] else [])
        | _, _ => []
      (d, mon ++ noop ++ vs)
    | _, _, _ => (d, [.badline "r3 fields"])
  else if l.op == "renew" || l.op == "form2" then
    let mon := crashVerdicts l.op l.obs
    let kind? : Option RenewKind :=
      if l.op == "form2" then some .form2
      else match getNat l.args "proto" with | some 3 => some .renew3 | some 2 => some .renew2 | _ => none
    match kind?.bind (fun k => (renewReqOf k l.args).map (fun r => (k, r))) with
    | none => (d, [.badline "renew fields"])
    | some (kind, r) =>
      if res == "hang" then (d, mon) else
      let sn? := getSnap l.obs
      let s0 : HostState := { rev := 0, roots := List.range ((getNat l.args "n").getD 0), balance := 0 }
      let (o, _) := renew fx kind s0 r
      let d := match o with | .panic _ => { d with modelPanics := d.modelPanics + 1 } | _ => d
      let grew : Bool := match sn? with | some sn => decide (sn.pool1 > sn.pool0) | none => false
      let vs : List Verdict :=
        match o, res with
        | .panic site, "crash" => cmp "site" site.name ((getStr l.obs "site").getD "?")
        | .accept, "accept" => []
        | .reject, "reject" => if grew then [.mismatch "broadcast" "none" "pool grew"] else []
        | .rejectBroadcast, "reject" => if grew then [] else [.mismatch "broadcast" "pool grows" "unchanged"]
        | o, r => [.mismatch "res" (reprStr o) r]
      let noop : List Verdict :=
        match sn?, res with
        | some sn, "reject" =>
          noopVerdicts sn false ++
          (if sn.charged != 0 || sn.gained != 0 then [.monitor "reject_noop/balance_refused" s!"charged={sn.charged},gained={sn.gained}"] else []) ++
          (if sn.pool1 > sn.pool0 then [.monitor "reject_noop/broadcast" s!"the request was answered with an error but the transaction pool grew {sn.pool0}->{sn.pool1}"] else [])
        | some sn, "accept" =>
          -- a formation must not touch the existing contract
          if l.op == "form2" then noopVerdicts sn false else []
        | _, _ => []
      (d, mon ++ noop ++ vs)
  else if l.op == "v2roots" then
    match getNat l.args "n", getNat l.args "off", getNat l.args "num" with
    | some n, some off, some num =>
      let m := v2Roots fx n off num (v2PayOf (getStr l.args "pay")) (getStr l.args "sig" != some "bad")
      let d := match m with | .panic _ => { d with modelPanics := d.modelPanics + 1 } | _ => d
      let extra : List Verdict := match m, res, getNat l.obs "got" with
        | .accept, "accept", some g => cmp "got" (toString num) (toString g)
        | _, _, _ => []
      (d, v2Verdicts "v2roots" m l.obs ++ extra)
    | _, _, _ => (d, [.badline "v2roots fields"])
  else if l.op == "v2read" then
    match getNat l.args "n", (getStrList l.args "secs").bind (·.mapM fun it => natFields (splitColon it)) with
    | some n, some secs =>
      let ss : List Section := secs.map fun f => { present := decide (fld f 0 < n), off := fld f 1, len := fld f 2 }
      let m := v2Read fx ss (getNat l.args "proof" == some 1) (v2PayOf (getStr l.args "pay")) (getStr l.args "sig" != some "bad")
      let d := match m with | .panic _ => { d with modelPanics := d.modelPanics + 1 } | _ => d
      (d, v2Verdicts "v2read" m l.obs)
    | _, _ => (d, [.badline "v2read fields"])
  else if l.op == "v2write" then
    match getNat l.args "n", getStrList l.args "acts" with
    | some n, some acts =>
      let parsed : Option (List WAction) := acts.mapM fun it =>
        match splitColon it with
        | "A" :: _ => some (.append SectorSize)
        | "a" :: r => (natFields r).map fun f => .append (fld f 0)
        | "T" :: r => (natFields r).map fun f => .trim (fld f 0)
        | "S" :: r => (natFields r).map fun f => .swap (fld f 0) (fld f 1)
        | "U" :: r => (natFields r).map fun f => .update (fld f 0) (fld f 1) (fld f 2)
        | "X" :: _ => some .unknown
        | _ => none
      match parsed with
      | none => (d, [.badline "v2write acts"])
      | some wa =>
        let m := v2Write fx n wa (getNat l.args "proof" == some 1) (v2PayOf (getStr l.args "pay")) (getStr l.args "sig" != some "bad")
        let d := match m with | .panic _ => { d with modelPanics := d.modelPanics + 1 } | _ => d
        (d, v2Verdicts "v2write" m l.obs ++ syncVerdicts "rpcWrite" res l.obs)
    | _, _ => (d, [.badline "v2write fields"])
  else if l.op == "v2form" then
    match getNat l.args "keylen", getNat l.args "txns", getNat l.args "fcs" with
    | some kl, some txns, some fcs =>
      let m := v2Form fx txns fcs kl (getStr l.args "alg" != some "bad")
      let d := match m with | .panic _ => { d with modelPanics := d.modelPanics + 1 } | _ => d
      (d, v2Verdicts "v2form" m l.obs)
    | _, _, _ => (d, [.badline "v2form fields"])
  else (d, [.badline "unknown op"])

def stats (d : DState) : String :=
  s!"cases={d.cases_} accepted={d.accepts} rejected={d.rejects} panics={d.panics} hangs={d.hangs} model_panics={d.modelPanics} model_free={d.modelFree}"

end Hostd.Drive.Mdm
