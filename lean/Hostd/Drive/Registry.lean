import Hostd.Proto
import Hostd.Model.Registry
/-! Driver for the `registry` engine (C20): replays the harness trace on the model. -/
namespace Hostd.Drive.Registry
open Hostd.Proto Hostd.Registry

structure DState where
  m        : State := init 0
  dead     : Bool := false          -- history already flagged; wait for next reset
  maxLim   : Nat := 0               -- largest limit in force since reset
  implLast : List (Nat × Nat) := [] -- key ↦ tag of the last update the implementation accepted
  puts     : Nat := 0
  accepted : Nat := 0
  rejInvalid : Nat := 0
  rejOrder : Nat := 0
  rejFull  : Nat := 0
  gets     : Nat := 0
  hists    : Nat := 0
  cputs    : Nat := 0
  cputSwapped : Nat := 0

def outStr : Out → String
  | .accepted => "ok" | .invalid => "invalid" | .order => "order" | .full => "full"

def setAssoc (k v : Nat) : List (Nat × Nat) → List (Nat × Nat)
  | [] => [(k, v)]
  | (k', v') :: r => if k' = k then (k, v) :: r else (k', v') :: setAssoc k v r

def step1 (d : DState) (l : Line) : DState × List Verdict :=
  if l.op == "reset" then
    match getNat l.args "limit" with
    | some n => ({ d with m := init n, dead := false, maxLim := n, implLast := [], hists := d.hists + 1 }, [])
    | none => (d, [.badline "reset needs limit"])
  else if d.dead then (d, [])
  else if l.op == "limit" then
    match getNat l.args "n" with
    | some n => ({ d with m := setLimit d.m n, maxLim := max d.maxLim n }, [])
    | none => (d, [.badline "limit needs n"])
  else if l.op == "put" then
    match getNat l.args "k", getNat l.args "rev", getNat l.args "typ", getNat l.args "work",
          getNat l.args "primary", getNat l.args "tag", getNat l.args "valid",
          getStr l.obs "res", getNat l.obs "ret" with
    | some k, some rev, some typ, some work, some prim, some tag, some valid, some res, some ret =>
      let e : Entry := { rev, typ, work, primary := prim == 1, tag }
      let old := get d.m k
      let (m', out) := put d.m k e (valid == 1)
      let d := { d with puts := d.puts + 1 }
      let d := match out with
        | .accepted => { d with accepted := d.accepted + 1 }
        | .invalid => { d with rejInvalid := d.rejInvalid + 1 }
        | .order => { d with rejOrder := d.rejOrder + 1 }
        | .full => { d with rejFull := d.rejFull + 1 }
      let vs : List Verdict :=
        if res == outStr out then
          -- same decision; on an ordering rejection the stored value must come back
          match out, old with
          | .order, some o => if ret == o.tag then [] else [.monitor "rejected_returns_stored" s!"stored={o.tag},returned={ret}"]
          | .accepted, _ => if ret == tag then [] else [.mismatch "ret" (toString tag) (toString ret)]
          | _, _ => []
        else if res == "ok" then
          [.monitor "accept_only_if_valid_and_supersedes" s!"model={outStr out},impl=ok,k={k}"]
        else [.mismatch "res" (outStr out) res]
      let implLast := if res == "ok" then setAssoc k tag d.implLast else d.implLast
      ({ d with m := m', implLast, dead := !vs.isEmpty }, vs)
    | _, _, _, _, _, _, _, _, _ => (d, [.badline "put fields"])
  else if l.op == "get" then
    match getNat l.args "k", getNat l.obs "found", getNat l.obs "tag" with
    | some k, some found, some tag =>
      let d := { d with gets := d.gets + 1 }
      -- model-independent: a read returns the last update the implementation itself accepted
      let want := (d.implLast.find? (·.1 == k)).map (·.2)
      let got := if found == 1 then some tag else none
      let v1 : List Verdict := if want == got then [] else
        [.monitor "read_returns_last_accepted" s!"k={k},want={want},got={got}"]
      let mv := (get d.m k).map (·.tag)
      let v2 : List Verdict := if v1.isEmpty && mv != got then [.mismatch "get" s!"{mv}" s!"{got}"] else []
      ({ d with dead := !(v1 ++ v2).isEmpty }, v1 ++ v2)
    | _, _, _ => (d, [.badline "get fields"])
  else if l.op == "entries" then
    match getNat l.obs "count", getNat l.obs "limit", getInt l.obs "metric" with
    | some c, some lim, some met =>
      let v1 : List Verdict := if (c : Int) == met then [] else [.monitor "count_eq_metric" s!"count={c},metric={met}"]
      let v2 : List Verdict := if c ≤ d.maxLim then [] else [.monitor "count_le_limit" s!"count={c},maxlimit={d.maxLim}"]
      let v3 := cmp "count" (toString d.m.entries.length) (toString c) ++ cmp "limit" (toString d.m.limit) (toString lim)
      let vs := v1 ++ v2 ++ (if (v1 ++ v2).isEmpty then v3 else [])
      ({ d with dead := !vs.isEmpty }, vs)
    | _, _, _ => (d, [.badline "entries fields"])
  else (d, [.badline "unknown op"])

/-- The `x.`-prefixed fields of a line, prefix removed. -/
def subKV (pre : String) (kv : List (String × String)) : List (String × String) :=
  kv.filterMap fun (k, v) => if k.startsWith pre then some ((k.drop pre.length).toString, v) else none

/-- `cput`: two overlapping updates. They have no real-time order, so the history is accepted when one of the two
sequential orders explains both results on the model; otherwise the verdicts of the first order are reported. -/
def step (d : DState) (l : Line) : DState × List Verdict :=
  if l.op == "cput" then
    if d.dead then (d, []) else
    let a : Line := { op := "put", args := subKV "a." l.args, obs := subKV "a." l.obs }
    let b : Line := { op := "put", args := subKV "b." l.args, obs := subKV "b." l.obs }
    let run (x y : Line) : DState × List Verdict :=
      let (d1, v1) := step1 d x
      if !v1.isEmpty then (d1, v1) else step1 d1 y
    let (dab, vab) := run a b
    if vab.isEmpty then ({ dab with cputs := dab.cputs + 1 }, []) else
    let (dba, vba) := run b a
    if vba.isEmpty then ({ dba with cputs := dba.cputs + 1, cputSwapped := dba.cputSwapped + 1 }, [])
    else ({ dab with cputs := dab.cputs + 1 }, vab)
  else step1 d l

def stats (d : DState) : String :=
  s!"hists={d.hists} puts={d.puts} accepted={d.accepted} invalid={d.rejInvalid} order={d.rejOrder} full={d.rejFull} gets={d.gets} cputs={d.cputs} cput_swapped={d.cputSwapped}"

end Hostd.Drive.Registry
