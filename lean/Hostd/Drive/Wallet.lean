import Hostd.Proto
import Hostd.Model.Wallet
/-!
Driver of the `wallet` engine (C16, C17), level L2 (real chain).

Every line is one harness operation on the real host node; after `=>` it carries
* `u=` tokens: the block updates the host's chain manager produced (derived by the harness from
  `chain.Manager.UpdatesSince`, reverts first): `A|h|blk|created|spent|events|ann1|ann2|fcs|bucket`,
  `R|h|blk|removed|unspent|-|-|-|fcs|bucket`, elements as `id:value:maturity` joined by `/`;
* the host's observable state after `index.Manager` caught up.

MISMATCH = no transcribed variant of the code (Model/Wallet.lean) explains the observation.
MONITOR  = a clause of the property is false on the implementation's own observations:
  c16/update_never_fails/<cause>            processing a block of a legal chain failed or panicked
  c16/wallet_best_chain/utxos               wallet outputs differ from the fold over the best chain
  c16/events_eq_best_chain                  the event list (ids, blocks, types) differs from the fold over the best chain
  c16/events_on_best_chain                  an event refers to a block that is not on the best chain
  c16/events_ordered                        Events() is not ordered by maturity height, descending
  c16/balance_eq_mature_sum, c16/immature_eq_sum   Balance() vs Σ over the host's own outputs at its tip
  c16/metrics_eq_balance[/<cause>]          Metrics().Wallet differs from Balance()
  c16/fresh_node_equal/<field>              a fresh node synced to the same tip reports something else
  c16/announcement_on_best_chain            recorded index names no connected block with a host announcement
  c16/announcement_cleared_iff_disconnected/not_cleared_on_disconnect | /cleared_while_connected
  c17/element_accepted/<kind>               pool rejects a revision / proof / expiration built from stored elements
  c17/element_proof_valid/index|contract    stored proof does not verify against the tip accumulator
  c17/index_elements_last_144               stored index elements ≠ retained suffix of the best chain
  c17/reverted_elements_gone/index|contract element of a disconnected block / reverted formation still stored
  c17/contract_element_present              a contract confirmed on the best chain has no element
  c17/element_valid_at_returned_basis       a (basis, element) pair returned by V2FileContractElement while batches were
                                            being committed does not verify against the chain state of its own basis
  c17/host_built_txn_rejected               the host's own lifecycle transaction was refused for a bad proof
  c01/l2_twin                               contract views differ from a twin node that saw only the best chain
  c01/l2_best_chain                         … differ from the confirmations/resolutions on the best chain (harness-derived diffs)
  c01/l2_update_never_fails/<cause>         the contracts part of the chain update failed or panicked on a real history
  c06/acts/submitted/<kind>                 a selected contract got no pool submission although no listed skip applies
  c06/acts/only_selected/<kind>             a set was submitted for a contract the store did not select
  c06/acts/broadcast/<kind>                 an accepted set was not handed to the syncer (or other transactions were)
  c06/acts/broadcast_refused/<kind>         a set the pool refused was handed to the syncer
  c06/process_actions_never_fails/<part>/<cause>  ProcessActions (after the committed update) failed or panicked
  c06/ends_successful[/<class>]             a contract whose data the host holds and whose formation was never
                                            disconnected did not end `successful` (class: no_funds, pool_refused,
                                            revision_lost_in_reorg = causes the trace shows; bare = unexplained)
-/
namespace Hostd.Drive.Wallet
open Hostd.Proto Hostd.Wallet

/-! ### parsing -/

def splitDash (s : String) (sep : String) : List String :=
  if s == "-" || s == "" then [] else s.splitOn sep

def parseUtxo (s : String) : Option Utxo :=
  match s.splitOn ":" with
  | [a, b, c] => do
      let id ← a.toNat?
      let v ← b.toNat?
      let m ← c.toNat?
      pure ⟨id, v, m⟩
  | _ => none

def parsePair (s : String) : Option (Nat × Nat) :=
  match s.splitOn ":" with
  | [a, b] => do
      let x ← a.toNat?
      let y ← b.toNat?
      pure (x, y)
  | _ => none

def optTag (s : String) : Option (Option Nat) :=
  if s == "-" then some none else s.toNat?.map some

/-- one block update as the harness derived it -/
structure Upd where
  apply : Bool
  d : Diff
  a1 : Option Nat
  a2 : Option Nat
  formed : List Nat          -- v2 contracts whose formation this block confirms
  evTypes : List (Nat × Nat)  -- wallet events of the block: (id, type)
  fcev : List (Nat × String) -- every event of a host contract in the block: form/rev/res (v2), form1/rev1/res1 (v1)
  bucket : Nat
deriving Repr

def parseFcs (s : String) : List Nat :=
  (splitDash s "/").filterMap fun t =>
    match t.splitOn ":" with
    | [c, "form"] => c.toNat?
    | _ => none

def parseFcev (s : String) : List (Nat × String) :=
  (splitDash s "/").filterMap fun t =>
    match t.splitOn ":" with
    | [c, k] => c.toNat?.map fun n => (n, k)
    | _ => none

def parseUpd (s : String) : Option Upd :=
  match s.splitOn "|" with
  | [k, h, blk, cr, sp, ev, a1, a2, fcs, bucket] => do
      let h ← h.toNat?
      let blk ← blk.toNat?
      let cr ← (splitDash cr "/").mapM parseUtxo
      let sp ← (splitDash sp "/").mapM parseUtxo
      let evT ← (splitDash ev "/").mapM fun t => match t.splitOn "." with
        | [i, ty] => do pure ((← i.toNat?), (← ty.toNat?))
        | [i] => do pure ((← i.toNat?), 0)
        | _ => none
      let ev := evT.map (·.1)
      let a1 ← optTag a1
      let a2 ← optTag a2
      let bucket ← bucket.toNat?
      if k != "A" && k != "R" then none
      pure { apply := k == "A", d := ⟨h, blk, cr, sp, ev⟩, a1, a2, formed := parseFcs fcs, evTypes := evT, fcev := parseFcev fcs, bucket }
  | _ => none

def getUpds (l : Line) : Option (List Upd) :=
  (l.obs.filter (·.1 == "u")).mapM (fun kv => parseUpd kv.2)

def getUtxos (kv : List (String × String)) (k : String) : Option (List Utxo) :=
  (getStrList kv k).bind (·.mapM parseUtxo)

def getPairs (kv : List (String × String)) (k : String) : Option (List (Nat × Nat)) :=
  (getStrList kv k).bind (·.mapM parsePair)

/-- an observed wallet event `id:block:type:height:maturityHeight` -/
structure OEv where
  id : Nat
  blk : Nat
  ty : Nat
  h : Nat
  mh : Nat
deriving Repr, DecidableEq

def parseOEv (s : String) : Option OEv :=
  match s.splitOn ":" with
  | [a, b, c, d, e] => do pure ⟨← a.toNat?, ← b.toNat?, ← c.toNat?, ← d.toNat?, ← e.toNat?⟩
  | [a, b] => do pure ⟨← a.toNat?, ← b.toNat?, 0, 0, 0⟩
  | _ => none

def getOEvs (kv : List (String × String)) (k : String) : Option (List OEv) :=
  (getStrList kv k).bind (·.mapM parseOEv)

def getKeyOpt (kv : List (String × String)) (k : String) : Option (Option Key) :=
  match lookup kv k with
  | some "none" => some none
  | some s => (parsePair s).map some
  | none => none

def sortU (l : List Utxo) : List Utxo := l.mergeSort (fun a b => a.id ≤ b.id)
def sortP (l : List (Nat × Nat)) : List (Nat × Nat) := l.mergeSort (fun a b => a.1 < b.1 || (a.1 == b.1 && a.2 ≤ b.2))
def sortN (l : List Nat) : List Nat := l.mergeSort (· ≤ ·)

def showU (l : List Utxo) : String := "[" ++ ",".intercalate (l.map fun u => s!"{u.id}:{u.value}:{u.maturity}") ++ "]"
def showP (l : List (Nat × Nat)) : String := "[" ++ ",".intercalate (l.map fun p => s!"{p.1}:{p.2}") ++ "]"
def showK : Option Key → String
  | none => "none"
  | some k => s!"{k.1}:{k.2}"

/-! ### state -/

structure Blk where
  u : Upd
  parentBlk : Nat
deriving Repr

/-- a transcribed variant of the wallet metrics code -/
inductive Cand where
  | flat (v : Variant) (s : Except Fault WState)
  | buck (v : Variant) (s : Except Fault BState)

def Cand.name : Cand → String
  | .flat v _ => if v.spentLt then "flat+spentLt" else "flat"
  | .buck v _ => if v.spentLt then "buckets+spentLt" else "buckets(as found)"

structure DState where
  dead : Bool := false
  annDead : Bool := false                -- an announcement clause already failed in this history (known to persist)
  batch : Nat := 1
  spaced : Bool := false
  stack : List Blk := []                 -- best chain, tip first
  cands : List Cand := []
  anns : List (RevCmp × AnnRec) := []
  es : Except Fault EState := .ok {}
  prevAidx : Option Key := none          -- the implementation's own previous report
  everMax : Nat := 0
  sawSpendAtMat : Bool := false
  sawBucketRegress : Bool := false
  newestBucket : Nat := 0
  -- statistics
  hists : Nat := 0
  applies : Nat := 0
  reverts : Nat := 0
  reorgLines : Nat := 0
  deepest : Nat := 0
  freshCmp : Nat := 0
  annSet : Nat := 0
  annCleared : Nat := 0
  accOk : Nat := 0
  maxHeight : Nat := 0
  spentAtMat : Nat := 0
  bucketRegress : Nat := 0
  candParent : Nat := 0     -- lines on which the `parent` (as found) announcement variant explained the host
  candOwn : Nat := 0
  candAsFound : Nat := 0    -- lines explained by the as-found metrics transcription
  candRepaired : Nat := 0
  hasContracts : Bool := false  -- the host holds contracts in this history
  strictF1 : Bool := false  -- `--strict-formation1`
  f1RefusedBroadcast : Nat := 0  -- v1 formation sets the pool refused and the host broadcast nevertheless
  pairsRead : Nat := 0      -- (basis, element) pairs read concurrently with syncDB and validated at their own basis
  actLoops : Nat := 0       -- ProcessActions loops (index × kind) checked against `actsOf`
  twinCmp : Nat := 0        -- contracts compared with the twin node
  bestChainCmp : Nat := 0   -- contract views compared with the fold over the best chain
  dataEnded : Nat := 0      -- data contracts (formation never disconnected) past expiration
  dataSuccessful : Nat := 0

def initCands : List Cand :=
  [.buck asFound (.ok {}), .buck repaired (.ok {}), .flat asFound (.ok {}), .flat repaired (.ok {})]

/-! ### model stepping -/

def candStep (c : Cand) (u : Upd) : Cand :=
  let op : Op := if u.apply then .apply u.d else .revert u.d
  match c with
  | .flat v s => .flat v (s.bind fun st => step v st op)
  | .buck v s => .buck v (s.bind fun st => stepB v st ⟨op, u.bucket⟩)

/-- (fault?, utxos, events, balance, immature) a candidate predicts -/
def candView : Cand → Except Fault (List Utxo × List Ev × Nat × Nat)
  | .flat _ s => s.map fun st => (st.utxos, st.events, st.balance, st.immature)
  | .buck _ s => s.map fun st => (st.utxos, st.events, latest st.bal, latest st.imm)

def chunks {α : Type} (n : Nat) (l : List α) : List (List α) :=
  if n = 0 then [l] else
  let rec go (fuel : Nat) (l : List α) (acc : List (List α)) : List (List α) :=
    match fuel with
    | 0 => acc.reverse
    | fuel + 1 => if l.isEmpty then acc.reverse else go fuel (l.drop n) (l.take n :: acc)
  go (l.length + 1) l []

def toABlock (u : Upd) (parent : Key) : ABlock :=
  { key := (u.d.h, u.d.blk), parent := parent, ann1 := u.a1, ann2 := u.a2 }

/-- the `ABlock`s of the line's updates; parents of reverted blocks come from the stack -/
def annBlocks (stack : List Blk) (us : List Upd) : List (Bool × ABlock) :=
  let rec go (stack : List Blk) (us : List Upd) (acc : List (Bool × ABlock)) : List (Bool × ABlock) :=
    match us with
    | [] => acc.reverse
    | u :: rest =>
      if u.apply then go stack rest ((true, toABlock u (0, 0)) :: acc)
      else
        let below := stack.drop 1
        let parent : Key := match below with
          | b :: _ => (b.u.d.h, b.u.d.blk)
          | [] => (0, 0)
        go below rest ((false, toABlock u parent) :: acc)
  go stack us []

def annLine (c : RevCmp) (batch : Nat) (r : AnnRec) (bs : List (Bool × ABlock)) : AnnRec :=
  (chunks batch bs).foldl (fun r ch =>
    annBatch c r ((ch.filter (!·.1)).map (·.2)) ((ch.filter (·.1)).map (·.2))) r

def toCBlock (u : Upd) (parentBlk : Nat) : CBlock :=
  { h := u.d.h, blk := u.d.blk, parent := parentBlk, formed := u.formed }

/-- expected retained index elements: blocks of the best chain not yet trimmed -/
def expectedIdx (stack : List Blk) (everMax : Nat) : List (Nat × Nat) :=
  (stack.filter fun b => everMax ≤ chainIndexBuffer || b.u.d.h > everMax - chainIndexBuffer).map
    fun b => (b.u.d.h, b.u.d.blk)

def formedOnStack (stack : List Blk) : List Nat := stack.flatMap (·.u.formed)

/-! ### contract views (C01 on the real chain, C06 end states) -/

/-- `i:status:formH:formBlk:revisionConfirmed:resH:resBlk` as reported by the node -/
structure CView where
  i : Nat
  status : String
  fh : Nat
  fblk : Nat
  rc : Nat
  rh : Nat
  rblk : Nat
deriving Repr, DecidableEq

def parseCView (s : String) : Option CView :=
  match s.splitOn ":" with
  | [i, st, fh, fb, rc, rh, rb] => do
      pure ⟨← i.toNat?, st, ← fh.toNat?, ← fb.toNat?, ← rc.toNat?, ← rh.toNat?, ← rb.toNat?⟩
  | _ => none

def getCViews (kv : List (String × String)) (k : String) : Option (List CView) :=
  (getStrList kv k).bind (·.mapM parseCView)

/-- pending and rejected are identified (C01: rejection is one-way and not a function of the chain) -/
def normStatus (s : String) : String := if s == "pending" || s == "rejected" then "unconfirmed" else s

def showCV (v : CView) : String := s!"{normStatus v.status}/{v.fh}:{v.fblk}/{v.rc}/{v.rh}:{v.rblk}"

def isResolvedStatus (s : String) : Bool := s == "successful" || s == "failed" || s == "renewed"

/-- the block of the best chain (tip first) that carries event `k` of contract `i` -/
def findEv (stack : List Blk) (i : Nat) (ks : List String) : Option (Nat × Nat) :=
  (stack.find? fun b => b.u.fcev.any fun e => e.1 == i && ks.contains e.2).map fun b => (b.u.d.h, b.u.d.blk)

/-- C01 read off the harness-derived diffs of the best chain: confirmation and resolution of every contract -/
def bestChainViolations (stack : List Blk) (vs : List CView) : List String :=
  vs.filterMap fun v =>
    if v.status == "missing" then some s!"c{v.i}:missing" else
    let isV1 := (findEv stack v.i ["form1", "rev1", "res1"]).isSome
    let f := findEv stack v.i ["form", "form1"]
    let r := findEv stack v.i ["res", "res1"]
    let unconf := normStatus v.status == "unconfirmed"
    let okForm : Bool := match f with
      | none => unconf && v.fh == 0
      | some (h, b) => !unconf && (if isV1 then v.fh == 1 else v.fh == h && v.fblk == b)
    let okRes : Bool := match r with
      | none => !isResolvedStatus v.status && v.rh == 0
      -- v1 rows record a resolution height only for `successful` (applyFailedContracts stores none)
      | some (h, b) => isResolvedStatus v.status && (if isV1 then (if v.status == "successful" then v.rh == h else v.rh == 0) else v.rh == h && v.rblk == b)
    if okForm && okRes then none
    else some s!"c{v.i}:host={showCV v},bestchain_formed={showK f},bestchain_resolved={showK r}"

/-! ### the acting side of ProcessActions (`ar=` tokens: height:kind:sel:sub:skip:bc) -/

def parseTagged (s : String) : List (Nat × String) :=
  (splitDash s "+").filterMap fun t =>
    match t.splitOn "." with
    | [c, k] => c.toNat?.map fun n => (n, k)
    | [c] => c.toNat?.map fun n => (n, "")
    | _ => none

def parseAr (s : String) : Option (Nat × String × ActObs × List (Nat × String)) :=
  match s.splitOn ":" with
  | [h, kind, sel, sub, skip, bc] => do
      let h ← h.toNat?
      let subs := parseTagged sub
      let bcs := parseTagged bc
      let skips := parseTagged skip
      pure (h, kind, { sel := (parseTagged sel).map (·.1), skips := skips.map (·.1),
                       subOk := (subs.filter (·.2 == "ok")).map (·.1), subRej := (subs.filter (·.2 != "ok")).map (·.1),
                       bcSame := (bcs.filter (·.2 == "same")).map (·.1), bcDiff := (bcs.filter (·.2 != "same")).map (·.1) }, skips)
  | _ => none

/-- the monitors of one loop of ProcessActions: instances of `actsOf` (Props/C06Acts.lean) -/
def actMonitors (strictF1 : Bool) (l : Line) : List Verdict × Nat × Nat :=
  let toks := (l.obs.filter (·.1 == "ar")).map (·.2)
  -- the v1 formation rebroadcast hands refused sets to the syncer by construction (`ActKind.broadcastsRefused`): counted,
  -- reported as a monitor only with `--strict-formation1`
  let f1 := (toks.filter fun t => match parseAr t with
    | some (_, kind, o, _) => kind == "formation1" && !noRefusedBroadcastOk o
    | none => false).length
  let vs : List Verdict := toks.flatMap fun t =>
    match parseAr t with
    | none => [Verdict.badline s!"ar token {t}"]
    | some (h, kind, o, _) =>
      (if submittedOk o then [] else [Verdict.monitor s!"c06/acts/submitted/{kind}" s!"height={h},{t}"]) ++
      (if onlySelectedOk o then [] else [Verdict.monitor s!"c06/acts/only_selected/{kind}" s!"height={h},{t}"]) ++
      (if broadcastOk o then [] else [Verdict.monitor s!"c06/acts/broadcast/{kind}" s!"height={h},{t}"]) ++
      (if noRefusedBroadcastOk o || (kind == "formation1" && !strictF1) then [] else [Verdict.monitor s!"c06/acts/broadcast_refused/{kind}" s!"height={h},{t}"])
  -- one verdict per monitor name and line
  let vs := vs.foldl (fun (acc : List Verdict) v => match v with
    | .monitor n _ => if acc.any (fun w => match w with | .monitor m _ => m == n | _ => false) then acc else acc ++ [v]
    | _ => acc ++ [v]) []
  (vs, toks.length, f1)

/-! ### the step function -/

def resCause (res : String) : String :=
  if res.startsWith "panic:negative_stat" then "negative_stat_panic"
  else if res.startsWith "panic:" then "panic"
  else if res.startsWith "syncerr:" then (res.drop 8).toString
  else res

def isC17Failure (res : String) : Bool :=
  (res.splitOn "accumulator").length > 1 || (res.splitOn "ephemeral").length > 1

def step (d : DState) (l : Line) : DState × List Verdict :=
  if l.op == "reset" then
    ({ dead := false, batch := (getNat l.args "batch").getD 1, spaced := (getNat l.args "spaced").getD 0 == 1,
       cands := initCands, anns := [(.parent, {}), (.own, {})], hists := d.hists + 1,
       applies := d.applies, reverts := d.reverts, reorgLines := d.reorgLines, deepest := d.deepest,
       freshCmp := d.freshCmp, annSet := d.annSet, annCleared := d.annCleared, accOk := d.accOk,
       maxHeight := d.maxHeight, spentAtMat := d.spentAtMat, bucketRegress := d.bucketRegress,
       candParent := d.candParent, candOwn := d.candOwn, candAsFound := d.candAsFound, candRepaired := d.candRepaired,
       pairsRead := d.pairsRead, actLoops := d.actLoops, strictF1 := d.strictF1, f1RefusedBroadcast := d.f1RefusedBroadcast, twinCmp := d.twinCmp, bestChainCmp := d.bestChainCmp, dataEnded := d.dataEnded, dataSuccessful := d.dataSuccessful }, [])
  else if d.dead then (d, [])
  else
    match getStr l.obs "res" with
    | none => (d, [.badline "no res"])
    | some res =>
    if res.startsWith "twin_" then
      -- the twin processes the best chain only, forwards: a failure is a finding of its own
      let r := (res.drop 5).toString
      let comp := (lookup l.obs "comp").getD "other"
      let name := if comp == "contracts" then s!"c01/l2_update_never_fails/twin_{resCause r}"
                  else if comp.startsWith "actions_" then s!"c06/process_actions_never_fails/{comp}/twin_{resCause r}"
                  else s!"c16/update_never_fails/twin_{resCause r}"
      ({ d with dead := true }, [.monitor name res])
    else if res.startsWith "harnesserr" || res.startsWith "fresh_" then ({ d with dead := true }, [.badline res])
    else if l.op == "twin" then
      match getCViews l.obs "cst", getCViews l.obs "t_cst" with
      | some lv, some tw =>
        let diffs := lv.filterMap fun v =>
          match tw.find? (·.i == v.i) with
          | none => some s!"c{v.i}:twin_missing"
          | some t =>
            if normStatus v.status == normStatus t.status && v.fh == t.fh && v.fblk == t.fblk && v.rc == t.rc && v.rh == t.rh && v.rblk == t.rblk then none
            else some s!"c{v.i}:living={showCV v},twin={showCV t}"
        let vs : List Verdict := if diffs.isEmpty then [] else [.monitor "c01/l2_twin" (",".intercalate diffs)]
        ({ d with dead := !vs.isEmpty, twinCmp := d.twinCmp + lv.length }, vs)
      | _, _ => ({ d with dead := true }, [.badline "twin fields"])
    else if l.op == "endcheck" then
      match getStrList l.obs "end" with
      | none => ({ d with dead := true }, [.badline "endcheck fields"])
      | some es =>
        -- i:status:v1:sectors:stable:expired:refused:revisionConfirmed:fundFailures:lastRejection:tipRefusedFreshAccepts:tipRefusedFreshRefuses:refusedDuringCatchup
        let rows := es.filterMap fun e => match e.splitOn ":" with
          | [i, st, v1, sec, stable, expd, refused, rc, fund, last, okv, badv, mid] =>
            some (i, st, v1 == "1", sec.toNat?.getD 0, stable == "1", expd == "1", refused.toNat?.getD 0, rc == "1", fund.toNat?.getD 0, s!"{last},during_catchup={mid}", okv.toNat?.getD 0, badv.toNat?.getD 0)
          | _ => none
        let due := rows.filter fun (_, _, v1, sec, stable, expd, _, _, _, _, _, _) => !v1 && sec > 0 && stable && expd
        let bad := due.filter fun (_, st, _, _, _, _, _, _, _, _, _, _) => st != "successful"
        -- pool_state: every set the pool refused at the tip is accepted by a fresh pool over the same chain store (the very
        -- same transactions, same tip): provably not the host's transaction; pool_refused: a fresh pool refuses one, too;
        -- catchup_refused: sets were only refused while the processed index was behind the chain tip
        let vs : List Verdict := bad.map fun (i, st, _, sec, _, _, refused, rc, fund, last, okv, badv) =>
          let cls := if badv > 0 then "/pool_refused"
            else if okv > 0 then "/pool_state"
            else if fund > 0 then "/no_funds"
            else if refused > 0 then "/catchup_refused"
            else if !rc then "/revision_lost_in_reorg" else ""
          .monitor ("c06/ends_successful" ++ cls) s!"c{i}:status={st},sectors={sec},pool_refusals={refused},refused_at_tip_fresh_pool_accepts={okv},refused_at_tip_fresh_pool_refuses={badv},fund_failures={fund},revision_confirmed={rc},last_rejection={last}"
        ({ d with dead := !vs.isEmpty, dataEnded := d.dataEnded + due.length, dataSuccessful := d.dataSuccessful + (due.length - bad.length) }, vs)
    else if l.op == "fresh" then
      -- model-independent oracle: the living node against a node that only ever saw the best chain
      let fields := ["utxo", "ev", "bal", "imm", "mbal", "mimm"]
      let diffs := fields.filter fun f => lookup l.obs f != lookup l.obs ("f_" ++ f)
      let livingA := lookup l.obs "aidx"
      -- the v1 address and the v2 hash share one index column: disconnecting the block of the later record
      -- also wipes the other one's payload (hardfork window only); a wiped payload is tolerated, a different one is not
      let differs (a b : Option String) : Bool := a != b && a != some "0" && b != some "0"
      let annBad := livingA != some "none" &&
        (livingA != lookup l.obs "f_aidx" || differs (lookup l.obs "aaddr") (lookup l.obs "f_aaddr") || differs (lookup l.obs "ahash") (lookup l.obs "f_ahash"))
      let annBad2 := livingA == some "none" && lookup l.obs "f_aidx" != some "none" &&
        !(d.stack.any fun b => b.u.a1.isSome || b.u.a2.isSome)
      let tipH := match d.stack with | b :: _ => b.u.d.h | [] => 0
      let idxBad := tipH == d.everMax && lookup l.obs "idx" != lookup l.obs "f_idx"
      let cause := if d.sawSpendAtMat then "/after_spend_at_maturity_height" else if d.sawBucketRegress then "/reorg_across_stat_buckets" else ""
      let vs : List Verdict :=
        diffs.map (fun f => .monitor (s!"c16/fresh_node_equal/{f}" ++ (if f == "mbal" || f == "mimm" then cause else ""))
          s!"living={(lookup l.obs f).getD "?"},fresh={(lookup l.obs ("f_" ++ f)).getD "?"}") ++
        (if (annBad || annBad2) && !d.annDead then [.monitor "c16/fresh_node_equal/announcement" s!"living={livingA.getD "?"},fresh={(lookup l.obs "f_aidx").getD "?"}"] else []) ++
        (if idxBad then [.monitor "c17/fresh_node_equal/index_elements" "living and fresh index element sets differ"] else [])
      ({ d with dead := !vs.isEmpty, freshCmp := d.freshCmp + 1 }, vs)
    else
    match getUpds l with
    | none => ({ d with dead := true }, [.badline "u tokens"])
    | some us =>
      -- ---- advance the models and the best chain
      let spendAtMatHere := us.any fun u => u.apply && u.d.spent.any (fun e => e.maturity == u.d.h)
      let (regress, newest) := us.foldl (fun (acc : Bool × Nat) u => (acc.1 || u.bucket < acc.2, max acc.2 u.bucket)) (false, d.newestBucket)
      let cands := d.cands.map fun c => us.foldl candStep c
      let ablocks := annBlocks d.stack us
      let anns := d.anns.map fun (c, r) => (c, annLine c d.batch r ablocks)
      let (stack, es) := us.foldl (fun (acc : List Blk × Except Fault EState) u =>
        let (stk, es) := acc
        if u.apply then
          let p := match stk with | b :: _ => b.u.d.blk | [] => 0
          (⟨u, p⟩ :: stk, es.bind fun s => stepE s (.apply (toCBlock u p)))
        else
          let p := match stk.drop 1 with | b :: _ => b.u.d.blk | [] => 0
          -- the formations the block confirmed are those recorded when it was applied
          let formed := match stk with | b :: _ => b.u.formed | [] => u.formed
          (stk.drop 1, es.bind fun s => stepE s (.revert (toCBlock { u with formed := formed } p)))) (d.stack, d.es)
      let nApply := (us.filter (·.apply)).length
      let nRevert := us.length - nApply
      let tipH := match stack with | b :: _ => b.u.d.h | [] => 0
      let everMax := max d.everMax tipH
      let d1 := { d with cands, anns, stack, es, everMax, newestBucket := newest,
                         sawSpendAtMat := d.sawSpendAtMat || spendAtMatHere, sawBucketRegress := d.sawBucketRegress || regress,
                         applies := d.applies + nApply, reverts := d.reverts + nRevert,
                         reorgLines := d.reorgLines + (if nRevert > 0 then 1 else 0), deepest := max d.deepest nRevert,
                         maxHeight := max d.maxHeight tipH,
                         spentAtMat := d.spentAtMat + (if spendAtMatHere then 1 else 0),
                         bucketRegress := d.bucketRegress + (if regress then 1 else 0) }
      if res != "ok" then
        -- the host failed to process blocks of a legal chain
        -- attribute the failure with the transcribed variants: which repair would have avoided it
        let failsC (c : Cand) : Bool := match candView c with | .error _ => true | .ok _ => false
        let isC (flatQ spentLt : Bool) (c : Cand) : Bool := match c with
          | .flat v _ => flatQ && v.spentLt == spentLt
          | .buck v _ => !flatQ && v.spentLt == spentLt
        let fails (flatQ spentLt : Bool) : Bool := cands.any fun c => isC flatQ spentLt c && failsC c
        let okc (flatQ spentLt : Bool) : Bool := cands.any fun c => isC flatQ spentLt c && !failsC c
        let cause :=
          if fails true false && okc true true then "spend_at_maturity_height"
          else if fails false true && okc true true then "reorg_across_stat_buckets"
          else if spendAtMatHere then "spend_at_maturity_height"
          else resCause res
        let name := if isC17Failure res then s!"c17/update_never_fails/{cause}"
          else if lookup l.obs "comp" == some "contracts" then s!"c01/l2_update_never_fails/{cause}"
          else if ((lookup l.obs "comp").getD "").startsWith "actions_" then s!"c06/process_actions_never_fails/{(lookup l.obs "comp").getD ""}/{cause}"
          else s!"c16/update_never_fails/{cause}"
        -- a failed chain update leaves every part of the host behind the best chain: with contracts in the store the
        -- contract state does not follow the best chain either (C01), whichever part of the batch tripped first
        let comp := (lookup l.obs "comp").getD "other"
        let also : List Verdict := if d.hasContracts && !(name.startsWith "c01/") then
          [.monitor s!"c01/l2_update_never_fails/{comp}/{cause}" res] else []
        ({ d1 with dead := true }, [.monitor name res] ++ also)
      else
      -- ---- observations
      match getUtxos l.obs "utxo", getOEvs l.obs "ev", getNat l.obs "bal", getNat l.obs "imm",
            getNat l.obs "mbal", getNat l.obs "mimm", getKeyOpt l.obs "aidx", getNat l.obs "aaddr", getNat l.obs "ahash",
            getPairs l.obs "idx", getIntList l.obs "cel", getStrList l.obs "acc", getInt l.obs "mkidx", getInt l.obs "mkcel",
            getNat l.obs "hostrej", getStr l.obs "tip" with
      | some outx, some oev, some bal, some imm, some mbal, some mimm, some aidx, some aaddr, some ahash,
        some oidx, some ocel, some acc, some mkidx, some mkcel, some hostrej, some _ =>
        let spec := specOf (stack.map (·.u.d))
        let outxS := sortU outx
        let oevFull := oev
        let oev := oevFull.map fun e => (e.id, e.blk)
        let oevS := sortP oev
        -- C16 wallet
        let m1 : List Verdict := if outxS == sortU spec.utxos then [] else
          [.monitor "c16/wallet_best_chain/utxos" s!"bestchain={showU (sortU spec.utxos)},host={showU outxS}"]
        let specEv := sortP (spec.events.map fun e => (e.id, e.blk))
        -- the event list against the fold over the best chain: ids, blocks and types
        let specTy := sortP ((stack.flatMap fun b => b.u.evTypes))
        let oevTy := sortP (oevFull.map fun e => (e.id, e.ty))
        let stackKeys0 := stack.map fun b => (b.u.d.h, b.u.d.blk)
        let stale := oevFull.filter fun e => !(stackKeys0.contains (e.h, e.blk)) && !(e.h == 0 && e.ty == 0)
        let evo := (getNatList l.obs "evo").getD []
        let ordered := (evo.zip (evo.drop 1)).all fun (a, b) => a ≥ b
        let m2 : List Verdict :=
          (if stale.isEmpty then [] else
            [.monitor "c16/events_on_best_chain" s!"events_of_disconnected_blocks={showP (stale.map fun e => (e.id, e.blk))}"]) ++
          (if oevS == specEv && (oevTy == specTy || oevFull.all (·.ty == 0)) then [] else
            [.monitor "c16/events_eq_best_chain" s!"bestchain={showP specEv},host={showP oevS}"]) ++
          (if ordered then [] else [.monitor "c16/events_ordered" s!"maturity_heights={evo}"])
        let m3 : List Verdict := if bal == matureSum tipH outx then [] else
          [.monitor "c16/balance_eq_mature_sum" s!"confirmed={bal},sum={matureSum tipH outx},height={tipH}"]
        let m4 : List Verdict := if imm == immatureSum tipH outx then [] else
          [.monitor "c16/immature_eq_sum" s!"immature={imm},sum={immatureSum tipH outx},height={tipH}"]
        -- a drift is attributed to the transcribed defect that reproduces exactly the reported metrics
        let metricsOf (c : Cand) : Option (Nat × Nat) := match candView c with | .ok (_, _, b, i) => some (b, i) | .error _ => none
        let predicts (flatQ spentLt : Bool) : Bool := cands.any fun c =>
          (match c with | .flat v _ => flatQ && v.spentLt == spentLt | .buck v _ => !flatQ && v.spentLt == spentLt) && metricsOf c == some (mbal, mimm)
        let cause :=
          if predicts true false then "/after_spend_at_maturity_height"
          else if predicts false true then "/reorg_across_stat_buckets"
          else if predicts false false then (if d1.sawSpendAtMat then "/after_spend_at_maturity_height" else "/reorg_across_stat_buckets")
          else ""
        let m5 : List Verdict := if mbal == bal && mimm == imm then [] else
          [.monitor ("c16/metrics_eq_balance" ++ cause) s!"metric={mbal}/{mimm},balance={bal}/{imm}"]
        -- C16 announcement, on the implementation's own reports
        let annBlocksApplied := (us.filter fun u => u.apply && (u.a1.isSome || u.a2.isSome)).map fun u => (u.d.h, u.d.blk)
        let revertedKeys := (us.filter (!·.apply)).map fun u => (u.d.h, u.d.blk)
        let onChain : Bool := match aidx with
          | none => true
          | some k => stack.any fun b => (b.u.d.h, b.u.d.blk) == k && (b.u.a1.isSome || b.u.a2.isSome)
        let m6 : List Verdict := if onChain then [] else
          [.monitor "c16/announcement_on_best_chain" s!"recorded={showK aidx}"]
        let m7 : List Verdict :=
          if !annBlocksApplied.isEmpty then
            (match aidx with
             | some k => if annBlocksApplied.contains k then [] else [.monitor "c16/announcement_set_on_connect" s!"recorded={showK aidx},announced_in={showP annBlocksApplied}"]
             | none => [.monitor "c16/announcement_set_on_connect" s!"recorded=none,announced_in={showP annBlocksApplied}"])
          else match d.prevAidx with
            | some k =>
              if revertedKeys.contains k then
                (if aidx == none then [] else [.monitor "c16/announcement_cleared_iff_disconnected/not_cleared_on_disconnect" s!"disconnected={showK (some k)},recorded={showK aidx}"])
              else if aidx == some k then []
              else if aidx == none then [.monitor "c16/announcement_cleared_iff_disconnected/cleared_while_connected" s!"was={showK (some k)},still_connected"]
              else [.monitor "c16/announcement_unchanged_without_event" s!"was={showK (some k)},now={showK aidx}"]
            | none => if aidx == none then [] else [.monitor "c16/announcement_unchanged_without_event" s!"was=none,now={showK aidx}"]
        -- C17, on the implementation's own reports
        let expIdx := sortP (expectedIdx stack everMax)
        let oidxS := sortP oidx
        let stackKeys := stack.map fun b => (b.u.d.h, b.u.d.blk)
        let m8 : List Verdict := if oidxS.all (stackKeys.contains ·) then [] else
          [.monitor "c17/reverted_elements_gone/index" s!"stored={showP (oidxS.filter (!stackKeys.contains ·))}"]
        let m9 : List Verdict := if !m8.isEmpty || oidxS == expIdx then [] else
          [.monitor "c17/index_elements_last_144" s!"expected={expIdx.length}@{showP (expIdx.take 2)},stored={oidxS.length}@{showP (oidxS.take 2)},tip={tipH}"]
        let formed := formedOnStack stack
        let ocelN := ocel.filterMap fun i => if i ≥ 0 then some i.toNat else none
        let m10 : List Verdict := if ocelN.all (formed.contains ·) && ocelN.length == ocel.length then [] else
          [.monitor "c17/reverted_elements_gone/contract" s!"stored={ocel},confirmed={formed}"]
        let m11 : List Verdict := if formed.all (ocelN.contains ·) then [] else
          [.monitor "c17/contract_element_present" s!"stored={ocel},confirmed={formed}"]
        let badAcc := acc.filter fun a => !(a.endsWith ":ok")
        let m12 : List Verdict := badAcc.map fun a =>
          match a.splitOn ":" with
          | _ :: kind :: _ => .monitor s!"c17/element_accepted/{kind}" a
          | _ => .monitor "c17/element_accepted/unknown" a
        let m13 : List Verdict := (if mkidx == 0 then [] else [.monitor "c17/element_proof_valid/index" s!"invalid={mkidx}"]) ++
          (if mkcel == 0 then [] else [.monitor "c17/element_proof_valid/contract" s!"invalid={mkcel}"])
        let m14a : List Verdict := if hostrej == 0 then [] else [.monitor "c17/host_built_txn_rejected" s!"count={hostrej}"]
        -- pairs (basis, element) a concurrent reader got from V2FileContractElement while the batches were processed
        let rdr := ((lookup l.obs "rdr").getD "0:0:-").splitOn ":"
        let rdBad := (rdr.getD 1 "0").toNat?.getD 0
        let m14 : List Verdict := m14a ++ (if rdBad == 0 then [] else
          [.monitor "c17/element_valid_at_returned_basis" s!"pairs={rdr.getD 0 "?"},invalid={rdBad},first={rdr.getD 2 "?"}"])
        let annMons := if d.annDead then [] else m6 ++ m7
        let cviews := (getCViews l.obs "cst").getD []
        let bcv := bestChainViolations stack cviews
        let m15 : List Verdict := if bcv.isEmpty then [] else [.monitor "c01/l2_best_chain" (",".intercalate bcv)]
        let (m16, nAr, nF1) := actMonitors d.strictF1 l
        let mons := m16 ++ m15 ++ m1 ++ m2 ++ m3 ++ m4 ++ m5 ++ annMons ++ m8 ++ m9 ++ m10 ++ m11 ++ m12 ++ m13 ++ m14
        -- ---- correspondence: which transcribed variants explain the host
        let explains (c : Cand) : Bool := match candView c with
          | .ok (tx, ev, b, i) => sortU tx == outxS && sortP (ev.map fun e => (e.id, e.blk)) == oevS && b == mbal && i == mimm
          | .error _ => false
        let alive := cands.filter explains
        let annAlive := anns.filter fun (_, r) => r.idx == aidx && r.addr.getD 0 == aaddr && r.hash.getD 0 == ahash
        let mm1 : List Verdict := if !alive.isEmpty || cands.isEmpty then [] else
          match cands.head? with
          | some c => (match candView c with
              | .ok (tx, ev, b, i) =>
                if sortU tx != outxS then [.mismatch "c16/model/utxos" (showU (sortU tx)) (showU outxS)]
                else if sortP (ev.map fun e => (e.id, e.blk)) != oevS then [.mismatch "c16/model/events" (showP (sortP (ev.map fun e => (e.id, e.blk)))) (showP oevS)]
                else [.mismatch "c16/model/metrics" s!"{b}/{i}({c.name})" s!"{mbal}/{mimm}"]
              | .error f => [.mismatch "c16/model/fault" s!"{repr f}({c.name})" "ok"])
          | none => []
        let mm2 : List Verdict := if !annAlive.isEmpty || anns.isEmpty || d.annDead then [] else
          match anns.head? with
          | some (_, r) => [.mismatch "c16/model/announcement" s!"{showK r.idx}/{r.addr.getD 0}/{r.hash.getD 0}" s!"{showK aidx}/{aaddr}/{ahash}"]
          | none => []
        let mm3 : List Verdict := match es with
          | .error f => [.mismatch "c17/model/fault" s!"{repr f}" "ok"]
          | .ok s =>
            let mi := sortP (s.idx.map fun x => (x.h, x.blk))
            let mc := sortN (s.con.map (·.c))
            let tipBlk := match stack with | b :: _ => b.u.d.blk | [] => 0
            (if mi == oidxS then [] else [.mismatch "c17/model/index_elements" s!"{mi.length}@{showP (mi.take 2)}" s!"{oidxS.length}@{showP (oidxS.take 2)}"]) ++
            (if mc == sortN ocelN then [] else [.mismatch "c17/model/contract_elements" s!"{mc}" s!"{ocel}"]) ++
            (if s.idx.all (fun x => !x.e.corrupt && x.e.basis == tipBlk) && s.con.all (fun x => !x.e.corrupt && x.e.basis == tipBlk) then []
             else [.mismatch "c17/model/basis" "corrupt-or-stale" "n/a"])
        let mms := if mons.isEmpty then mm1 ++ mm2 ++ mm3 else []
        let vs := mons ++ mms
        -- a failed announcement clause does not disturb the rest of the state: keep checking the other clauses
        let onlyAnn := !annMons.isEmpty && vs.length == annMons.length
        let hasV (p : Cand → Bool) := alive.any p
        let d2 := { d1 with
          cands := if alive.isEmpty then cands else alive,
          anns := if annAlive.isEmpty then anns else annAlive,
          prevAidx := aidx,
          dead := !vs.isEmpty && !onlyAnn,
          annDead := d.annDead || !annMons.isEmpty,
          bestChainCmp := d1.bestChainCmp + cviews.length,
          hasContracts := d1.hasContracts || !cviews.isEmpty,
          actLoops := d1.actLoops + nAr,
          pairsRead := d1.pairsRead + ((rdr.getD 0 "0").toNat?.getD 0),
          f1RefusedBroadcast := d1.f1RefusedBroadcast + nF1,
          annSet := d1.annSet + (if annBlocksApplied.isEmpty then 0 else 1),
          annCleared := d1.annCleared + (if d.prevAidx.isSome && aidx.isNone then 1 else 0),
          accOk := d1.accOk + (acc.length - badAcc.length),
          candParent := d1.candParent + (if annAlive.any (·.1 == .parent) then 1 else 0),
          candOwn := d1.candOwn + (if annAlive.any (·.1 == .own) then 1 else 0),
          candAsFound := d1.candAsFound + (if hasV (fun c => match c with | .buck v _ => !v.spentLt | _ => false) then 1 else 0),
          candRepaired := d1.candRepaired + (if hasV (fun c => match c with | .flat v _ => v.spentLt | _ => false) then 1 else 0) }
        (d2, vs)
      | _, _, _, _, _, _, _, _, _, _, _, _, _, _, _, _ => ({ d1 with dead := true }, [.badline "observation fields"])

def stats (d : DState) : String :=
  s!"hists={d.hists} applies={d.applies} reverts={d.reverts} reorg_lines={d.reorgLines} deepest_reorg={d.deepest} max_height={d.maxHeight} fresh_compared={d.freshCmp} ann_set={d.annSet} ann_cleared={d.annCleared} pool_accepts={d.accOk} spend_at_maturity={d.spentAtMat} bucket_regress={d.bucketRegress} expl_ann_parent={d.candParent} expl_ann_own={d.candOwn} expl_metrics_as_found={d.candAsFound} expl_metrics_repaired={d.candRepaired} concurrent_pairs={d.pairsRead} act_loops={d.actLoops} formation1_refused_but_broadcast={d.f1RefusedBroadcast} twin_contracts={d.twinCmp} best_chain_views={d.bestChainCmp} data_contracts_ended={d.dataEnded} data_contracts_successful={d.dataSuccessful}"

end Hostd.Drive.Wallet
