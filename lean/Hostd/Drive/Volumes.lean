import Hostd.Proto
import Hostd.Model.Volumes
/-! Driver for the `volumes` engine (C08 metadata layer, C02 data layer): replays the harness
trace on the model, evaluates the property monitors on the implementation's own observations
(recount by SQL vs. the store's counters, reads vs. roots), and compares model and code. -/
namespace Hostd.Drive.Volumes
open Hostd.Proto Hostd.Volumes

/-! ### parsing helpers -/

def natsOf (s : String) (sep : String) : Option (List Nat) :=
  if s == "" then some [] else (s.splitOn sep).mapM String.toNat?

def getTuples (kv : List (String × String)) (k : String) : Option (List (List Nat)) :=
  (getStrList kv k).bind fun l => l.mapM (natsOf · ":")

def parseLoc (s : String) : Option (Option (Nat × Nat)) :=
  if s == "-" || s == "" then some none
  else match natsOf s ":" with
    | some [v, i] => some (some (v, i))
    | _ => none

/-- `[1/5.6,2/]` : per contract id its root list -/
def getRefs (kv : List (String × String)) (k : String) : Option (List (Nat × List Nat)) :=
  (getStrList kv k).bind fun l => l.mapM fun e =>
    match e.splitOn "/" with
    | [c, rs] => match c.toNat?, natsOf rs "." with
      | some c, some rs => some (c, rs)
      | _, _ => none
    | _ => none

def parseChange (s : String) : Option Change :=
  let body := (s.drop 1).toString
  if s.startsWith "a" then body.toNat?.map Change.append
  else if s.startsWith "t" then body.toNat?.map Change.trim
  else if s.startsWith "u" then match natsOf body ":" with
    | some [i, r] => some (.update i r)
    | _ => none
  else if s.startsWith "s" then match natsOf body ":" with
    | some [i, j] => some (.swap i j)
    | _ => none
  else none

def parseContent (s : String) : Option Content :=
  if s == "Z" then some .zero else if s == "G" then some .garbage else s.toNat?.map Content.dataOf

def showContent : Content → String
  | .zero => "Z" | .garbage => "G" | .dataOf r => toString r

def parseMoves (kv : List (String × String)) (k : String) : Option (List Move) :=
  (getTuples kv k).bind fun l => l.mapM fun t =>
    match t with
    | [f, tv, ti, inj, ok] => some { fromI := f, toV := tv, toI := ti, inj := inj, ok := ok == 1 }
    | _ => none

def parseS1 (s : String) : Option S1 :=
  match s with
  | "pending" => some .pending | "rejected" => some .rejected | "active" => some .active
  | "successful" => some .successful | "failed" => some .failed | _ => none
def parseS2 (s : String) : Option S2 :=
  match s with
  | "pending" => some .pending | "rejected" => some .rejected | "active" => some .active
  | "renewed" => some .renewed | "successful" => some .successful | "failed" => some .failed | _ => none

def resStr : Res → String
  | .ok => "ok" | .exist => "exist" | .placed _ _ => "placed" | .buf _ => "ok" | .migrated _ _ => "ok"
  | .notEnoughStorage => "nospace" | .sectorNotFound => "notfound" | .volumeNotEmpty => "notempty"
  | .volumeNotFound => "novol" | .migrationFailed => "migfailed" | .error _ => "err"
  | .panic _ => "panic" | .badOracle _ => "oracle"

/-- harness result with the panic message cut off -/
def implRes (s : String) : String := if s.startsWith "panic" then "panic" else s

def b01 (b : Bool) : Nat := if b then 1 else 0

def sortStrs (l : List String) : List String := l.mergeSort (fun a b => decide (a ≤ b))
def sortNats (l : List Nat) : List Nat := l.mergeSort (fun a b => decide (a ≤ b))

/-! ### what the model says the tables look like -/

def volsStr (s : State) : List String :=
  sortStrs (s.vols.map fun v => s!"{v.id}:{v.total}:{v.used}:{b01 v.readOnly}:{b01 v.available}")

def occOfVol (v : Volume) : List (Nat × Nat × Nat) :=
  let rec go : List Slot → Nat → List (Nat × Nat × Nat)
    | [], _ => []
    | x :: xs, k => match x.sec with
      | some r => (v.id, k, r) :: go xs (k + 1)
      | none => go xs (k + 1)
  go v.slots 0

def occTriples (s : State) : List (Nat × Nat × Nat) := s.vols.flatMap occOfVol
def tripleStr (t : Nat × Nat × Nat) : String := s!"{t.1}:{t.2.1}:{t.2.2}"
def occStr (s : State) : List String := sortStrs ((occTriples s).map tripleStr)

def refStr (l : List (Nat × List Nat)) : List String :=
  sortStrs (l.map fun (c, rs) => s!"{c}/" ++ ".".intercalate (rs.map toString))

def tmpStr (l : List (Nat × Nat)) : List String := sortStrs (l.map fun (r, e) => s!"{r}:{e}")

/-! ### driver state -/

structure DState where
  f        : Facts := Facts.code     -- which tree the model describes (driver arguments `cachecopy`, `rollbackchecked`)
  m        : State := init 0
  mode     : String := "meta"
  dead     : Bool := false
  -- the implementation's own tables as of the previous line
  iOcc     : List (Nat × Nat × Nat) := []
  iR1      : List (Nat × List Nat) := []
  iR2      : List (Nat × List Nat) := []
  iTmp     : List (Nat × Nat) := []
  iLost    : Nat := 0
  -- bookkeeping for the C02 monitors
  bufMap   : List (Nat × Nat) := []          -- harness buffer ↦ model buffer
  acked    : List (Nat × Bool) := []         -- acknowledged since the last tick/crash; synced since?
  exempt   : List Nat := []                  -- loss permitted (forced removal, RemoveSector) or caller broke the upload protocol
  taint    : List (Nat × String) := []       -- known cause of a bad read
  lastEv   : List (Nat × String) := []
  viaTemp  : List Nat := []                  -- referenced through VolumeManager.StoreSector (no fsync before the reference)
  parked   : Option (Nat × Nat × Nat) := none -- a ResizeVolume call stopped after it read the size: volume, target, size read
  idx      : List (Nat × List Nat) := []      -- volumes whose rows were partly deleted: volume_index of each remaining row, by position
  lastFailed : Option (Nat × Bool) := none   -- the previous line was a failed store of this root; was the root stored before?
  zombie   : Bool := false                   -- the history was flagged at an expiry/prune line: reads that follow at once are still judged against the MODEL's references
  failedStores : Nat := 0
  readBacks : Nat := 0
  -- statistics
  hists : Nat := 0
  ops : Nat := 0
  stores : Nat := 0
  placed : Nat := 0
  exists_ : Nat := 0
  nospace : Nat := 0
  rollbacks : Nat := 0
  migrations : Nat := 0
  moved : Nat := 0
  reclaims : Nat := 0
  reads : Nat := 0
  readsRef : Nat := 0
  crashes : Nat := 0
  healed : Nat := 0
  lostOps : Nat := 0

def setA (k : Nat) (v : String) : List (Nat × String) → List (Nat × String)
  | [] => [(k, v)]
  | (k', v') :: r => if k' = k then (k, v) :: r else (k', v') :: setA k v r

def getA (k : Nat) (l : List (Nat × String)) : Option String := (l.find? (·.1 == k)).map (·.2)

def implRefd (d : DState) (r : Nat) : Bool :=
  d.iR1.any (·.2.contains r) || d.iR2.any (·.2.contains r) || d.iTmp.any (·.1 == r)

def mono (name detail : String) : Verdict := .monitor name detail

/-! ### checks on the observation part of a line -/

structure Obs where
  vols : List (List Nat)      -- id,total,used,ro,avail
  rc   : List (List Nat)      -- id,rows,occupied
  su   : List Nat             -- used,total
  met  : List Nat             -- total,physical,contract,temp,lost
  occ  : List (Nat × Nat × Nat)
  r1   : List (Nat × List Nat)
  r2   : List (Nat × List Nat)
  tmp  : List (Nat × Nat)
  nref : List Nat
  orph : Nat

def parseObs (o : List (String × String)) : Option Obs := do
  let vols ← getTuples o "vols"
  let rc ← getTuples o "rc"
  let su ← (getStr o "su").bind (natsOf · ":")
  let met ← getNatList o "m"
  let occ ← (getTuples o "occ").bind fun l => l.mapM fun t => match t with
    | [v, i, r] => some (v, i, r)
    | _ => none
  let r1 ← getRefs o "r1"
  let r2 ← getRefs o "r2"
  let tmp ← (getTuples o "tmp").bind fun l => l.mapM fun t => match t with
    | [r, e] => some (r, e)
    | _ => none
  let nref ← getNatList o "nref"
  let orph ← getNat o "orph"
  if met.length == 5 && su.length == 2 && nref.length == 3 then
    some { vols, rc, su, met, occ, r1, r2, tmp, nref, orph }
  else none

def hasDup (l : List Nat) : Bool :=
  match l with
  | [] => false
  | x :: xs => xs.contains x || hasDup xs

def hasDupP (l : List (Nat × Nat)) : Bool :=
  match l with
  | [] => false
  | x :: xs => xs.contains x || hasDupP xs

/-- C08 monitors: the store's counters against the independent recount (implementation vs itself) -/
def accountingMonitors (ob : Obs) : List Verdict :=
  let v1 := if hasDup (ob.occ.map (·.2.2)) then [mono "slot_unique" "a sector occupies two slots"] else []
  let v2 := if hasDupP (ob.occ.map fun t => (t.1, t.2.1)) then [mono "slot_unique" "two sectors in one slot"] else []
  let v3 := if ob.orph != 0 then [mono "slot_unique/orphan" s!"orphan slot rows={ob.orph}"] else []
  let perVol := ob.vols.flatMap fun v =>
    match v with
    | [id, total, used, _, _] =>
      match ob.rc.find? (fun c => c.head? == some id) with
      | some [_, rows, occd] =>
        (if used != occd then [mono s!"used_eq_count/{id}" s!"used_sectors={used},occupied={occd}"] else []) ++
        (if total != rows then [mono "total_eq_slots" s!"volume={id},total_sectors={total},slot_rows={rows}"] else []) ++
        (if (ob.occ.filter (·.1 == id)).length != occd then [.badline "harness: occ list and count disagree"] else [])
      | _ => [mono "total_eq_slots" s!"volume={id} has no recount row"]
    | _ => [.badline "vols tuple"]
  let rows := (ob.rc.map fun c => c.getD 1 0).sum
  let occd := (ob.rc.map fun c => c.getD 2 0).sum
  let mt := ob.met.getD 0 0; let mp := ob.met.getD 1 0; let mc := ob.met.getD 2 0; let mtmp := ob.met.getD 3 0
  let n1 := ob.nref.getD 0 0; let n2 := ob.nref.getD 1 0; let nt := ob.nref.getD 2 0
  let v4 := if mt != rows then [mono "metrics_eq/totalSectors" s!"metric={mt},slot_rows={rows}"] else []
  let v5 := if mp != occd then [mono "metrics_eq/physicalSectors" s!"metric={mp},occupied={occd}"] else []
  let v6 := if mc != n1 + n2 then [mono "metrics_eq/contractSectors" s!"metric={mc},rows={n1}+{n2}"] else []
  let v7 := if mtmp != nt then [mono "metrics_eq/tempSectors" s!"metric={mtmp},rows={nt}"] else []
  let v8 := if ob.su != [occd, rows] then [mono "metrics_eq/storageUsage" s!"usage={ob.su},recount={occd}:{rows}"] else []
  v1 ++ v2 ++ v3 ++ perVol ++ v4 ++ v5 ++ v6 ++ v7 ++ v8

/-- volume_index of the row at position `pos` of volume `v` -/
def toImpl (idx : List (Nat × List Nat)) (v pos : Nat) : Nat :=
  match idx.find? (·.1 == v) with
  | some e => e.2.getD pos 999999
  | none => pos

/-- position of the row with volume_index `i` -/
def toPos (idx : List (Nat × List Nat)) (v i : Nat) : Nat :=
  match idx.find? (·.1 == v) with
  | some e => (e.2.findIdx? (· == i)).getD 999999
  | none => i

/-- model vs implementation on the tables -/
def tableMismatches (idx : List (Nat × List Nat)) (s : State) (ob : Obs) : List Verdict :=
  let iv := sortStrs (ob.vols.map fun v => ":".intercalate (v.map toString))
  let mocc := sortStrs ((occTriples s).map fun t => tripleStr (t.1, toImpl idx t.1 t.2.1, t.2.2))
  cmp "meta/vols" (showStrList (volsStr s)) (showStrList iv) ++
  cmp "meta/occ" (showStrList mocc) (showStrList (sortStrs (ob.occ.map tripleStr))) ++
  cmp "meta/r1" (showStrList (refStr (s.c1.map fun c => (c.id, c.roots)))) (showStrList (refStr ob.r1)) ++
  cmp "meta/r2" (showStrList (refStr (s.c2.map fun c => (c.id, c.roots)))) (showStrList (refStr ob.r2)) ++
  cmp "meta/tmp" (showStrList (tmpStr (s.temps.map fun t => (t.sec, t.exp)))) (showStrList (tmpStr ob.tmp)) ++
  cmp "meta/metrics" (showNatList [s.m.total, s.m.physical, s.m.contract, s.m.temp, s.m.lost]) (showNatList ob.met)

def firstOnly (l : List Verdict) : List Verdict := l.take 1

/-- every monitor that fails on one observation is reported once (the monitors are evaluated on the implementation's
own observation and do not depend on each other; the properties select theirs by name, so a failing monitor of one
property must not hide a failing monitor of another) -/
def distinctMonitors (l : List Verdict) : List Verdict :=
  l.foldl (fun acc v => match v with
    | .monitor n _ => if acc.any (fun w => match w with | .monitor m _ => m == n | _ => false) then acc else acc ++ [v]
    | _ => acc) []

/-- expected survivors of the three expiry queries, computed from the implementation's tables
before the operation and the contracts' status / window (C08 `reclaim_exact`) -/
def survivors1 (s : State) (h : Nat) (before : List (Nat × List Nat)) : List (Nat × List Nat) :=
  before.map fun (c, rs) => match findC1 c s.c1 with
    | some con => if con.status == .rejected || decide (con.wEnd < h) then (c, []) else (c, rs)
    | none => (c, rs)
def survivors2 (s : State) (h : Nat) (before : List (Nat × List Nat)) : List (Nat × List Nat) :=
  before.map fun (c, rs) => match findC2 c s.c2 with
    | some con => if con.status == .rejected || decide (con.expH < h) then (c, []) else (c, rs)
    | none => (c, rs)
def survivorsT (h : Nat) (before : List (Nat × Nat)) : List (Nat × Nat) := before.filter fun (_, e) => decide (e > h)

def obsRefd (ob : Obs) (r : Nat) : Bool :=
  ob.r1.any (·.2.contains r) || ob.r2.any (·.2.contains r) || ob.tmp.any (·.1 == r)

def reclaimMonitors (d : DState) (pre : State) (h : Nat) (which : List String) (ob : Obs) : List Verdict :=
  let v1 := if which.contains "v1" && refStr ob.r1 != refStr (survivors1 pre h d.iR1)
    then [mono "reclaim_exact/v1" s!"h={h},want={showStrList (refStr (survivors1 pre h d.iR1))},got={showStrList (refStr ob.r1)}"] else []
  let v2 := if which.contains "v2" && refStr ob.r2 != refStr (survivors2 pre h d.iR2)
    then [mono "reclaim_exact/v2" s!"h={h},want={showStrList (refStr (survivors2 pre h d.iR2))},got={showStrList (refStr ob.r2)}"] else []
  let v3 := if which.contains "temp" && tmpStr ob.tmp != tmpStr (survivorsT h d.iTmp)
    then [mono "reclaim_exact/temp" s!"h={h},want={showStrList (tmpStr (survivorsT h d.iTmp))},got={showStrList (tmpStr ob.tmp)}"] else []
  let want := sortStrs ((d.iOcc.filter fun t => obsRefd ob t.2.2).map tripleStr)
  let got := sortStrs (ob.occ.map tripleStr)
  let v4 := if which.contains "slots" && want != got
    then [mono "reclaim_exact/slots" s!"h={h},want={showStrList want},got={showStrList got}"] else []
  v1 ++ v2 ++ v3 ++ v4

/-- slots a prune cleared must hold sectors that are unreferenced and were not uploaded
(acknowledged) within the prune interval (C02/C08) -/
def pruneMonitor (d : DState) (ob : Obs) : List Verdict :=
  let cleared := d.iOcc.filter fun t => !ob.occ.contains t
  match cleared.find? (fun t => obsRefd ob t.2.2) with
  | some t => [mono "prune_only_unreferenced" s!"cleared slot {tripleStr t} of a referenced sector"]
  | none =>
    match cleared.find? (fun t => d.acked.any (·.1 == t.2.2)) with
    | some t => [mono "prune_only_unreferenced" s!"cleared slot {tripleStr t} of a sector uploaded within the prune interval"]
    | none => []

/-! ### stepping -/

def stepM (d : DState) (op : Op) : DState × Res :=
  let (s, r) := stepF d.f d.m op
  ({ d with m := s }, r)

/-- `finish` of the selected tree followed by the cache semantics of the selected tree -/
def finishD (d : DState) (s : State) (w : Nat) (ok : Bool) : State × Res :=
  let (s', r) := finishF d.f s w ok
  (fixCache d.f s', r)

def resVerdict (field : String) (model : Res) (impl : String) : List Verdict :=
  match model with
  | .badOracle why =>
    if why == "ineligible location" then [mono "placement_eligible" s!"impl={impl}"]
    else [.mismatch (field ++ "/oracle") why impl]
  | _ => cmp field (resStr model) (implRes impl)

def noteEv (d : DState) (rs : List Nat) (ev : String) : DState :=
  { d with lastEv := rs.foldl (fun l r => setA r ev l) d.lastEv }

/-- a root becomes referenced: was the upload protocol (acknowledged, then Sync, no tick in between) followed? -/
def noteCommit (d : DState) (rs : List Nat) : DState :=
  rs.foldl (fun d r =>
    if implRefd d r || d.acked.contains (r, true) then d else { d with exempt := r :: d.exempt }) d

def ack (d : DState) (r : Nat) : DState :=
  { d with acked := (r, false) :: d.acked.filter (·.1 != r) }

/-- finish a line: accounting monitors, per-op monitors, then model-vs-code, then remember the tables -/
def conclude (d : DState) (l : Line) (pre : List Verdict) (extra : Obs → List Verdict) : DState × List Verdict :=
  match parseObs l.obs with
  | none => ({ d with dead := true }, pre ++ [.badline "observation fields"])
  | some ob =>
    let mons := accountingMonitors ob ++ extra ob
    let vs := pre ++ mons
    let vs := if vs.isEmpty then firstOnly (tableMismatches d.idx d.m ob) else vs
    let d := { d with iOcc := ob.occ, iR1 := ob.r1, iR2 := ob.r2, iTmp := ob.tmp, iLost := ob.met.getD 4 0,
                      dead := !vs.isEmpty, ops := d.ops + 1 }
    (d, distinctMonitors (vs.filter fun v => match v with | .monitor .. => true | _ => false) ++
        (if vs.any (fun v => match v with | .monitor .. => true | _ => false) then [] else firstOnly vs))

/-- `lost_counted`: lostSectors moves only on forced removal / RemoveSector and then by exactly the
number of occupied locations that disappeared -/
def lostMonitor (d : DState) (permitted : Bool) (ob : Obs) : List Verdict :=
  let lost := ob.met.getD 4 0
  let dropped := d.iOcc.length - ob.occ.length
  if permitted then
    if lost != d.iLost + dropped then [mono "lost_counted" s!"lost {d.iLost}->{lost}, locations dropped={dropped}"] else []
  else if lost != d.iLost then [mono "lost_counted" s!"lostSectors changed {d.iLost}->{lost} without a forced removal"] else []

def droppedSectors (d : DState) (ob : Obs) : List Nat :=
  (d.iOcc.filter fun t => !ob.occ.any (·.2.2 == t.2.2)).map (·.2.2)

/-- placement / not-enough-storage monitors for one StoreSector answer (C08 `store_fails_iff`) -/
def storeMonitors (pre : State) (r : Nat) (impl : String) (loc : Option (Nat × Nat)) : List Verdict :=
  let loc? := located pre.vols r
  let elig := hasEligible pre.vols
  if impl == "nospace" && (loc? || elig) then
    [mono "store_fails_iff" s!"not enough storage although located={loc?},eligible_slot={elig}"]
  else if (impl == "placed" || impl == "err") && loc.isSome && !loc? && !elig then
    [mono "store_fails_iff" "placed although no available writable volume has an empty slot"]
  else match loc with
    | some (v, i) => if !loc? && !eligibleAt pre.vols v i then [mono "placement_eligible" s!"slot {v}:{i} is not an empty slot of an available writable volume"] else []
    | none => []

def moveMonitors (pre : State) (v start : Nat) (moves : List Move) : List Verdict :=
  -- only the first move can be judged on the pre-state without replaying; the model replays all of them
  match moves with
  | mv :: _ => if !validTo pre.vols v start mv.toV mv.toI then [mono "placement_eligible/migrate" s!"target {mv.toV}:{mv.toI}"] else []
  | [] => []

def situation (d : DState) (r : Nat) : String :=
  match getA r d.taint with
  | some c => c
  | none => match getA r d.lastEv with
    | some e => "after_" ++ e
    | none => "unexplained"

def mapBuf (d : DState) (k : Nat) : Option Nat := (d.bufMap.find? (·.1 == k)).map (·.2)

def stepCore (d : DState) (l : Line) : DState × List Verdict :=
  if l.op == "reset" then
    let cache := (getNat l.args "cache").getD 0
    let mode := (getStr l.args "mode").getD "meta"
    ({ d with m := init cache, mode := mode, dead := false, iOcc := [], iR1 := [], iR2 := [], iTmp := [], iLost := 0,
              bufMap := [], acked := [], exempt := [], taint := [], lastEv := [], viaTemp := [], parked := none, idx := [], lastFailed := none, zombie := false, hists := d.hists + 1 }, [])
  else if d.dead then
    -- the code dropped references (or slots) the model keeps; whatever was flagged there, the consequence C02 cares
    -- about is whether the sectors the MODEL still counts as referenced can be read
    if d.zombie && l.op == "read" then
      match getNat l.args "r", getStr l.obs "c" with
      | some r, some c =>
        let res := (getStr l.obs "res").getD "ok"
        let intact := res == "ok" && c == toString r
        if referenced d.m r && !d.exempt.contains r && !intact then
          ({ d with zombie := false }, [mono s!"read_intact/{situation d r}" s!"root={r},res={res},content={c} (still referenced in the model: the preceding expiry/prune step removed too much)"])
        else (d, [])
      | _, _ => (d, [])
    else (d, [])
  else
  let a := l.args
  let o := l.obs
  let res := (getStr o "res").getD "ok"
  -- the code's own assertion that a counter went below zero (`negative stat value`, `volume usage is negative`)
  if res.startsWith "panic" && (res.splitOn "negative").length > 1 then
    ({ d with dead := true }, [mono "metrics_eq/negative_panic" res])
  else
  match l.op with
  | "addvol" =>
    match getNat a "ro", getNat o "id" with
    | some ro, some id =>
      let (d, r) := stepM d (.addVolume id (ro == 1))
      conclude d l (resVerdict "meta/res" r res) (lostMonitor d false)
    | _, _ => (d, [.badline "addvol"])
  | "avail" =>
    match getNat a "v", getNat a "b" with
    | some v, some b => let (d, _) := stepM d (.setAvailable v (b == 1)); conclude d l [] (lostMonitor d false)
    | _, _ => (d, [.badline "avail"])
  | "setro" | "vmsetro" =>
    match getNat a "v", getNat a "b" with
    | some v, some b =>
      -- VolumeManager.SetReadOnly refuses unknown volumes; the store's UPDATE is a no-op
      let known := (findVol v d.m.vols).isSome
      if l.op == "vmsetro" && !known then conclude d l (cmp "meta/res" "err" (implRes res)) (lostMonitor d false)
      else let (d, _) := stepM d (.setReadOnly v (b == 1)); conclude d l (cmp "meta/res" "ok" (implRes res)) (lostMonitor d false)
    | _, _ => (d, [.badline "setro"])
  | "grow" =>
    match getNat a "v", getNat a "n" with
    | some v, some n => let (d, r) := stepM d (.grow v n); conclude d l (resVerdict "meta/res" r res) (lostMonitor d false)
    | _, _ => (d, [.badline "grow"])
  | "shrink" =>
    match getNat a "v", getNat a "n" with
    | some v, some n =>
      let pre := d
      let (d, r) := stepM d (.shrink v n)
      conclude d l (resVerdict "meta/res" r res) fun ob =>
        lostMonitor pre false ob ++
        (if ob.occ.length < pre.iOcc.length then [mono "shrink_keeps_occupied" s!"volume={v},n={n}"] else [])
    | _, _ => (d, [.badline "shrink"])
  | "rmvol" =>
    match getNat a "v", getNat a "force" with
    | some v, some force =>
      let pre := d
      let d := { d with lostOps := d.lostOps + 1 }
      match getNatList o "rows" with
      | some rows =>
        -- the removal stopped between two batches (process death, or a StoreSector in the pause): `rows` are the
        -- volume_index values of the slot rows that are left
        let cur : List Nat := match d.idx.find? (·.1 == v) with
          | some e => e.2
          | none => List.range ((findVol v d.m.vols).map (·.slots.length) |>.getD 0)
        let gone := (List.range cur.length).filter fun p => !rows.contains (cur.getD p 0)
        let (d, r1) := stepM d (.removeRows v (force == 1) gone)
        let d := { d with idx := (v, rows) :: d.idx.filter (·.1 != v) }
        -- the concurrent StoreSector
        let (d, sv) := match getStr o "sres", getNat a "store", (getStr o "sloc").bind parseLoc with
          | some sres, some r, some loc =>
            if sres == "none" then (d, []) else
            let locP := loc.map fun (lv, li) => (lv, toPos d.idx lv li)
            let (s1, b) := newBuf d.m (.dataOf r)
            let (s2, rr) := reserve s1 0 r b locP
            let (s3, rr) := match rr with
              | .placed _ _ => let (s3, rf) := finishD d s2 0 true; (s3, match rf with | .ok => rr | x => x)
              | _ => (s2, rr)
            let want := match rr with | .placed _ _ => "placed" | .exist => "exist" | x => resStr x
            ({ d with m := s3, stores := d.stores + 1 }, cmp "meta/sres" want sres)
          | _, _, _ => (d, [])
        -- what RemoveVolume itself answered
        let (d, rv) := if implRes res == "crash" then (d, match r1 with | .ok | .volumeNotEmpty => [] | x => resVerdict "meta/res" x "ok") else
          let (d, r2) := stepM d (.removeVolume v (force == 1))
          (d, resVerdict "meta/res" r2 res)
        let d := if (findVol v d.m.vols).isNone then { d with idx := d.idx.filter (·.1 != v) } else d
        let (d, vs) := conclude d l (sv ++ rv) (lostMonitor pre (force == 1))
        ({ d with exempt := (pre.iOcc.filter (·.1 == v)).map (·.2.2) ++ d.exempt }, vs)
      | none =>
      let (d, r) := stepM d (.removeVolume v (force == 1))
      let d := if (findVol v d.m.vols).isNone then { d with idx := d.idx.filter (·.1 != v) } else d
      let (d, vs) := conclude d l (resVerdict "meta/res" r res) (lostMonitor pre (force == 1))
      ({ d with exempt := (pre.iOcc.filter (·.1 == v)).map (·.2.2) ++ d.exempt }, vs)
    | _, _ => (d, [.badline "rmvol"])
  | "addc1" =>
    match getNat a "c", getNat a "wend" with
    | some c, some we => let (d, r) := stepM d (.addC1 c we); conclude d l (resVerdict "meta/res" r res) (lostMonitor d false)
    | _, _ => (d, [.badline "addc1"])
  | "addc2" =>
    match getNat a "c", getNat a "exp" with
    | some c, some e => let (d, r) := stepM d (.addC2 c e); conclude d l (resVerdict "meta/res" r res) (lostMonitor d false)
    | _, _ => (d, [.badline "addc2"])
  | "reject" =>
    match getNatList o "rej1", getNatList o "rej2" with
    | some r1, some r2 =>
      let d := r1.foldl (fun d c => (stepM d (.setStatus1 c .rejected)).1) d
      let d := r2.foldl (fun d c => (stepM d (.setStatus2 c .rejected)).1) d
      conclude d l [] (lostMonitor d false)
    | _, _ => (d, [.badline "reject"])
  | "confirm" | "resolve" =>
    match getNat a "k", getNat a "c", getStr o "st" with
    | some 1, some c, some st => match parseS1 st with
      | some s1 => let (d, _) := stepM d (.setStatus1 c s1); conclude d l [] (lostMonitor d false)
      | none => (d, [.badline "status word"])
    | some 2, some c, some st => match parseS2 st with
      | some s2 => let (d, _) := stepM d (.setStatus2 c s2); conclude d l [] (lostMonitor d false)
      | none => (d, [.badline "status word"])
    | _, _, _ => (d, [.badline "status"])
  | "store" =>
    -- Store.StoreSector with a callback that only reports the location (fail=1: returns an error)
    match getNat a "r", getNat a "fail", (getStr o "loc").bind parseLoc with
    | some r, some fail, some locI =>
      let pre := d.m
      let loc := locI.map fun (lv, li) => (lv, toPos d.idx lv li)
      let (s1, b) := newBuf d.m (.dataOf r)
      let (s2, r1) := reserve s1 0 r b loc
      let (s3, r2) := match r1 with
        | .placed _ _ => let (s3, rf) := finishD d s2 0 (fail == 0); (s3, if fail == 0 then r1 else rf)
        | _ => (s2, r1)
      let d := { d with m := s3, stores := d.stores + 1 }
      let d := match r2 with
        | .placed _ _ => { d with placed := d.placed + 1 } | .exist => { d with exists_ := d.exists_ + 1 }
        | .notEnoughStorage => { d with nospace := d.nospace + 1 } | .error _ => { d with rollbacks := d.rollbacks + 1 } | _ => d
      let sm := storeMonitors pre r (implRes res) loc
      conclude d l (if sm.isEmpty then resVerdict "meta/res" r2 res else sm) (lostMonitor d false)
    | _, _, _ => (d, [.badline "store"])
  | "write" | "wbuf" | "reserve" | "storetemp" =>
    match getNat a "r", (getStr o "loc").bind parseLoc, getNat o "buf" with
    | some r, some loc, some k =>
      let pre := d.m
      let w := (getNat a "w").getD 0
      -- the buffer handed to Write: a new one holding the data of r, or an existing harness buffer
      let (d, b?) := if l.op == "wbuf" then (d, mapBuf d ((getNat a "b").getD 0)) else
        let (s1, b) := newBuf d.m (.dataOf r)
        ({ d with m := s1, bufMap := (k, b) :: d.bufMap }, some b)
      match b? with
      | none => (d, [.badline "unknown buffer"])
      | some b =>
        let otherPending := d.m.pending.any (fun p => p.r == r)
        -- injected failure: `db` = StoreSector fails before it touched the database (nothing happens);
        -- `cb` / `data` = the slot is committed, the callback fails (before / at the data write), the slot is rolled back
        let fault := (getStr a "fault").getD ""
        let wasStored := located pre.vols r
        let (s2, r1) := if fault == "db" then (d.m, Res.error "injected database fault") else reserve d.m w r b loc
        let paused := l.op == "reserve"
        let (s3, r2) := match r1 with
          | .placed _ _ => if paused then (s2, r1) else let (s3, rf) := finishD d s2 w (fault == ""); (s3, match rf with | .ok => r1 | x => x)
          | _ => (s2, r1)
        let d := { d with m := s3, stores := d.stores + 1 }
        let d := match r2 with
          | .error _ => { d with lastFailed := some (r, wasStored), failedStores := d.failedStores + 1, rollbacks := d.rollbacks + (if fault == "db" then 0 else 1) }
          | _ => { d with lastFailed := none }
        let d := match r2 with
          | .placed _ _ => { d with placed := d.placed + 1 } | .exist => { d with exists_ := d.exists_ + 1 }
          | .notEnoughStorage => { d with nospace := d.nospace + 1 } | _ => d
        -- acknowledgement bookkeeping
        let acked? := match r2 with | .exist => true | .placed _ _ => !paused | _ => false
        let d := if acked? then ack d r else d
        let d := if r2 == .exist && otherPending then { d with taint := setA r "two_writers" d.taint } else d
        let d := match r2 with | .placed _ _ => noteEv d [r] "write" | _ => d
        -- storetemp = write + AddTempSector (no Sync in between)
        let (d, r3) := if l.op == "storetemp" then
            match r2 with
            | .placed _ _ | .exist =>
              let exp := (getNat a "exp").getD 0
              let d := if implRefd d r then d else { d with viaTemp := r :: d.viaTemp }
              let (d, rt) := stepM d (.addTemp r exp)
              (d, match rt with | .ok => Res.ok | x => x)
            | x => (d, x)
          else (d, r2)
        let want := match r3 with | .placed _ _ => (if l.op == "storetemp" then "ok" else "placed") | .exist => (if l.op == "storetemp" then "ok" else "exist") | x => resStr x
        let sm := storeMonitors pre r (implRes res) loc
        let rv := match r3 with
          | .badOracle why => if why == "ineligible location" then [mono "placement_eligible" s!"impl={res}"] else [Verdict.mismatch "meta/res/oracle" why res]
          | _ => cmp "meta/res" want (implRes res)
        conclude d l (if sm.isEmpty then rv else sm) (lostMonitor d false)
    | _, _, _ => (d, [.badline "write"])
  | "finish" =>
    match getNat a "w", getNat a "ok" with
    | some w, some ok =>
      let p := findPending w d.m.pending
      let (d, r) := stepM d (.finish w (ok == 1))
      let d := match p, r with
        | some p, .ok => noteEv (ack { d with lastFailed := none } p.r) [p.r] "write"
        | some p, .error _ =>
          -- the root was not stored before its reserve unless a second writer was told `exist` meanwhile (two_writers)
          { d with rollbacks := d.rollbacks + 1, failedStores := d.failedStores + 1,
                   lastFailed := if (getA p.r d.taint).isSome then none else some (p.r, false) }
        | _, .error _ => { d with rollbacks := d.rollbacks + 1 }
        | _, _ => d
      conclude d l (resVerdict "meta/res" r res) (lostMonitor d false)
    | _, _ => (d, [.badline "finish"])
  | "revise1" =>
    match getNat a "c", (getStrList a "ch").bind (·.mapM parseChange) with
    | some c, some chs =>
      let news := chs.filterMap fun ch => match ch with | .append r => some r | .update _ r => some r | _ => none
      let d := noteCommit d news
      let (d, r) := stepM d (.revise1 c chs)
      conclude d l (resVerdict "meta/res" r res) (lostMonitor d false)
    | _, _ => (d, [.badline "revise1"])
  | "revise2" =>
    match getNat a "c", getNatList a "roots" with
    | some c, some roots =>
      let d := noteCommit d roots
      let (d, r) := stepM d (.revise2 c roots)
      conclude d l (resVerdict "meta/res" r res) (lostMonitor d false)
    | _, _ => (d, [.badline "revise2"])
  | "temp" =>
    match getNat a "r", getNat a "exp" with
    | some r, some e =>
      let d := noteCommit d [r]
      let (d, rr) := stepM d (.addTemp r e)
      conclude d l (resVerdict "meta/res" rr res) (lostMonitor d false)
    | _, _ => (d, [.badline "temp"])
  | "temps" =>
    match getTuples a "l" with
    | some ts =>
      let tl := ts.filterMap fun t => match t with | [r, e] => some (Temp.mk r e) | _ => none
      let d := noteCommit d (tl.map (·.sec))
      let (d, rr) := stepM d (.addTemps tl)
      conclude d l (resVerdict "meta/res" rr res) (lostMonitor d false)
    | none => (d, [.badline "temps"])
  | "expire1" | "expire2" | "expiret" =>
    match getNat a "h" with
    | some h =>
      let pre := d
      let (op, which) := if l.op == "expire1" then (Op.expire1 h, "v1") else if l.op == "expire2" then (Op.expire2 h, "v2") else (Op.expireTemp h, "temp")
      if implRes res == "crash" then
        -- the loop died between two batches: what is left of the reference tables is the oracle
        match parseObs l.obs with
        | none => (d, [.badline "observation fields"])
        | some ob =>
          let pop := if l.op == "expire1" then Op.expire1Part h ob.r1 else if l.op == "expire2" then Op.expire2Part h ob.r2
            else Op.expireTempPart h (ob.tmp.map fun (r, e) => Temp.mk r e)
          let (d, r) := stepM d pop
          conclude d l (resVerdict "meta/res" r "ok") (lostMonitor pre false)
      else
      let (d, r) := stepM d op
      conclude d l (resVerdict "meta/res" r res) fun ob => lostMonitor pre false ob ++ reclaimMonitors pre pre.m h [which] ob
    | none => (d, [.badline "expire"])
  | "tick" =>
    let (d, _) := stepM d .tick
    conclude { d with acked := [] } l [] (lostMonitor d false)
  | "prune" =>
    let pre := d
    if implRes res == "crash" || implRes res == "cancelled" then
      match parseObs l.obs with
      | none => (d, [.badline "observation fields"])
      | some ob =>
        let cleared := (pre.iOcc.filter fun t => !ob.occ.contains t).map fun t => (t.1, toPos d.idx t.1 t.2.1)
        let (d, r) := stepM d (.prunePart cleared)
        let d := noteEv d (cleared.filterMap fun c => (pre.iOcc.find? (fun t => t.1 == c.1 && toPos pre.idx t.1 t.2.1 == c.2)).map (·.2.2)) "prune"
        conclude d l (resVerdict "meta/res" r "ok") fun ob => lostMonitor pre false ob ++ pruneMonitor pre ob
    else
    let (d, r) := stepM d .prune
    let d := noteEv d (d.iOcc.map (·.2.2)) "prune"
    conclude d l (resVerdict "meta/res" r res) fun ob => lostMonitor pre false ob ++ pruneMonitor pre ob
  | "reclaim" =>
    match getNat a "h" with
    | some h =>
      let pre := d
      let s := reclaim d.f d.m h
      let d := { d with m := s, acked := [], reclaims := d.reclaims + 1 }
      let d := noteEv d (pre.iOcc.map (·.2.2)) "prune"
      conclude d l (cmp "meta/res" "ok" (implRes res)) fun ob =>
        lostMonitor pre false ob ++ reclaimMonitors pre pre.m h ["v1", "v2", "temp", "slots"] ob
    | none => (d, [.badline "reclaim"])
  | "rmsector" =>
    match getNat a "r" with
    | some r =>
      let pre := d
      let (d, rr) := stepM d (.removeSector r (d.mode == "data"))
      let d := { d with lostOps := d.lostOps + 1 }
      let (d, vs) := conclude d l (resVerdict "meta/res" rr res) (lostMonitor pre true)
      ((if rr == .ok then { d with exempt := r :: d.exempt } else d), vs)
    | none => (d, [.badline "rmsector"])
  | "migrate" =>
    match getNat a "v", getNat a "start", parseMoves o "moves", getNat o "migrated", getNat o "failed" with
    | some v, some start, some moves, some nm, some nf =>
      let pre := d
      if implRes res == "crash" then
        let (d, r) := stepM d (.migratePart v start moves)
        let d := { d with migrations := d.migrations + 1, moved := d.moved + nm }
        conclude d l (match r with | .error _ | .migrated _ _ => [] | x => resVerdict "meta/res" x "interrupted") (lostMonitor pre false)
      else
      let (d, r) := stepM d (.migrate v start moves)
      let d := { d with migrations := d.migrations + 1, moved := d.moved + nm }
      let rv := match r with
        | .migrated mo mf => cmp "meta/res" "ok" (implRes res) ++ cmp "meta/migrated" s!"{mo}/{mf}" s!"{nm}/{nf}"
        | x => resVerdict "meta/res" x res
      conclude d l rv (lostMonitor pre false)
    | _, _, _, _, _ => (d, [.badline "migrate"])
  | "vmadd" =>
    match getNat a "n", getNat o "id" with
    | some n, some id =>
      let (d, r) := stepM d (.vmAddVolume id n)
      conclude d l (resVerdict "meta/res" r res) (lostMonitor d false)
    | _, _ => (d, [.badline "vmadd"])
  | "vmresize" =>
    match getNat a "v", getNat a "n", parseMoves o "moves" with
    | some v, some n, some moves =>
      let pre := d
      let (d, r) := stepM d (.vmResize v n moves)
      let movedRoots := (pre.iOcc.filter fun t => t.1 == v && moves.any (fun mv => mv.fromI == t.2.1 && mv.ok)).map (·.2.2)
      let d := noteEv d ((pre.iOcc.filter fun t => t.1 == v).map (·.2.2)) "resize"
      let d := noteEv d movedRoots "migrate"
      let d := { d with migrations := d.migrations + 1, moved := d.moved + movedRoots.length }
      conclude d l (resVerdict "meta/res" r res) fun ob =>
        lostMonitor pre false ob ++
        (if ob.occ.length < pre.iOcc.length then [mono "shrink_keeps_occupied" s!"volume={v},n={n}"] else [])
    | _, _, _ => (d, [.badline "vmresize"])
  | "vmremove" =>
    match getNat a "v", getNat a "force", parseMoves o "moves" with
    | some v, some force, some moves =>
      let pre := d
      let (d, r) := stepM d (.vmRemove v (force == 1) moves)
      let movedRoots := (pre.iOcc.filter fun t => t.1 == v && moves.any (fun mv => mv.fromI == t.2.1 && mv.ok)).map (·.2.2)
      let d := noteEv d movedRoots "migrate"
      let d := { d with migrations := d.migrations + 1, moved := d.moved + movedRoots.length, lostOps := d.lostOps + 1 }
      let (d, vs) := conclude d l (resVerdict "meta/res" r res) fun ob =>
        lostMonitor pre (force == 1) ob ++
        (if force == 0 && ob.occ.length < pre.iOcc.length then [mono "lost_counted" "non-forced removal dropped an occupied slot"] else [])
      -- sectors whose location a forced removal dropped may be lost
      let gone := if force == 1 then (pre.iOcc.filter fun t => t.1 == v && !d.iOcc.any (·.2.2 == t.2.2)).map (·.2.2) else []
      ({ d with exempt := gone ++ d.exempt }, vs)
    | _, _, _ => (d, [.badline "vmremove"])
  | "read" =>
    match getNat a "r", getNat o "buf", getStr o "c" with
    | some r, some k, some c =>
      let refd := implRefd d r && !d.exempt.contains r
      let d := { d with reads := d.reads + 1, readsRef := d.readsRef + b01 refd }
      let intact := res == "ok" && c == toString r
      let (dm, rm) := stepM d (.read r)
      -- C09: the previous line was a failed store of this root; it must have had no visible effect
      let st := (getNat o "st").getD 1
      let modelIntact := match rm with | .buf bm => dm.m.heap[bm]? == some (.dataOf r) | _ => false
      -- a root that sat in the cache before its store failed (e.g. pruned meanwhile) is still served from there: the
      -- failed store changed nothing; the model's cache, which a failed store leaves alone, says which case this is
      let modelHit := match rm with | .buf _ => true | _ => false
      let c09 : List Verdict := match d.lastFailed with
        | some (fr, wasStored) =>
          if fr != r then []
          else if !wasStored && st == 0 && res == "ok" && !modelHit then
            [mono (if d.m.cacheSize > 0 then "c09/failed_write_noop/cache" else "c09/failed_write_noop/read")
              s!"root={r}: its store failed and the database has no such sector, but ReadSector returns res={res},content={c}"]
          else if wasStored && modelIntact && !intact then
            [mono "c09/failed_write_noop/old_data" s!"root={r}: the failed re-store of a stored sector changed what ReadSector returns: res={res},content={c}"]
          else []
        | none => []
      let dm := { dm with lastFailed := none, readBacks := dm.readBacks + (if d.lastFailed.isSome then 1 else 0) }
      if !c09.isEmpty then
        ({ dm with dead := true }, c09 ++ (if refd && !intact then [mono s!"read_intact/{situation d r}" s!"root={r},res={res},content={c}"] else []))
      else
      if refd && !intact then
        ({ dm with dead := true }, [mono s!"read_intact/{situation d r}" s!"root={r},res={res},content={c}"])
      else
        match rm with
        | .buf bm =>
          if res != "ok" then ({ dm with dead := true }, [.mismatch "data/read" "ok" res]) else
          let mc := (dm.m.heap[bm]?).map showContent |>.getD "?"
          -- which model buffer does the harness pointer denote?
          let (dm, bsel) := match mapBuf dm k with
            | some bk => (dm, bk)
            | none =>
              if dm.bufMap.any (·.2 == bm) then
                -- the implementation handed out a fresh pointer where the model predicted a cached one: follow the code
                let (s', nb) := newBuf dm.m ((dm.m.heap[bm]?).getD .garbage)
                ({ dm with m := s', bufMap := (k, nb) :: dm.bufMap }, nb)
              else ({ dm with bufMap := (k, bm) :: dm.bufMap }, bm)
          if bsel != bm then ({ dm with dead := true }, [.mismatch "data/alias" s!"buffer {bm}" s!"buffer {bsel} (harness {k})"])
          else if mc == c then (dm, [])
          else if intact then
            -- the code did better than the model predicted (e.g. after a fix): adopt it
            ({ dm with m := { dm.m with heap := dm.m.heap.set bsel (.dataOf r) }, healed := dm.healed + 1 }, [])
          else ({ dm with dead := true }, [.mismatch "data/content" mc c])
        | x =>
          if implRes res == resStr x then (dm, [])
          else if intact then ({ dm with healed := dm.healed + 1 }, [])
          else ({ dm with dead := true }, [.mismatch "data/read" (resStr x) res])
    | _, _, _ => (d, [.badline "read"])
  | "mutate" =>
    match getNat a "b", getNat a "to" with
    | some k, some to =>
      match mapBuf d k with
      | none => (d, [.badline "unknown buffer"])
      | some bm =>
        -- roots whose cached pointer is the buffer being overwritten
        let victims := (d.m.cache.filter fun e => e.2 == bm && e.1 != to).map (·.1)
        let d := { d with taint := victims.foldl (fun t r => setA r "cache_alias" t) d.taint }
        let (d, _) := stepM d (.mutate bm (.dataOf to))
        (d, [])
    | _, _ => (d, [.badline "mutate"])
  | "sync" =>
    -- ground truth from the data files: slots written after the last fsync of their file returned
    let dirtyP := ((getTuples o "unsynced").getD []).filterMap fun t => match t with | [v, i] => some (v, i) | _ => none
    let unexplained := dirtyP.filter fun p =>
      match d.iOcc.find? (fun t => t.1 == p.1 && t.2.1 == p.2) with
      | some t => (getA t.2.2 d.taint) != some "sync_flag_race"    -- a steered race is reported by the read that follows
      | none => true     -- a free slot: nobody's data, but still a write the Sync should have covered
    let sm : List Verdict := if res == "ok" && !unexplained.isEmpty then
        [mono "sync_durable" s!"Sync returned, not fsynced: {unexplained.map fun p => s!"{p.1}:{p.2}"}"] else []
    -- which fsyncs this Sync made (in order) and which one failed, as seen by the data file wrappers
    let oks := (getNatList o "synced").getD []
    let failed := ((getNatList o "failed").getD []).head?
    if failed.isSome || res != "ok" then
      let (d, r) := stepM d (.syncPartial oks failed)
      conclude d l (if sm.isEmpty then resVerdict "meta/res" r res else sm) (lostMonitor d false)
    else
    let (d, _) := stepM d .sync
    conclude { d with acked := d.acked.map fun (r, _) => (r, true) } l (if sm.isEmpty then cmp "meta/res" "ok" (implRes res) else sm) (lostMonitor d false)
  | "syncfail" => (d, [])     -- the harness arms / disarms an fsync failure of a volume's data file
  | "syncrace" =>
    -- RPC S calls Sync(); RPC B's upload into volume v lands after S's fsync of v returned (see the harness)
    match getNat a "v", getNat a "r", getStrList o "kinds", (getStrList o "locs").bind (·.mapM parseLoc), getNat o "buf" with
    | some v, some r0, some kinds, some locs, some buf0 =>
      let attempt (acc : DState × Res) (x : Nat × String × Option (Nat × Nat)) : DState × Res :=
        let d := acc.1
        let k := x.1; let kind := x.2.1; let loc := x.2.2
        let r := r0 + k
        let (s1, b) := newBuf d.m (.dataOf r)
        let d := { d with m := s1, bufMap := (buf0 + k, b) :: d.bufMap }
        let write (d : DState) : DState × Res :=
          let (s2, r1) := reserve d.m 0 r b loc
          let (s3, r2) := match r1 with
            | .placed _ _ => let (s3, rf) := finishD d s2 0 true; (s3, match rf with | .ok => r1 | x => x)
            | _ => (s2, r1)
          let d := { d with m := s3, stores := d.stores + 1 }
          let d := match r2 with | .placed _ _ | .exist => noteEv (ack d r) [r] "write" | _ => d
          (d, r2)
        if kind == "n" then
          let (d, _) := stepM d .sync
          write d
        else
          let others := d.m.changed.filter (· != v)
          let (d, _) := stepM d .syncBegin
          let d := others.foldl (fun d x =>
            if d.f.syncSerial then (stepM (stepM d (.syncClear x)).1 (.syncFsync x)).1
            else (stepM (stepM d (.syncFsync x)).1 (.syncClear x)).1) d
          let (d, rw) :=
            if d.f.syncSerial then
              let d := (stepM (stepM d (.syncClear v)).1 (.syncFsync v)).1
              write d
            else if kind == "r" then
              let (d, _) := stepM d (.syncFsync v)
              let (d, rw) := write d
              ((stepM d (.syncClear v)).1, rw)
            else
              let d := (stepM (stepM d (.syncFsync v)).1 (.syncClear v)).1
              write d
          let (d, _) := stepM d .syncEnd
          let d := if kind == "r" then { d with taint := setA r "sync_flag_race" d.taint } else d
          (d, rw)
      let idx := List.range kinds.length
      let (d, rlast) := (idx.zip (kinds.zip locs)).foldl attempt (d, Res.ok)
      let want := match rlast with | .placed _ _ => "placed" | .exist => "exist" | x => resStr x
      -- a serialised Sync that clears the flag first cannot lose the flag of a later write
      let lostNow : List Verdict := if d.f.syncSerial && kinds.contains "r" then
        [mono "sync_durable" "a volume holds data written after its last fsync but is no longer marked dirty"] else []
      conclude d l (if lostNow.isEmpty then cmp "meta/res" want (implRes res) else lostNow) (lostMonitor d false)
    | _, _, _, _, _ => (d, [.badline "syncrace"])
  | "resizepark" =>
    match getNat a "v", getNat a "n", getNat o "parked" with
    | some v, some n, some 1 =>
      conclude { d with parked := some (v, n, (getNat o "stale").getD 0) } l [] (lostMonitor d false)
    | some v, some n, some _ =>
      match parseMoves o "moves" with
      | some moves =>
        let pre := d
        let (d, r) := stepM d (.vmResize v n moves)
        let d := noteEv d ((pre.iOcc.filter fun t => t.1 == v).map (·.2.2)) "resize"
        conclude d l (resVerdict "meta/res" r res) (lostMonitor pre false)
      | none => (d, [.badline "resizepark moves"])
    | _, _, _ => (d, [.badline "resizepark"])
  | "resizego" =>
    match d.parked, parseMoves o "moves" with
    | some (v, n, stale), some moves =>
      let pre := d
      let actual := (findVol v d.m.vols).map (·.total)
      let (d, r) := stepM d (.vmResizeStale stale v n moves)
      let inV := (pre.iOcc.filter fun t => t.1 == v).map (·.2.2)
      let d := noteEv d inV "resize"
      let d := if actual != some stale then { d with taint := inV.foldl (fun t r => setA r "resize_stale" t) d.taint } else d
      conclude { d with parked := none } l (resVerdict "meta/res" r res) (lostMonitor pre false)
    | none, _ => conclude d l (cmp "meta/res" "none" (implRes res)) (lostMonitor d false)
    | _, _ => (d, [.badline "resizego"])
  | "cache" =>
    match getNat a "n" with
    | some n => let (d, _) := stepM d (.resizeCache n); (d, [])
    | none => (d, [.badline "cache"])
  | "crash" =>
    match getTuples o "lost" with
    | some lost =>
      let lostP := lost.filterMap fun t => match t with | [v, i] => some (v, i) | _ => none
      -- slot committed, data never made it to the disk: in-flight writers and unsynced writes
      let pend := d.m.pending.map (·.r)
      let unsynced := (d.iOcc.filter fun t => lostP.contains (t.1, t.2.1)).map (·.2.2)
      let d := { d with taint := pend.foldl (fun t r => setA r "crash_reupload" t) d.taint }
      let d := { d with taint := unsynced.foldl (fun t r =>
          if (getA r t).isSome then t   -- already explained (e.g. a steered Sync race)
          else setA r (if d.viaTemp.contains r then "crash_unsynced_temp" else "crash_reupload") t) d.taint }
      let (d, r) := stepM d (.crash lostP)
      let d := { d with acked := [], crashes := d.crashes + 1, bufMap := d.bufMap }
      let d := noteEv d ((d.iOcc.map (·.2.2)).filter fun r => (getA r d.taint).isNone) "crash"
      conclude d l (resVerdict "data/crash" r res) (lostMonitor d false)
    | none => (d, [.badline "crash"])
  | "restart" =>
    let (d, r) := stepM d .restart
    let d := { d with acked := [], crashes := d.crashes + 1 }
    let d := noteEv d (d.iOcc.map (·.2.2)) "restart"
    conclude d l (resVerdict "data/restart" r res) (lostMonitor d false)
  | _ => (d, [.badline "unknown op"])

/-- one line; a failed store is remembered only until the next line (the read-back the harness makes at once) -/
def step (d : DState) (l : Line) : DState × List Verdict :=
  let (d', vs) := stepCore d l
  let d' :=
    if ["reclaim", "expire1", "expire2", "expiret", "tick", "prune"].contains l.op then
      (if !d.dead && d'.dead then { d' with zombie := true } else d')
    else if ["read", "cache", "reset"].contains l.op then d'
    else { d' with zombie := false }
  if ["write", "wbuf", "storetemp", "finish", "read", "reset"].contains l.op then (d', vs)
  else ({ d' with lastFailed := none }, vs)

def stats (d : DState) : String :=
  s!"hists={d.hists} ops={d.ops} stores={d.stores} placed={d.placed} exist={d.exists_} nospace={d.nospace} rollbacks={d.rollbacks} migrations={d.migrations} moved={d.moved} reclaims={d.reclaims} reads={d.reads} reads_referenced={d.readsRef} crashes={d.crashes} lost_ops={d.lostOps} healed={d.healed} failed_stores={d.failedStores} read_backs={d.readBacks}"

end Hostd.Drive.Volumes
