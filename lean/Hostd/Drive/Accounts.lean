import Hostd.Proto
import Hostd.Model.Accounts
/-!
Driver for the `accounts` engine (C04, C11).

For every trace line it
1. replays the operation on the model (`Hostd.Accounts.step`) and compares result and the
   complete observable state with what the implementation reported (`MISMATCH`, fields
   prefixed `c04.`/`c11.` so the per-property `flag_filter` can route them);
2. evaluates the clauses of C04/C11 on the implementation's OWN observations (previous
   snapshot, operation, answer, next snapshot) without consulting the model (`MONITOR`).

The behaviour recorded in `Facts` (does an RHP4 debit lower the `accountBalance` metric?) is
inferred from the observations: the driver starts with `Facts.current` and switches to the
alternative when that explains a line the current facts do not explain.  The monitors do not
depend on the facts, so a tree with that defect repaired passes silently and the current tree
yields the monitor failure that is listed as a known finding.
-/
namespace Hostd.Drive.Accounts
open Hostd.Proto Hostd.Accounts

/-! ### parsing helpers -/

def colonNats (s : String) : Option (List Nat) := (s.splitOn ":").mapM String.toNat?

def getColonList (kv : List (String × String)) (k : String) : Option (List (List Nat)) :=
  (getStrList kv k).bind fun l => l.mapM colonNats

def rowOf : List Nat → Option Row
  | [c, a, amt] => some { contract := c, account := a, amount := amt }
  | _ => none

def usage8 : List Nat → Option Usage
  | [rpc, st, eg, ing, rr, rw, af, rc] =>
    some { rpc := rpc, storage := st, egress := eg, ingress := ing, registryRead := rr,
           registryWrite := rw, accountFunding := af, riskedCollateral := rc }
  | _ => none

/-- rhp3 usage vector `[rpc,storage,egress,ingress,registryRead,registryWrite]` -/
def usage3 : List Nat → Option Usage
  | [rpc, st, eg, ing, rr, rw] =>
    some { rpc := rpc, storage := st, egress := eg, ingress := ing, registryRead := rr, registryWrite := rw }
  | _ => none

/-- rhp4 usage vector `[rpc,storage,egress,ingress,accountFunding,riskedCollateral]` -/
def usage4 : List Nat → Option Usage
  | [rpc, st, eg, ing, af, rc] =>
    some { rpc := rpc, storage := st, egress := eg, ingress := ing, accountFunding := af, riskedCollateral := rc }
  | _ => none

/-- the implementation's snapshot after an operation -/
structure Obs where
  bal    : List Nat := []
  sbal   : List Nat := []
  mbal   : Nat := 0
  mact   : Nat := 0
  naccts : Nat := 0
  ssum   : Nat := 0
  f1     : List Row := []
  f2     : List Row := []
  u1     : List Usage := []
  u2     : List Usage := []
  u1api  : List Usage := []
  u2api  : List Usage := []
  alist  : String := ""

def parseObs (kv : List (String × String)) : Option Obs := do
  let bal ← getNatList kv "bal"
  let sbal ← getNatList kv "sbal"
  let mbal ← getNat kv "mbal"
  let mact ← getNat kv "mact"
  let naccts ← getNat kv "naccts"
  let ssum ← getNat kv "ssum"
  let f1 ← (← getColonList kv "f1").mapM rowOf
  let f2 ← (← getColonList kv "f2").mapM rowOf
  let u1 ← (← getColonList kv "u1").mapM usage8
  let u2 ← (← getColonList kv "u2").mapM usage8
  let u1api ← (← getColonList kv "u1api").mapM usage8
  let u2api ← (← getColonList kv "u2api").mapM usage8
  let alist := (getStr kv "alist").getD ""
  pure { bal, sbal, mbal, mact, naccts, ssum, f1, f2, u1, u2, u1api, u2api, alist }

/-! ### rendering the model state in the harness' format -/

def nAccts : Nat := 3

def showRows (rows : List Row) : String :=
  "[" ++ ",".intercalate (rows.map fun r => s!"{r.contract}:{r.account}:{r.amount}") ++ "]"

def showUsage8 (u : Usage) : String :=
  s!"{u.rpc}:{u.storage}:{u.egress}:{u.ingress}:{u.registryRead}:{u.registryWrite}:{u.accountFunding}:{u.riskedCollateral}"

def showUsageApi (u : Usage) : String :=
  s!"{u.rpc}:{u.storage}:{u.egress}:{u.ingress}:{u.accountFunding}:{u.riskedCollateral}"

def showStrs (l : List String) : String := "[" ++ ",".intercalate l ++ "]"

def insertSorted (x : String) : List String → List String
  | [] => [x]
  | y :: r => if x < y || x == y then x :: y :: r else y :: insertSorted x r

def sortStrs (l : List String) : List String := l.foldl (fun acc x => insertSorted x acc) []

/-- (field, model value) pairs; every field is compared with the same key of the observation -/
def modelFields (s : State) : List (String × String) :=
  let as := List.range nAccts
  let st := s.st
  [ ("c04.bal",   showNatList (as.map (getBalance s))),
    ("c04.sbal",  showNatList (as.map st.bal)),
    ("c04.r4bal", showNatList (as.map st.bal)),
    ("c04.mbal",  toString st.mBalance),
    ("c04.mact",  toString st.mActive),
    ("c04.naccts", toString st.accts.length),
    ("c04.ssum",  toString (sumBal st.bal st.accts)),
    ("c11.f1",    showRows st.rows1),
    ("c11.f2",    showRows st.rows2),
    ("c11.fc1",   toString st.rows1.length),
    ("c11.fc2",   toString st.rows2.length),
    ("c11.af1",   showStrs (sortStrs (st.rows1.map fun r => s!"{r.contract}:{r.account}:{r.amount}"))),
    ("c11.u1",    showStrs ((List.range st.n1).map fun c => showUsage8 (st.c1 c))),
    ("c11.u1api", showStrs ((List.range st.n1).map fun c => showUsage8 (st.c1 c))),
    ("c11.u2",    showStrs ((List.range st.n2).map fun c => showUsage8 (st.c2 c))),
    ("c11.u2api", showStrs ((List.range st.n2).map fun c => showUsage8 (st.c2 c))) ]

def diffFields (s : State) (obs : List (String × String)) : List Verdict :=
  (modelFields s).filterMap fun (k, mv) =>
    let key := (k.splitOn ".").getLastD k
    match lookup obs key with
    | some iv => if iv == mv then none else some (.mismatch k mv iv)
    | none => some (.mismatch k mv "absent")

def outStr : Out → String
  | .ok => "ok" | .exceeded => "exceeded" | .insufficient => "insufficient" | .err => "err" | .panic => "panic"

/-- implementation result, with panic messages cut off -/
def resClass (res : String) : String := if res.startsWith "panic" then "panic" else res

/-! ### bookkeeping from the implementation's own answers (for the monitors) -/

structure IBudget where
  acct  : Nat
  max   : Nat
  usage : Usage := {}
  isOpen : Bool := true

structure DState where
  s      : State := init 0 0
  facts  : Facts := Facts.current
  dead   : Bool := true
  prev   : Obs := {}
  ibud   : List IBudget := []
  idep   : List Nat := [0, 0, 0]
  iwd    : List Nat := [0, 0, 0]
  taint  : List Bool := [false, false, false]   -- key hit by an RHP4 debit below its RHP3 reservations
  stale  : List Bool := [false, false, false]   -- RHP4 deposit arrived while RHP3 budgets were open
  -- statistics
  hists : Nat := 0
  lines : Nat := 0
  creditsOk : Nat := 0
  budgetsOk : Nat := 0
  commitsOk : Nat := 0
  commitsFail : Nat := 0
  rollbacks : Nat := 0
  debits4Ok : Nat := 0
  credits4Ok : Nat := 0
  multiSource : Nat := 0      -- debits that drew on ≥ 2 funding rows
  exhausted : Nat := 0        -- debits that removed a funding row
  undistributed : Nat := 0    -- debits larger than the version's funding
  mixedKey : Nat := 0
  factSwitches : Nat := 0
  adopted : Nat := 0          -- attributions validated instead of predicted
  parOps : Nat := 0           -- concurrent reservation rounds
  parGranted : Nat := 0
  parRefused : Nat := 0

def nth (l : List Nat) (i : Nat) : Nat := l.getD i 0
def setNth (l : List Nat) (i v : Nat) : List Nat := l.set i v
def nthB (l : List Bool) (i : Nat) : Bool := l.getD i false

def iResv (d : List IBudget) (a : Nat) : Nat :=
  (d.filter fun b => b.isOpen && b.acct == a).foldl (fun acc b => acc + b.max) 0
def iOpen (d : List IBudget) (a : Nat) : Nat := (d.filter fun b => b.isOpen && b.acct == a).length

def rowsOfContract (rows : List Row) (c : Nat) : Nat := (rows.filter (·.contract == c)).foldl (· + ·.amount) 0
def rowsOfAcct (rows : List Row) (a : Nat) : Nat := (rows.filter (·.account == a)).foldl (· + ·.amount) 0
def nRowsOfAcct (rows : List Row) (a : Nat) : Nat := (rows.filter fun r => r.account == a && r.amount != 0).length

def worth (u : Usage) : Nat := u.accountFunding + u.revenue

/-- `contract.accountFunding = Σ its rows` for every contract of both versions -/
def rowsSumOK (o : Obs) : Bool :=
  (List.range o.u1.length).all (fun c => (o.u1.getD c {}).accountFunding == rowsOfContract o.f1 c) &&
  (List.range o.u2.length).all (fun c => (o.u2.getD c {}).accountFunding == rowsOfContract o.f2 c)

def ledgerOK (d : DState) (o : Obs) : Bool :=
  (List.range nAccts).all fun a => nth o.sbal a + nth d.iwd a == nth d.idep a

def overdraftFree (d : DState) (o : Obs) (a : Nat) : Bool := iResv d.ibud a ≤ nth o.sbal a

/-- manager balance = store balance − reservations (≤ when an RHP4 deposit is not yet visible) -/
def reservationOK (d : DState) (o : Obs) (a : Nat) : Bool :=
  if nthB d.taint a then true
  else if nthB d.stale a then nth o.bal a + iResv d.ibud a ≤ nth o.sbal a
  else nth o.bal a + iResv d.ibud a == nth o.sbal a

def drift (o : Obs) : Int := (o.mbal : Int) - (o.ssum : Int)

/-- clauses that are predicates of a single snapshot (plus bookkeeping): reported at the
operation that makes them false -/
def stateMonitors (dp d : DState) (p o : Obs) (op : String) (resOk : Bool) : List Verdict :=
  let v0 := if o.alist == "" || o.alist == toString o.naccts || (p.alist != "" && p.alist != toString p.naccts) then [] else
    [Verdict.monitor "accounts_listing" s!"Store.Accounts={o.alist},account_rows={o.naccts}"]
  let v1 := if drift o == drift p then [] else
    [Verdict.monitor "metrics_eq/accountBalance" s!"metric={o.mbal},sum_of_balances={o.ssum},before:metric={p.mbal},sum={p.ssum}"]
  let v2 := if o.mact == o.naccts || p.mact != p.naccts then [] else
    [Verdict.monitor "metrics_eq/activeAccounts" s!"metric={o.mact},accounts={o.naccts}"]
  let v3 := if ledgerOK d o || !ledgerOK dp p then [] else
    [Verdict.monitor "ledger_eq" s!"balances={o.sbal},deposits={d.idep},withdrawals={d.iwd}"]
  let v4 := if rowsSumOK o || !rowsSumOK p then [] else
    [Verdict.monitor "funding_rows_sum" s!"f1={showRows o.f1},f2={showRows o.f2}"]
  let v5 := (List.range nAccts).filterMap fun a =>
    if nthB d.taint a || overdraftFree d o a || !overdraftFree dp p a then none
    else some (Verdict.monitor "no_overdraft" s!"account={a},reserved={iResv d.ibud a},balance={nth o.sbal a}")
  let v6 := (List.range nAccts).filterMap fun a =>
    if reservationOK d o a || !reservationOK dp p a then none
    else
      let nm := if op == "rollback" then "rollback_refunds"
                else if op == "commit" && resOk then "commit_exact"
                else if op == "commit" then "failed_commit_keeps_reservation"
                else if op == "budget" && !resOk then "failed_reservation_refunds"
                else "reservation_eq"
      some (Verdict.monitor nm s!"account={a},manager={nth o.bal a},store={nth o.sbal a},reserved={iResv d.ibud a}")
  v0 ++ v1 ++ v2 ++ v3 ++ v4 ++ v5 ++ v6

/-- per-contract conservation across a debit: unspent funding + revenue unchanged -/
def conservedMonitor (p o : Obs) (v2 api : Bool) (registry : Nat) : List Verdict :=
  let pu := if api then (if v2 then p.u2api else p.u1api) else (if v2 then p.u2 else p.u1)
  let ou := if api then (if v2 then o.u2api else o.u1api) else (if v2 then o.u2 else o.u1)
  let bad := (List.range pu.length).filter fun c => worth (pu.getD c {}) != worth (ou.getD c {})
  if bad.isEmpty then [] else
    let lost := bad.foldl (fun acc c => acc + (worth (pu.getD c {}) - worth (ou.getD c {}))) 0
    let gained := bad.foldl (fun acc c => acc + (worth (ou.getD c {}) - worth (pu.getD c {}))) 0
    let regSame := (List.range pu.length).all fun c =>
      (pu.getD c {}).registryRead == (ou.getD c {}).registryRead && (pu.getD c {}).registryWrite == (ou.getD c {}).registryWrite
    -- the known shape: exactly the registry part of the debit disappears and the registry columns stay put
    let nm := if !v2 && gained == 0 && lost ≤ registry && registry > 0 && regSame
              then "per_contract_conserved/registry_dropped" else "per_contract_conserved"
    let nm := if api then nm ++ "/api" else nm
    [.monitor nm s!"contracts={bad},lost={lost},gained={gained},registry_part_of_debit={registry}"]

def movedMonitor (p o : Obs) (v2 : Bool) (a total : Nat) : List Verdict :=
  let pu := if v2 then p.u2 else p.u1
  let ou := if v2 then o.u2 else o.u1
  let avail := rowsOfAcct (if v2 then p.f2 else p.f1) a
  let moved := (List.range pu.length).foldl (fun acc c => acc + ((pu.getD c {}).accountFunding - (ou.getD c {}).accountFunding)) 0
  let rowsMoved := avail - rowsOfAcct (if v2 then o.f2 else o.f1) a
  if total ≤ avail && (moved != total || rowsMoved != total) then
    [.monitor "moved_eq_debit" s!"account={a},debit={total},funding={avail},moved_contracts={moved},moved_rows={rowsMoved}"]
  else if moved > avail then
    [.monitor "no_negative" s!"account={a},moved={moved},funding={avail}"]
  else []

def panicMonitor (op res : String) : List Verdict :=
  -- `Budget.Refund` documents its panics (committed budget, refund larger than the spending)
  if op != "refund" && res.startsWith "panic" then
    let low := res.toLower
    if (low.splitOn "underflow").length > 1 || (low.splitOn "negative").length > 1 then [.monitor "no_negative" res]
    else [.monitor "no_panic" res]
  else []

/-! ### the order of the attribution is not constrained by C11

Which funding row is drawn first and in which order the usage categories are served is the
code's choice (today: rowid order; storage, ingress, egress, registry read, registry write,
rpc).  If the model's prediction of the funding tables / usage columns differs from the
implementation after an accepted debit, the driver therefore VALIDATES the implementation's
result instead (every clause monitor silent, only rows of the debited account shrank, no row
appeared, every usage category only grew and by no more than the debit's category, API and raw
columns agree) and continues from the implementation's tables.  A result that is not a valid
attribution stays a MISMATCH. -/

def distFields : List String :=
  ["c11.f1", "c11.f2", "c11.af1", "c11.u1", "c11.u2", "c11.u1api", "c11.u2api", "c11.fc1", "c11.fc2"]

def catSum (pu ou : List Usage) (sel : Usage → Nat) : Nat :=
  (List.range pu.length).foldl (fun acc c => acc + (sel (ou.getD c {}) - sel (pu.getD c {}))) 0

def validAttribution (p o : Obs) (v2 : Bool) (a : Nat) (u : Usage) : Bool :=
  let pf := if v2 then p.f2 else p.f1
  let of' := if v2 then o.f2 else o.f1
  let pu := if v2 then p.u2 else p.u1
  let ou := if v2 then o.u2 else o.u1
  let others := (pf.filter (·.account != a)) == (of'.filter (·.account != a))
  let shrunk := (of'.filter (·.account == a)).all fun r =>
    pf.any fun q => q.account == a && q.contract == r.contract && r.amount ≤ q.amount && (r.amount != 0 || q.amount == 0)
  let untouchedVersion := if v2 then showRows p.f1 == showRows o.f1 && p.u1 == o.u1 else showRows p.f2 == showRows o.f2 && p.u2 == o.u2
  let grow := (List.range pu.length).all fun c =>
    let x := pu.getD c {}; let y := ou.getD c {}
    x.rpc ≤ y.rpc && x.storage ≤ y.storage && x.egress ≤ y.egress && x.ingress ≤ y.ingress &&
    x.registryRead ≤ y.registryRead && x.registryWrite ≤ y.registryWrite && y.accountFunding ≤ x.accountFunding &&
    x.riskedCollateral == y.riskedCollateral
  let bounded := catSum pu ou (·.rpc) ≤ u.rpc && catSum pu ou (·.storage) ≤ u.storage && catSum pu ou (·.egress) ≤ u.egress &&
    catSum pu ou (·.ingress) ≤ u.ingress && catSum pu ou (·.registryRead) ≤ u.registryRead &&
    catSum pu ou (·.registryWrite) ≤ u.registryWrite
  others && shrunk && untouchedVersion && grow && bounded && pu.length == ou.length

def apiConsistent (obs : List (String × String)) (o : Obs) : Bool :=
  lookup obs "u1" == lookup obs "u1api" && lookup obs "u2" == lookup obs "u2api" &&
  lookup obs "af1" == some (showStrs (sortStrs (o.f1.map fun r => s!"{r.contract}:{r.account}:{r.amount}"))) &&
  lookup obs "fc1" == some (toString o.f1.length) && lookup obs "fc2" == some (toString o.f2.length)

/-- monitors of C11 clauses (a firing one forbids adopting the implementation's tables) -/
def c11Monitor : Verdict → Bool
  | .monitor nm _ => nm.startsWith "funding_rows_sum" || nm.startsWith "per_contract_conserved" ||
      nm.startsWith "moved_eq_debit" || nm.startsWith "no_negative" || nm.startsWith "no_panic"
  | _ => false

def adopt (s : State) (o : Obs) (v2 : Bool) : State :=
  if v2 then { s with st := { s.st with rows2 := o.f2, c2 := fun c => o.u2.getD c {} } }
  else { s with st := { s.st with rows1 := o.f1, c1 := fun c => o.u1.getD c {} } }

/-! ### model step with fact inference -/

structure MRes where
  s   : State
  out : String
  ret : String := ""

def allFacts : List Facts := [⟨false⟩, ⟨true⟩]

/-- run `f` on the model under the current facts; if the line is not explained, try the others -/
def explain (d : DState) (l : Line) (run : Facts → MRes) (res ret : String) (cmpRet : Bool) :
    Facts × MRes × List Verdict :=
  let judge (fx : Facts) : MRes × List Verdict :=
    let r := run fx
    let v := cmp "c04.res" r.out (resClass res) ++ (if cmpRet && r.out == "ok" then cmp "c04.ret" r.ret ret else [])
    (r, v ++ diffFields r.s l.obs)
  let onlyDist (v : List Verdict) : Bool := v.all fun x => match x with
    | .mismatch f _ _ => distFields.contains f
    | _ => false
  let cands := d.facts :: allFacts.filter (· != d.facts)
  -- first choice: facts that explain the line; second: facts that explain everything but the
  -- (unconstrained) order of the attribution; else report against the current facts
  match cands.find? fun fx => (judge fx).2.isEmpty with
  | some fx => (fx, (judge fx).1, [])
  | none =>
    match cands.find? fun fx => onlyDist (judge fx).2 with
    | some fx => (fx, (judge fx).1, (judge fx).2)
    | none => (d.facts, (judge d.facts).1, (judge d.facts).2)

def bumpIf (c : Bool) (n : Nat) : Nat := if c then n + 1 else n

def step (d : DState) (l : Line) : DState × List Verdict :=
  if l.op == "reset" then
    match getNat l.args "n1", getNat l.args "n2", parseObs l.obs with
    | some n1, some n2, some o =>
      let d' : DState := { d with s := init n1 n2, dead := false, prev := o, ibud := [], idep := [0,0,0], iwd := [0,0,0],
                                  taint := [false,false,false], stale := [false,false,false],
                                  hists := d.hists + 1, lines := d.lines + 1 }
      let vs := diffFields d'.s l.obs
      ({ d' with dead := !vs.isEmpty }, vs)
    | _, _, _ => ({ d with dead := true }, [.badline "reset needs n1 n2 and a snapshot"])
  else if d.dead then (d, [])
  else
    match getStr l.obs "res", parseObs l.obs with
    | none, _ => ({ d with dead := true }, [.badline "no res"])
    | _, none => ({ d with dead := true }, [.badline "snapshot fields"])
    | some res, some o =>
    let p := d.prev
    let resOk := res == "ok"
    let ret := (getStr l.obs "ret").getD ""
    let d := { d with lines := d.lines + 1 }
    -- finish: model comparison verdicts `mv`, op specific monitors `ov`, updated bookkeeping `d'`
    let finishD (dOld d' : DState) (fx : Facts) (m : MRes) (mv ov : List Verdict)
        (debit : Option (Bool × Nat × Usage)) : DState × List Verdict :=
      let sv := stateMonitors dOld d' p o l.op resOk
      let pv := panicMonitor l.op res
      let onlyDist := !mv.isEmpty && mv.all fun v => match v with
        | .mismatch f _ _ => distFields.contains f
        | _ => false
      let adoptIt := match debit with
        | some (v2, a, u) => onlyDist && !(ov ++ sv ++ pv).any c11Monitor && validAttribution p o v2 a u && apiConsistent l.obs o
        | none => false
      let ms := match debit with
        | some (v2, _, _) => if adoptIt then adopt m.s o v2 else m.s
        | none => m.s
      let mv := if adoptIt then [] else mv
      let d'' := { d' with s := ms, facts := fx, prev := o, dead := !mv.isEmpty,
                           factSwitches := bumpIf (fx != dOld.facts) d'.factSwitches,
                           adopted := bumpIf adoptIt d'.adopted }
      (d'', mv ++ pv ++ ov ++ sv)
    let finish (dOld d' : DState) (fx : Facts) (m : MRes) (mv ov : List Verdict) : DState × List Verdict :=
      finishD dOld d' fx m mv ov none
    if l.op == "status" then
      -- contract status changes do not touch the ledger: everything but st1/st2 must stay
      let mv := diffFields d.s l.obs
      finish d d d.facts { s := d.s, out := "ok" } mv []
    else if l.op == "credit" then
      match getNat l.args "a", getNat l.args "c", getNat l.args "amt", getNat l.args "cost",
            getNat l.args "refund", getNat l.args "maxbal" with
      | some a, some c, some amt, some cost, some rf, some mb =>
        let (fx, m, mv) := explain d l (fun _ =>
          let x := credit d.s a c amt cost (rf == 1) mb
          { s := x.1, out := outStr x.2.1, ret := toString x.2.2 }) res ret true
        let d' := if resOk then { d with idep := setNth d.idep a (nth d.idep a + amt), creditsOk := d.creditsOk + 1 } else d
        -- a credit moves value INTO the contract's unspent funding: worth grows by amt + cost on that contract only
        let ov : List Verdict :=
          if resOk then
            let okc := (List.range p.u1.length).all fun k =>
              worth (o.u1.getD k {}) == worth (p.u1.getD k {}) + (if k == c then amt + cost else 0)
            (if okc then [] else [.monitor "credit_recorded" s!"contract={c},amt={amt},cost={cost}"]) ++
            (if nth o.sbal a == nth p.sbal a + amt then [] else [.monitor "ledger_eq" s!"credit of {amt} moved balance {nth p.sbal a} -> {nth o.sbal a}"])
          else if o.sbal != p.sbal then [.monitor "ledger_eq" "refused credit changed a balance"] else []
        finish d d' fx m mv ov
      | _, _, _, _, _, _ => ({ d with dead := true }, [.badline "credit fields"])
    else if l.op == "budget" then
      match getNat l.args "a", getNat l.args "amt" with
      | some a, some amt =>
        let (fx, m, mv) := explain d l (fun _ => let x := budget d.s a amt; { s := x.1, out := outStr x.2 }) res ret false
        let covered := amt + iResv d.ibud a ≤ nth p.sbal a
        let ov : List Verdict :=
          if nthB d.taint a then []
          else if resOk && !covered then
            [.monitor "budget_iff" s!"granted: account={a},amount={amt},balance={nth p.sbal a},other_reservations={iResv d.ibud a}"]
          else if !resOk && covered && !nthB d.stale a && res == "insufficient" then
            [.monitor "budget_iff" s!"refused: account={a},amount={amt},balance={nth p.sbal a},other_reservations={iResv d.ibud a}"]
          else []
        let d' := if resOk then { d with ibud := d.ibud ++ [{ acct := a, max := amt }], budgetsOk := d.budgetsOk + 1 } else d
        finish d d' fx m mv ov
      | _, _ => ({ d with dead := true }, [.badline "budget fields"])
    else if l.op == "spend" || l.op == "refund" then
      match getNat l.args "b", (getNatList l.args "u").bind usage3 with
      | some i, some u =>
        let isSpend := l.op == "spend"
        let (fx, m, mv) := explain d l (fun _ =>
          let x := if isSpend then spend d.s i u else refund d.s i u
          { s := x.1, out := if res == "nobudget" && x.2 == .err then "nobudget" else outStr x.2 }) res ret false
        let ov : List Verdict :=
          match d.ibud[i]? with
          | some b =>
            -- a budget never hands out more than its maximum
            if isSpend && resOk && b.isOpen && b.max < (b.usage.add3 u).total3 then
              [.monitor "no_overdraft" s!"budget={i},max={b.max},spent_after={(b.usage.add3 u).total3}"]
            else []
          | none => []
        let d' := match d.ibud[i]? with
          | some b => if resOk then { d with ibud := d.ibud.set i { b with usage := if isSpend then b.usage.add3 u else b.usage.sub3 u } } else d
          | none => d
        finish d d' fx m mv ov
      | _, _ => ({ d with dead := true }, [.badline "spend/refund fields"])
    else if l.op == "commit" then
      match getNat l.args "b", getNat l.args "fail" with
      | some i, some fl =>
        let (fx, m, mv) := explain d l (fun _ =>
          let x := commit d.s i (fl == 1)
          { s := x.1, out := if res == "nobudget" && x.2 == .err then "nobudget" else outStr x.2 }) res ret false
        match d.ibud[i]? with
        | none => finish d d fx m mv []
        | some b =>
          let a := b.acct
          let t := b.usage.total3
          if resOk && b.isOpen then
            let d' := { d with ibud := d.ibud.set i { b with isOpen := false }, iwd := setNth d.iwd a (nth d.iwd a + t),
                               commitsOk := d.commitsOk + 1,
                               multiSource := bumpIf (nRowsOfAcct p.f1 a ≥ 2 && t > (p.f1.find? (fun r => r.account == a && r.amount != 0)).elim 0 (·.amount)) d.multiSource,
                               exhausted := bumpIf (nRowsOfAcct o.f1 a < nRowsOfAcct p.f1 a) d.exhausted,
                               undistributed := bumpIf (t > rowsOfAcct p.f1 a) d.undistributed }
            let d' := if iOpen d'.ibud a == 0 then { d' with stale := d'.stale.set a false } else d'
            let exact := (List.range nAccts).all fun x => nth o.sbal x + (if x == a then t else 0) == nth p.sbal x
            let ov := (if exact then [] else [Verdict.monitor "commit_exact" s!"account={a},spent={t},before={p.sbal},after={o.sbal}"]) ++
                      conservedMonitor p o false false (b.usage.registryRead + b.usage.registryWrite) ++
                      conservedMonitor p o false true (b.usage.registryRead + b.usage.registryWrite) ++ movedMonitor p o false a t
            finishD d d' fx m mv ov (some (false, a, b.usage))
          else
            -- committed twice / after rollback (no-op) or failed: no balance, funding row or contract may move
            let d' := if resOk then d else { d with commitsFail := d.commitsFail + 1 }
            let nm := if resOk then "no_double_spend" else "failed_commit_keeps_reservation"
            let ov := if o.sbal == p.sbal && showRows o.f1 == showRows p.f1 && o.mbal == p.mbal then [] else
              [Verdict.monitor nm s!"budget={i},before={p.sbal},after={o.sbal}"]
            -- a reservation that was granted must be committable (unless the store failure was injected)
            let ov2 := if !resOk && b.isOpen && fl == 0 && !nthB d.taint a && t > 0 then
              [Verdict.monitor "no_overdraft" s!"commit of a granted reservation refused: budget={i},spent={t},balance={nth p.sbal a}"] else []
            finish d d' fx m mv (ov ++ ov2)
      | _, _ => ({ d with dead := true }, [.badline "commit fields"])
    else if l.op == "par" then
      -- k goroutines reserve `amt` on the same account at the same time, then (after a barrier)
      -- all granted ones spend `u` and commit/roll back at the same time.  Since the operations
      -- are atomic the outcome must be that of SOME sequential order; all orders give the same
      -- counts and the same final ledger, which the model computes with one of them.
      match getNat l.args "a", getNat l.args "k", getNat l.args "amt", (getNatList l.args "u").bind usage3,
            getNat l.args "commit", getNat l.obs "granted", getNat l.obs "spent", getNat l.obs "cerr" with
      | some a, some k, some amt, some u, some cm, some g, some sp, some ce =>
        let n0 := d.s.budgets.length
        let runModel : MRes :=
          let (s1, gm) := (List.range k).foldl (fun (acc : State × Nat) _ =>
            let x := budget acc.1 a amt
            (x.1, if x.2 == .ok then acc.2 + 1 else acc.2)) (d.s, 0)
          let ids := (List.range gm).map (· + n0)
          let (s2, spm) := ids.foldl (fun (acc : State × Nat) i =>
            let x := spend acc.1 i u
            (x.1, if x.2 == .ok then acc.2 + 1 else acc.2)) (s1, 0)
          let (s3, cem) := ids.foldl (fun (acc : State × Nat) i =>
            let x := if cm == 1 then commit acc.1 i false else rollback acc.1 i
            (x.1, if x.2 == .ok then acc.2 else acc.2 + 1)) (s2, 0)
          { s := s3, out := "ok", ret := s!"{gm},{spm},{cem}" }
        let (fx, m, mv) := explain d l (fun _ => runModel) res s!"{g},{sp},{ce}" true
        let spentEach := if sp == g then u else {}
        let t := spentEach.total3
        let committed := if cm == 1 then g - ce else 0
        let tot : Usage := { rpc := u.rpc * committed, storage := u.storage * committed, egress := u.egress * committed,
                             ingress := u.ingress * committed, registryRead := u.registryRead * committed,
                             registryWrite := u.registryWrite * committed }
        let tot := if sp == g then tot else {}
        -- budgets whose commit the store refused stay open; the harness numbers them last
        let d' := { d with ibud := d.ibud ++ (List.replicate (g - ce) { acct := a, max := amt, usage := spentEach, isOpen := false }) ++
                                   (List.replicate ce { acct := a, max := amt, usage := spentEach, isOpen := true }),
                           iwd := setNth d.iwd a (nth d.iwd a + committed * t),
                           budgetsOk := d.budgetsOk + g, commitsOk := d.commitsOk + committed,
                           parOps := d.parOps + 1, parGranted := d.parGranted + g, parRefused := d.parRefused + (k - g) }
        let ov : List Verdict :=
          (if nthB d.taint a || g * amt + iResv d.ibud a ≤ nth p.sbal a then [] else
            [Verdict.monitor "budget_iff" s!"concurrent: account={a},granted={g}x{amt},balance={nth p.sbal a},other_reservations={iResv d.ibud a}"]) ++
          (if sp == g || sp == 0 then [] else [Verdict.monitor "no_overdraft" s!"concurrent spends disagree: granted={g},spent={sp}"]) ++
          (if nthB d.taint a || ce == 0 || t == 0 then [] else
            [Verdict.monitor "no_overdraft" s!"concurrent commit of granted reservations refused: account={a},refused={ce}"]) ++
          (if (List.range nAccts).all (fun x => nth o.sbal x + (if x == a then committed * t else 0) == nth p.sbal x) then [] else
            [Verdict.monitor "commit_exact" s!"concurrent: account={a},committed={committed}x{t},before={p.sbal},after={o.sbal}"]) ++
          conservedMonitor p o false false (tot.registryRead + tot.registryWrite) ++
          conservedMonitor p o false true (tot.registryRead + tot.registryWrite) ++ movedMonitor p o false a (committed * t)
        finishD d d' fx m mv ov (some (false, a, tot))
      | _, _, _, _, _, _, _, _ => ({ d with dead := true }, [.badline "par fields"])
    else if l.op == "rollback" then
      match getNat l.args "b" with
      | some i =>
        let (fx, m, mv) := explain d l (fun _ =>
          let x := rollback d.s i
          { s := x.1, out := if res == "nobudget" && x.2 == .err then "nobudget" else outStr x.2 }) res ret false
        let d' := match d.ibud[i]? with
          | some b =>
            if resOk && b.isOpen then
              let d1 := { d with ibud := d.ibud.set i { b with isOpen := false }, rollbacks := d.rollbacks + 1 }
              if iOpen d1.ibud b.acct == 0 then { d1 with stale := d1.stale.set b.acct false } else d1
            else d
          | none => d
        let ov := if o.sbal == p.sbal && o.mbal == p.mbal && showRows o.f1 == showRows p.f1 then [] else
          [Verdict.monitor "rollback_refunds" s!"rollback changed the store: before={p.sbal},after={o.sbal}"]
        finish d d' fx m mv ov
      | _ => ({ d with dead := true }, [.badline "rollback fields"])
    else if l.op == "rhp4credit" then
      match getNat l.args "c", (getColonList l.args "deps"), (getNatList l.args "u").bind usage4 with
      | some c, some dl, some u =>
        let deps := dl.filterMap fun x => match x with | [a, amt] => some (a, amt) | _ => none
        let (fx, m, mv) := explain d l (fun _ =>
          let x := rhp4credit d.s c deps u
          { s := x.1, out := outStr x.2.1, ret := showNatList x.2.2 }) res ret true
        let d' := if resOk then
            deps.foldl (fun (dd : DState) (ad : Nat × Nat) =>
              { dd with idep := setNth dd.idep ad.1 (nth dd.idep ad.1 + ad.2),
                        stale := if iOpen dd.ibud ad.1 > 0 && ad.2 > 0 then dd.stale.set ad.1 true else dd.stale,
                        mixedKey := bumpIf (iOpen dd.ibud ad.1 > 0) dd.mixedKey })
              { d with credits4Ok := d.credits4Ok + 1 }
          else d
        let ov : List Verdict :=
          if resOk then
            let okc := (List.range p.u2.length).all fun k =>
              worth (o.u2.getD k {}) == worth (p.u2.getD k {}) + (if k == c then u.accountFunding + u.dist4 else 0)
            if okc then [] else [.monitor "credit_recorded" s!"contract={c},usage={showUsage8 u}"]
          else if o.sbal != p.sbal then [.monitor "ledger_eq" "refused credit changed a balance"] else []
        finish d d' fx m mv ov
      | _, _, _ => ({ d with dead := true }, [.badline "rhp4credit fields"])
    else if l.op == "rhp4debit" then
      match getNat l.args "a", (getNatList l.args "u").bind usage4 with
      | some a, some u =>
        let (fx, m, mv) := explain d l (fun fx => let x := rhp4debit fx d.s a u; { s := x.1, out := outStr x.2 }) res ret false
        if resOk then
          let cost := u.cost4
          let covered : Bool := cost + iResv d.ibud a ≤ nth p.sbal a
          -- an RHP4 withdrawal on a key with open RHP3 budgets is invisible to the manager
          let unseen := iOpen d.ibud a > 0 && cost > 0
          let d' := { d with iwd := setNth d.iwd a (nth d.iwd a + cost), debits4Ok := d.debits4Ok + 1,
                             mixedKey := bumpIf (iOpen d.ibud a > 0) d.mixedKey,
                             multiSource := bumpIf (nRowsOfAcct p.f2 a ≥ 2 && u.dist4 > (p.f2.find? (fun r => r.account == a && r.amount != 0)).elim 0 (·.amount)) d.multiSource,
                             exhausted := bumpIf (nRowsOfAcct o.f2 a < nRowsOfAcct p.f2 a) d.exhausted,
                             undistributed := bumpIf (u.dist4 > rowsOfAcct p.f2 a) d.undistributed,
                             taint := if covered && !unseen then d.taint else d.taint.set a true }
          let exact := (List.range nAccts).all fun x => nth o.sbal x + (if x == a then cost else 0) == nth p.sbal x
          let ov := (if covered && !unseen then [] else
                      [Verdict.monitor "mixed_protocol_reservation" s!"account={a},debit={cost},balance={nth p.sbal a},rhp3_reservations={iResv d.ibud a},open_budgets={iOpen d.ibud a},manager_balance_after={nth o.bal a},covered={covered}"]) ++
                    (if exact then [] else [Verdict.monitor "commit_exact" s!"rhp4 debit: account={a},cost={cost},before={p.sbal},after={o.sbal}"]) ++
                    conservedMonitor p o true false 0 ++ conservedMonitor p o true true 0 ++ movedMonitor p o true a u.dist4
          finishD d d' fx m mv ov (some (true, a, u))
        else
          let ov := if o.sbal == p.sbal && showRows o.f2 == showRows p.f2 && o.mbal == p.mbal then [] else
            [Verdict.monitor "ledger_eq" s!"refused debit changed the store: before={p.sbal},after={o.sbal}"]
          finish d d fx m mv ov
      | _, _ => ({ d with dead := true }, [.badline "rhp4debit fields"])
    else ({ d with dead := true }, [.badline "unknown op"])

def stats (d : DState) : String :=
  s!"hists={d.hists} oplines={d.lines} credits_ok={d.creditsOk} budgets_ok={d.budgetsOk} commits_ok={d.commitsOk} commits_failed={d.commitsFail} rollbacks={d.rollbacks} rhp4credits_ok={d.credits4Ok} rhp4debits_ok={d.debits4Ok} debits_multi_source={d.multiSource} debits_exhausting_row={d.exhausted} debits_beyond_funding={d.undistributed} mixed_key_ops={d.mixedKey} fact_switches={d.factSwitches} attributions_validated={d.adopted} concurrent_rounds={d.parOps} concurrent_granted={d.parGranted} concurrent_refused={d.parRefused}"

end Hostd.Drive.Accounts
