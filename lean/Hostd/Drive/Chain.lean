import Hostd.Proto
import Hostd.Model.Chain
/-!
Driver of the `chain` engine (C01, C05, C06).

Every trace line is replayed on `Hostd.Chain` instantiated with `codeTable`.
Flag names are prefixed with the property they belong to (`c01/…`, `c05/…`, `c06/…`);
`lib/props.d` selects by prefix.

MISMATCH = the model predicts something else than the implementation did.
MONITOR  = a clause of the property is false on the implementation's own observations:
  c01/wf_update_never_fails   a well-formed apply/revert returned an error or panicked
  c01/best_chain/view         a contract's chain view differs from processing only the best chain
  c01/best_chain/twin         … differs from a fresh store fed only the best chain (model-independent)
  c01/rejection_rule          pending/rejected differs from the reject-buffer rule
  c01/revert_undoes_apply     after disconnecting a block the view differs from before connecting it
  c01/rescan_idempotent       a rescan after ResetChainState changed a contract's view
  c05/metrics_eq/<field>      a metric differs from the recomputation over the implementation's own rows
  c05/no_negative_stat        a metric was driven below zero (the host would abort)
  c06/actions/<query>         a lifecycle query returned a contract it must not / missed one it must
-/
namespace Hostd.Drive.Chain
open Hostd.Proto Hostd.Chain

/-- what the implementation reported for one contract -/
structure IRow where
  id : Nat
  ver : Ver
  st : St
  conf : Bool
  confH : Option Nat
  revConf : Bool
  resH : Option Nat
  rev : Nat
  locked : Nat
  usage : Usage
deriving Repr, DecidableEq

structure Snap where
  m : State
  stack : List (Nat × Changes)      -- best chain, top first
  spec : List State                 -- spec states, head = after all blocks of `stack`
  implViews : List (Option (List IRow))  -- implementation views before each applied block (when observed), top first

structure DState where
  focus : String := ""        -- only flags with this prefix are reported and end a history (one driver serves three properties)
  rb : Nat := 0
  buf : Nat := 0
  m : State := {}
  stack : List (Nat × Changes) := []
  spec : List State := [{}]
  implViews : List (Option (List IRow)) := []
  sawMetrics : Bool := true   -- a metrics line was seen since the last chain op
  lastImplViews : List (Nat × Ver × View) := []
  tainted : Bool := false      -- a non-well-formed update was committed: C01 says nothing about the rest
  dead : Bool := false
  inBatch : Bool := false
  batchFailed : Bool := false
  batchImplFailed : Bool := false
  snap : Option Snap := none
  rows : List IRow := []       -- rows reported since the last metrics line
  rescan : Bool := false
  adopt : Bool := false        -- an account operation committed: adopt the usage the rows report, route the delta
  acctOps : Nat := 0
  renewals : Nat := 0
  preRescan : List (Nat × Ver × View) := []
  pendingRevertCheck : Option (List IRow) := none
  lastRows : List IRow := []
  -- statistics
  hists : Nat := 0
  applies : Nat := 0
  reverts : Nat := 0
  wfOps : Nat := 0
  illOps : Nat := 0
  wfDisagree : Nat := 0            -- blocks on which the two formulations of well-formedness differ
  taintedHists : Nat := 0
  batches : Nat := 0
  usages : Nat := 0
  actions : Nat := 0
  twins : Nat := 0
  rescans : Nat := 0
  faultsAgreed : Nat := 0
  cells : List String := []    -- distinct (fn,status) cells exercised

def parseSt (s : String) : Option St :=
  match s with
  | "pending" => some .pending | "rejected" => some .rejected | "active" => some .active
  | "successful" => some .successful | "failed" => some .failed | "renewed" => some .renewed
  | _ => none

def showSt : St → String
  | .pending => "pending" | .rejected => "rejected" | .active => "active"
  | .successful => "successful" | .failed => "failed" | .renewed => "renewed"

def parseOptNat (s : String) : Option (Option Nat) :=
  if s == "none" then some none else s.toNat?.map some

def showOptNat : Option Nat → String
  | none => "none" | some n => toString n

def parsePairs (kv : List (String × String)) (k : String) : Option (List (Nat × Nat)) :=
  (getStrList kv k).bind fun l => l.mapM fun s =>
    match s.splitOn ":" with
    | [a, b] => do let x ← a.toNat?; let y ← b.toNat?; pure (x, y)
    | _ => none

def parseUsage (kv : List (String × String)) (k : String) : Option Usage :=
  match getNatList kv k with
  | some [a, b, c, d, e, f, g, h] =>
    some { rpc := a, storage := b, ingress := c, egress := d, regRead := e, regWrite := f, acct := g, risked := h }
  | _ => none

def parseChanges (kv : List (String × String)) : Option Changes := do
  let form1 ← getNatList kv "form1"
  let rev1 ← parsePairs kv "rev1"
  let succ1 ← getNatList kv "succ1"
  let fail1 ← getNatList kv "fail1"
  let form2 ← parsePairs kv "form2"
  let rev2 ← parsePairs kv "rev2"
  let succ2 ← getNatList kv "succ2"
  let renew2 ← getNatList kv "renew2"
  let fail2 ← getNatList kv "fail2"
  pure { form1, rev1, succ1, fail1, form2, rev2, succ2, renew2, fail2 }

def faultClass : Except Fault State → String
  | .ok _ => "ok"
  | .error (.error _) => "err"
  | .error (.panic w) => if w.startsWith "negative stat" then "panic:negative_stat" else "panic"

def modelViews (s : State) : List (Nat × Ver × View) := s.cs.map fun c => (c.id, c.ver, viewOf c)

def implView (r : IRow) : View :=
  { cls := clsOf r.st, confirmed := r.conf, confH := r.confH, revConfirmed := r.revConf, resH := r.resH }

def implViews (rows : List IRow) : List (Nat × Ver × View) := rows.map fun r => (r.id, r.ver, implView r)

def showView (v : View) : String :=
  s!"{showSt v.cls}/{v.confirmed}/{showOptNat v.confH}/{v.revConfirmed}/{showOptNat v.resH}"

def lookupView (id : Nat) (ver : Ver) (l : List (Nat × Ver × View)) : Option View :=
  (l.find? fun x => x.1 == id && x.2.1 == ver).map (·.2.2)

/-- first contract whose view differs between two view lists (contracts absent from `b` are ignored) -/
def diffViews (a b : List (Nat × Ver × View)) : Option String :=
  a.findSome? fun (id, ver, v) =>
    match lookupView id ver b with
    | some v' => if v == v' then none else some s!"c{id}:{showView v}!={showView v'}"
    | none => none

/-- chain view before connecting a block vs after disconnecting it again; the confirmed-revision
flag is only comparable when the host's latest revision number did not change in between -/
def diffRevert (before after : List IRow) : Option String :=
  before.findSome? fun b =>
    match after.find? (fun a => a.id == b.id && a.ver == b.ver) with
    | none => none
    | some a =>
      let vb := implView b
      let va := implView a
      let va' := if a.rev == b.rev then va else { va with revConfirmed := vb.revConfirmed }
      if vb == va' then none else some s!"c{b.id}:{showView vb}!={showView va}"

/-- component-wise difference of the metric-relevant usage categories; `none` when one decreased -/
def usageDelta (new old : Usage) : Option Usage :=
  if new.rpc ≥ old.rpc && new.storage ≥ old.storage && new.ingress ≥ old.ingress && new.egress ≥ old.egress &&
     new.regRead ≥ old.regRead && new.regWrite ≥ old.regWrite && new.risked ≥ old.risked then
    some { rpc := new.rpc - old.rpc, storage := new.storage - old.storage, ingress := new.ingress - old.ingress,
           egress := new.egress - old.egress, regRead := new.regRead - old.regRead, regWrite := new.regWrite - old.regWrite,
           acct := 0, risked := new.risked - old.risked }
  else none

/-- adopt the usage and revision number the implementation reports for every contract and move the
model's metrics by the delta, routed by status exactly as `addUsage` does -/
def adoptRows (s : State) (rows : List IRow) : Option State :=
  rows.foldlM (fun (s : State) r =>
    match findC r.ver r.id s.cs with
    | none => none
    | some c =>
      match usageDelta r.usage c.usage with
      | none => none
      | some du =>
        match addUsage r.ver r.id r.rev du s with
        | .ok s1 =>
          -- account funding is no metric category; take it as reported
          some { s1 with cs := s1.cs.map fun x => if x.ver == r.ver && x.id == r.id then { x with usage := { x.usage with acct := r.usage.acct } } else x }
        | .error _ => none) s

def toContract (r : IRow) : Contract :=
  { id := r.id, ver := r.ver, status := r.st, locked := r.locked, usage := r.usage }

def metricsList (m : Metrics) : List Nat :=
  [m.active, m.rejected, m.successful, m.failed, m.renewed, m.locked, m.risked,
   m.pot.rpc, m.pot.storage, m.pot.ingress, m.pot.egress, m.pot.regRead, m.pot.regWrite,
   m.earned.rpc, m.earned.storage, m.earned.ingress, m.earned.egress, m.earned.regRead, m.earned.regWrite]

def metricNames : List String :=
  ["active", "rejected", "successful", "failed", "renewed", "lockedCollateral", "riskedCollateral",
   "potentialRPC", "potentialStorage", "potentialIngress", "potentialEgress", "potentialRegistryRead", "potentialRegistryWrite",
   "earnedRPC", "earnedStorage", "earnedIngress", "earnedEgress", "earnedRegistryRead", "earnedRegistryWrite"]

def firstDiff (names : List String) (a b : List Nat) : Option (String × Nat × Nat) :=
  match names, a, b with
  | n :: ns, x :: xs, y :: ys => if x == y then firstDiff ns xs ys else some (n, x, y)
  | _, _, _ => none

def headD {α} (l : List α) (d : α) : α := match l with | x :: _ => x | [] => d

def verdictName : Verdict → String
  | .mismatch f _ _ => f
  | .monitor n _ => n
  | _ => ""

def flag (d : DState) (vs : List Verdict) : DState × List Verdict :=
  let keep (v : Verdict) : Bool :=
    match v with
    | .badline _ => true
    | v => d.focus.isEmpty || (verdictName v).startsWith d.focus
  let kept := vs.filter keep
  -- a dropped disagreement about whether an operation took effect makes the rest of the history
  -- meaningless (model and implementation are in different states): stop silently
  let hard := vs.any fun v => !keep v && ((verdictName v).endsWith ".res" || (verdictName v).endsWith "model_projection"
                                         || (verdictName v).endsWith "wf_update_never_fails")
  ({ d with dead := d.dead || !kept.isEmpty || hard }, kept)

/-- the seven lifecycle selections as the property states them, evaluated on implementation rows.
`some true` = must be selected, `some false` = must not, `none` = the property does not decide. -/
def specRebroadcast (r : IRow) : Option Bool := some (!r.conf && r.st != .rejected)
def specRevision (h buf wStart : Nat) (r : IRow) : Option Bool :=
  let base := r.conf && !r.revConf && h ≤ wStart && wStart ≤ h + buf
  match r.ver with
  | .v1 => if r.st == .active then some base else if base then none else some false
  | .v2 => some (base && r.st == .active)
def specProof (h wStart wEnd : Nat) (r : IRow) : Option Bool :=
  -- a v1 missed resolution sits in block `window_end`; a failed v1 row below that height cannot
  -- occur on a chain (hypothesis `hfail` of `proof1_exact`), the property does not decide it
  if r.ver == .v1 && r.st == .failed && h < wEnd then none
  else some (r.conf && r.st == .active && wStart ≤ h && h < wEnd)
def specExpire (h wEnd : Nat) (r : IRow) : Option Bool :=
  some (r.conf && r.st == .active && wEnd ≤ h)

def checkSel (name : String) (ver : Ver) (rows : List IRow) (spec : IRow → Option Bool) (got : List Nat) : List Verdict :=
  let rs := rows.filter (·.ver == ver)
  let bad := rs.findSome? fun r =>
    match spec r with
    | some true => if got.contains r.id then none else some s!"missing:c{r.id}({showSt r.st})"
    | some false => if got.contains r.id then some s!"unexpected:c{r.id}({showSt r.st})" else none
    | none => none
  match bad with
  | some why => [.monitor s!"c06/actions/{name}" why]
  | none => []

def step (d : DState) (l : Line) : DState × List Verdict :=
  if l.op == "reset" then
    match getNat l.args "rb", getNat l.args "buf" with
    | some rb, some buf =>
      ({ focus := d.focus, rb, buf, hists := d.hists + 1, applies := d.applies, reverts := d.reverts, wfOps := d.wfOps, illOps := d.illOps, wfDisagree := d.wfDisagree,
         taintedHists := d.taintedHists + (if d.tainted then 1 else 0), batches := d.batches, usages := d.usages,
         actions := d.actions, twins := d.twins, rescans := d.rescans, faultsAgreed := d.faultsAgreed, cells := d.cells,
         acctOps := d.acctOps, renewals := d.renewals }, [])
    | _, _ => (d, [.badline "reset"])
  else if d.dead then (d, [])
  else if l.op == "add" then
    match getNat l.args "c", getNat l.args "v", getNat l.args "neg", getNat l.args "ws", getNat l.args "we",
          getNat l.args "rev", getNat l.args "locked", parseUsage l.args "u", getStr l.obs "res" with
    | some c, some v, some neg, some ws, some we, some rev, some locked, some u, some res =>
      let ver := if v == 2 then Ver.v2 else Ver.v1
      let con : Contract := { id := c, ver, neg, wStart := ws, wEnd := we, rev, locked, usage := u }
      let r := addContract con d.m
      let vs := cmp "c01/add.res" (faultClass r) res
      match r with
      | .ok m' =>
        -- the contract becomes part of every spec state on the stack (it is pending on every prefix)
        let spec := d.spec.map fun s => match addContract con s with | .ok s' => s' | .error _ => s
        flag { d with m := m', spec } vs
      | .error _ => flag d vs
    | _, _, _, _, _, _, _, _, _ => (d, [.badline "add"])
  else if l.op == "begin" then
    ({ d with inBatch := true, batchFailed := false, batchImplFailed := false, batches := d.batches + 1,
              snap := some { m := d.m, stack := d.stack, spec := d.spec, implViews := d.implViews } }, [])
  else if l.op == "commit" then
    match getStr l.obs "res" with
    | some res =>
      let want := if d.batchFailed then "rolledback" else "ok"
      let d1 := match d.batchFailed || res != "ok", d.snap with
        | true, some sn => { d with m := sn.m, stack := sn.stack, spec := sn.spec, implViews := sn.implViews }
        | _, _ => d
      flag { d1 with inBatch := false, snap := none } (cmp "c01/commit.res" want res)
    | none => (d, [.badline "commit"])
  else if l.op == "apply" || l.op == "revert" then
    match getNat l.args "h", parseChanges l.args, getStr l.obs "res" with
    | some h, some ch, some res =>
      if d.inBatch && (d.batchFailed || res == "skipped") then
        -- steps after a failed one are not executed
        flag d (if res == "skipped" && !d.batchFailed then [.mismatch "c01/res" "executed" "skipped"] else
                if res != "skipped" && d.batchFailed then [.mismatch "c01/res" "skipped" res] else [])
      else
      let isApply := l.op == "apply"
      let specHead := headD d.spec {}
      let specBelow := headD (d.spec.drop 1) {}
      let wf : Bool :=
        if d.rescan then true
        else if isApply then h == d.stack.length + 1 && wfApplyP specHead ch
        else match d.stack with
          | (h', ch') :: _ => h == h' && wfRevertP specBelow ch' ch
          | [] => false
      -- the list-level formulation of the same guarantee (Model/Chain.lean `wfApplyR`/`wfRevert`) must agree
      let wfL : Bool :=
        if d.rescan then true
        else if isApply then h == d.stack.length + 1 && wfApplyR specHead ch && (ch.rev2.map (·.1)).Nodup
        else match d.stack with
          | (h', ch') :: _ => h == h' && wfRevert specBelow ch' ch && listsNodupB ch && idsExist specBelow ch
          | [] => false
      let r := if isApply then applyBlock codeTable d.rb h ch d.m else revertContracts codeTable h ch d.m
      let cls := faultClass r
      -- internal consistency: the global model and the per-contract semantics the C01 theorems are
      -- stated about must agree on every contract whenever no list of the block mentions a contract twice
      let proj : List Verdict :=
        match r with
        | .ok m' =>
          if ch.form1.Nodup && (ch.rev1.map (·.1)).Nodup && ch.succ1.Nodup && ch.fail1.Nodup && (ch.form2.map (·.1)).Nodup &&
             (ch.rev2.map (·.1)).Nodup && ch.succ2.Nodup && ch.renew2.Nodup && ch.fail2.Nodup then
            (d.m.cs.findSome? fun c =>
              let e := eventsFor c.ver c.id ch
              let pc := stepH codeTable d.rb c (if isApply then .apply h e else .revert h e)
              match pc, findC c.ver c.id m'.cs with
              | .ok c1, some c2 => if c1 == c2 then none else some [Verdict.mismatch "c01/model_projection" s!"c{c.id}" "global!=per-contract"]
              | _, _ => some [Verdict.mismatch "c01/model_projection" s!"c{c.id}" "per-contract fault"]).getD []
          else []
        | .error _ => []
      let d := { d with wfDisagree := d.wfDisagree + (if wf != wfL then 1 else 0) }
      let d := { d with applies := d.applies + (if isApply then 1 else 0), reverts := d.reverts + (if isApply then 0 else 1),
                        wfOps := d.wfOps + (if wf then 1 else 0), illOps := d.illOps + (if wf then 0 else 1) }
      -- property monitors first
      let v1 : List Verdict :=
        if res == "panic:negative_stat" then [.monitor "c05/no_negative_stat" s!"{l.op}@{h}"]
        else if wf && !d.tainted && res != "ok" then [.monitor "c01/wf_update_never_fails" s!"{l.op}@{h}:{res}"]
        else []
      let v2 := if v1.isEmpty then cmp "c01/res" cls res else []
      let vs := v1 ++ v2 ++ proj
      if !vs.isEmpty then flag d vs else
      match r with
      | .ok m' =>
        -- committed (or to be committed at `commit`): update the best chain and the spec
        let tainted := d.tainted || !wf
        if d.rescan then
          ({ d with m := m', stack := (h, ch) :: d.stack }, [])
        else if isApply then
          let (spec', specOk) := match applyContracts codeTable h ch specHead with
            | .ok s => (s, true)
            | .error _ => (specHead, false)
          let tainted := tainted || !specOk
          ({ d with m := m', tainted, stack := (h, ch) :: d.stack, spec := spec' :: d.spec,
                    implViews := (if d.sawMetrics then some d.lastRows else none) :: d.implViews,
                    sawMetrics := false, pendingRevertCheck := none }, [])
        else
          let before := headD d.implViews none
          ({ d with m := m', tainted, stack := d.stack.drop 1, spec := (if d.spec.length > 1 then d.spec.drop 1 else d.spec),
                    implViews := d.implViews.drop 1, pendingRevertCheck := before, sawMetrics := false }, [])
      | .error _ =>
        -- both sides faulted in the same class: the transaction is rolled back
        let d := { d with faultsAgreed := d.faultsAgreed + 1 }
        if d.inBatch then ({ d with batchFailed := true }, []) else (d, [])
    | _, _, _ => (d, [.badline l.op])
  else if l.op == "usage" then
    match getNat l.args "c", getNat l.args "rev", parseUsage l.args "u", getStr l.obs "res" with
    | some c, some rev, some u, some res =>
      let ver := match d.m.cs.find? (·.id == c) with | some x => x.ver | none => Ver.v1
      let r := addUsage ver c rev u d.m
      let d := { d with usages := d.usages + 1 }
      let vs := if res == "panic:negative_stat" then [.monitor "c05/no_negative_stat" s!"usage:c{c}"] else cmp "c05/usage.res" (faultClass r) res
      match r with
      | .ok m' =>
        -- the latest signed revision changes in every spec state too (it is not chain state)
        let spec := d.spec.map fun s => match addUsage ver c rev u s with | .ok s' => s' | .error _ => s
        flag { d with m := m', spec } vs
      | .error _ => flag d vs
    | _, _, _, _ => (d, [.badline "usage"])
  else if l.op == "acct" then
    match getStr l.obs "res" with
    | some res =>
      let d := { d with acctOps := d.acctOps + 1 }
      if res == "panic:negative_stat" then flag d [.monitor "c05/no_negative_stat" s!"acct:{(getStr l.args "kind").getD "?"}"]
      else if res == "panic" then flag d [.mismatch "c05/acct.res" "ok|err" res]
      else ({ d with adopt := res == "ok" }, [])
    | none => (d, [.badline "acct"])
  else if l.op == "renew1" then
    match getNat l.args "c", getNat l.args "new", getNat l.args "neg", getNat l.args "ws", getNat l.args "we",
          getNat l.args "rev", getNat l.args "locked", parseUsage l.args "u", parseUsage l.args "cu", getStr l.obs "res" with
    | some c, some nw, some neg, some ws, some we, some rev, some locked, some u, some cu, some res =>
      let con : Contract := { id := nw, ver := .v1, neg, wStart := ws, wEnd := we, rev, locked, usage := u }
      let r := (addContract con d.m).bind fun m1 => addUsage .v1 c (2^62) cu m1
      let d := { d with renewals := d.renewals + 1 }
      let vs := if res == "panic:negative_stat" then [.monitor "c05/no_negative_stat" s!"renew1:c{c}"] else cmp "c05/renew.res" (faultClass r) res
      match r with
      | .ok m' =>
        let spec := d.spec.map fun s => match (addContract con s).bind (fun s1 => addUsage .v1 c (2^62) cu s1) with | .ok s' => s' | .error _ => s
        flag { d with m := m', spec } vs
      | .error _ => flag d vs
    | _, _, _, _, _, _, _, _, _, _ => (d, [.badline "renew1"])
  else if l.op == "row" then
    match getNat l.args "c", getNat l.obs "v", (getStr l.obs "st").bind parseSt, getNat l.obs "conf",
          (getStr l.obs "confh").bind parseOptNat, getNat l.obs "revconf", (getStr l.obs "resh").bind parseOptNat,
          getNat l.obs "rev", getNat l.obs "locked", parseUsage l.obs "u" with
    | some c, some v, some st, some conf, some confH, some revConf, some resH, some rev, some locked, some u =>
      let row : IRow := { id := c, ver := if v == 2 then .v2 else .v1, st, conf := conf == 1, confH, revConf := revConf == 1,
                          resH, rev, locked, usage := u }
      ({ d with rows := d.rows ++ [row] }, [])
    | _, _, _, _, _, _, _, _, _, _ => (d, [.badline "row"])
  else if l.op == "metrics" then
    match getNatList l.obs "m" with
    | some im =>
      let rows := d.rows
      let d := { d with rows := [], lastImplViews := implViews rows, lastRows := rows, sawMetrics := true }
      if d.inBatch then (d, []) else
      let (d, vadopt) : DState × List Verdict :=
        if d.adopt then
          match adoptRows d.m rows with
          | some m' =>
            let spec := d.spec.map fun s =>
              let cs := s.cs.map fun x => match rows.find? (fun r => r.ver == x.ver && r.id == x.id) with
                                          | some r => { x with rev := r.rev, usage := r.usage }
                                          | none => x
              { cs, m := recompute cs }
            ({ d with m := m', spec, adopt := false }, [])
          | none => ({ d with adopt := false }, [.mismatch "c05/row.usage" "non-decreasing revenue categories" "a category decreased"])
        else (d, [])
      if !vadopt.isEmpty then flag d vadopt else
      -- C05: metrics = recomputation over the implementation's own rows
      let rec5 := metricsList (recompute (rows.map toContract))
      let v5 : List Verdict := match firstDiff metricNames rec5 im with
        | some (n, want, got) => [.monitor s!"c05/metrics_eq/{n}" s!"recomputed={want},reported={got}"]
        | none => []
      -- C01: chain view = view of the spec (best chain only), unless tainted / rescanning
      let iv := implViews rows
      let v1a : List Verdict :=
        if d.tainted || d.rescan then [] else
        match diffViews iv (modelViews (headD d.spec {})) with
        | some why => [.monitor "c01/best_chain/view" why]
        | none => []
      let v1b : List Verdict :=
        match d.pendingRevertCheck with
        | some before =>
          if d.tainted || d.rescan then [] else
          match diffRevert before rows with
          | some why => [.monitor "c01/revert_undoes_apply" why]
          | none => []
        | none => []
      let d := { d with pendingRevertCheck := none }
      -- model vs implementation, field by field
      let vm : List Verdict :=
        rows.findSome? (fun r =>
          match d.m.cs.find? (fun c => c.id == r.id && c.ver == r.ver) with
          | none => some [Verdict.mismatch "c01/row" "absent" s!"c{r.id}"]
          | some c =>
            if c.status != r.st then
              if clsOf c.status == clsOf r.st && !d.tainted then
                some [Verdict.monitor "c01/rejection_rule" s!"c{r.id}:rule={showSt c.status},impl={showSt r.st}"]
              else some [Verdict.mismatch "c01/row.status" s!"c{r.id}:{showSt c.status}" (showSt r.st)]
            else if viewOf c != implView r then some [Verdict.mismatch "c01/row.view" s!"c{r.id}:{showView (viewOf c)}" (showView (implView r))]
            else if c.rev != r.rev then some [Verdict.mismatch "c05/row.rev" s!"c{r.id}:{c.rev}" (toString r.rev)]
            else if c.usage != r.usage || c.locked != r.locked then some [Verdict.mismatch "c05/row.usage" s!"c{r.id}" "differs"]
            else none) |>.getD []
      let vmm : List Verdict := match firstDiff metricNames (metricsList d.m.m) im with
        | some (n, want, got) => [.mismatch s!"c05/metrics.{n}" (toString want) (toString got)]
        | none => []
      let mons := v5 ++ v1a ++ v1b
      flag d (if mons.isEmpty then (vm ++ (if vm.isEmpty then vmm else [])) else mons)
    | none => (d, [.badline "metrics"])
  else if l.op == "actions" then
    match getNat l.args "h", getNat l.args "buf", getStr l.obs "res" with
    | some h, some buf, some res =>
      if res != "ok" then flag d [.mismatch "c06/actions.res" "ok" res] else
      match getNatList l.obs "rb1", getNatList l.obs "rv1", getNatList l.obs "pf1", getNatList l.obs "rb2",
            getNatList l.obs "rv2", getNatList l.obs "pf2", getNatList l.obs "ex2" with
      | some rb1, some rv1, some pf1, some rb2, some rv2, some pf2, some ex2 =>
        let d := { d with actions := d.actions + 1 }
        -- what the chain position requires: the rows of the best-chain spec (processing only the best
        -- chain), with pending/rejected decided by the rejection rule of the model; the implementation's
        -- own flags are NOT trusted here (a stale confirmed-revision flag must show up as a missed action)
        let specCs := (headD d.spec {}).cs
        let rows : List IRow := d.m.cs.filterMap fun c =>
          (specCs.find? fun x => x.id == c.id && x.ver == c.ver).map fun x =>
            let v := viewOf x
            { id := c.id, ver := c.ver, st := (if v.cls == .pending && c.status == .rejected then .rejected else v.cls),
              conf := v.confirmed, confH := v.confH, revConf := v.revConfirmed, resH := v.resH, rev := c.rev,
              locked := c.locked, usage := c.usage }
        let win (id : Nat) (ver : Ver) : Nat × Nat :=
          match d.m.cs.find? (fun c => c.id == id && c.ver == ver) with | some c => (c.wStart, c.wEnd) | none => (0, 0)
        let atTip := h == d.stack.length
        let mons : List Verdict :=
          if d.tainted || !atTip || rows.length != d.m.cs.length then [] else
          checkSel "rebroadcast_v1" .v1 rows specRebroadcast rb1 ++
          checkSel "revision_v1" .v1 rows (fun r => specRevision h buf (win r.id r.ver).1 r) rv1 ++
          checkSel "proof_v1" .v1 rows (fun r => specProof h (win r.id r.ver).1 (win r.id r.ver).2 r) pf1 ++
          checkSel "rebroadcast_v2" .v2 rows specRebroadcast rb2 ++
          checkSel "revision_v2" .v2 rows (fun r => specRevision h buf (win r.id r.ver).1 r) rv2 ++
          checkSel "proof_v2" .v2 rows (fun r => specProof h (win r.id r.ver).1 (win r.id r.ver).2 r) pf2 ++
          checkSel "expire_v2" .v2 rows (fun r => specExpire h (win r.id r.ver).2 r) ex2
        -- model (SQL transcriptions) vs implementation
        let cs := d.m.cs
        let srt (l : List Nat) : List Nat := (l.toArray.qsort (· < ·)).toList
        let mm : List Verdict :=
          cmp "c06/actions.rb1" (showNatList (srt (selIds selRebroadcast1 cs))) (showNatList rb1) ++
          cmp "c06/actions.rv1" (showNatList (srt (selIds (selRevision1 h buf) cs))) (showNatList rv1) ++
          cmp "c06/actions.pf1" (showNatList (srt (selIds (selProof1 h) cs))) (showNatList pf1) ++
          cmp "c06/actions.rb2" (showNatList (srt (selIds selRebroadcast2 cs))) (showNatList rb2) ++
          cmp "c06/actions.rv2" (showNatList (srt (selIds (selRevision2 h buf) cs))) (showNatList rv2) ++
          cmp "c06/actions.pf2" (showNatList (srt (selIds (selProof2 h) cs))) (showNatList pf2) ++
          cmp "c06/actions.ex2" (showNatList (srt (selIds (selExpire2 h) cs))) (showNatList ex2)
        flag d (if mons.isEmpty then mm.take 1 else mons.take 1)
      | _, _, _, _, _, _, _ => (d, [.badline "actions lists"])
    | _, _, _ => (d, [.badline "actions"])
  else if l.op == "twin" then
    match getNat l.obs "eq", getStr l.obs "diff" with
    | some eq, some diff =>
      let d := { d with twins := d.twins + 1 }
      if d.tainted || eq == 1 then (d, []) else flag d [.monitor "c01/best_chain/twin" diff]
    | _, _ => (d, [.badline "twin"])
  else if l.op == "resetchain" then
    ({ d with m := resetChain d.m, rescan := true, preRescan := d.lastImplViews, stack := [], rescans := d.rescans + 1 }, [])
  else if l.op == "rescandone" then
    let vs : List Verdict :=
      if d.tainted then [] else
      match diffViews d.preRescan d.lastImplViews with
      | some why => [.monitor "c01/rescan_idempotent" why]
      | none => []
    flag { d with rescan := false, tainted := true } vs   -- the spec stack is not rebuilt after a rescan
  else (d, [.badline "unknown op"])

def stats (d : DState) : String :=
  s!"hists={d.hists} applies={d.applies} reverts={d.reverts} wf_ops={d.wfOps} ill_ops={d.illOps} wf_disagree={d.wfDisagree} batches={d.batches} usages={d.usages} actions={d.actions} acct_ops={d.acctOps} renewals={d.renewals} twins={d.twins} rescans={d.rescans} faults_agreed={d.faultsAgreed}"

end Hostd.Drive.Chain
