import Hostd.Proto
import Hostd.Model.Lock
/-!
Driver for the `lock` engine (C15).

The harness drives the real `locker` (directly, through `Manager.Lock` and through
`Manager.LockV2Contract`) with goroutines under a controlled schedule and reports, after
every operation, the quiescent snapshot it observed: per thread `i` (idle), `h<id>`
(Lock returned nil, not yet unlocked), `w<id>` (parked inside the `select` of `Lock`), what
every Lock call that returned during the operation returned, and `len(locks)`.

Between two snapshots the goroutines take critical-section steps the harness cannot see in
order, so the driver keeps the *set* of model states that are consistent with everything
observed so far: it applies the issued actions to every candidate, closes the set under the
internal steps `Hostd.Lock.step` allows (`lockFresh/lockWait` of a started call, `recv` when a
token is there, `cancelCommit` when the ctx is done, `cancelFinish`, the `Unlock` of a
Manager error path), keeps the quiescent candidates and filters them by the observation.
Empty set ⇒ the observed event sequence is not a path of the Lean transition system
(`MISMATCH`).  Independently of the model the property's clauses are evaluated on the
implementation's own observations (`MONITOR`).
-/
namespace Hostd.Drive.Lock
open Hostd.Proto Hostd.Lock

/-- driver-level bookkeeping of one caller (what the model leaves to the environment) -/
structure TI where
  pending : Option Nat := none   -- Lock(id) issued, entry critical section not yet run
  canc    : Bool := false        -- its ctx is done
  cable   : Bool := true         -- the ctx can end at all (false: LockV2Contract uses context.Background())
  via     : Nat := 0             -- 0 locker.Lock, 1 Manager.Lock, 2 Manager.LockV2Contract,
                                 -- 3 Manager.CheckIntegrity, 4 Manager.V2CheckIntegrity (lock users: acquire, body, release)
  check   : Bool := false        -- lock acquired inside a Manager call, store lookup not yet done
  ret     : Nat := 0             -- returned since the last snapshot: 0 no, 1 acquired, 2 ctx error, 3 other error (lock released),
                                 -- 4 a lock user returned nil (lock released)
deriving BEq, Repr

structure Cand where
  m  : State
  ti : List TI

/-- per contract id: what the store lookup of Manager.Lock (`m`: ok|nf|bad|win|max) and of
LockV2Contract (`v`: ok|nf|rn) answer, and what the integrity checks find once they hold the lock
(`b` v1, `b2` v2: ok | cnt = root count mismatch | mrk = Merkle root mismatch) -/
structure Cls where
  m  : String := "ok"
  v  : String := "ok"
  b  : String := "ok"
  b2 : String := "ok"
deriving BEq, Repr

def Cls.mOk (c : Cls) : Bool := c.m == "ok"
def Cls.vOk (c : Cls) : Bool := c.v == "ok" || c.v == "rn"

inductive DAct where
  | lock (t id via : Nat) (pre : Bool)
  | cancel (t : Nat)
  | unlock (t : Nat)
  | yield
deriving Repr

def parseAct (tok : String) : Option DAct :=
  match tok.toList with
  | 'c' :: r => (String.ofList r).toNat?.map .cancel
  | 'u' :: r => (String.ofList r).toNat?.map .unlock
  | ['y'] => some .yield
  | 'l' :: r =>
    match (String.ofList r).splitOn "." with
    | [t, id, via, pre] =>
      match t.toNat?, id.toNat?, pre.toNat? with
      | some t, some id, some pre =>
        let v := if via == "l" then some 0 else if via == "m" then some 1 else if via == "v" then some 2
          else if via == "i" then some 3 else if via == "j" then some 4 else none
        v.map fun v => .lock t id v (pre == 1)
      | _, _, _ => none
    | _ => none
  | _ => none

def tiGet (l : List TI) (t : Nat) : TI := (l[t]?).getD {}

/-- fingerprint of a candidate over the ids in play (dead heap objects cannot matter: no
pointer to them is kept unless it shows in `pcs`, which is part of the fingerprint) -/
def fp (k : Nat) (c : Cand) : String :=
  let pcs := c.m.pcs.map fun
    | .idle => "i"
    | .waiting i g => s!"w{i}.{g}"
    | .cancelCommitted i g => s!"c{i}.{g}"
    | .holding i => s!"h{i}"
  let ents := (List.range k).map fun i =>
    match c.m.ent i with
    | none => "-"
    | some g => s!"{g}:{(c.m.obj i g).n}:{(c.m.obj i g).tokens}"
  let tis := c.ti.map fun x => s!"{x.pending}/{x.canc}/{x.cable}/{x.via}/{x.check}/{x.ret}"
  s!"{pcs}|{ents}|{tis}"

def clsOk (cls : List Cls) (id via : Nat) : Bool :=
  let c := (cls[id]?).getD {}
  if via == 1 || via == 3 then c.mOk else if via == 2 || via == 4 then c.vOk else true

/-- the return path a lock user takes on contract `id` -/
def userPathName (cls : List Cls) (id via : Nat) : String :=
  let c := (cls[id]?).getD {}
  if via == 3 then (if c.m != "ok" then c.m else c.b) else (if c.v == "nf" then "nf" else c.b2)

def userPath (cls : List Cls) (id via : Nat) : UserPath :=
  let p := userPathName cls id via
  if p == "ok" then .success else if p == "cnt" then .countMismatch else if p == "mrk" then .merkleMismatch else .storeError

def userName (via : Nat) : String := if via == 3 then "CheckIntegrity" else "V2CheckIntegrity"

/-- ctx of the call can end (LockV2Contract / V2CheckIntegrity lock with context.Background()) -/
def viaCable (via : Nat) : Bool := via != 2 && via != 4

/-- after `Lock` returned nil inside a call: raw locker → acquired; Manager → store lookup pending -/
def acquired (x : TI) : TI :=
  if x.via == 0 then { x with pending := none, ret := 1 } else { x with pending := none, check := true }

/-- internal (unobserved) steps one thread can take -/
def internal (cls : List Cls) (c : Cand) (t : Nat) : List Cand :=
  let x := tiGet c.ti t
  match c.m.pcs[t]? with
  | none => []
  | some .idle =>
    match x.pending with
    | none => []
    | some id =>
      let a := lockAct c.m t id
      match step c.m a with
      | .ok m' =>
        match a with
        | .lockFresh _ _ => [{ m := m', ti := c.ti.set t (acquired x) }]
        | _ => [{ m := m', ti := c.ti.set t { x with pending := none } }]
      | .error _ => []
  | some (.waiting i g) =>
    let r := if (c.m.obj i g).tokens > 0 then
        match step c.m (.recv t) with
        | .ok m' => [{ m := m', ti := c.ti.set t (acquired x) : Cand }]
        | .error _ => []
      else []
    let k := if x.canc && x.cable then
        match step c.m (.cancelCommit t) with
        | .ok m' => [{ m := m', ti := c.ti : Cand }]
        | .error _ => []
      else []
    r ++ k
  | some (.cancelCommitted _ _) =>
    match step c.m (.cancelFinish t) with
    | .ok m' => [{ m := m', ti := c.ti.set t { x with ret := 2 } }]
    | .error _ => []
  | some (.holding i) =>
    if x.check then
      if clsOk cls i x.via then
        if x.via ≥ 3 then
          -- a lock user: integrity.go:68-83 / 157-172, the body does not touch the locker and every
          -- return path releases (defer): what it returns depends on the path, the Unlock does not
          let p := userPath cls i x.via
          match userAfterAcquire c.m t p with
          | .ok m' => [{ m := m', ti := c.ti.set t { x with check := false, ret := if p == .success then 4 else 3 } }]
          | .error _ => []
        else [{ m := c.m, ti := c.ti.set t { x with check := false, ret := 1 } }]
      else
        -- lock.go:96/99/128: cm.locks.Unlock(id); return error
        match mgrAfterAcquire c.m t false with
        | .ok m' => [{ m := m', ti := c.ti.set t { x with check := false, ret := 3 } }]
        | .error _ => []
    else []

def succs (cls : List Cls) (c : Cand) : List Cand :=
  (List.range c.m.pcs.length).flatMap (internal cls c)

/-- all candidates reachable by ≥ 0 internal steps (internal steps only make progress, so this terminates;
`fuel` is a formal bound) -/
def closure (k : Nat) (cls : List Cls) (start : List Cand) : List Cand :=
  let rec go (fuel : Nat) (frontier : List Cand) (seen : List String) (acc : List Cand) : List Cand :=
    match fuel with
    | 0 => acc
    | fuel + 1 =>
      match frontier with
      | [] => acc
      | c :: rest =>
        let f := fp k c
        if seen.contains f then go fuel rest seen acc
        else go fuel (succs cls c ++ rest) (f :: seen) (c :: acc)
  go 100000 start [] []

def quiescent (c : Cand) : Bool :=
  (List.range c.m.pcs.length).all fun t =>
    let x := tiGet c.ti t
    x.pending.isNone && !x.check &&
    match c.m.pcs[t]? with
    | some (.cancelCommitted _ _) => false
    | some (.waiting i g) => (c.m.obj i g).tokens == 0 && !(x.canc && x.cable)
    | _ => true

/-- an action issued by the harness -/
def applyAct (c : Cand) : DAct → Option Cand
  | .lock t id via pre =>
    match c.m.pcs[t]? with
    | some .idle =>
      if (tiGet c.ti t).pending.isSome then none
      else some { c with ti := c.ti.set t { pending := some id, canc := pre, cable := viaCable via, via := via } }
    | _ => none
  | .cancel t => some { c with ti := c.ti.set t { tiGet c.ti t with canc := true } }
  | .unlock t =>
    match c.m.pcs[t]? with
    | some (.holding _) =>
      if (tiGet c.ti t).check then none
      else match step c.m (.unlock t) with
        | .ok m' => some { c with m := m' }
        | .error _ => none      -- panic / blocked send: impossible in reachable states (Props/C15), observed ones are flagged by monitors
    | _ => none
  | .yield => some c

def stOf (c : Cand) : List String :=
  c.m.pcs.map fun
    | .idle => "i"
    | .waiting i _ => s!"w{i}"
    | .cancelCommitted i _ => s!"c{i}"
    | .holding i => s!"h{i}"

def retStr : Nat → String
  | 1 => "a" | 2 => "e" | 3 => "f" | 4 => "s" | _ => "-"

def retsOf (c : Cand) : List String := c.ti.map (retStr ·.ret)

def clearRets (c : Cand) : Cand := { c with ti := c.ti.map ({ · with ret := 0 }) }

structure DState where
  cands  : List Cand := []
  k      : Nat := 1                      -- ids in play
  nthr   : Nat := 0
  cls    : List Cls := []
  dead   : Bool := true
  pst    : List String := []             -- previous snapshot (implementation's own observations)
  dcanc  : List Bool := []               -- ctx of the thread's current call is done (from the ops)
  dcable : List Bool := []
  dvia   : List Nat := []                -- how the thread's current / last call was made, and on which contract
  did    : List Nat := []
  -- statistics
  hists : Nat := 0
  ops : Nat := 0
  locksImm : Nat := 0
  locksBlocked : Nat := 0
  handoffs : Nat := 0
  cancelErr : Nat := 0
  cancelAcq : Nat := 0
  mgrFail : Nat := 0
  races : Nat := 0
  finals : Nat := 0
  userRets : Nat := 0                    -- returns of lock users (CheckIntegrity / V2CheckIntegrity)
  maxCands : Nat := 0
  ambiguous : Nat := 0                   -- lines after which more than one model state remained possible

def cnt' (l : List String) (x : String) : Nat := (l.filter (· == x)).length

def newHistory (d : DState) (threads ids : Nat) : DState :=
  { d with
    cands := [{ m := init threads, ti := List.replicate threads {} }]
    k := ids, nthr := threads, cls := List.replicate ids {}, dead := false
    pst := List.replicate threads "i", dcanc := List.replicate threads false
    dcable := List.replicate threads true, dvia := List.replicate threads 0, did := List.replicate threads 0
    hists := d.hists + 1 }

/-- property monitors on the implementation's observations (model-independent) -/
def monitors (d : DState) (acts : List DAct) (st rets : List String) (locks : Nat)
    (dcanc dcable : List Bool) (dvia did : List Nat) : List Verdict :=
  let ids := List.range d.k
  let thr := List.range d.nthr
  let at' (l : List String) (t : Nat) : String := (l[t]?).getD "?"
  -- mutual exclusion
  let v1 := ids.filterMap fun i =>
    if cnt' st s!"h{i}" > 1 then some (Verdict.monitor "mutual_exclusion" s!"id={i},st={showStrList st}") else none
  -- one unlock, one waiter
  let v2 := ids.filterMap fun i =>
    let admitted := (thr.filter fun t => at' d.pst t == s!"w{i}" && at' st t == s!"h{i}").length
    let unl := (acts.filter fun a => match a with
      | .unlock t => at' d.pst t == s!"h{i}"
      | _ => false).length
    let failed := (thr.filter fun t => at' rets t == "f" || at' rets t == "s").length
    if admitted > unl + failed then
      some (Verdict.monitor "one_unlock_one_waiter" s!"id={i},admitted={admitted},unlocks={unl + failed}")
    else none
  -- a contract nobody held or waited for must be lockable immediately (no leaked entry)
  let v3 := match acts with
    | [.lock t i _ _] =>
      if cnt' d.pst s!"h{i}" == 0 && cnt' d.pst s!"w{i}" == 0 && at' st t == s!"w{i}" then
        [Verdict.monitor "no_leak" s!"relock_blocked,id={i},t={t}"]
      else []
    | _ => []
  -- waiter progress: a parked waiter needs a holder; a waiter whose ctx ended must have returned
  let v4 := if !v3.isEmpty then [] else ids.filterMap fun i =>
    if cnt' st s!"w{i}" > 0 && cnt' st s!"h{i}" == 0 then
      some (Verdict.monitor "waiter_progress" s!"waiting_without_holder,id={i},st={showStrList st}")
    else none
  let v5 := thr.filterMap fun t =>
    if (at' st t).startsWith "w" && (dcanc[t]?).getD false && (dcable[t]?).getD true then
      some (Verdict.monitor "waiter_progress" s!"cancelled_waiter_did_not_return,t={t}")
    else none
  -- len(locks) = number of contracts somebody holds or waits for
  let refd := (ids.filter fun i => cnt' st s!"h{i}" > 0 || cnt' st s!"w{i}" > 0).length
  -- a lock user that returned in this step is named: `no_leak/<method>/<return path>`
  let users := thr.filter fun t => (at' rets t == "f" || at' rets t == "s") && (dvia[t]?).getD 0 ≥ 3
  let userNames := (users.map fun t =>
    s!"{userName ((dvia[t]?).getD 0)}/{userPathName d.cls ((did[t]?).getD 0) ((dvia[t]?).getD 0)}").eraseDups
  -- the call of one user, and it returned in this step: it is the one that leaked.  In bursts and
  -- hand-off chains several callers return at once and the observation cannot tell them apart:
  -- plain `no_leak`, the users are listed in the detail.
  let single := match acts, users with
    | [.lock t _ _ _], [u] => t == u
    | _, _ => false
  let leakName := if single then "no_leak/" ++ "+".intercalate userNames else "no_leak"
  let leakDetail := if userNames.isEmpty then "" else ",returned=" ++ "+".intercalate userNames
  let v6 := if locks > refd then [Verdict.monitor leakName s!"locks={locks},referenced={refd}{leakDetail}"]
    else if locks < refd then [Verdict.monitor "entry_lost" s!"locks={locks},referenced={refd}"] else []
  v1 ++ v2 ++ v3 ++ v4 ++ v5 ++ v6

def describe (cs : List Cand) (k : Nat) : String :=
  let ds := (cs.map fun c => s!"{showStrList (stOf c)}/{showStrList (retsOf c)}/{lenLocks c.m k}").eraseDups
  if ds.isEmpty then "none" else "|".intercalate (ds.take 6)

def parseM (s : String) : Option String := if ["ok", "nf", "bad", "win", "max"].contains s then some s else none
def parseV (s : String) : Option String := if ["ok", "nf", "rn"].contains s then some s else none
def parseB (s : Option String) : Option String :=
  match s with
  | none => some "ok"
  | some s => if ["ok", "cnt", "mrk"].contains s then some s else none

/-- the lock users found in the source tree (`file:func:count:line`, call edges `pkg:caller>callee`)
against the model's table `lockUsers`, per package and function.  A function that acquires a
contract lock but is not in the table is attributed to its callers: it is a difference only if some
chain of callers ends outside the table (so a helper is fine, a new user is not); a table entry must
still acquire, itself or through a helper. -/
def lockUsersStep (d : DState) (l : Line) : DState × List Verdict :=
  match getStrList l.obs "list" with
  | none => (d, [.badline "lockusers list"])
  | some items =>
    let pkgOf (path : String) : String := "/".intercalate ((path.splitOn "/").dropLast)
    let parsed := items.map fun it => match it.splitOn ":" with
      | [file, fn, n, _line] => (pkgOf file, fn, n.toNat?.getD 0)
      | _ => (it, "", 0)
    let edges : List (String × String × String) := ((getStrList l.obs "edges").getD []).filterMap fun e =>
      match e.splitOn ":" with
      | [pkg, cc] => (match cc.splitOn ">" with
          | [caller, callee] => some (pkg, caller, callee)
          | _ => none)
      | _ => none
    let inTable (pkg fn : String) : Bool := lockUsers.any fun u => u.pkg == pkg && u.fn == fn
    let acquires (pkg fn : String) : Bool := parsed.any fun (p, f, _) => p == pkg && f == fn
    let callersOf (pkg fn : String) : List String := (edges.filter fun (p, _, callee) => p == pkg && callee == fn).map (·.2.1)
    let calleesOf (pkg fn : String) : List String := (edges.filter fun (p, caller, _) => p == pkg && caller == fn).map (·.2.2)
    let rec covered (fuel : Nat) (pkg fn : String) : Bool :=
      match fuel with
      | 0 => false
      | fuel + 1 =>
        inTable pkg fn ||
          (let cs := callersOf pkg fn
           !cs.isEmpty && cs.all fun c => covered fuel pkg c)
    let rec reaches (fuel : Nat) (pkg fn : String) : Bool :=
      match fuel with
      | 0 => false
      | fuel + 1 => acquires pkg fn || (calleesOf pkg fn).any fun c => reaches fuel pkg c
    let extra : List Verdict := parsed.filterMap fun (pkg, fn, n) =>
      if covered 6 pkg fn then none
      else some (.mismatch s!"lockusers/{pkg}:{fn}" "0" (toString n))
    let missing : List Verdict := lockUsers.filterMap fun u =>
      if reaches 6 u.pkg u.fn then none
      else some (.mismatch s!"lockusers/{u.pkg}:{u.fn}" "1" "0")
    (d, extra ++ missing)

/-- run the issued actions on every candidate, close under internal steps, keep the quiescent ones -/
def advance (d : DState) (acts : List DAct) : List Cand :=
  let cs := acts.foldl (fun cs a => closure d.k d.cls (cs.filterMap (applyAct · a))) d.cands
  (closure d.k d.cls cs).filter quiescent

def flag (d : DState) (vs : List Verdict) : DState × List Verdict :=
  ({ d with dead := !vs.isEmpty }, vs)

def step (d : DState) (l : Line) : DState × List Verdict :=
  if l.op == "lockusers" then lockUsersStep d l
  else if l.op == "reset" then
    match getNat l.args "threads", getNat l.args "ids" with
    | some th, some ids => (newHistory d th ids, [])
    | _, _ => (d, [.badline "reset needs threads, ids"])
  else if d.dead then (d, [])
  else if l.op == "cls" then
    match getNat l.args "id", (getStr l.args "m").bind parseM, (getStr l.args "v").bind parseV,
          parseB (getStr l.args "b"), parseB (getStr l.args "b2") with
    | some id, some m, some v, some b, some b2 => ({ d with cls := d.cls.set id { m, v, b, b2 } }, [])
    | _, _, _, _, _ => (d, [.badline "cls fields"])
  else if l.op == "final" then
    match getNat l.obs "allidle", getNat l.obs "locks", getStrList l.obs "relock", getNat l.obs "locks2" with
    | some ai, some locks, some relock, some locks2 =>
      let d := { d with finals := d.finals + 1 }
      if ai == 1 then
        let bad := locks != 0 || locks2 != 0 || relock.any (· != "a") || relock.length != d.k
        if bad then
          flag d [.monitor "no_leak" s!"all_released,locks={locks},relock={showStrList relock},locks2={locks2}"]
        else
          -- model: every candidate is all idle with an empty map; relock = lockFresh + unlock per id
          let ok := d.cands.filter fun c =>
            lenLocks c.m d.k == 0 && (List.range d.k).all fun i =>
              match lockAct c.m 0 i with
              | .lockFresh _ _ => true
              | _ => false
          if ok.isEmpty then flag d [.mismatch "final" (describe d.cands d.k) "allidle,locks=0,relock=a"]
          else ({ d with cands := ok }, [])
      else
        let ok := d.cands.filter fun c => lenLocks c.m d.k == locks
        if ok.isEmpty then flag d [.mismatch "locks" (describe d.cands d.k) (toString locks)]
        else ({ d with cands := ok }, [])
    | _, _, _, _ => (d, [.badline "final fields"])
  else
    -- operations with a snapshot
    let res := (getStr l.obs "res").getD ""
    if res == "skip" then (d, []) else
    let actsO : Option (List DAct) :=
      if l.op == "lock" then
        match getNat l.args "t", getNat l.args "id", getStr l.args "via", getNat l.args "pre" with
        | some t, some id, some via, some pre => (parseAct s!"l{t}.{id}.{via}.{pre}").map ([·])
        | _, _, _, _ => none
      else if l.op == "unlock" then (getNat l.args "t").map fun t => [.unlock t]
      else if l.op == "cancel" then (getNat l.args "t").map fun t => [.cancel t]
      else if l.op == "race" then (getStrList l.args "acts").bind fun ts => ts.mapM parseAct
      else if l.op == "settle" then some []
      else none
    match actsO, getStrList l.obs "st", getStrList l.obs "rets", getNat l.obs "locks" with
    | some acts, some st, some rets, some locks =>
      let d := { d with ops := d.ops + 1 }
      if res == "hang" then flag d [.monitor "no_hang" s!"st={showStrList st}"]
      else if res.startsWith "panic" then flag d [.monitor "unlock_panic" res]
      else if st.length != d.nthr || rets.length != d.nthr then (d, [.badline "st/rets length"])
      else
        -- ctx bookkeeping from the ops themselves
        let (dcanc, dcable) := acts.foldl (fun (cc, cb) a => match a with
          | .lock t _ via pre => (cc.set t pre, cb.set t (viaCable via))
          | .cancel t => (cc.set t true, cb)
          | _ => (cc, cb)) (d.dcanc, d.dcable)
        let (dvia, did) := acts.foldl (fun (vs, is) a => match a with
          | .lock t id via _ => (vs.set t via, is.set t id)
          | _ => (vs, is)) (d.dvia, d.did)
        let mon := monitors d acts st rets locks dcanc dcable dvia did
        if !mon.isEmpty then flag d mon
        else
          let qs := advance d acts
          let ok := qs.filter fun c => stOf c == st && retsOf c == rets && lenLocks c.m d.k == locks
          if ok.isEmpty then
            flag d [.mismatch "snapshot" (describe qs d.k) s!"{showStrList st}/{showStrList rets}/{locks}"]
          else
            let at' (l : List String) (t : Nat) : String := (l[t]?).getD "?"
            let thr := List.range d.nthr
            let hand := (thr.filter fun t => (at' d.pst t).startsWith "w" && (at' st t).startsWith "h").length
            let d := { d with
              cands := ok.map clearRets, pst := st, dcanc, dcable, dvia, did
              userRets := d.userRets + (thr.filter fun t => (at' rets t == "f" || at' rets t == "s") && (dvia[t]?).getD 0 ≥ 3).length
              handoffs := d.handoffs + hand
              mgrFail := d.mgrFail + cnt' rets "f"
              maxCands := max d.maxCands qs.length
              ambiguous := d.ambiguous + (if ok.length > 1 then 1 else 0) }
            let d := if l.op == "lock" then
                if res == "blocked" then { d with locksBlocked := d.locksBlocked + 1 }
                else { d with locksImm := d.locksImm + 1 }
              else if l.op == "cancel" then
                if res == "error" then { d with cancelErr := d.cancelErr + 1 }
                else if res == "acquired" then { d with cancelAcq := d.cancelAcq + 1 } else d
              else if l.op == "race" then { d with races := d.races + 1 }
              else d
            (d, [])
    | _, _, _, _ => (d, [.badline "op fields"])

def stats (d : DState) : String :=
  s!"hists={d.hists} ops={d.ops} locks_immediate={d.locksImm} locks_blocked={d.locksBlocked} handoffs={d.handoffs} cancel_error={d.cancelErr} cancel_acquired={d.cancelAcq} mgr_fail_released={d.mgrFail} races={d.races} finals={d.finals} user_returns={d.userRets} max_cands={d.maxCands} ambiguous={d.ambiguous}"

end Hostd.Drive.Lock
