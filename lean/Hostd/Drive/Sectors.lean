import Hostd.Proto
import Hostd.Model.Sectors
/-!
Driver for the `sectors` engine (C03, C13): replays the harness trace on the model
(`Hostd.Sectors`), compares every observation (MISMATCH) and evaluates the property
predicates on the implementation's own observations (MONITOR).

Monitor names (the clause of the property they decide):
* `three_lists_equal/persisted_vs_memory`  Store.SectorRoots()[id] = Manager.SectorRoots(id)            (C03)
* `three_lists_equal/implied`              Manager.SectorRoots(id) = list implied by the accepted modifications (C03)
* `filesize_eq_len`                        persisted Filesize = sectorSize · length                      (C03)
* `merkle_root_eq`                         persisted FileMerkleRoot = MetaRoot(list)                     (C03)
* `failed_commit_noop`                     a rejected / failed modification changed list, revision or cache (C03)
* `restart_same`                           a fresh manager on the same database serves a different list  (C03)
* `three_lists_equal/lock_view`            the roots handed to a session by Lock/ReviseContract resp. LockV2Contract are not
                                           the ones the revision handed over commits to / not the implied ones (C03)
* `renewal/list_handover`                  successor's list / size / root differ from the predecessor's  (C13)
* `renewal/links_mutual`                   renewed_to / renewed_from not mutual                          (C13)
* `renewal/roots_referenced`               a root of the predecessor lost its last reference             (C13)
* `renewal/predecessor_refuses`            a superseded contract was locked / revised / reports revisable (C13)
* `renewal/successor_accepts`              the successor refuses the lock / reports not revisable        (C13)
* `renewal/failed_leaves_unchanged`        a failed renewal changed the predecessor or left a successor  (C13)
All of them only look at contracts that are not superseded (`to = -1`) unless the clause is about the predecessor.
-/
namespace Hostd.Drive.Sectors
open Hostd.Proto Hostd.Sectors

abbrev HH := Option (List Root)       -- `some l` = MetaRoot l, `none` = some other hash

def P : Params HH :=
  { sectorSize := 4194304, maxRev := 18446744073709551615, metaRoot := some, zeroH := some [] }

/-- what is observed about one contract -/
structure CObs where
  found  : Bool
  mem    : List Nat
  db     : List Nat
  fs     : Nat
  cap    : Nat
  rootok : Bool
  rn     : Nat
  to     : Int
  frm    : Int
deriving DecidableEq, Repr

def CObs.show (o : CObs) : String :=
  s!"found={o.found},mem={showNatList o.mem},db={showNatList o.db},fs={o.fs},cap={o.cap},rootok={o.rootok},rn={o.rn},to={o.to},from={o.frm}"

def optId : Option Nat → Int
  | none => -1
  | some n => n

def modelObs (w : World HH) (id : Nat) : CObs :=
  match findC w.db.contracts id with
  | none => { found := false, mem := cacheGet w.cache id, db := [], fs := 0, cap := 0, rootok := true, rn := 0, to := -1, frm := -1 }
  | some c =>
    { found := true, mem := cacheGet w.cache id, db := load c.rows, fs := c.rev.filesize, cap := c.rev.capacity,
      rootok := c.rev.merkle == some (load c.rows), rn := c.rev.number, to := optId c.renewedTo, frm := optId c.renewedFrom }

def parseCObs (kv : List (String × String)) (p : String) : Option CObs := do
  let found ← getNat kv (p ++ "found")
  let mem ← getNatList kv (p ++ "mem")
  let db ← getNatList kv (p ++ "db")
  let fs ← getNat kv (p ++ "fs")
  let cap ← getNat kv (p ++ "cap")
  let rootok ← getNat kv (p ++ "rootok")
  let rn ← getNat kv (p ++ "rn")
  let to ← getInt kv (p ++ "to")
  let frm ← getInt kv (p ++ "from")
  pure { found := found == 1, mem, db, fs, cap, rootok := rootok == 1, rn, to, frm }

def parseAction (s : String) : Option Action :=
  match s.toList with
  | [] => none
  | c :: rest =>
    match ((String.ofList rest).splitOn ".").mapM String.toNat? with
    | some [a] => if c == 'a' then some (.append a) else if c == 't' then some (.trim a) else none
    | some [a, b] => if c == 's' then some (.swap a b) else if c == 'u' then some (.update a b) else none
    | _ => none

def getActions (kv : List (String × String)) (k : String) : Option (List Action) :=
  (getStrList kv k).bind fun l => l.mapM parseAction

structure DState where
  w        : World HH := World.empty
  implied  : List (Nat × List Nat) := []     -- list implied by the modifications the implementation accepted
  last     : List (Nat × CObs) := []         -- last observation of each contract (implementation's own)
  fresh    : List Nat := []                  -- contracts not observed since the last restart
  dead     : Bool := false
  hists    : Nat := 0
  ops      : Nat := 0
  commits  : Nat := 0
  failed   : Nat := 0
  faults   : Nat := 0
  renewals : Nat := 0
  refusals : Nat := 0
  restarts : Nat := 0
  maxGen   : Nat := 0
  checks   : Nat := 0

def assocGet {α} (l : List (Nat × α)) (k : Nat) : Option α := (l.find? (·.1 == k)).map (·.2)
def assocSet {α} (l : List (Nat × α)) (k : Nat) (v : α) : List (Nat × α) := (k, v) :: l.filter (·.1 != k)

def resStr : Res Unit → String
  | .ok _ => "ok" | .reject => "rejected" | .panic => "panic" | .injected => "fault"

def faultOf (l : Line) : Option Nat := if getNat l.obs "fired" == some 1 then some 0 else none

/-- expected result class: when the injected failure was delivered the operation fails with it, whichever
later check would have rejected the request as well (the manager reads the contract before validating) -/
def expectRes (l : Line) (r : Res Unit) : String :=
  if getNat l.obs "fired" == some 1 && !r.isOk then "fault" else resStr r

def outStr (l : Line) : Out → String
  | .done r => expectRes l r
  | .refused => "none"
  | .aborted => "aborted"

/-- generation of a contract in the model (length of the `renewedFrom` chain), fuel-bounded -/
def generation (w : World HH) : Nat → Nat → Nat
  | 0, _ => 0
  | fuel + 1, id =>
    match findC w.db.contracts id with
    | some c => match c.renewedFrom with
      | some p => 1 + generation w fuel p
      | none => 0
    | none => 0

/-- field-by-field comparison model vs implementation -/
def cmpObs (p : String) (m i : CObs) : List Verdict :=
  cmp (p ++ "found") (toString m.found) (toString i.found) ++
  cmp (p ++ "mem") (showNatList m.mem) (showNatList i.mem) ++
  cmp (p ++ "db") (showNatList m.db) (showNatList i.db) ++
  cmp (p ++ "fs") (toString m.fs) (toString i.fs) ++
  cmp (p ++ "cap") (toString m.cap) (toString i.cap) ++
  cmp (p ++ "rootok") (toString m.rootok) (toString i.rootok) ++
  cmp (p ++ "rn") (toString m.rn) (toString i.rn) ++
  cmp (p ++ "to") (toString m.to) (toString i.to) ++
  cmp (p ++ "from") (toString m.frm) (toString i.frm)

/-- the C03 state predicates on one observed contract -/
def stateMonitors (d : DState) (id : Nat) (o : CObs) : List Verdict :=
  if !o.found || o.to != -1 then [] else
  (if o.db == o.mem then [] else
    [.monitor "three_lists_equal/persisted_vs_memory" s!"c={id},db={showNatList o.db},mem={showNatList o.mem}"]) ++
  (match assocGet d.implied id with
   | some l => if l == o.mem then [] else
      [.monitor "three_lists_equal/implied" s!"c={id},implied={showNatList l},mem={showNatList o.mem}"]
   | none => []) ++
  (if o.fs == P.sectorSize * o.db.length then [] else
    [.monitor "filesize_eq_len" s!"c={id},filesize={o.fs},len={o.db.length}"]) ++
  (if o.rootok then [] else [.monitor "merkle_root_eq" s!"c={id}"])

/-- a modification that was not accepted must not change anything observable -/
def unchanged (name : String) (d : DState) (id : Nat) (o : CObs) : List Verdict :=
  match assocGet d.last id with
  | some prev => if prev == o then [] else [.monitor name s!"c={id},before=({prev.show}),after=({o.show})"]
  | none => []

def isSuperseded (d : DState) (id : Nat) : Bool :=
  match assocGet d.last id with
  | some o => o.found && o.to != -1
  | none => false

/-- the implementation's own observations say: exists, not superseded, not at the final revision -/
def looksUsable (d : DState) (id : Nat) : Bool :=
  match assocGet d.last id with
  | some o => o.found && o.to == -1 && o.rn != P.maxRev
  | none => false

def isSuccessor (d : DState) (id : Nat) : Bool :=
  match assocGet d.last id with
  | some o => o.found && o.frm != -1
  | none => false

/-- verdicts about a v1 lock answer -/
def lock1Verdicts (d : DState) (id : Nat) (implOk modelOk : Bool) : List Verdict :=
  if implOk && isSuperseded d id then [.monitor "renewal/predecessor_refuses" s!"c={id},lock=ok"]
  else if !implOk && looksUsable d id && isSuccessor d id then [.monitor "renewal/successor_accepts" s!"c={id},lock=refused"]
  else cmp "lock" (if modelOk then "ok" else "refused") (if implOk then "ok" else "refused")

/-- verdicts about a LockV2Contract answer -/
def lock2Verdicts (d : DState) (id : Nat) (renewed revisable : Bool) (m : Option (Bool × Bool × List Root)) : List Verdict :=
  if isSuperseded d id && (!renewed || revisable) then
    [.monitor "renewal/predecessor_refuses" s!"c={id},renewed={renewed},revisable={revisable}"]
  else if looksUsable d id && isSuccessor d id && (renewed || !revisable) then
    [.monitor "renewal/successor_accepts" s!"c={id},renewed={renewed},revisable={revisable}"]
  else match m with
    | some (mr, mv, _) => cmp "renewed" (toString mr) (toString renewed) ++ cmp "revisable" (toString mv) (toString revisable)
    | none => [.mismatch "lk" "notfound" "ok"]

/-- what a session was handed when it acquired the contract lock (the `v*` fields of a line) -/
structure View where
  rn     : Nat
  fs     : Nat
  rootok : Bool
  roots  : List Nat

def parseView (kv : List (String × String)) : Option View := do
  let rn ← getNat kv "vrn"
  let fs ← getNat kv "vfs"
  let ok ← getNat kv "vrootok"
  let roots ← getNatList kv "vroots"
  pure { rn, fs, rootok := ok == 1, roots }

/-- `three_lists_equal` at the observation point "value returned by Lock / LockV2Contract": for a contract that
is not superseded the roots handed over are the ones the revision handed over commits to (size, Merkle root)
and the ones implied by the accepted modifications; then the comparison with the model's view. -/
def viewVerdicts (d : DState) (l : Line) (id : Nat) (live : Bool) (m : Option (Rev HH × List Root)) : List Verdict :=
  match parseView l.obs with
  | none => []
  | some v =>
    if !live then [] else
    let mon : List Verdict :=
      (if v.fs == P.sectorSize * v.roots.length && v.rootok then [] else
        [.monitor "three_lists_equal/lock_view"
          s!"c={id},revision(rn={v.rn},filesize={v.fs},rootok={v.rootok}) does not commit to the roots handed over {showNatList v.roots}"]) ++
      (match assocGet d.implied id with
       | some imp => if imp == v.roots then [] else
          [.monitor "three_lists_equal/lock_view" s!"c={id},implied={showNatList imp},handed_over={showNatList v.roots}"]
       | none => [])
    if !mon.isEmpty then mon else
    match m with
    | some (rev, roots) =>
      cmp "vrn" (toString rev.number) (toString v.rn) ++ cmp "vfs" (toString rev.filesize) (toString v.fs) ++
      cmp "vroots" (showNatList roots) (showNatList v.roots)
    | none => [.mismatch "view" "none" "some"]

def modelViewV2 (w : World HH) (id : Nat) : Option (Rev HH × List Root) :=
  (lockViewV2 w id true).map fun (rev, _, _, roots) => (rev, roots)

def wrapSize (x : Int) : Nat := if x < 0 then (x + 18446744073709551616).toNat else x.toNat

def finish (d : DState) (vs : List Verdict) : DState × List Verdict :=
  ({ d with dead := !vs.isEmpty, checks := d.checks + 1 }, vs)

/-- record the implementation's observation of a contract -/
def remember (d : DState) (id : Nat) (o : CObs) : DState :=
  { d with last := assocSet d.last id o, fresh := d.fresh.filter (· != id) }

def impliedAfter (cur : List Nat) (acts : List Action) (uok : List Nat) : List Nat :=
  match acts, uok with
  | a :: as, f :: fs =>
    if f == 1 then
      match applyAction cur a with
      | some l => impliedAfter l as fs
      | none => impliedAfter cur as fs
    else impliedAfter cur as fs
  | _, _ => cur

def step (d : DState) (l : Line) : DState × List Verdict :=
  if l.op == "reset" then
    ({ d with w := World.empty, implied := [], last := [], fresh := [], dead := false, hists := d.hists + 1 }, [])
  else if d.dead then (d, [])
  else
  let d := { d with ops := d.ops + 1 }
  if l.op == "store" then
    match getNat l.args "r", getStr l.obs "res" with
    | some r, some res =>
      if res == "ok" then ({ d with w := storeSector d.w r }, []) else finish d [.mismatch "res" "ok" res]
    | _, _ => (d, [.badline "store fields"])
  else if l.op == "form" then
    match getNat l.args "c", getNat l.args "v", getStr l.obs "res", parseCObs l.obs "" with
    | some id, some v, some res, some o =>
      let rev0 : Rev HH := { number := 0, filesize := 0, capacity := 0, merkle := some [] }
      let (w', r) := form d.w id (v == 2) rev0 (faultOf l)
      let d1 := { d with w := w' }
      let d1 := if res == "ok" then { d1 with implied := assocSet d1.implied id [] } else d1
      let vs := (if res == "ok" then [] else unchanged "failed_commit_noop" d id o) ++ stateMonitors d1 id o
      let vs := if vs.isEmpty then cmp "res" (expectRes l r) res ++ cmpObs "" (modelObs w' id) o else vs
      finish (remember d1 id o) vs
    | _, _, _, _ => (d, [.badline "form fields"])
  else if l.op == "obs" then
    match getNat l.args "c", parseCObs l.obs "" with
    | some id, some o =>
      let stale := match assocGet d.last id with
        | some prev =>
          if prev == o then []
          else if d.fresh.contains id then
            -- first look after a restart: a non-superseded contract must serve the same list, size, root and links
            if prev.to == -1 && prev.found then [.monitor "restart_same" s!"c={id},before=({prev.show}),after=({o.show})"] else []
          else [.mismatch "obs_stable" prev.show o.show]
        | none => []
      let vs := stale ++ stateMonitors d id o
      let vs := if vs.isEmpty then cmpObs "" (modelObs d.w id) o else vs
      finish (remember d id o) vs
    | _, _ => (d, [.badline "obs fields"])
  else if l.op == "restart" then
    let ids := d.w.db.contracts.map (·.id)
    ({ d with w := restart d.w, fresh := ids, restarts := d.restarts + 1 }, [])
  else if l.op == "lock1" then
    match getNat l.args "c", getStr l.obs "lock", parseCObs l.obs "" with
    | some id, some lk, some o =>
      let vs := lock1Verdicts d id (lk == "ok") (lockV1 d.w P id) ++ unchanged "failed_commit_noop" d id o
      let vs := if vs.isEmpty then viewVerdicts d l id (lk == "ok") (lockViewV1 P d.w id) else vs
      let vs := if vs.isEmpty then cmpObs "" (modelObs d.w id) o else vs
      let d := if lk == "ok" then d else { d with refusals := d.refusals + 1 }
      finish (remember d id o) vs
    | _, _, _ => (d, [.badline "lock1 fields"])
  else if l.op == "lock2" then
    match getNat l.args "c", getStr l.obs "lk", getNat l.obs "renewed", getNat l.obs "revisable", parseCObs l.obs "" with
    | some id, some lk, some rn, some rv, some o =>
      let m := lockV2 d.w id true
      let vs :=
        if lk == "ok" then
          let lv := lock2Verdicts d id (rn == 1) (rv == 1) m
          if lv.isEmpty then viewVerdicts d l id (rn == 0) (modelViewV2 d.w id) else lv
        else match m with
          | none => []
          | some _ => [.mismatch "lk" "ok" lk]
      let vs := vs ++ unchanged "failed_commit_noop" d id o
      let vs := if vs.isEmpty then cmpObs "" (modelObs d.w id) o else vs
      let d := if rv == 1 then d else { d with refusals := d.refusals + 1 }
      finish (remember d id o) vs
    | _, _, _, _, _ => (d, [.badline "lock2 fields"])
  else if l.op == "rpc1" then
    match getNat l.args "c", getActions l.args "acts", getNat l.args "rn", getNat l.args "abort",
          getStr l.obs "lock", getStr l.obs "res", getNatList l.obs "uok", parseCObs l.obs "" with
    | some id, some acts, some rn, some abort, some lk, some res, some uok, some o =>
      let mlock := lockV1 d.w P id
      let lv := lock1Verdicts d id (lk == "ok") mlock
      let lv := if lv.isEmpty then viewVerdicts d l id (lk == "ok") (lockViewV1 P d.w id) else lv
      if lk != "ok" || !lv.isEmpty then
        let vs := lv ++ unchanged "failed_commit_noop" d id o
        let vs := if vs.isEmpty then cmpObs "" (modelObs d.w id) o else vs
        finish (remember { d with refusals := d.refusals + 1 } id o) vs
      else
        -- model
        let (w', out, moks) := stepOp P d.w (.rpc1 id acts rn (abort == 1) (faultOf l))
        let mres := outStr l out
        -- implied list from the implementation's own answers
        let cur := (assocGet d.implied id).getD []
        let d1 := if res == "ok" then { d with implied := assocSet d.implied id (impliedAfter cur acts uok), commits := d.commits + 1 }
                  else { d with failed := d.failed + 1 }
        let d1 := if getNat l.obs "fired" == some 1 then { d1 with faults := d1.faults + 1 } else d1
        let d1 := { d1 with w := w' }
        let vs := (if res == "ok" then [] else unchanged "failed_commit_noop" d id o) ++ stateMonitors d1 id o
        let vs := if vs.isEmpty then
            cmp "uok" (showNatList (moks.map fun b => if b then 1 else 0)) (showNatList uok) ++
            cmp "res" mres ((res.splitOn ":").headD res) ++ cmpObs "" (modelObs w' id) o
          else vs
        finish (remember d1 id o) vs
    | _, _, _, _, _, _, _, _ => (d, [.badline "rpc1 fields"])
  else if l.op == "rev2" then
    match getNat l.args "c", getNatList l.args "roots", getNat l.args "rn", getInt l.args "fsd", getNat l.args "cap",
          getNat l.args "badroot", getNat l.args "badsig", getNat l.args "badkey",
          getStr l.obs "lk", getNat l.obs "renewed", getNat l.obs "revisable", getStr l.obs "res", parseCObs l.obs "" with
    | some id, some roots, some rn, some fsd, some cap, some badroot, some badsig, some badkey,
      some lk, some renewed, some revisable, some res, some o =>
      if lk != "ok" then
        let vs := (match lockV2 d.w id true with | none => [] | some _ => [.mismatch "lk" "ok" lk]) ++ unchanged "failed_commit_noop" d id o
        let vs := if vs.isEmpty then cmpObs "" (modelObs d.w id) o else vs
        finish (remember d id o) vs
      else
        let lv := lock2Verdicts d id (renewed == 1) (revisable == 1) (lockV2 d.w id true)
        let lv := if lv.isEmpty then viewVerdicts d l id (renewed == 0) (modelViewV2 d.w id) else lv
        let r : V2Revision HH :=
          { rev := { number := rn, filesize := wrapSize ((P.sectorSize * roots.length : Nat) + fsd * (P.sectorSize : Nat)),
                     capacity := cap * P.sectorSize, merkle := if badroot == 1 then none else some roots },
            sameKeys := badkey != 1, sigsOK := badsig != 1 }
        let (w', out, _) := stepOp P d.w (.rev2 id r roots (faultOf l))
        let mr := outStr l out
        let pv : List Verdict := if res == "ok" && isSuperseded d id then
          [.monitor "renewal/predecessor_refuses" s!"c={id},ReviseV2Contract=ok"] else []
        let d1 := if res == "ok" then { d with implied := assocSet d.implied id roots, commits := d.commits + 1 }
                  else { d with failed := d.failed + 1 }
        let d1 := if getNat l.obs "fired" == some 1 then { d1 with faults := d1.faults + 1 } else d1
        let d1 := { d1 with w := w' }
        let vs := lv ++ pv ++ (if res == "ok" then [] else unchanged "failed_commit_noop" d id o) ++ stateMonitors d1 id o
        let vs := if vs.isEmpty then cmp "res" mr ((res.splitOn ":").headD res) ++ cmpObs "" (modelObs w' id) o else vs
        finish (remember d1 id o) vs
    | _, _, _, _, _, _, _, _, _, _, _, _, _ => (d, [.badline "rev2 fields"])
  else if l.op == "renew1" || l.op == "renew2" then
    let v2 := l.op == "renew2"
    match getNat l.args "c", getNat l.args "n", getNat l.args "nrn", getInt l.args "fsd", getNat l.args "badroot",
          getStr l.obs "res", getNat l.obs "refok", parseCObs l.obs "", parseCObs l.obs "n" with
    | some id, some nid0, some nrn, some fsd, some badroot, some res, some refok, some o, some no =>
      -- lock phase
      let (lockOk, lv) : Bool × List Verdict :=
        if v2 then
          match getStr l.obs "lk", getNat l.obs "renewed", getNat l.obs "revisable" with
          | some lk, some rn, some rv =>
            if lk != "ok" then (false, match lockV2 d.w id true with | none => [] | some _ => [.mismatch "lk" "ok" lk])
            else
              let force := getNat l.args "force" == some 1
              let lv := lock2Verdicts d id (rn == 1) (rv == 1) (lockV2 d.w id true)
              ((rn == 0 && rv == 1) || force,
               if lv.isEmpty then viewVerdicts d l id (rn == 0) (modelViewV2 d.w id) else lv)
          | _, _, _ => (false, [.badline "renew2 lock fields"])
        else
          match getStr l.obs "lock" with
          | some lk =>
            let lv := lock1Verdicts d id (lk == "ok") (lockV1 d.w P id)
            (lk == "ok", if lv.isEmpty then viewVerdicts d l id (lk == "ok") (lockViewV1 P d.w id) else lv)
          | none => (false, [.badline "renew1 lock fields"])
      -- a v2 renewal id is a function of the predecessor's id: renewing twice yields the same successor id
      let nid := if v2 then v2SuccessorId d.w id nid0 else nid0
      -- the operation as the model sees it (sizes and roots are copied from the predecessor's persisted revision)
      let dummy : Rev HH := { number := nrn, filesize := 0, capacity := 0, merkle := none }
      let op : Op HH :=
        match findC d.w.db.contracts id with
        | none => if v2 then .renew2 id nid0 dummy (getNat l.args "force" == some 1) (faultOf l)
                  else .renew1 id nid0 dummy dummy (faultOf l)
        | some c =>
          let fsz := wrapSize ((c.rev.filesize : Nat) + fsd * (P.sectorSize : Nat))
          let mk : HH := if badroot == 1 then none else c.rev.merkle
          if v2 then
            let capd := (getInt l.args "capd").getD 0
            .renew2 id nid0 { number := nrn, filesize := fsz, capacity := wrapSize ((c.rev.capacity : Nat) + capd * (P.sectorSize : Nat)), merkle := mk }
              (getNat l.args "force" == some 1) (faultOf l)
          else
            let nc := (getNat l.args "notcleared").getD 0
            let clearing : Rev HH :=
              { number := if nc == 3 then c.rev.number + 1 else P.maxRev,
                filesize := if nc == 2 then P.sectorSize else 0,
                capacity := 0,
                merkle := if nc == 1 then none else some [] }
            .renew1 id nid0 { number := nrn, filesize := fsz, capacity := 0, merkle := mk } clearing (faultOf l)
      let (w', out, _) := stepOp P d.w op
      if !lockOk || !lv.isEmpty then
        let vs := lv ++ unchanged "renewal/failed_leaves_unchanged" d id o ++
          (if res == "none" then [] else [.mismatch "res" "none" res])
        let vs := if vs.isEmpty then cmp "res" (outStr l out) res ++ cmpObs "" (modelObs w' id) o else vs
        finish (remember { d with w := w', refusals := d.refusals + 1 } id o) vs
      else
        let mr := outStr l out
        let prev := assocGet d.last id
        -- C13 monitors on the implementation's own observations
        let mon : List Verdict :=
          if res == "ok" then
            (match prev with
             | some p =>
               (if no.found && no.mem == p.mem && no.db == p.db && no.fs == p.fs && no.rootok &&
                    no.fs == P.sectorSize * no.db.length then []
                else [.monitor "renewal/list_handover" s!"old={id},new={nid0},before=({p.show}),successor=({no.show})"])
             | none => []) ++
            (if o.to == (nid0 : Int) && no.frm == (id : Int) && no.to == -1 && nid0 != id then []
             else [.monitor "renewal/links_mutual" s!"old={id},new={nid0},old.to={o.to},new.from={no.frm},new.to={no.to}"]) ++
            (if isSuperseded d id then [.monitor "renewal/predecessor_refuses" s!"c={id},renewed_again"] else [])
          else
            unchanged "renewal/failed_leaves_unchanged" d id o ++
            (if no.found && (assocGet d.last nid0).isNone then
               [.monitor "renewal/failed_leaves_unchanged" s!"old={id},successor {nid0} exists after a failed renewal"] else [])
        let mon := mon ++ (if refok == 1 then [] else [.monitor "renewal/roots_referenced" s!"old={id}"])
        let d1 := if res == "ok" then
            { d with implied := assocSet d.implied nid0 ((assocGet d.implied id).getD []), renewals := d.renewals + 1 }
          else { d with failed := d.failed + 1 }
        let d1 := if getNat l.obs "fired" == some 1 then { d1 with faults := d1.faults + 1 } else d1
        let d1 := { d1 with w := w', maxGen := max d1.maxGen (generation w' 16 nid) }
        let vs := mon ++ stateMonitors d1 nid0 no
        let vs := if vs.isEmpty then
            cmp "res" mr ((res.splitOn ":").headD res) ++ cmpObs "" (modelObs w' id) o ++
            (if nid == nid0 then cmpObs "n" (modelObs w' nid0) no else [])
          else vs
        let d2 := remember d1 id o
        let d2 := if no.found || (assocGet d2.last nid0).isSome then remember d2 nid0 no else d2
        finish d2 vs
    | _, _, _, _, _, _, _, _, _ => (d, [.badline "renew fields"])
  else (d, [.badline "unknown op"])

def stats (d : DState) : String :=
  s!"hists={d.hists} ops={d.ops} commits={d.commits} failed={d.failed} faults={d.faults} renewals={d.renewals} refusals={d.refusals} restarts={d.restarts} maxgen={d.maxGen} checks={d.checks}"

end Hostd.Drive.Sectors
