import Hostd.Proto
import Hostd.Model.Query
/-!
Driver for the `query` engine (C19).

Trace of one history (= one stored population):
  reset …
  add v=<1|2> i=<n> …  => res=… <readback>  contract inserted
  set v=… i=… …        => res=… <readback>  status / renewal links written
  row v=… i=…          => <readback>
     <readback> = found=1 st=<word> rk=<n> neg=<n> exp=<n> from=<i|0> to=<i|0> | found=0
     the contract as read back BY ID (`Store.Contract` / `V2Contract`) right after the operation
  query1|query2 st=[…] ids=[…] rf=[…] rt=[…] rk=[…] minneg= maxneg= minexp= maxexp=
         limit= offset= sort=<word> desc=<0|1> => err=<none|error|panic:…> ids=[…] count=<n>

The expected answer is recomputed from the specification (`matchesB`, `sortRows`,
`page`, `contradictoryB`) on the rows read back by id; every flag is a MONITOR:
the implementation's own answer contradicts a clause of the property.  Queries
are read-only, so a flagged query does not end the history.
-/
namespace Hostd.Drive.Query
open Hostd.Proto Hostd.Query

structure DState where
  rows1     : List Row := []
  rows2     : List Row := []
  lastCrit  : String := ""               -- criteria (without limit/offset) of the previous accepted query
  lastCount : Nat := 0
  hists     : Nat := 0
  rowsSeen  : Nat := 0
  queries   : Nat := 0
  accepted  : Nat := 0
  rejected  : Nat := 0
  rejectedContradictory : Nat := 0
  acceptedContradictory : Nat := 0
  nonempty  : Nat := 0
  truncated : Nat := 0                    -- answers cut by limit/offset
  samecrit  : Nat := 0                    -- same criteria under another limit/offset
  unordered : Nat := 0                    -- no (known) sort field requested

/-- Status words → codes that preserve the order of the Go type: v1 `ContractStatus` is a `uint8`
(iota order), v2 `V2ContractStatus` is a `string` (lexicographic order). -/
def statusCode (v : Nat) (w : String) : Option Nat :=
  if v == 1 then
    match w with
    | "pending" => some 0 | "rejected" => some 1 | "active" => some 2
    | "successful" => some 3 | "failed" => some 4
    | _ => if w.startsWith "s" then (w.drop 1).toString.toNat? else none
  else
    match w with
    | "active" => some 0 | "failed" => some 1 | "pending" => some 2
    | "rejected" => some 3 | "renewed" => some 4 | "successful" => some 5
    | _ => some 1000      -- a string no stored v2 contract carries

def optId (n : Nat) : Option Nat := if n == 0 then none else some n

/-- `(field, requested)`: an unknown / empty sort field takes the builder's default branch and requests no order. -/
def sortOf (w : String) : SortField × Bool :=
  if w == "status" then (.status, true)
  else if w == "negotiationHeight" then (.negotiation, true)
  else if w == "expirationHeight" then (.expiration, true)
  else (.expiration, false)

def parseFilter (v : Nat) (a : List (String × String)) : Option (Filter × Bool) := do
  let st ← (← getStrList a "st").mapM (statusCode v)
  let ids ← getNatList a "ids"
  let rf ← getNatList a "rf"
  let rt ← getNatList a "rt"
  let rk ← getNatList a "rk"
  let minNeg ← getNat a "minneg"
  let maxNeg ← getNat a "maxneg"
  let minExp ← getNat a "minexp"
  let maxExp ← getNat a "maxexp"
  let limit ← getInt a "limit"
  let offset ← getNat a "offset"
  let (sf, req) := sortOf (← getStr a "sort")
  let desc ← getNat a "desc"
  pure ({ statuses := st, ids, renewedFrom := rf, renewedTo := rt, renters := rk,
          minNeg, maxNeg, minExp, maxExp, limit, offset, sortField := sf, desc := desc == 1 }, req)

def critKey (op : String) (a : List (String × String)) : String :=
  op ++ " " ++ " ".intercalate ((a.filter fun kv => kv.1 != "limit" && kv.1 != "offset").map fun kv => kv.1 ++ "=" ++ kv.2)

def setRow (r : Row) : List Row → List Row
  | [] => [r]
  | x :: t => if x.id == r.id then r :: t else x :: setRow r t

def boundsSet (f : Filter) : String :=
  -- a bound that does not fit SQLite's signed 64-bit INTEGER (only generated on request, VH_X_BIGHEIGHTS=1)
  if [f.minNeg, f.maxNeg, f.minExp, f.maxExp].any (· ≥ 9223372036854775808) then "height_above_int64" else
  match decide (f.minNeg > 0 ∧ f.maxNeg > 0), decide (f.minExp > 0 ∧ f.maxExp > 0) with
  | true, false => "negotiation"
  | false, true => "expiration"
  | true, true => "both"
  | false, false => "no_bounds"

def showRows (l : List Row) : String := showNatList (l.map (·.id))

/-- the verdict on one accepted answer -/
def judge (d : DState) (f : Filter) (requested : Bool) (rows : List Row) (sameCrit : Bool)
    (ids : List Nat) (count : Nat) : List Verdict :=
  let ms := rows.filter (matchesB f)
  match ids.mapM (fun i => rows.find? (·.id == i)) with
  | none => [.monitor "filter_exact" s!"returned_contract_not_stored,ids={showNatList ids}"]
  | some obs =>
    let want := page f (sortRows f ms)
    if !obs.all (matchesB f) then
      [.monitor "filter_exact" s!"returned_non_matching={showRows (obs.filter fun r => !matchesB f r)}"]
    else if !nodupIds obs then
      [.monitor "filter_exact" s!"contract_returned_twice,ids={showNatList ids}"]
    else if sameCrit && count != d.lastCount then
      [.monitor "count_independent_of_page" s!"count={count},same_criteria_before={d.lastCount}"]
    else if count != ms.length then
      [.monitor "count_eq_matches" s!"count={count},matching={ms.length}"]
    else if requested && !keysSortedB f obs then
      [.monitor "sorted_by_key" s!"keys={showNatList (obs.map (key f.sortField))},desc={f.desc}"]
    else if obs.length != want.length then
      [.monitor "page_is_slice" s!"returned={obs.length},expected={want.length},matching={ms.length},offset={f.offset},limit={f.limit}"]
    else if requested && !pageOk f ms obs then
      [.monitor "page_is_slice" s!"keys={showNatList (obs.map (key f.sortField))},expected_keys={showNatList (want.map (key f.sortField))}"]
    else []

def step (d : DState) (l : Line) : DState × List Verdict :=
  if l.op == "reset" then
    ({ d with rows1 := [], rows2 := [], lastCrit := "", lastCount := 0, hists := d.hists + 1 }, [])
  else if l.op == "add" || l.op == "set" || l.op == "row" then
    -- every population line carries the contract as read back by id after the operation
    match getNat l.args "v", getNat l.args "i", getNat l.obs "found" with
    | some v, some i, some found =>
      let d := { d with lastCrit := "" }
      if found == 0 then
        (if v == 1 then { d with rows1 := d.rows1.filter (·.id != i) } else { d with rows2 := d.rows2.filter (·.id != i) }, [])
      else
        match (getStr l.obs "st").bind (statusCode v), getNat l.obs "rk", getNat l.obs "neg", getNat l.obs "exp",
              getNat l.obs "from", getNat l.obs "to" with
        | some st, some rk, some neg, some exp, some fr, some to =>
          let r : Row := { id := i, status := st, renter := rk, renewedFrom := optId fr, renewedTo := optId to, neg, exp }
          let d := { d with rowsSeen := d.rowsSeen + (if l.op == "add" then 1 else 0) }
          (if v == 1 then { d with rows1 := setRow r d.rows1 } else { d with rows2 := setRow r d.rows2 }, [])
        | _, _, _, _, _, _ => (d, [.badline "population line: read-back fields"])
    | _, _, _ => (d, [.badline "population line needs v,i,found"])
  else if l.op == "query1" || l.op == "query2" then
    let v := if l.op == "query1" then 1 else 2
    match parseFilter v l.args, getStr l.obs "err", getNatList l.obs "ids", getNat l.obs "count" with
    | some (f, requested), some err, some ids, some count =>
      let rows := if v == 1 then d.rows1 else d.rows2
      let d := { d with queries := d.queries + 1 }
      if err == "none" then
        let crit := critKey l.op l.args
        let sameCrit := crit == d.lastCrit
        let vs := judge d f requested rows sameCrit ids count
        let n := (rows.filter (matchesB f)).length
        let d := { d with
          accepted := d.accepted + 1,
          acceptedContradictory := d.acceptedContradictory + (if contradictoryB f then 1 else 0),
          nonempty := d.nonempty + (if ids.isEmpty then 0 else 1),
          truncated := d.truncated + (if ids.length < n then 1 else 0),
          samecrit := d.samecrit + (if sameCrit then 1 else 0),
          unordered := d.unordered + (if requested then 0 else 1),
          lastCrit := crit, lastCount := if sameCrit then d.lastCount else count }
        (d, vs)
      else if err == "error" then
        let d := { d with rejected := d.rejected + 1 }
        if contradictoryB f then ({ d with rejectedContradictory := d.rejectedContradictory + 1 }, [])
        else
          let n := (rows.filter (matchesB f)).length
          (d, [.monitor s!"rejects_only_contradictory/{boundsSet f}"
                s!"minneg={f.minNeg},maxneg={f.maxNeg},minexp={f.minExp},maxexp={f.maxExp},stored_matching={n}"])
      else
        (d, [.monitor "query_panics" err])
    | _, _, _, _ => (d, [.badline "query fields"])
  else if l.op == "cquery" then
    -- unfiltered, unbounded listings racing with formations: every single call must report a total equal
    -- to the length of the page it returns (count and page are one snapshot of the store)
    match getNat l.obs "calls", getNat l.obs "torn" with
    | some calls, some torn =>
      let d := { d with queries := d.queries + calls, lastCrit := "" }
      if torn > 0 then (d, [.monitor "count_eq_matches/concurrent" s!"torn={torn}/{calls},worst={(getStr l.obs "worst").getD "?"}"])
      else (d, [])
    | _, _ => (d, [.badline "cquery fields"])
  else (d, [.badline "unknown op"])

def stats (d : DState) : String :=
  s!"hists={d.hists} rows={d.rowsSeen} queries={d.queries} accepted={d.accepted} nonempty={d.nonempty} truncated={d.truncated} samecrit={d.samecrit} unordered={d.unordered} rejected={d.rejected} rejected_contradictory={d.rejectedContradictory} accepted_contradictory={d.acceptedContradictory}"

end Hostd.Drive.Query
