import Hostd.Model.Sectors
/-!
Helper lemmas for the `sectors` engine (used by Props/C03 and Props/C13):
rows of a list (`mkRows`), the replay of recorded actions on such rows, the v2 diff writer,
transactions (`runSteps`), contract lists.
-/
set_option linter.unusedSectionVars false
set_option linter.unusedSimpArgs false
namespace Hostd.Sectors

/-! ### rows of a list -/

theorem mkRows_append (s : Nat) (l : List Root) (r : Root) :
    mkRows s (l ++ [r]) = mkRows s l ++ [(s + l.length, r)] := by
  induction l generalizing s with
  | nil => simp [mkRows]
  | cons x l ih => simp [mkRows, ih]; omega

theorem mkRows_length (s : Nat) (l : List Root) : (mkRows s l).length = l.length := by
  induction l generalizing s with
  | nil => rfl
  | cons x l ih => simp [mkRows, ih]

/-- every index of `mkRows s l` is in `[s, s + length)` -/
theorem mem_mkRows {s : Nat} {l : List Root} {p : Nat × Root} (h : p ∈ mkRows s l) :
    s ≤ p.1 ∧ p.1 < s + l.length := by
  induction l generalizing s with
  | nil => simp [mkRows] at h
  | cons x l ih =>
    simp only [mkRows, List.mem_cons] at h
    rcases h with h | h
    · subst h; simp
    · have := ih h; simp; omega

theorem map_fst_mkRows (s : Nat) (l : List Root) : (mkRows s l).map (·.1) = List.range' s l.length := by
  induction l generalizing s with
  | nil => rfl
  | cons x l ih => simp [mkRows, ih, List.range'_succ]

theorem map_snd_mkRows (s : Nat) (l : List Root) : (mkRows s l).map (·.2) = l := by
  induction l generalizing s with
  | nil => rfl
  | cons x l ih => simp [mkRows, ih]

theorem mkRows_inj {l l' : List Root} (h : mkRows 0 l = mkRows 0 l') : l = l' := by
  have := congrArg (List.map (·.2)) h
  simpa [map_snd_mkRows] using this

theorem rowAt_mkRows (s : Nat) (l : List Root) (i : Nat) :
    rowAt (mkRows s l) i = if s ≤ i then l[i - s]? else none := by
  induction l generalizing s with
  | nil => simp [mkRows, rowAt]
  | cons x l ih =>
    simp only [mkRows, rowAt]
    by_cases h : s = i
    · subst h; simp
    · simp only [h, if_false, ih]
      by_cases h2 : s + 1 ≤ i
      · have h3 : s ≤ i := by omega
        simp only [h2, h3, if_true]
        have : i - s = (i - (s + 1)) + 1 := by omega
        rw [this]; simp
      · have h3 : ¬ s ≤ i := by omega
        simp [h2, h3]

theorem rowAt_mkRows0 (l : List Root) (i : Nat) : rowAt (mkRows 0 l) i = l[i]? := by
  simp [rowAt_mkRows]

theorem setRow_mkRows (s : Nat) (l : List Root) (i : Nat) (r : Root) (h : s ≤ i) :
    setRow (mkRows s l) i r = mkRows s (l.set (i - s) r) := by
  induction l generalizing s with
  | nil => simp [mkRows, setRow]
  | cons x l ih =>
    simp only [mkRows, setRow]
    by_cases h1 : s = i
    · subst h1; simp [mkRows]
    · simp only [h1, if_false]
      have h2 : s + 1 ≤ i := by omega
      have : i - s = (i - (s + 1)) + 1 := by omega
      rw [this, List.set_cons_succ, mkRows, ih (s + 1) h2]

theorem setRow_mkRows0 (l : List Root) (i : Nat) (r : Root) :
    setRow (mkRows 0 l) i r = mkRows 0 (l.set i r) := by
  simpa using setRow_mkRows 0 l i r (Nat.zero_le _)

theorem lastRow_append_gt (t : Table) (p : Nat × Root) (h : ∀ q ∈ t, q.1 < p.1) :
    lastRow (t ++ [p]) = some p := by
  induction t with
  | nil => simp [lastRow]
  | cons q t ih =>
    have ih' := ih (fun q' hq' => h q' (List.mem_cons_of_mem _ hq'))
    simp only [List.cons_append, lastRow, ih']
    have : q.1 < p.1 := h q List.mem_cons_self
    simp [this]

theorem delRow_append_last (t : Table) (p : Nat × Root) (h : ∀ q ∈ t, q.1 ≠ p.1) :
    delRow (t ++ [p]) p.1 = t := by
  induction t with
  | nil => simp [delRow]
  | cons q t ih =>
    obtain ⟨j, x⟩ := q
    have hne : j ≠ p.1 := h (j, x) List.mem_cons_self
    simp only [List.cons_append, delRow, hne, if_false]
    rw [ih (fun q' hq' => h q' (List.mem_cons_of_mem _ hq'))]

theorem lastRow_mkRows_snoc (l : List Root) (r : Root) :
    lastRow (mkRows 0 (l ++ [r])) = some (l.length, r) := by
  rw [mkRows_append]
  simp only [Nat.zero_add]
  apply lastRow_append_gt
  intro q hq
  have := mem_mkRows hq
  simpa using this.2

theorem delRow_mkRows_snoc (l : List Root) (r : Root) :
    delRow (mkRows 0 (l ++ [r])) l.length = mkRows 0 l := by
  rw [mkRows_append]
  simp only [Nat.zero_add]
  apply delRow_append_last (mkRows 0 l) (l.length, r)
  intro q hq
  have := mem_mkRows hq
  simp at this ⊢; omega

/-- `trimSectors` on the rows of `l` deletes exactly the last `n` rows and returns their roots in order -/
theorem trimRows_mkRows (l : List Root) (n : Nat) (h : n ≤ l.length) :
    trimRows (mkRows 0 l) n = some (mkRows 0 (l.take (l.length - n)), l.drop (l.length - n)) := by
  induction n generalizing l with
  | zero => simp [trimRows]
  | succ n ih =>
    rcases List.eq_nil_or_concat l with hl | ⟨l', r, hl⟩
    · subst hl; simp at h
    · subst hl
      simp only [List.concat_eq_append] at *
      have hlen : n ≤ l'.length := by simp at h; omega
      simp only [trimRows, lastRow_mkRows_snoc, delRow_mkRows_snoc, ih l' hlen]
      have e1 : (l' ++ [r]).length - (n + 1) = l'.length - n := by simp
      rw [e1]
      have e2 : l'.length - n ≤ l'.length := by omega
      rw [List.take_append_of_le_length e2, List.drop_append_of_le_length e2]

theorem mkRows_sorted (s : Nat) (l : List Root) :
    (mkRows s l).Pairwise (fun p q => decide (p.1 ≤ q.1) = true) := by
  induction l generalizing s with
  | nil => simp [mkRows]
  | cons x l ih =>
    simp only [mkRows, List.pairwise_cons]
    refine ⟨?_, ih (s + 1)⟩
    intro q hq
    have := mem_mkRows hq
    simp; omega

/-- `ORDER BY root_index` on contiguous rows returns the list -/
theorem load_mkRows (l : List Root) : load (mkRows 0 l) = l := by
  unfold load
  rw [List.mergeSort_of_pairwise (mkRows_sorted 0 l), map_snd_mkRows]

/-! ### the updater's record and the store's replay -/

/-- the roots an action needs in `stored_sectors` -/
def Action.needs : Action → List Root
  | .append r => [r]
  | .update _ r => [r]
  | _ => []

def Action.storedOK (stored : List Root) (a : Action) : Bool := a.needs.all fun r => decide (r ∈ stored)

/-- the replay state that mirrors a list: contiguous rows, counter = length, shadow copy = the list -/
def mirror (l : List Root) : Replay := { rows := mkRows 0 l, sectors := l.length, roots := l }

theorem replayStep_append (stored l : List Root) (r : Root) :
    replayStep stored (mirror l) (.append r) = if r ∈ stored then .ok (mirror (l ++ [r])) else .reject := by
  by_cases h : r ∈ stored
  · simp [replayStep, mirror, h, rowAt_mkRows0, mkRows_append]
  · simp [replayStep, h]

theorem replayStep_trim (stored l : List Root) (n : Nat) (h : n ≤ l.length) :
    replayStep stored (mirror l) (.trim n) = .ok (mirror (l.take (l.length - n))) := by
  have h1 : ¬ l.length < n := by omega
  simp only [replayStep, mirror, h1, if_false, trimRows_mkRows l n h]
  simp

theorem replayStep_update (stored l : List Root) (i : Nat) (r : Root) (h : i < l.length) :
    replayStep stored (mirror l) (.update i r) = if r ∈ stored then .ok (mirror (l.set i r)) else .reject := by
  by_cases hs : r ∈ stored
  · simp [replayStep, mirror, hs, rowAt_mkRows0, h, setRow_mkRows0]
  · simp [replayStep, mirror, hs, rowAt_mkRows0, h]

theorem replayStep_swap (stored l : List Root) (a b : Nat) (ha : a < l.length) (hb : b < l.length) :
    replayStep stored (mirror l) (.swap a b) = .ok (mirror ((l.set a l[b]).set b l[a])) := by
  by_cases hab : a = b
  · subst hab
    simp [replayStep, mirror, ha]
  · by_cases hgt : a > b
    · have hne : ¬ b = a := fun h => hab h.symm
      simp [replayStep, mirror, hgt, hne, rowAt_mkRows0, ha, hb, setRow_mkRows0]
      refine ⟨?_, ?_⟩ <;> first | rfl | (rw [List.set_comm _ _ hab])
    · simp [replayStep, mirror, hgt, hab, rowAt_mkRows0, ha, hb, setRow_mkRows0]

/-- one recorded action: the store's replay on the mirrored state yields the mirror of the updater's result,
or rejects when a needed root is not in `stored_sectors` -/
theorem replayStep_spec (stored l l' : List Root) (a : Action) (h : applyAction l a = some l') :
    replayStep stored (mirror l) a = if a.storedOK stored then .ok (mirror l') else .reject := by
  cases a with
  | append r =>
    simp only [applyAction, Option.some.injEq] at h; subst h
    simp [replayStep_append, Action.storedOK, Action.needs]
  | swap a b =>
    simp only [applyAction] at h
    split at h
    · rename_i hb
      simp only [Option.some.injEq] at h; subst h
      simp [replayStep_swap stored l a b hb.1 hb.2, Action.storedOK, Action.needs]
    · simp at h
  | trim n =>
    simp only [applyAction] at h
    split at h
    · simp at h
    · rename_i hn
      simp only [Option.some.injEq] at h; subst h
      simp [replayStep_trim stored l n (by omega), Action.storedOK, Action.needs]
  | update i r =>
    simp only [applyAction] at h
    split at h
    · simp at h
    · rename_i hi
      simp only [Option.some.injEq] at h; subst h
      simp [replayStep_update stored l i r (by omega), Action.storedOK, Action.needs]

/-- the actions an updater records out of a batch, and its final private copy -/
def record : List Root → List Action → List Action × List Root
  | l, [] => ([], l)
  | l, a :: rest =>
    match applyAction l a with
    | some l' => let (as, lf) := record l' rest; (a :: as, lf)
    | none => record l rest

theorem record_cons_some {l l' : List Root} {a : Action} (rest : List Action) (h : applyAction l a = some l') :
    record l (a :: rest) = (a :: (record l' rest).1, (record l' rest).2) := by
  simp [record, h]

theorem record_cons_none {l : List Root} {a : Action} (rest : List Action) (h : applyAction l a = none) :
    record l (a :: rest) = record l rest := by
  simp [record, h]

theorem Updater.run_eq (u : Updater) (acts : List Action) :
    (u.run acts).1 = { roots := (record u.roots acts).2, old := u.old, actions := u.actions ++ (record u.roots acts).1 } := by
  induction acts generalizing u with
  | nil => simp [Updater.run, record]
  | cons a rest ih =>
    simp only [Updater.run, Updater.step, record]
    cases h : applyAction u.roots a with
    | none => simp [ih]
    | some l' => simp [ih]

/-- the store's loop over the recorded actions -/
def replayAll (stored : List Root) : Replay → List Action → Res Replay
  | s, [] => .ok s
  | s, a :: rest =>
    match replayStep stored s a with
    | .ok s' => replayAll stored s' rest
    | .reject => .reject
    | .panic => .panic
    | .injected => .injected

theorem replayAll_record (stored l : List Root) (acts : List Action) :
    replayAll stored (mirror l) (record l acts).1 =
      if (record l acts).1.all (·.storedOK stored) then .ok (mirror (record l acts).2) else .reject := by
  induction acts generalizing l with
  | nil => simp [record, replayAll]
  | cons a rest ih =>
    cases h : applyAction l a with
    | none => rw [record_cons_none rest h]; exact ih l
    | some l' =>
      rw [record_cons_some rest h]
      simp only [replayAll, replayStep_spec stored l l' a h]
      by_cases hs : a.storedOK stored = true
      · simp [hs, ih l']
      · simp [hs]

/-! ### the v2 diff writer -/

theorem upsert_mkRows_lt (l : List Root) (i : Nat) (r : Root) (h : i < l.length) :
    upsert (mkRows 0 l) i r = mkRows 0 (l.set i r) := by
  simp [upsert, rowAt_mkRows0, h, setRow_mkRows0]

theorem upsert_mkRows_eq (l : List Root) (r : Root) :
    upsert (mkRows 0 l) l.length r = mkRows 0 (l ++ [r]) := by
  simp [upsert, rowAt_mkRows0, mkRows_append]

/-- loop invariant: after `pre.length` entries the table holds `pre ++ (what is left of old)` -/
theorem v2Loop_spec (stored old : List Root) (pre new : List Root)
    (hs : ∀ r ∈ new, r ∈ stored) :
    v2Loop stored old (mkRows 0 (pre ++ old.drop pre.length)) pre.length new =
      .ok (mkRows 0 (pre ++ new ++ old.drop (pre.length + new.length))) := by
  induction new generalizing pre with
  | nil => simp [v2Loop]
  | cons r rest ih =>
    have hr : r ∈ stored := hs r List.mem_cons_self
    have hrest : ∀ x ∈ rest, x ∈ stored := fun x hx => hs x (List.mem_cons_of_mem _ hx)
    have step := ih (pre ++ [r]) hrest
    simp only [List.length_append, List.length_cons, List.length_nil, Nat.zero_add] at step
    have e3 : pre ++ [r] ++ rest ++ List.drop (pre.length + 1 + rest.length) old =
        pre ++ r :: rest ++ List.drop (pre.length + (rest.length + 1)) old := by
      have : pre.length + 1 + rest.length = pre.length + (rest.length + 1) := by omega
      rw [this]; simp
    simp only [v2Loop, List.length_cons]
    by_cases hk : old[pre.length]? = some r
    · -- unchanged entry: skipped
      have hlt : pre.length < old.length := by
        rcases Nat.lt_or_ge pre.length old.length with h | h
        · exact h
        · simp [List.getElem?_eq_none h] at hk
      have e1 : pre ++ old.drop pre.length = (pre ++ [r]) ++ old.drop (pre.length + 1) := by
        rw [List.drop_eq_getElem_cons hlt]
        have : old[pre.length] = r := by
          have := List.getElem?_eq_getElem hlt
          rw [this] at hk; simpa using hk
        simp [this]
      simp only [hk, if_true]
      rw [e1, step, e3]
    · simp only [hk, if_false, hr, not_true_eq_false]
      by_cases hlt : pre.length < old.length
      · have e1 : upsert (mkRows 0 (pre ++ old.drop pre.length)) pre.length r =
            mkRows 0 ((pre ++ [r]) ++ old.drop (pre.length + 1)) := by
          rw [upsert_mkRows_lt _ _ _ (by simp; omega)]
          congr 1
          have hd : old.drop pre.length = old[pre.length] :: old.drop (pre.length + 1) :=
            List.drop_eq_getElem_cons hlt
          rw [hd]
          simp only [List.set_append, Nat.lt_irrefl, if_false, Nat.sub_self, List.set_cons_zero,
            List.append_assoc, List.singleton_append]
        rw [e1, step, e3]
      · have hd : old.drop pre.length = [] := List.drop_eq_nil_of_le (by omega)
        have hd1 : old.drop (pre.length + 1) = [] := List.drop_eq_nil_of_le (by omega)
        have e1 : upsert (mkRows 0 (pre ++ old.drop pre.length)) pre.length r =
            mkRows 0 ((pre ++ [r]) ++ old.drop (pre.length + 1)) := by
          rw [hd, hd1, List.append_nil, List.append_nil, upsert_mkRows_eq]
        rw [e1, step, e3]

theorem filter_lt_mkRows (l tail : List Root) :
    (mkRows 0 (l ++ tail)).filter (fun p => decide (p.1 < l.length)) = mkRows 0 l := by
  suffices H : ∀ (s : Nat) (l tail : List Root),
      (mkRows s (l ++ tail)).filter (fun p => decide (p.1 < s + l.length)) = mkRows s l by
    simpa using H 0 l tail
  intro s l
  induction l generalizing s with
  | nil =>
    intro tail
    simp only [List.nil_append, List.length_nil, Nat.add_zero, mkRows]
    apply List.filter_eq_nil_iff.mpr
    intro p hp
    have := mem_mkRows hp
    simp; omega
  | cons x l ih =>
    intro tail
    simp only [List.cons_append, mkRows, List.length_cons]
    rw [List.filter_cons_of_pos (by simp)]
    congr 1
    have := ih (s + 1) tail
    have e : s + 1 + l.length = s + (l.length + 1) := by omega
    rw [e] at this
    exact this

/-- `updateV2ContractSectors old new` on the rows of `old` leaves exactly the rows of `new` -/
theorem updateV2Sectors_spec (stored old new : List Root) (hs : ∀ r ∈ new, r ∈ stored) :
    updateV2Sectors stored (mkRows 0 old) old new = .ok (mkRows 0 new) := by
  have h := v2Loop_spec stored old [] new hs
  simp only [List.nil_append, List.length_nil, List.drop_zero, Nat.zero_add] at h
  simp only [updateV2Sectors, h]
  by_cases hl : new.length < old.length
  · simp only [hl, if_true]
    rw [filter_lt_mkRows]
  · simp only [hl, if_false]
    rw [List.drop_eq_nil_of_le (by omega), List.append_nil]


variable {H : Type}


/-! ### transactions -/

theorem runSteps_fault_cases {σ : Type} (steps : List (σ → Res σ)) (j k : Nat) (s : σ) :
    runSteps steps (some j) k s = .injected ∨ runSteps steps (some j) k s = runSteps steps none k s := by
  induction steps generalizing k s with
  | nil =>
    by_cases h : j = k <;> simp [runSteps, h]
  | cons f rest ih =>
    by_cases h : j = k
    · simp [runSteps, h]
    · simp only [runSteps, Option.some.injEq, h, if_false]
      cases hf : f s with
      | ok s' => simpa [hf] using ih (k + 1) s'
      | reject => simp
      | panic => simp
      | injected => simp

/-- a failure index inside the transaction (statements and COMMIT) never lets it commit -/
theorem runSteps_fault_fires {σ : Type} (steps : List (σ → Res σ)) (j k : Nat) (s : σ)
    (h1 : k ≤ j) (h2 : j ≤ k + steps.length) : ∀ s', runSteps steps (some j) k s ≠ .ok s' := by
  induction steps generalizing k s with
  | nil =>
    have : j = k := by simp at h2; omega
    simp [runSteps, this]
  | cons f rest ih =>
    intro s'
    by_cases h : j = k
    · simp [runSteps, h]
    · simp only [runSteps, Option.some.injEq, h, if_false]
      cases hf : f s with
      | ok s2 =>
        simp only
        exact ih (k + 1) s2 (by omega) (by simp at h2; omega) s'
      | reject => simp
      | panic => simp
      | injected => simp

theorem runSteps_none_nil {σ : Type} (k : Nat) (s : σ) : runSteps ([] : List (σ → Res σ)) none k s = .ok s := by
  simp [runSteps]

theorem runSteps_none_cons {σ : Type} (f : σ → Res σ) (rest : List (σ → Res σ)) (k : Nat) (s : σ) :
    runSteps (f :: rest) none k s =
      match f s with
      | .ok s' => runSteps rest none (k + 1) s'
      | .reject => .reject
      | .panic => .panic
      | .injected => .injected := by
  cases h : f s <;> simp [runSteps, h]


theorem runSteps_acts (d : DB H) (rp : Replay) (acts : List Action) (k : Nat) :
    runSteps (acts.map (reviseAct (H := H))) none k (d, rp) =
      match replayAll d.stored rp acts with
      | .ok rp' => .ok (d, rp')
      | .reject => .reject
      | .panic => .panic
      | .injected => .injected := by
  induction acts generalizing rp k with
  | nil => simp [runSteps, replayAll]
  | cons a rest ih =>
    simp only [List.map_cons, runSteps_none_cons, reviseAct, replayAll]
    cases h : replayStep d.stored rp a with
    | ok rp' => simp [ih]
    | reject => simp
    | panic => simp
    | injected => simp



/-! ### contract lists -/

theorem findC_nil (id : Nat) : findC ([] : List (Contract H)) id = none := rfl

theorem findC_cons (c : Contract H) (cs : List (Contract H)) (id : Nat) :
    findC (c :: cs) id = if c.id = id then some c else findC cs id := by
  by_cases h : c.id = id <;> simp [findC, List.find?_cons, h]

theorem findC_some {cs : List (Contract H)} {id : Nat} {c : Contract H} (h : findC cs id = some c) :
    c ∈ cs ∧ c.id = id := by
  unfold findC at h
  have h1 := List.mem_of_find?_eq_some h
  have h2 := List.find?_some h
  exact ⟨h1, by simpa using h2⟩

theorem findC_none {cs : List (Contract H)} {id : Nat} (h : findC cs id = none) :
    ∀ c ∈ cs, c.id ≠ id := by
  unfold findC at h
  intro c hc
  have := List.find?_eq_none.mp h c hc
  simpa using this

theorem findC_none_of {cs : List (Contract H)} {id : Nat} (h : ∀ c ∈ cs, c.id ≠ id) : findC cs id = none := by
  unfold findC
  apply List.find?_eq_none.mpr
  intro c hc
  simpa using h c hc

theorem findC_append (cs ds : List (Contract H)) (id : Nat) :
    findC (cs ++ ds) id = match findC cs id with | some c => some c | none => findC ds id := by
  unfold findC
  rw [List.find?_append]
  cases List.find? (fun x => x.id == id) cs <;> simp

theorem findC_mapC (cs : List (Contract H)) (id j : Nat) (f : Contract H → Contract H)
    (hf : ∀ c, (f c).id = c.id) :
    findC (mapC cs id f) j = (findC cs j).map fun c => if c.id = id then f c else c := by
  induction cs with
  | nil => simp [mapC, findC]
  | cons c cs ih =>
    simp only [mapC, List.map_cons] at ih ⊢
    rw [findC_cons, findC_cons]
    by_cases hid : c.id = id
    · simp only [hid, if_true, hf]
      by_cases hj : id = j
      · simp [hid, hj]
      · simp [hid, hj, ih]
    · simp only [hid, if_false]
      by_cases hj : c.id = j
      · subst hj; simp [hid]
      · simp [hj, ih]

theorem mapC_of_none (cs : List (Contract H)) (id : Nat) (f : Contract H → Contract H)
    (h : findC cs id = none) : mapC cs id f = cs := by
  have hn := findC_none h
  unfold mapC
  conv => rhs; rw [← List.map_id cs]
  apply List.map_congr_left
  intro c hc
  simp [hn c hc]

theorem mapC_mapC (cs : List (Contract H)) (id : Nat) (f g : Contract H → Contract H)
    (hf : ∀ c, (f c).id = c.id) :
    mapC (mapC cs id f) id g = mapC cs id (fun c => g (f c)) := by
  unfold mapC
  rw [List.map_map]
  apply List.map_congr_left
  intro c _
  by_cases h : c.id = id <;> simp [h, hf]

theorem mapC_append (cs ds : List (Contract H)) (id : Nat) (f : Contract H → Contract H) :
    mapC (cs ++ ds) id f = mapC cs id f ++ mapC ds id f := by
  simp [mapC]

theorem ids_mapC (cs : List (Contract H)) (id : Nat) (f : Contract H → Contract H)
    (hf : ∀ c, (f c).id = c.id) : (mapC cs id f).map (·.id) = cs.map (·.id) := by
  unfold mapC
  rw [List.map_map]
  apply List.map_congr_left
  intro c _
  by_cases h : c.id = id <;> simp [h, hf]

theorem mem_mapC {cs : List (Contract H)} {id : Nat} {f : Contract H → Contract H} {c' : Contract H}
    (h : c' ∈ mapC cs id f) : ∃ c ∈ cs, c' = if c.id = id then f c else c := by
  unfold mapC at h
  rcases List.mem_map.mp h with ⟨c, hc, rfl⟩
  exact ⟨c, hc, rfl⟩

/-- two commuting updates of different contracts -/
theorem mapC_comm (cs : List (Contract H)) (i j : Nat) (f g : Contract H → Contract H)
    (hf : ∀ c, (f c).id = c.id) (hg : ∀ c, (g c).id = c.id) (hij : i ≠ j) :
    mapC (mapC cs i f) j g = mapC (mapC cs j g) i f := by
  unfold mapC
  rw [List.map_map, List.map_map]
  apply List.map_congr_left
  intro c _
  by_cases h1 : c.id = i
  · have h2 : ¬ c.id = j := fun h => hij (h1 ▸ h)
    have h3 : ¬ (f c).id = j := by rw [hf]; exact h2
    simp only [Function.comp, h1, h2, h3, if_true, if_false]
    have hne : ¬ i = j := hij
    simp [hne, h1]
  · by_cases h2 : c.id = j
    · have h3 : ¬ (g c).id = i := by rw [hg]; exact h1
      simp only [Function.comp, h1, h2, h3, if_true, if_false]
      have hne : ¬ j = i := fun h => hij h.symm
      simp [hne, h2]
    · simp [h1, h2]

theorem cacheGet_set (c : Cache) (id j : Nat) (l : List Root) :
    cacheGet (cacheSet c id l) j = if id = j then l else cacheGet c j := by
  simp [cacheSet, cacheGet]



variable [DecidableEq H]


/-! ### closed forms of the store transactions (no injected failure) -/

theorem storeReviseV1_none (db : DB H) (id : Nat) (rev : Rev H) (old : List Root) (acts : List Action)
    (c : Contract H) (hc : findC db.contracts id = some c) (hv : c.v2 = false) :
    storeReviseV1 db id rev old acts none =
      match replayAll db.stored { rows := c.rows, sectors := old.length, roots := old } acts with
      | .ok rp => .ok { db with contracts := mapC db.contracts id fun c => { c with rev := rev, rows := rp.rows } }
      | .reject => .reject
      | .panic => .panic
      | .injected => .injected := by
  unfold storeReviseV1
  rw [runSteps_none_cons]
  simp only [reviseFirst, hc, hv, Bool.false_eq_true, if_false]
  rw [runSteps_acts]
  cases h : replayAll db.stored { rows := c.rows, sectors := old.length, roots := old } acts with
  | ok rp => simp [h, mapC_mapC]
  | reject => simp [h]
  | panic => simp [h]
  | injected => simp [h]

theorem storeReviseV1_notfound (db : DB H) (id : Nat) (rev : Rev H) (old : List Root) (acts : List Action)
    (fault : Option Nat) (hc : findC db.contracts id = none) :
    ∀ d, storeReviseV1 db id rev old acts fault ≠ .ok d := by
  intro d
  unfold storeReviseV1
  cases fault with
  | none => rw [runSteps_none_cons]; simp [reviseFirst, hc]
  | some j =>
    rcases runSteps_fault_cases (reviseFirst id rev old :: acts.map reviseAct) j 0
      (db, ({ rows := [], sectors := 0, roots := [] } : Replay)) with h | h
    · simp [h]
    · rw [h, runSteps_none_cons]; simp [reviseFirst, hc]

theorem storeReviseV2_none (db : DB H) (id : Nat) (rev : Rev H) (old new : List Root)
    (c : Contract H) (hc : findC db.contracts id = some c) (hv : c.v2 = true) :
    storeReviseV2 db id rev old new none =
      match updateV2Sectors db.stored c.rows old new with
      | .ok t => .ok { db with contracts := mapC db.contracts id fun c => { c with rev := rev, rows := t } }
      | .reject => .reject
      | .panic => .panic
      | .injected => .injected := by
  have hid : c.id = id := (findC_some hc).2
  unfold storeReviseV2
  rw [runSteps_none_cons]
  simp only [revise2Rev, hc, hv, Bool.not_true, Bool.false_eq_true, if_false]
  rw [runSteps_none_cons]
  simp only [revise2Rows]
  rw [findC_mapC _ _ _ _ (by intro c; rfl), hc]
  simp only [Option.map_some, hid, if_true]
  cases h : updateV2Sectors db.stored c.rows old new with
  | ok t => simp [runSteps_none_nil, mapC_mapC]
  | reject => simp
  | panic => simp
  | injected => simp

/-- successor record created by a renewal -/
def successor (o : Contract H) (v2 : Bool) (oldId newId : Nat) (newRev : Rev H) : Contract H :=
  { id := newId, v2, rev := newRev, rows := o.rows, renewedTo := none, renewedFrom := some oldId }

/-- what a renewal does to the predecessor record -/
def superseded (newId : Nat) (clearing : Option (Rev H)) (c : Contract H) : Contract H :=
  { c with renewedTo := some newId, rev := clearedRev clearing c, rows := [] }

theorem mapC_snoc_ne (cs : List (Contract H)) (n : Contract H) (i : Nat) (f : Contract H → Contract H)
    (h : n.id ≠ i) : mapC (cs ++ [n]) i f = mapC cs i f ++ [n] := by
  simp [mapC, h]

theorem mapC_snoc_eq (cs : List (Contract H)) (n : Contract H) (j : Nat) (f : Contract H → Contract H)
    (hj : n.id = j) (h : findC cs j = none) : mapC (cs ++ [n]) j f = cs ++ [f n] := by
  rw [mapC_append, mapC_of_none cs j f h]
  simp [mapC, hj]

theorem storeRenew_none (db : DB H) (v2 : Bool) (oldId newId : Nat) (newRev : Rev H) (clearing : Option (Rev H))
    (o : Contract H) (ho : findC db.contracts oldId = some o) (hv : o.v2 = v2)
    (hn : findC db.contracts newId = none) :
    storeRenew db v2 oldId newId newRev clearing none =
      .ok { db with contracts := mapC db.contracts oldId (superseded newId clearing) ++
                                 [successor o v2 oldId newId newRev] } := by
  have hoid : o.id = oldId := (findC_some ho).2
  have hne : newId ≠ oldId := by
    intro h; rw [h] at hn; rw [hn] at ho; cases ho
  unfold storeRenew
  -- insert
  rw [runSteps_none_cons]
  simp only [insertStep, hn]
  -- clear
  rw [runSteps_none_cons]
  simp only [renewClear]
  rw [findC_append, ho]
  simp only [hv, bne_self_eq_false, Bool.false_eq_true, if_false]
  rw [mapC_snoc_ne _ _ _ _ (by simpa using hne)]
  -- link
  rw [runSteps_none_cons]
  simp only [renewLink]
  have hn1 : findC (mapC db.contracts oldId fun c =>
      { c with renewedTo := some newId, rev := clearedRev clearing c }) newId = none := by
    rw [findC_mapC _ _ _ _ (by intro c; rfl), hn]; rfl
  have e1 := mapC_snoc_eq (mapC db.contracts oldId fun c =>
      { c with renewedTo := some newId, rev := clearedRev clearing c })
      ({ id := newId, v2, rev := newRev, rows := [], renewedTo := none, renewedFrom := none } : Contract H)
      newId (fun c => { c with renewedFrom := some oldId }) rfl hn1
  simp only at e1
  rw [e1]
  -- move
  rw [runSteps_none_cons]
  simp only [renewMove]
  rw [findC_append, findC_mapC _ _ _ _ (by intro c; rfl), ho]
  simp only [Option.map_some, hoid, if_true]
  have e2 := mapC_snoc_eq (mapC db.contracts oldId fun c =>
      { c with renewedTo := some newId, rev := clearedRev clearing c })
      ({ id := newId, v2, rev := newRev, rows := [], renewedTo := none, renewedFrom := some oldId } : Contract H)
      newId (fun c => { c with rows := c.rows ++ o.rows }) rfl hn1
  simp only at e2
  rw [e2, mapC_snoc_ne _ _ _ _ (by simpa using hne), mapC_mapC _ _ _ _ (by intro c; rfl)]
  simp [runSteps_none_nil, successor]
  rfl


end Hostd.Sectors
