import Hostd.Model.Wallet
/-!
The wallet metrics as stored (one row per 5-minute bucket of the block timestamp) against the
single-value model of `Model/Wallet.lean`.

* `runB_refines`: as long as the block timestamps never step back into an older bucket in
  PROCESSING order (`TsMono`), `Metrics(now)` (`flat`) shows exactly the single-value model, so every
  theorem about `run` transfers to the stored metrics.
* `bucket_reorg_violates`: without that hypothesis it does not: a two-block reorg across a bucket
  boundary leaves an immature balance of 100 reported for an empty wallet.
-/
namespace Hostd.Wallet

theorem readAt_of_newest_le {st : Stat} {ts : Nat} (h : newestBucket st ≤ ts) :
    readAt st ts = latest st := by
  cases st with
  | nil => rfl
  | cons r rest =>
    obtain ⟨b, x⟩ := r
    simp only [newestBucket] at h
    simp [readAt, latest, List.find?, h]

theorem writeAt_latest {st : Stat} {ts : Nat} (v : Nat) (h : newestBucket st ≤ ts) :
    latest (writeAt st ts v) = v ∧ newestBucket (writeAt st ts v) = ts := by
  cases st with
  | nil => simp [writeAt, latest, newestBucket]
  | cons r rest =>
    obtain ⟨b, x⟩ := r
    simp only [newestBucket] at h
    unfold writeAt
    split
    · simp [latest, newestBucket]
    · split
      · simp [latest, newestBucket]
      · omega

theorem bumpStat_refines {st : Stat} {ts : Nat} (i o : Nat) (h : newestBucket st ≤ ts) :
    (bumpStat st ts i o = none ↔ bump (latest st) i o = none) ∧
    ∀ st', bumpStat st ts i o = some st' →
      bump (latest st) i o = some (latest st') ∧ newestBucket st' ≤ ts := by
  unfold bumpStat
  rw [readAt_of_newest_le h]
  by_cases hio : i = o
  · subst hio
    simp only [if_true]
    refine ⟨by simp [bump], ?_⟩
    intro st' hst
    cases hst
    exact ⟨by simp [bump], h⟩
  · simp only [hio, if_false]
    cases hb : bump (latest st) i o with
    | none => simp
    | some v =>
      refine ⟨by simp, ?_⟩
      intro st' hst
      cases hst
      have hw := writeAt_latest v h
      exact ⟨by rw [hw.1], Nat.le_of_eq hw.2⟩

/-- the two `increment` calls of `updateBalanceMetric` on the stored rows against the single values -/
theorem updateBalanceMetricB_refines (s : BState) (ts : Nat) (f : Flows)
    (hb : newestBucket s.bal ≤ ts) (hi : newestBucket s.imm ≤ ts) :
    match updateBalanceMetricB s ts f with
    | .error e => updateBalanceMetric (flat s) f.mIn f.mOut f.iIn f.iOut = .error e
    | .ok (b, i) => updateBalanceMetric (flat s) f.mIn f.mOut f.iIn f.iOut = .ok (latest b, latest i) ∧
        newestBucket b ≤ ts ∧ newestBucket i ≤ ts := by
  have h1 := bumpStat_refines f.mIn f.mOut hb
  have h2 := bumpStat_refines f.iIn f.iOut hi
  unfold updateBalanceMetricB updateBalanceMetric
  simp only [flat]
  cases hB : bumpStat s.bal ts f.mIn f.mOut with
  | none => simp [h1.1.mp hB]
  | some b =>
    obtain ⟨e1, n1⟩ := h1.2 b hB
    cases hI : bumpStat s.imm ts f.iIn f.iOut with
    | none => simp [e1, h2.1.mp hI]
    | some i =>
      obtain ⟨e2, n2⟩ := h2.2 i hI
      simp [e1, e2, n1, n2]

theorem stepB_refines (v : Variant) (s : BState) (o : TOp)
    (hb : newestBucket s.bal ≤ o.ts) (hi : newestBucket s.imm ≤ o.ts) :
    (stepB v s o).map flat = step v (flat s) o.op ∧
    ∀ s', stepB v s o = .ok s' → newestBucket s'.bal ≤ o.ts ∧ newestBucket s'.imm ≤ o.ts := by
  obtain ⟨op, ts⟩ := o
  cases op with
  | apply d =>
    simp only [stepB, step, applyIndex]
    cases hT : applyTables v s.utxos s.events d with
    | error e => simp [flat, hT, bind, Except.bind, Except.map]
    | ok x =>
      obtain ⟨t, ev, f⟩ := x
      have hU := updateBalanceMetricB_refines s ts f hb hi
      cases hM : updateBalanceMetricB s ts f with
      | error e =>
        rw [hM] at hU
        simp [flat, hT, hM, bind, Except.bind, Except.map] at hU ⊢
        simp [hU]
      | ok y =>
        obtain ⟨b, i⟩ := y
        rw [hM] at hU
        simp [flat, hT, hM, bind, Except.bind, pure, Except.pure, Except.map] at hU ⊢
        simp [hU]
  | revert d =>
    simp only [stepB, step, revertIndex]
    cases hT : revertTables s.utxos s.events d with
    | error e => simp [flat, hT, bind, Except.bind, Except.map]
    | ok x =>
      obtain ⟨t, ev, f⟩ := x
      have hU := updateBalanceMetricB_refines s ts f hb hi
      cases hM : updateBalanceMetricB s ts f with
      | error e =>
        rw [hM] at hU
        simp [flat, hT, hM, bind, Except.bind, Except.map] at hU ⊢
        simp [hU]
      | ok y =>
        obtain ⟨b, i⟩ := y
        rw [hM] at hU
        simp [flat, hT, hM, bind, Except.bind, pure, Except.pure, Except.map] at hU ⊢
        simp [hU]

/-- in processing order no block timestamp falls into a bucket older than one already written
(`t0` bounds the buckets present at the start) -/
def TsMono : Nat → List TOp → Prop
  | _, [] => True
  | t0, o :: os => t0 ≤ o.ts ∧ TsMono o.ts os

instance : ∀ t0 ops, Decidable (TsMono t0 ops)
  | _, [] => isTrue trivial
  | t0, o :: os =>
    have := instDecidableTsMono o.ts os
    inferInstanceAs (Decidable (t0 ≤ o.ts ∧ TsMono o.ts os))

theorem runB_refines (v : Variant) : ∀ (ops : List TOp) (s : BState) (t0 : Nat),
    newestBucket s.bal ≤ t0 → newestBucket s.imm ≤ t0 → TsMono t0 ops →
    (runB v s ops).map flat = run v (flat s) (ops.map (·.op)) := by
  intro ops
  induction ops with
  | nil => intro s t0 _ _ _; rfl
  | cons o os ih =>
    intro s t0 hb hi hm
    obtain ⟨h0, hm'⟩ := hm
    have hS := stepB_refines v s o (Nat.le_trans hb h0) (Nat.le_trans hi h0)
    simp only [runB, run, List.map]
    cases hs : stepB v s o with
    | error e =>
      have h1 := hS.1
      rw [hs] at h1
      simp only [Except.map] at h1
      simp [← h1, bind, Except.bind, Except.map]
    | ok s1 =>
      have h1 := hS.1
      rw [hs] at h1
      simp only [Except.map] at h1
      obtain ⟨n1, n2⟩ := hS.2 s1 hs
      have := ih s1 o.ts n1 n2 hm'
      simp [← h1, bind, Except.bind, this]

/-- the hypotheses of `runB_refines` are satisfiable: a reorg whose blocks all fall into buckets
that do not step back -/
example : TsMono 0 [⟨.apply ⟨1, 11, [⟨1, 100, 7⟩], [], [1]⟩, 1⟩, ⟨.revert ⟨1, 11, [⟨1, 100, 7⟩], [], [1]⟩, 1⟩,
    ⟨.apply ⟨1, 13, [], [], []⟩, 2⟩] := by decide

/-! ### the witness: a reorg across a bucket boundary -/

namespace BucketWitness

def d1 : Diff := ⟨1, 11, [⟨1, 100, 7⟩], [], [1]⟩
def d2 : Diff := ⟨2, 12, [⟨2, 50, 8⟩], [], [2]⟩

/-- connect block 1 (bucket 1) and block 2 (bucket 2), then disconnect both (tip first) -/
def hist : List TOp := [⟨.apply d1, 1⟩, ⟨.apply d2, 2⟩, ⟨.revert d2, 2⟩, ⟨.revert d1, 1⟩]

end BucketWitness

open BucketWitness in
/-- Two payouts (100 maturing at 7, 50 maturing at 8) arrive in blocks 1 and 2 whose timestamps lie
in different buckets; both blocks are then disconnected.  On the stored metrics the code as found
processes the history without fault and ends with an empty wallet (no elements, no events) and a
correct newest-or-older row `(1, 0)`, but the row of the newest bucket, which `Metrics(now)`
reports, still says immature balance 100: the revert of block 1 read and rewrote the row of bucket 1
while the row of bucket 2 kept the value from before.  The same history on the single-value model
ends with immature balance 0.  The history violates `TsMono`. -/
theorem bucket_reorg_violates :
    (∃ s, runB asFound {} hist = .ok s ∧ s.utxos = [] ∧ s.events = [] ∧
        s.imm = [(2, 100), (1, 0)] ∧ latest s.imm = 100 ∧ latest s.imm ≠ 0) ∧
    (∃ w, run asFound {} (hist.map (·.op)) = .ok w ∧ w.utxos = [] ∧ w.immature = 0) ∧
    ¬ TsMono 0 hist := by
  refine ⟨⟨_, rfl, by decide⟩, ⟨_, rfl, by decide⟩, by decide⟩

end Hostd.Wallet
