import Hostd.Model.Wallet
/-!
Helper lemmas for C16: the table operations of `WalletApplyIndex` / `WalletRevertIndex` on
well-formed inputs, sums over the tables, `bump`.
-/
namespace Hostd.Wallet
open List

/-! ### ids -/

theorem mem_ids {l : List Utxo} {i : Nat} : i ∈ ids l ↔ ∃ u ∈ l, u.id = i := by
  simp [ids, List.mem_map]

theorem ids_append (a b : List Utxo) : ids (a ++ b) = ids a ++ ids b := by simp [ids]

theorem ids_inj {l : List Utxo} (h : (ids l).Nodup) {a b : Utxo} (ha : a ∈ l) (hb : b ∈ l) (e : a.id = b.id) : a = b := by
  induction l with
  | nil => cases ha
  | cons x xs ih =>
    simp only [ids, List.map_cons, List.nodup_cons] at h
    obtain ⟨hx, hxs⟩ := h
    have hx' : ∀ u ∈ xs, u.id ≠ x.id := by
      intro u hu he
      exact hx (List.mem_map.mpr ⟨u, hu, he⟩)
    rcases List.mem_cons.mp ha with rfl | ha' <;> rcases List.mem_cons.mp hb with rfl | hb'
    · rfl
    · exact absurd e.symm (hx' b hb')
    · exact absurd e (hx' a ha')
    · exact ih hxs ha' hb'

theorem nodup_of_ids_nodup {l : List Utxo} (h : (ids l).Nodup) : l.Nodup := by
  induction l with
  | nil => exact List.nodup_nil
  | cons x xs ih =>
    simp only [ids, List.map_cons, List.nodup_cons] at h
    refine List.nodup_cons.mpr ⟨fun hx => h.1 (List.mem_map.mpr ⟨x, hx, rfl⟩), ih h.2⟩

theorem ids_filter_nodup {l : List Utxo} (p : Utxo → Bool) (h : (ids l).Nodup) : (ids (l.filter p)).Nodup := by
  induction l with
  | nil => simpa using h
  | cons x xs ih =>
    simp only [ids, List.map_cons, List.nodup_cons] at h
    by_cases hp : p x = true
    · simp only [List.filter_cons, hp, if_true, ids, List.map_cons, List.nodup_cons]
      refine ⟨fun hx => h.1 ?_, ih h.2⟩
      obtain ⟨u, hu, he⟩ := List.mem_map.mp hx
      exact List.mem_map.mpr ⟨u, (List.mem_filter.mp hu).1, he⟩
    · simp only [List.filter_cons, hp]
      exact ih h.2

theorem ids_perm {a b : List Utxo} (h : a.Perm b) : (ids a).Perm (ids b) := h.map _

/-! ### the table operations on well-formed inputs -/

theorem deleteElems_ok : ∀ (sp tbl : List Utxo), (ids sp).Nodup → (∀ e ∈ sp, e.id ∈ ids tbl) →
    deleteElems tbl sp = .ok (tbl.filter (fun u => !(ids sp).contains u.id))
  | [], tbl, _, _ => by
    simp only [deleteElems, ids, List.map_nil, List.contains_nil, Bool.not_false]
    exact congrArg _ (List.filter_eq_self.mpr (fun _ _ => rfl)).symm
  | e :: rest, tbl, hnd, hin => by
    simp only [ids, List.map_cons, List.nodup_cons] at hnd
    have he : tbl.any (fun u => u.id == e.id) = true := by
      obtain ⟨u, hu, hid⟩ := mem_ids.mp (hin e (List.mem_cons_self ..))
      exact List.any_eq_true.mpr ⟨u, hu, by simp [hid]⟩
    have hrest : ∀ e' ∈ rest, e'.id ∈ ids (tbl.filter (fun u => u.id != e.id)) := by
      intro e' he'
      obtain ⟨u, hu, hid⟩ := mem_ids.mp (hin e' (List.mem_cons_of_mem _ he'))
      refine mem_ids.mpr ⟨u, List.mem_filter.mpr ⟨hu, ?_⟩, hid⟩
      have : e'.id ≠ e.id := fun h => hnd.1 (List.mem_map.mpr ⟨e', he', h⟩)
      simp [hid, this]
    have ih := deleteElems_ok rest (tbl.filter (fun u => u.id != e.id)) hnd.2 hrest
    simp only [deleteElems, he, if_true, ih, List.filter_filter]
    congr 1
    apply List.filter_congr
    intro u _
    simp only [ids, List.map_cons, List.contains_cons, bne, Bool.not_or]
    exact Bool.and_comm _ _

theorem createElems_fresh : ∀ (cr tbl : List Utxo), (ids cr).Nodup → (∀ e ∈ cr, e.id ∉ ids tbl) →
    createElems tbl cr = tbl ++ cr
  | [], tbl, _, _ => by simp [createElems]
  | e :: rest, tbl, hnd, hfr => by
    simp only [ids, List.map_cons, List.nodup_cons] at hnd
    have he : tbl.any (fun u => u.id == e.id) = false := by
      apply Bool.eq_false_iff.mpr
      intro h
      obtain ⟨u, hu, hid⟩ := List.any_eq_true.mp h
      exact hfr e (List.mem_cons_self ..) (mem_ids.mpr ⟨u, hu, by simpa using hid⟩)
    have hrest : ∀ e' ∈ rest, e'.id ∉ ids (tbl ++ [e]) := by
      intro e' he' hm
      rw [ids_append] at hm
      rcases List.mem_append.mp hm with h | h
      · exact hfr e' (List.mem_cons_of_mem _ he') h
      · simp only [ids, List.map_cons, List.map_nil, List.mem_singleton] at h
        exact hnd.1 (List.mem_map.mpr ⟨e', he', h⟩)
    have ih := createElems_fresh rest (tbl ++ [e]) hnd.2 hrest
    simp [createElems, he, ih]

theorem createEvents_fresh (blk : Nat) : ∀ (evs : List Nat) (tbl : List Ev), evs.Nodup → (∀ i ∈ evs, i ∉ tbl.map (·.id)) →
    createEvents blk tbl evs = tbl ++ evs.map (fun i => (⟨i, blk⟩ : Ev))
  | [], tbl, _, _ => by simp [createEvents]
  | i :: rest, tbl, hnd, hfr => by
    simp only [List.nodup_cons] at hnd
    have he : tbl.any (fun e => e.id == i) = false := by
      apply Bool.eq_false_iff.mpr
      intro h
      obtain ⟨u, hu, hid⟩ := List.any_eq_true.mp h
      exact hfr i (List.mem_cons_self ..) (List.mem_map.mpr ⟨u, hu, by simpa using hid⟩)
    have hrest : ∀ j ∈ rest, j ∉ (tbl ++ [(⟨i, blk⟩ : Ev)]).map (·.id) := by
      intro j hj hm
      simp only [List.map_append, List.map_cons, List.map_nil, List.mem_append, List.mem_singleton] at hm
      rcases hm with h | h
      · exact hfr j (List.mem_cons_of_mem _ hj) h
      · exact hnd.1 (h ▸ hj)
    have ih := createEvents_fresh blk rest (tbl ++ [(⟨i, blk⟩ : Ev)]) hnd.2 hrest
    simp [createEvents, he, ih]

/-- splitting a table into the rows named by `sp` and the rest -/
theorem perm_split {tbl sp : List Utxo} (ht : (ids tbl).Nodup) (hs : (ids sp).Nodup) (hin : ∀ e ∈ sp, e ∈ tbl) :
    tbl.Perm (sp ++ tbl.filter (fun u => !(ids sp).contains u.id)) := by
  have h1 := (List.filter_append_perm (fun u => (ids sp).contains u.id) tbl).symm
  refine h1.trans (List.Perm.append ?_ (List.Perm.refl _))
  have hn1 : (tbl.filter (fun u => (ids sp).contains u.id)).Nodup :=
    nodup_of_ids_nodup (ids_filter_nodup _ ht)
  have hn2 : sp.Nodup := nodup_of_ids_nodup hs
  refine (List.perm_ext_iff_of_nodup hn1 hn2).mpr ?_
  intro u
  constructor
  · intro hu
    obtain ⟨hut, huc⟩ := List.mem_filter.mp hu
    have : u.id ∈ ids sp := by simpa using huc
    obtain ⟨e, he, hid⟩ := mem_ids.mp this
    have : e = u := ids_inj ht (hin e he) hut hid
    exact this ▸ he
  · intro hu
    exact List.mem_filter.mpr ⟨hin u hu, by simpa using mem_ids.mpr ⟨u, hu, rfl⟩⟩

/-! ### sums -/

theorem matureSum_append (h : Nat) (a b : List Utxo) : matureSum h (a ++ b) = matureSum h a + matureSum h b := by
  simp [matureSum, List.filter_append, List.sum_append]

theorem immatureSum_append (h : Nat) (a b : List Utxo) : immatureSum h (a ++ b) = immatureSum h a + immatureSum h b := by
  simp [immatureSum, List.filter_append, List.sum_append]

theorem maturedAt_append (h : Nat) (a b : List Utxo) : maturedAt h (a ++ b) = maturedAt h a + maturedAt h b := by
  simp [maturedAt, List.filter_append, List.sum_append]

theorem matureSum_perm (h : Nat) {a b : List Utxo} (p : a.Perm b) : matureSum h a = matureSum h b :=
  ((p.filter _).map _).sum_nat

theorem immatureSum_perm (h : Nat) {a b : List Utxo} (p : a.Perm b) : immatureSum h a = immatureSum h b :=
  ((p.filter _).map _).sum_nat

theorem maturedAt_perm (h : Nat) {a b : List Utxo} (p : a.Perm b) : maturedAt h a = maturedAt h b :=
  ((p.filter _).map _).sum_nat

/-- raising the height by one moves exactly the elements maturing there -/
theorem matureSum_succ (H : Nat) : ∀ l : List Utxo, matureSum (H + 1) l = matureSum H l + maturedAt (H + 1) l
  | [] => by simp [matureSum, maturedAt]
  | u :: l => by
    have ih := matureSum_succ H l
    unfold matureSum maturedAt at ih ⊢
    simp only [List.filter_cons, decide_eq_true_eq, beq_iff_eq]
    by_cases h1 : u.maturity ≤ H
    · have h2 : u.maturity ≤ H + 1 := by omega
      have h3 : ¬ u.maturity = H + 1 := by omega
      rw [if_pos h2, if_pos h1, if_neg h3]
      simp only [List.map_cons, List.sum_cons]; omega
    · by_cases h2 : u.maturity = H + 1
      · have h3 : u.maturity ≤ H + 1 := by omega
        rw [if_pos h3, if_neg h1, if_pos h2]
        simp only [List.map_cons, List.sum_cons]; omega
      · have h3 : ¬ u.maturity ≤ H + 1 := by omega
        rw [if_neg h3, if_neg h1, if_neg h2]
        exact ih

theorem immatureSum_succ (H : Nat) : ∀ l : List Utxo, immatureSum H l = immatureSum (H + 1) l + maturedAt (H + 1) l
  | [] => by simp [immatureSum, maturedAt]
  | u :: l => by
    have ih := immatureSum_succ H l
    unfold immatureSum maturedAt at ih ⊢
    simp only [List.filter_cons, Bool.not_eq_true', decide_eq_false_iff_not, beq_iff_eq]
    by_cases h1 : u.maturity ≤ H
    · have h2 : u.maturity ≤ H + 1 := by omega
      have h3 : ¬ u.maturity = H + 1 := by omega
      rw [if_neg ((fun hn => hn h1)), if_neg ((fun hn => hn h2)), if_neg h3]
      exact ih
    · by_cases h2 : u.maturity = H + 1
      · have h3 : u.maturity ≤ H + 1 := by omega
        rw [if_pos h1, if_neg ((fun hn => hn h3)), if_pos h2]
        simp only [List.map_cons, List.sum_cons]; omega
      · have h3 : ¬ u.maturity ≤ H + 1 := by omega
        rw [if_pos h1, if_pos h3, if_neg h2]
        simp only [List.map_cons, List.sum_cons]; omega

theorem maturedAt_zero_of_ne (h : Nat) {l : List Utxo} (hne : ∀ e ∈ l, e.maturity ≠ h) : maturedAt h l = 0 := by
  induction l with
  | nil => simp [maturedAt]
  | cons u l ih =>
    have hu : ¬ u.maturity = h := hne u (List.mem_cons_self ..)
    have := ih (fun e he => hne e (List.mem_cons_of_mem _ he))
    unfold maturedAt at this ⊢
    simp only [List.filter_cons, beq_iff_eq]
    rw [if_neg hu]
    exact this

/-- a spent element that was mature before the block is classified alike by both variants … -/
theorem matureSum_of_lt (H : Nat) : ∀ l : List Utxo, (∀ e ∈ l, e.maturity < H + 1) →
    matureSum (H + 1) l = matureSum H l ∧ immatureSum (H + 1) l = immatureSum H l
  | [], _ => by simp [matureSum, immatureSum]
  | u :: l, hlt => by
    have ih := matureSum_of_lt H l (fun e he => hlt e (List.mem_cons_of_mem _ he))
    have hu : u.maturity < H + 1 := hlt u (List.mem_cons_self ..)
    have h1 : u.maturity ≤ H := by omega
    have h2 : u.maturity ≤ H + 1 := by omega
    unfold matureSum immatureSum at ih ⊢
    simp only [List.filter_cons, decide_eq_true_eq, Bool.not_eq_true', decide_eq_false_iff_not]
    rw [if_pos h2, if_pos h1, if_neg ((fun hn => hn h2)), if_neg ((fun hn => hn h1))]
    simp only [List.map_cons, List.sum_cons]
    exact ⟨by rw [ih.1], ih.2⟩

/-- … and the repaired classification (`maturity < h`) is the classification at the previous height -/
theorem ltSum_eq (H : Nat) : ∀ l : List Utxo,
    ((l.filter (fun u => decide (u.maturity < H + 1))).map (·.value)).sum = matureSum H l ∧
    ((l.filter (fun u => !decide (u.maturity < H + 1))).map (·.value)).sum = immatureSum H l
  | [] => by simp [matureSum, immatureSum]
  | u :: l => by
    have ih := ltSum_eq H l
    unfold matureSum immatureSum at ih ⊢
    simp only [List.filter_cons, decide_eq_true_eq, Bool.not_eq_true', decide_eq_false_iff_not]
    by_cases h1 : u.maturity ≤ H
    · have h2 : u.maturity < H + 1 := by omega
      rw [if_pos h2, if_pos h1, if_neg ((fun hn => hn h2)), if_neg ((fun hn => hn h1))]
      simp only [List.map_cons, List.sum_cons]
      exact ⟨by rw [ih.1], ih.2⟩
    · have h2 : ¬ u.maturity < H + 1 := by omega
      rw [if_neg h2, if_neg h1, if_pos h2, if_pos h1]
      simp only [List.map_cons, List.sum_cons]
      exact ⟨ih.1, by rw [ih.2]⟩

theorem spentMatureSum_eq (v : Variant) (H : Nat) (l : List Utxo)
    (hlt : v.spentLt = false → ∀ e ∈ l, e.maturity < H + 1) :
    spentMatureSum v (H + 1) l = matureSum H l ∧ spentImmatureSum v (H + 1) l = immatureSum H l := by
  cases hv : v.spentLt
  · have := matureSum_of_lt H l (hlt hv)
    simp only [spentMatureSum, spentImmatureSum, hv, Bool.false_eq_true, if_false]
    exact this
  · have := ltSum_eq H l
    simp only [spentMatureSum, spentImmatureSum, hv, if_true]
    exact this

/-! ### bump -/

theorem bump_eq {cur i o : Nat} (h : o ≤ cur + i) : bump cur i o = some (cur + i - o) := by
  unfold bump
  split
  · congr 1; omega
  · split
    · omega
    · congr 1; omega

end Hostd.Wallet
