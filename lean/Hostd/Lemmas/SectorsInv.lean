import Hostd.Lemmas.Sectors
/-!
The world invariant of the `sectors` engine (`Good`) and its preservation by every accepted operation
(used by Props/C03 and Props/C13).
-/
set_option linter.unusedSectionVars false
set_option linter.unusedSimpArgs false
namespace Hostd.Sectors
variable {H : Type} [DecidableEq H]

/-! ### the world invariant -/

/-- contracts, in creation order, only point forward: a topological order of the renewal links -/
def Forward (cs : List (Contract H)) : Prop :=
  cs.Pairwise (fun a b => b.renewedTo ≠ some a.id) ∧ ∀ c ∈ cs, c.renewedTo ≠ some c.id

structure Good (P : Params H) (w : World H) : Prop where
  nodup   : (w.db.contracts.map (·.id)).Nodup
  cached  : ∀ id, findC w.db.contracts id = none → cacheGet w.cache id = []
  live    : ∀ c ∈ w.db.contracts, c.renewedTo = none →
              c.rows = mkRows 0 (cacheGet w.cache c.id) ∧
              c.rev.filesize = P.sectorSize * (cacheGet w.cache c.id).length ∧
              c.rev.merkle = P.metaRoot (cacheGet w.cache c.id)
  dead    : ∀ c ∈ w.db.contracts, ∀ s, c.renewedTo = some s →
              c.rows = [] ∧ (c.v2 = false → c.rev.number = P.maxRev) ∧
              ∃ c', findC w.db.contracts s = some c' ∧ c'.renewedFrom = some c.id ∧ c'.v2 = c.v2
  back    : ∀ c ∈ w.db.contracts, ∀ p, c.renewedFrom = some p →
              ∃ c', findC w.db.contracts p = some c' ∧ c'.renewedTo = some c.id
  forward : Forward w.db.contracts

theorem findC_of_mem_nodup {cs : List (Contract H)} (hn : (cs.map (·.id)).Nodup) {c : Contract H} (hc : c ∈ cs) :
    findC cs c.id = some c := by
  induction cs with
  | nil => simp at hc
  | cons d cs ih =>
    simp only [List.map_cons, List.nodup_cons] at hn
    rw [findC_cons]
    rcases List.mem_cons.mp hc with h | h
    · subst h; simp
    · have : d.id ≠ c.id := by
        intro e
        apply hn.1
        rw [e]
        exact List.mem_map.mpr ⟨c, h, rfl⟩
      simp [this, ih hn.2 h]

theorem Good.empty (P : Params H) : Good P (World.empty : World H) := by
  refine ⟨?_, ?_, ?_, ?_, ?_, ?_⟩ <;> simp [World.empty, cacheGet, Forward]

/-- an update function that leaves identity, version and links alone -/
def Pres (f : Contract H → Contract H) : Prop :=
  ∀ c, (f c).id = c.id ∧ (f c).renewedTo = c.renewedTo ∧ (f c).renewedFrom = c.renewedFrom ∧ (f c).v2 = c.v2

/-- a committed modification of one live contract: new revision, rows of the new list, cache entry replaced -/
theorem Good_update (P : Params H) (w : World H) (g : Good P w) (id : Nat) (c : Contract H)
    (hc : findC w.db.contracts id = some c) (hl : c.renewedTo = none)
    (rev' : Rev H) (l' : List Root)
    (hfs : rev'.filesize = P.sectorSize * l'.length) (hmk : rev'.merkle = P.metaRoot l') :
    Good P { db := { w.db with contracts := mapC w.db.contracts id fun c => { c with rev := rev', rows := mkRows 0 l' } },
             cache := cacheSet w.cache id l' } := by
  have hf : ∀ c : Contract H, ({ c with rev := rev', rows := mkRows 0 l' } : Contract H).id = c.id := fun _ => rfl
  have hcid : c.id = id := (findC_some hc).2
  have same : ∀ c0 ∈ w.db.contracts, c0.id = id → c0 = c := by
    intro c0 h0 e
    have := findC_of_mem_nodup g.nodup h0
    rw [e, hc] at this
    exact (Option.some.inj this).symm
  refine ⟨?_, ?_, ?_, ?_, ?_, ?_⟩
  · simpa [ids_mapC _ _ _ hf] using g.nodup
  · intro j hj
    simp only at hj
    rw [findC_mapC _ _ _ _ hf] at hj
    have hj' : findC w.db.contracts j = none := by
      cases h : findC w.db.contracts j with
      | none => rfl
      | some x => rw [h] at hj; simp at hj
    have hne : id ≠ j := by intro e; rw [e] at hc; rw [hc] at hj'; cases hj'
    simp [cacheGet_set, hne, g.cached j hj']
  · intro c' hc' hl'
    rcases mem_mapC hc' with ⟨c0, h0, rfl⟩
    by_cases e : c0.id = id
    · simp only [e, if_true, cacheGet_set]
      simp [hfs, hmk]
    · have hne : ¬ id = c0.id := fun h => e h.symm
      simp only [e, if_false, cacheGet_set, hne] at hl' ⊢
      exact g.live c0 h0 hl'
  · intro c' hc' s hs
    rcases mem_mapC hc' with ⟨c0, h0, rfl⟩
    by_cases e : c0.id = id
    · exfalso
      have := same c0 h0 e
      subst this
      simp [e, hl] at hs
    · simp only [e, if_false] at hs ⊢
      obtain ⟨hr, hn, c'', hf'', hfrom, hv⟩ := g.dead c0 h0 s hs
      refine ⟨hr, hn, ?_⟩
      refine ⟨if c''.id = id then { c'' with rev := rev', rows := mkRows 0 l' } else c'', ?_, ?_, ?_⟩
      · rw [findC_mapC _ _ _ _ hf, hf'']; rfl
      · by_cases e2 : c''.id = id <;> simp [e2, hfrom]
      · by_cases e2 : c''.id = id <;> simp [e2, hv]
  · intro c' hc' p hp
    rcases mem_mapC hc' with ⟨c0, h0, rfl⟩
    have hp0 : c0.renewedFrom = some p := by
      by_cases e : c0.id = id <;> simpa [e] using hp
    have hid0 : (if c0.id = id then ({ c0 with rev := rev', rows := mkRows 0 l' } : Contract H) else c0).id = c0.id := by
      by_cases e : c0.id = id <;> simp [e]
    obtain ⟨c'', hf'', hto⟩ := g.back c0 h0 p hp0
    refine ⟨if c''.id = id then { c'' with rev := rev', rows := mkRows 0 l' } else c'', ?_, ?_⟩
    · rw [findC_mapC _ _ _ _ hf, hf'']; rfl
    · rw [hid0]
      by_cases e2 : c''.id = id <;> simp [e2, hto]
  · constructor
    · simp only [mapC]
      rw [List.pairwise_map]
      refine List.Pairwise.imp ?_ g.forward.1
      intro a b hab
      by_cases ea : a.id = id <;> by_cases eb : b.id = id <;> simpa [ea, eb] using hab
    · intro c' hc'
      rcases mem_mapC hc' with ⟨c0, h0, rfl⟩
      have := g.forward.2 c0 h0
      by_cases e : c0.id = id <;> simpa [e] using this

theorem superseded_id (n : Nat) (clr : Option (Rev H)) (c : Contract H) : (superseded n clr c).id = c.id := rfl

/-- an accepted renewal: predecessor superseded (rows gone, linked), successor appended with the
predecessor's rows, cache entry of the successor = the predecessor's list -/
theorem Good_renew (P : Params H) (w : World H) (g : Good P w) (v2 : Bool) (oldId newId : Nat) (o : Contract H)
    (ho : findC w.db.contracts oldId = some o) (hl : o.renewedTo = none) (hv : o.v2 = v2)
    (hn : findC w.db.contracts newId = none)
    (newRev : Rev H) (clr : Option (Rev H))
    (hfs : newRev.filesize = P.sectorSize * (cacheGet w.cache oldId).length)
    (hmk : newRev.merkle = P.metaRoot (cacheGet w.cache oldId))
    (hclr : v2 = false → ∀ c : Contract H, (clearedRev clr c).number = P.maxRev) :
    Good P { db := { w.db with contracts := mapC w.db.contracts oldId (superseded newId clr) ++
                                            [successor o v2 oldId newId newRev] },
             cache := cacheSet w.cache newId (cacheGet w.cache oldId) } := by
  have hoid : o.id = oldId := (findC_some ho).2
  have homem : o ∈ w.db.contracts := (findC_some ho).1
  have hnone := findC_none hn
  have hne : newId ≠ oldId := by intro h; rw [h] at hn; rw [hn] at ho; cases ho
  have same : ∀ c0 ∈ w.db.contracts, c0.id = oldId → c0 = o := by
    intro c0 h0 e
    have := findC_of_mem_nodup g.nodup h0
    rw [e, ho] at this
    exact (Option.some.inj this).symm
  have hsf := superseded_id (H := H) newId clr
  have findNew : ∀ j, findC (mapC w.db.contracts oldId (superseded newId clr) ++ [successor o v2 oldId newId newRev]) j =
      match findC w.db.contracts j with
      | some c => some (if c.id = oldId then superseded newId clr c else c)
      | none => if newId = j then some (successor o v2 oldId newId newRev) else none := by
    intro j
    rw [findC_append, findC_mapC _ _ _ _ hsf]
    cases h : findC w.db.contracts j with
    | some c => simp
    | none => simp [findC_cons, findC_nil, successor]
  have olive := g.live o homem hl
  rw [hoid] at olive
  refine ⟨?_, ?_, ?_, ?_, ?_, ?_⟩
  · simp only [List.map_append, ids_mapC _ _ _ hsf, List.map_cons, List.map_nil]
    rw [List.nodup_append]
    refine ⟨g.nodup, by simp, ?_⟩
    intro a ha b hb
    simp [successor] at hb
    subst hb
    rcases List.mem_map.mp ha with ⟨c, hc, rfl⟩
    exact hnone c hc
  · intro j hj
    simp only at hj
    rw [findNew j] at hj
    cases h : findC w.db.contracts j with
    | some c => rw [h] at hj; simp at hj
    | none =>
      rw [h] at hj
      have hne2 : ¬ newId = j := by intro e; simp [e] at hj
      simp [cacheGet_set, hne2, g.cached j h]
  · intro c' hc' hl'
    rcases List.mem_append.mp hc' with hm | hm
    · rcases mem_mapC hm with ⟨c0, h0, rfl⟩
      by_cases e : c0.id = oldId
      · simp [e, superseded] at hl'
      · have hne2 : ¬ newId = c0.id := fun h => hnone c0 h0 h.symm
        simp only [e, if_false, cacheGet_set, hne2] at hl' ⊢
        exact g.live c0 h0 hl'
    · simp only [List.mem_singleton] at hm
      subst hm
      simp only [successor, cacheGet_set, if_true]
      exact ⟨olive.1, hfs, hmk⟩
  · intro c' hc' s hs
    rcases List.mem_append.mp hc' with hm | hm
    · rcases mem_mapC hm with ⟨c0, h0, rfl⟩
      by_cases e : c0.id = oldId
      · have hc0 := same c0 h0 e
        subst hc0
        simp only [e, if_true, superseded, Option.some.injEq] at hs ⊢
        subst hs
        refine ⟨trivial, ?_, ?_⟩
        · intro hv1
          exact hclr (by rw [← hv]; exact hv1) c0
        · refine ⟨successor c0 v2 oldId newId newRev, ?_, ?_, ?_⟩
          · rw [findNew newId, hn]; simp
          · simp [successor, e]
          · simp [successor, hv]
      · simp only [e, if_false] at hs ⊢
        obtain ⟨hr, hnum, c'', hf'', hfrom, hv2⟩ := g.dead c0 h0 s hs
        refine ⟨hr, hnum, if c''.id = oldId then superseded newId clr c'' else c'', ?_, ?_, ?_⟩
        · rw [findNew s, hf'']
        · by_cases e2 : c''.id = oldId <;> simp [e2, superseded, hfrom]
        · by_cases e2 : c''.id = oldId <;> simp [e2, superseded, hv2]
    · simp only [List.mem_singleton] at hm
      subst hm
      simp [successor] at hs
  · intro c' hc' p hp
    rcases List.mem_append.mp hc' with hm | hm
    · rcases mem_mapC hm with ⟨c0, h0, rfl⟩
      have hp0 : c0.renewedFrom = some p := by
        by_cases e : c0.id = oldId <;> simpa [e, superseded] using hp
      have hid0 : (if c0.id = oldId then superseded newId clr c0 else c0).id = c0.id := by
        by_cases e : c0.id = oldId <;> simp [e, superseded]
      obtain ⟨c'', hf'', hto⟩ := g.back c0 h0 p hp0
      have hc''id : c''.id = p := (findC_some hf'').2
      have hne3 : c''.id ≠ oldId := by
        intro e
        have : c'' = o := same c'' (findC_some hf'').1 e
        rw [this, hl] at hto
        cases hto
      refine ⟨c'', ?_, ?_⟩
      · rw [findNew p, hf'']; simp [hne3]
      · rw [hid0]; exact hto
    · simp only [List.mem_singleton] at hm
      subst hm
      simp only [successor, Option.some.injEq] at hp
      subst hp
      refine ⟨superseded newId clr o, ?_, ?_⟩
      · rw [findNew oldId, ho]; simp [hoid]
      · simp [superseded, successor]
  · constructor
    · rw [List.pairwise_append]
      refine ⟨?_, by simp, ?_⟩
      · simp only [mapC]
        rw [List.pairwise_map]
        refine List.Pairwise.imp_of_mem ?_ g.forward.1
        intro a b ha hb hab
        have hida : (if a.id = oldId then superseded newId clr a else a).id = a.id := by
          by_cases e : a.id = oldId <;> simp [e, superseded]
        rw [hida]
        by_cases eb : b.id = oldId
        · simp only [eb, if_true, superseded, ne_eq, Option.some.injEq]
          exact fun h => hnone a ha h.symm
        · simpa [eb] using hab
      · intro a _ b hb
        simp only [List.mem_singleton] at hb
        subst hb
        simp [successor]
    · intro c' hc'
      rcases List.mem_append.mp hc' with hm | hm
      · rcases mem_mapC hm with ⟨c0, h0, rfl⟩
        by_cases e : c0.id = oldId
        · simp only [e, if_true, superseded, ne_eq, Option.some.injEq]
          exact hne
        · simpa [e] using g.forward.2 c0 h0
      · simp only [List.mem_singleton] at hm
        subst hm
        simp [successor]

/-- a formation: fresh empty contract -/
theorem Good_form (P : Params H) (w : World H) (g : Good P w) (id : Nat) (v2 : Bool) (rev : Rev H)
    (hn : findC w.db.contracts id = none)
    (hfs : rev.filesize = 0) (hmk : rev.merkle = P.metaRoot []) :
    Good P { w with db := { w.db with contracts := w.db.contracts ++
      [{ id, v2, rev, rows := [], renewedTo := none, renewedFrom := none }] } } := by
  have hnone := findC_none hn
  refine ⟨?_, ?_, ?_, ?_, ?_, ?_⟩
  · simp only [List.map_append, List.map_cons, List.map_nil]
    rw [List.nodup_append]
    refine ⟨g.nodup, by simp, ?_⟩
    intro a ha b hb
    simp at hb
    subst hb
    rcases List.mem_map.mp ha with ⟨c, hc, rfl⟩
    exact hnone c hc
  · intro j hj
    simp only at hj
    rw [findC_append] at hj
    cases h : findC w.db.contracts j with
    | some c => rw [h] at hj; simp at hj
    | none => exact g.cached j h
  · intro c' hc' hl'
    rcases List.mem_append.mp hc' with hm | hm
    · exact g.live c' hm hl'
    · simp only [List.mem_singleton] at hm
      subst hm
      simp [g.cached id hn, mkRows, hfs, hmk]
  · intro c' hc' s hs
    rcases List.mem_append.mp hc' with hm | hm
    · obtain ⟨hr, hnum, c'', hf'', hfrom, hv2⟩ := g.dead c' hm s hs
      refine ⟨hr, hnum, c'', ?_, hfrom, hv2⟩
      simp only
      rw [findC_append, hf'']
    · simp only [List.mem_singleton] at hm
      subst hm
      simp at hs
  · intro c' hc' p hp
    rcases List.mem_append.mp hc' with hm | hm
    · obtain ⟨c'', hf'', hto⟩ := g.back c' hm p hp
      refine ⟨c'', ?_, hto⟩
      simp only
      rw [findC_append, hf'']
    · simp only [List.mem_singleton] at hm
      subst hm
      simp at hp
  · constructor
    · rw [List.pairwise_append]
      refine ⟨g.forward.1, by simp, ?_⟩
      intro a _ b hb
      simp only [List.mem_singleton] at hb
      subst hb
      simp
    · intro c' hc'
      rcases List.mem_append.mp hc' with hm | hm
      · exact g.forward.2 c' hm
      · simp only [List.mem_singleton] at hm
        subst hm
        simp

theorem Good_store (P : Params H) (w : World H) (g : Good P w) (r : Root) : Good P (storeSector w r) := by
  unfold storeSector
  split
  · exact g
  · exact ⟨g.nodup, g.cached, g.live, g.dead, g.back, g.forward⟩

/-! ### restart: the cache rebuilt from the rows -/

theorem cacheGet_append_of_notin (A B : Cache) (id : Nat) (h : ∀ q ∈ A, q.1 ≠ id) :
    cacheGet (A ++ B) id = cacheGet B id := by
  induction A with
  | nil => rfl
  | cons q A ih =>
    obtain ⟨j, l⟩ := q
    have hj : j ≠ id := h (j, l) List.mem_cons_self
    simp only [List.cons_append, cacheGet, hj, if_false]
    exact ih (fun q hq => h q (List.mem_cons_of_mem _ hq))

theorem cacheGet_of_notin (A : Cache) (id : Nat) (h : ∀ q ∈ A, q.1 ≠ id) : cacheGet A id = [] := by
  have := cacheGet_append_of_notin A [] id h
  simpa [cacheGet] using this

theorem cacheGet_append_of_in (A B : Cache) (id : Nat) (h : ∃ q ∈ A, q.1 = id) :
    cacheGet (A ++ B) id = cacheGet A id := by
  induction A with
  | nil => simp at h
  | cons q A ih =>
    obtain ⟨j, l⟩ := q
    by_cases hj : j = id
    · simp [cacheGet, hj]
    · simp only [List.cons_append, cacheGet, hj, if_false]
      apply ih
      rcases h with ⟨q', hq', e⟩
      rcases List.mem_cons.mp hq' with h1 | h1
      · subst h1; exact absurd e hj
      · exact ⟨q', h1, e⟩

/-- bindings built from the contracts that satisfy `p` -/
def bindings (cs : List (Contract H)) (p : Contract H → Bool) : Cache :=
  (cs.filter p).map fun c => (c.id, load c.rows)

theorem bindings_none (cs : List (Contract H)) (p : Contract H → Bool) (id : Nat)
    (h : ∀ c ∈ cs, c.id = id → p c = false) : ∀ q ∈ bindings cs p, q.1 ≠ id := by
  intro q hq
  unfold bindings at hq
  rcases List.mem_map.mp hq with ⟨c, hc, rfl⟩
  have hc' := List.mem_filter.mp hc
  intro e
  have := h c hc'.1 e
  rw [this] at hc'
  exact absurd hc'.2 (by simp)

theorem bindings_get (cs : List (Contract H)) (p : Contract H → Bool) (hn : (cs.map (·.id)).Nodup)
    (c : Contract H) (hc : c ∈ cs) (hp : p c = true) :
    cacheGet (bindings cs p) c.id = load c.rows ∧ ∃ q ∈ bindings cs p, q.1 = c.id := by
  induction cs with
  | nil => simp at hc
  | cons d cs ih =>
    simp only [List.map_cons, List.nodup_cons] at hn
    rcases List.mem_cons.mp hc with h | h
    · subst h
      simp [bindings, List.filter_cons, hp, cacheGet]
    · have hne : d.id ≠ c.id := by
        intro e
        apply hn.1
        rw [e]
        exact List.mem_map.mpr ⟨c, h, rfl⟩
      obtain ⟨ih1, q, hq, hq1⟩ := ih hn.2 h
      by_cases hpd : p d = true
      · simp only [bindings, List.filter_cons, hpd, if_true, List.map_cons, cacheGet, hne, if_false]
        refine ⟨ih1, q, ?_, hq1⟩
        exact List.mem_cons_of_mem _ hq
      · simp only [bindings, List.filter_cons, hpd, if_false]
        exact ⟨ih1, q, hq, hq1⟩

theorem restart_cache_eq (w : World H) :
    (restart w).cache = bindings w.db.contracts (fun c => c.v2 == true && !c.rows.isEmpty) ++
                        bindings w.db.contracts (fun c => c.v2 == false && !c.rows.isEmpty) := rfl

/-- what the rebuilt cache serves for a contract -/
theorem restart_cacheGet (w : World H) (hn : (w.db.contracts.map (·.id)).Nodup) (c : Contract H)
    (hc : c ∈ w.db.contracts) :
    cacheGet (restart w).cache c.id = if c.rows.isEmpty then [] else load c.rows := by
  have same : ∀ d ∈ w.db.contracts, d.id = c.id → d = c := by
    intro d hd e
    have h1 := findC_of_mem_nodup hn hd
    have h2 := findC_of_mem_nodup hn hc
    rw [e, h2] at h1
    exact (Option.some.inj h1).symm
  rw [restart_cache_eq]
  by_cases he : c.rows.isEmpty = true
  · simp only [he, if_true]
    rw [cacheGet_append_of_notin, cacheGet_of_notin] <;>
      (apply bindings_none
       intro d hd e
       rw [same d hd e]
       simp [he])
  · have he' : c.rows.isEmpty = false := by simpa using he
    simp only [he', Bool.false_eq_true, if_false]
    cases hv : c.v2 with
    | true =>
      obtain ⟨h1, h2⟩ := bindings_get w.db.contracts (fun c => c.v2 == true && !c.rows.isEmpty) hn c hc (by simp [hv, he'])
      rw [cacheGet_append_of_in _ _ _ h2, h1]
    | false =>
      obtain ⟨h1, _⟩ := bindings_get w.db.contracts (fun c => c.v2 == false && !c.rows.isEmpty) hn c hc (by simp [hv, he'])
      rw [cacheGet_append_of_notin, h1]
      apply bindings_none
      intro d hd e
      rw [same d hd e]
      simp [hv]

theorem restart_cacheGet_none (w : World H) (id : Nat) (h : findC w.db.contracts id = none) :
    cacheGet (restart w).cache id = [] := by
  have hnone := findC_none h
  rw [restart_cache_eq, cacheGet_append_of_notin, cacheGet_of_notin] <;>
    (apply bindings_none
     intro d hd e
     exact absurd e (hnone d hd))

/-- a fresh manager serves the same list for every live contract -/
theorem restart_same_live (P : Params H) (w : World H) (g : Good P w) (c : Contract H) (hc : c ∈ w.db.contracts)
    (hl : c.renewedTo = none) : cacheGet (restart w).cache c.id = cacheGet w.cache c.id := by
  rw [restart_cacheGet w g.nodup c hc]
  have hr := (g.live c hc hl).1
  by_cases he : c.rows.isEmpty = true
  · simp only [he, if_true]
    have : c.rows = [] := by simpa using he
    rw [this] at hr
    cases hcg : cacheGet w.cache c.id with
    | nil => rfl
    | cons x l => rw [hcg] at hr; simp [mkRows] at hr
  · have he' : c.rows.isEmpty = false := by simpa using he
    simp only [he', Bool.false_eq_true, if_false]
    rw [hr, load_mkRows]

theorem Good_restart (P : Params H) (w : World H) (g : Good P w) : Good P (restart w) := by
  refine ⟨g.nodup, ?_, ?_, g.dead, g.back, g.forward⟩
  · intro id h
    exact restart_cacheGet_none w id h
  · intro c hc hl
    have e := restart_same_live P w g c hc hl
    show c.rows = mkRows 0 (cacheGet (restart w).cache c.id) ∧ _
    rw [e]
    exact g.live c hc hl

end Hostd.Sectors
