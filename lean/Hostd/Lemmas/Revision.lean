import Hostd.Model.Revision
/-!
Helper lemmas about the `Res` monad and the primitive operations of
`Hostd.Model.Revision` (used by Props/C07.lean and Props/C12.lean).
-/
namespace Hostd.Revision

variable {α β : Type}

/-! ### the monad -/

@[simp] theorem pure_eq_ok (a : α) : (pure a : Res α) = .ok a := rfl

@[simp] theorem ok_bind (a : α) (f : α → Res β) : (Res.ok a >>= f) = f a := rfl
@[simp] theorem reject_bind (t : Tag) (f : α → Res β) : ((Res.reject t : Res α) >>= f) = .reject t := rfl
@[simp] theorem panic_bind (s : Site) (f : α → Res β) : ((Res.panic s : Res α) >>= f) = .panic s := rfl

theorem bind_ok_iff {x : Res α} {f : α → Res β} {b : β} :
    (x >>= f) = .ok b ↔ ∃ a, x = .ok a ∧ f a = .ok b := by
  cases x <;> simp

theorem bind_panic_iff {x : Res α} {f : α → Res β} {s : Site} :
    (x >>= f) = .panic s ↔ x = .panic s ∨ ∃ a, x = .ok a ∧ f a = .panic s := by
  cases x <;> simp

/-- `x` does not panic -/
def NoPanic (x : Res α) : Prop := ∀ s, x ≠ .panic s

theorem NoPanic.bind {x : Res α} {f : α → Res β} (hx : NoPanic x) (hf : ∀ a, x = .ok a → NoPanic (f a)) :
    NoPanic (x >>= f) := by
  intro s h
  rcases bind_panic_iff.mp h with h | ⟨a, ha, h⟩
  · exact hx s h
  · exact hf a ha s h

theorem NoPanic.ok (a : α) : NoPanic (Res.ok a) := by intro s h; cases h
theorem NoPanic.pure (a : α) : NoPanic (pure a : Res α) := NoPanic.ok a
theorem NoPanic.reject (t : Tag) : NoPanic (Res.reject t : Res α) := by intro s h; cases h

/-! ### primitive operations -/

theorem check_ok_iff {t : Tag} {b : Bool} {u : Unit} : check t b = .ok u ↔ b = false := by
  unfold check; cases b <;> simp

theorem check_noPanic (t : Tag) (b : Bool) : NoPanic (check t b) := by
  intro s; unfold check; cases b <;> simp

@[simp] theorem check_ne_panic (t : Tag) (b : Bool) (s : Site) : check t b ≠ .panic s := check_noPanic t b s
@[simp] theorem check_eq_panic (t : Tag) (b : Bool) (s : Site) : (check t b = .panic s) = False :=
  eq_false (check_noPanic t b s)

theorem caddF_ok_iff {fx : Bool} {s : Site} {t : Tag} {a b c : Nat} :
    caddF fx s t a b = .ok c ↔ a + b < C128 ∧ c = a + b := by
  unfold caddF
  by_cases h : a + b < C128
  · simp [h]; exact eq_comm
  · cases fx <;> simp [h]

theorem caddF_panic_iff {fx : Bool} {s s' : Site} {t : Tag} {a b : Nat} :
    caddF fx s t a b = .panic s' ↔ ¬ a + b < C128 ∧ fx = false ∧ s = s' := by
  unfold caddF
  by_cases h : a + b < C128
  · simp [h]
  · cases fx <;> simp [h]

theorem csubF_ok_iff {fx : Bool} {s : Site} {t : Tag} {a b c : Nat} :
    csubF fx s t a b = .ok c ↔ b ≤ a ∧ c = a - b := by
  unfold csubF
  by_cases h : b ≤ a
  · simp [h]; exact eq_comm
  · cases fx <;> simp [h]

theorem csubF_panic_iff {fx : Bool} {s s' : Site} {t : Tag} {a b : Nat} :
    csubF fx s t a b = .panic s' ↔ ¬ b ≤ a ∧ fx = false ∧ s = s' := by
  unfold csubF
  by_cases h : b ≤ a
  · simp [h]
  · cases fx <;> simp [h]

theorem cmulF_ok_iff {fx : Bool} {s : Site} {t : Tag} {a b c : Nat} :
    cmulF fx s t a b = .ok c ↔ a * b < C128 ∧ c = a * b := by
  unfold cmulF
  by_cases h : a * b < C128
  · simp [h]; exact eq_comm
  · cases fx <;> simp [h]

theorem cmulF_panic_iff {fx : Bool} {s s' : Site} {t : Tag} {a b : Nat} :
    cmulF fx s t a b = .panic s' ↔ ¬ a * b < C128 ∧ fx = false ∧ s = s' := by
  unfold cmulF
  by_cases h : a * b < C128
  · simp [h]
  · cases fx <;> simp [h]

theorem cadd_ok_iff {s : Site} {a b c : Nat} : cadd s a b = .ok c ↔ a + b < C128 ∧ c = a + b := by
  unfold cadd
  by_cases h : a + b < C128
  · simp [h]; exact eq_comm
  · simp [h]

theorem cadd_panic_iff {s s' : Site} {a b : Nat} : cadd s a b = .panic s' ↔ ¬ a + b < C128 ∧ s = s' := by
  unfold cadd
  by_cases h : a + b < C128 <;> simp [h]

theorem csub_ok_iff {s : Site} {a b c : Nat} : csub s a b = .ok c ↔ b ≤ a ∧ c = a - b := by
  unfold csub
  by_cases h : b ≤ a
  · simp [h]; exact eq_comm
  · simp [h]

theorem csub_panic_iff {s s' : Site} {a b : Nat} : csub s a b = .panic s' ↔ ¬ b ≤ a ∧ s = s' := by
  unfold csub
  by_cases h : b ≤ a <;> simp [h]

theorem out0_ok_iff {s : Site} {l : List Out} {o : Out} : out0 s l = .ok o ↔ ∃ rest, l = o :: rest := by
  cases l with
  | nil => simp [out0]
  | cons a rest => simp [out0]

theorem out1_ok_iff {s : Site} {l : List Out} {o : Out} : out1 s l = .ok o ↔ ∃ a rest, l = a :: o :: rest := by
  match l with
  | [] => simp [out1]
  | [a] => simp [out1]
  | a :: b :: rest => simp [out1]

theorem out2_ok_iff {s : Site} {l : List Out} {o : Out} :
    out2 s l = .ok o ↔ ∃ a b rest, l = a :: b :: o :: rest := by
  match l with
  | [] => simp [out2]
  | [a] => simp [out2]
  | [a, b] => simp [out2]
  | a :: b :: c :: rest => simp [out2]

theorem out0_panic_iff {s s' : Site} {l : List Out} : out0 s l = .panic s' ↔ l = [] ∧ s = s' := by
  cases l <;> simp [out0]

theorem out1_panic_iff {s s' : Site} {l : List Out} : out1 s l = .panic s' ↔ l.length < 2 ∧ s = s' := by
  match l with
  | [] => simp [out1]
  | [a] => simp [out1]
  | a :: b :: rest => simp [out1]; omega

theorem out2_panic_iff {s s' : Site} {l : List Out} : out2 s l = .panic s' ↔ l.length < 3 ∧ s = s' := by
  match l with
  | [] => simp [out2]
  | [a] => simp [out2]
  | [a, b] => simp [out2]
  | a :: b :: c :: rest => simp [out2]; omega

/-! ### sums -/

@[simp] theorem total_nil : total [] = 0 := rfl
@[simp] theorem total_cons (o : Out) (l : List Out) : total (o :: l) = o.val + total l := rfl
@[simp] theorem addrs_nil : addrs [] = [] := rfl
@[simp] theorem addrs_cons (o : Out) (l : List Out) : addrs (o :: l) = o.addr :: addrs l := by
  simp [addrs]
@[simp] theorem vals_nil : vals [] = [] := rfl
@[simp] theorem vals_cons (o : Out) (l : List Out) : vals (o :: l) = o.val :: vals l := by
  simp [vals]

/-- the checked sum succeeds exactly when the mathematical sum fits in 128 bits -/
theorem sumVals_ok_iff {fx : Bool} {s : Site} {l : List Out} {acc r : Nat} (hacc : acc < C128) :
    sumVals fx s l acc = .ok r ↔ acc + total l < C128 ∧ r = acc + total l := by
  induction l generalizing acc with
  | nil => simp [sumVals]; omega
  | cons o os ih =>
    simp only [sumVals, bind_ok_iff, caddF_ok_iff, total_cons]
    constructor
    · rintro ⟨a, ⟨h1, rfl⟩, h2⟩
      have := (ih h1).mp h2
      omega
    · rintro ⟨h1, rfl⟩
      refine ⟨acc + o.val, ⟨by omega, rfl⟩, ?_⟩
      apply (ih (by omega)).mpr
      omega

theorem sumVals_panic_iff {fx : Bool} {s s' : Site} {l : List Out} {acc : Nat} (hacc : acc < C128) :
    sumVals fx s l acc = .panic s' ↔ ¬ acc + total l < C128 ∧ fx = false ∧ s = s' := by
  induction l generalizing acc with
  | nil => simp [sumVals]; intro h; omega
  | cons o os ih =>
    simp only [sumVals, bind_panic_iff, caddF_panic_iff, caddF_ok_iff, total_cons]
    constructor
    · rintro (⟨h1, h2, h3⟩ | ⟨a, ⟨h1, rfl⟩, h2⟩)
      · exact ⟨by omega, h2, h3⟩
      · have := (ih h1).mp h2
        exact ⟨by omega, this.2⟩
    · rintro ⟨h1, h2, h3⟩
      by_cases h : acc + o.val < C128
      · right
        refine ⟨_, ⟨h, rfl⟩, (ih h).mpr ⟨by omega, h2, h3⟩⟩
      · left; exact ⟨h, h2, h3⟩

/-- what a successful address/sum loop of `validateStdRevision` establishes -/
theorem addrLoop_ok {fx : Bool} {sI sS : Site} {tA : Tag} {rev cur : List Out} {acc r : Nat}
    (h : addrLoop fx sI sS tA rev cur acc = .ok r) :
    rev.length ≤ cur.length ∧ addrs rev = addrs (cur.take rev.length) ∧ r = acc + total rev ∧ r < C128 ∨
    (rev = [] ∧ r = acc) := by
  induction rev generalizing cur acc with
  | nil => right; simp [addrLoop] at h; exact ⟨rfl, h.symm⟩
  | cons x xs ih =>
    left
    cases cur with
    | nil => simp [addrLoop] at h
    | cons c cs =>
      simp only [addrLoop] at h
      split at h
      · cases h
      · rename_i hne
        simp only [bind_ok_iff, caddF_ok_iff] at h
        obtain ⟨a, ⟨h1, rfl⟩, h2⟩ := h
        have hx : x.addr = c.addr := by simpa using hne
        rcases ih h2 with ⟨h3, h4, h5, h6⟩ | ⟨rfl, h5⟩
        · refine ⟨by simp; omega, by simp [hx, h4], by simp; omega, h6⟩
        · refine ⟨by simp, by simp [hx], by simp; omega, by omega⟩

/-- with equal lengths a successful loop gives equal address lists -/
theorem addrLoop_ok_eq {fx : Bool} {sI sS : Site} {tA : Tag} {rev cur : List Out} {r : Nat}
    (h : addrLoop fx sI sS tA rev cur 0 = .ok r) (hl : rev.length = cur.length) :
    addrs rev = addrs cur ∧ r = total rev ∧ total rev < C128 := by
  rcases addrLoop_ok h with ⟨_, h2, h3, h4⟩ | ⟨rfl, h3⟩
  · rw [hl, List.take_length] at h2
    exact ⟨h2, by omega, by omega⟩
  · have : cur = [] := by simpa using hl.symm
    subst this
    simp [h3, C128]

/-- the loop panics exactly when the proposal is longer than the current list along an
address-equal prefix, or the running sum overflows (current tree only) -/
theorem addrLoop_noPanic {fx : Bool} {sI sS : Site} {tA : Tag} {rev cur : List Out} {acc : Nat}
    (hl : rev.length ≤ cur.length) (hs : fx = true ∨ acc + total rev < C128) :
    NoPanic (addrLoop fx sI sS tA rev cur acc) := by
  induction rev generalizing cur acc with
  | nil => intro s; simp [addrLoop]
  | cons x xs ih =>
    cases cur with
    | nil => simp at hl
    | cons c cs =>
      intro s
      simp only [addrLoop]
      split
      · simp
      · intro h
        rcases bind_panic_iff.mp h with h | ⟨a, ha, h⟩
        · rw [caddF_panic_iff] at h
          rcases hs with hs | hs
          · simp [hs] at h
          · simp at hs; omega
        · rw [caddF_ok_iff] at ha
          obtain ⟨_, rfl⟩ := ha
          refine ih (by simpa using hl) ?_ s h
          rcases hs with hs | hs
          · exact Or.inl hs
          · right; simp at hs; omega

end Hostd.Revision
