import Hostd.Model.Volumes
/-! Helper lemmas about the list primitives of `Model/Volumes.lean` (shared by Props/C08 and Props/C02). -/
set_option linter.unusedSimpArgs false
set_option linter.unusedVariables false
namespace Hostd.Volumes

/-! ### modAt -/

@[simp] theorem modAt_length {α : Type} (i : Nat) (f : α → α) (l : List α) : (modAt i f l).length = l.length := by
  induction l generalizing i with
  | nil => simp [modAt]
  | cons x xs ih => cases i <;> simp [modAt, ih]

theorem modAt_getElem? {α : Type} (i j : Nat) (f : α → α) (l : List α) :
    (modAt i f l)[j]? = if j = i then l[j]?.map f else l[j]? := by
  induction l generalizing i j with
  | nil => simp [modAt]
  | cons x xs ih =>
    cases i with
    | zero => cases j <;> simp [modAt]
    | succ i => cases j with
      | zero => simp [modAt]
      | succ j => simp [modAt, ih]

theorem modAt_of_none {α : Type} (i : Nat) (f : α → α) (l : List α) (h : l[i]? = none) : modAt i f l = l := by
  induction l generalizing i with
  | nil => simp [modAt]
  | cons x xs ih =>
    cases i with
    | zero => simp at h
    | succ i => simp at h; simp [modAt, ih i (by simpa using h)]

theorem countP_modAt {α : Type} (p : α → Bool) (i : Nat) (f : α → α) (l : List α) (x : α) (h : l[i]? = some x) :
    (modAt i f l).countP p + (if p x then 1 else 0) = l.countP p + (if p (f x) then 1 else 0) := by
  induction l generalizing i with
  | nil => simp at h
  | cons y ys ih =>
    cases i with
    | zero =>
      simp at h; subst h
      simp only [modAt, List.countP_cons]
      split <;> split <;> omega
    | succ i =>
      simp at h
      have := ih i h
      simp only [modAt, List.countP_cons]
      omega

theorem mem_modAt {α : Type} (i : Nat) (f : α → α) (l : List α) (y : α) (h : y ∈ modAt i f l) :
    y ∈ l ∨ ∃ x, l[i]? = some x ∧ y = f x := by
  induction l generalizing i with
  | nil => simp [modAt] at h
  | cons x xs ih =>
    cases i with
    | zero =>
      simp [modAt] at h
      rcases h with h | h
      · right; exact ⟨x, by simp, h⟩
      · left; simp [h]
    | succ i =>
      simp [modAt] at h
      rcases h with h | h
      · left; simp [h]
      · rcases ih i h with h | ⟨z, hz, e⟩
        · left; simp [h]
        · right; exact ⟨z, by simpa using hz, e⟩

/-! ### volumes -/

theorem findVol_some {id : Nat} {vs : List Volume} {v : Volume} (h : findVol id vs = some v) : v ∈ vs ∧ v.id = id := by
  induction vs with
  | nil => simp [findVol] at h
  | cons x xs ih =>
    simp only [findVol] at h
    split at h
    · simp at h; subst h; simp [*]
    · have := ih h; simp [this]

theorem findVol_none {id : Nat} {vs : List Volume} (h : findVol id vs = none) : ∀ v ∈ vs, v.id ≠ id := by
  induction vs with
  | nil => simp
  | cons x xs ih =>
    simp only [findVol] at h
    split at h
    · simp at h
    · intro v hv
      simp at hv
      rcases hv with rfl | hv
      · assumption
      · exact ih h v hv

theorem findVol_of_mem {vs : List Volume} (hn : (vs.map (·.id)).Nodup) {v : Volume} (hv : v ∈ vs) : findVol v.id vs = some v := by
  induction vs with
  | nil => simp at hv
  | cons x xs ih =>
    simp only [List.map_cons, List.nodup_cons] at hn
    simp only [findVol]
    simp at hv
    rcases hv with rfl | hv
    · simp
    · have : x.id ≠ v.id := by
        intro e
        apply hn.1
        simp only [List.mem_map]
        exact ⟨v, hv, e.symm⟩
      simp [this, ih hn.2 hv]

@[simp] theorem updVol_ids (id : Nat) (g : Volume → Volume) (vs : List Volume) (hg : ∀ v, (g v).id = v.id) :
    (updVol id g vs).map (·.id) = vs.map (·.id) := by
  induction vs with
  | nil => rfl
  | cons x xs ih =>
    simp only [updVol, List.map_cons] at ih ⊢
    rw [ih]
    split <;> simp [hg]

theorem mem_updVol {id : Nat} {g : Volume → Volume} {vs : List Volume} {y : Volume} (h : y ∈ updVol id g vs) :
    (y ∈ vs ∧ y.id ≠ id) ∨ ∃ x ∈ vs, x.id = id ∧ y = g x := by
  simp only [updVol, List.mem_map] at h
  obtain ⟨x, hx, e⟩ := h
  split at e
  · right; exact ⟨x, hx, ‹_›, e.symm⟩
  · left; subst e; exact ⟨hx, ‹_›⟩

theorem findVol_updVol (id id' : Nat) (g : Volume → Volume) (vs : List Volume) (hg : ∀ v, (g v).id = v.id) :
    findVol id' (updVol id g vs) = if id' = id then (findVol id' vs).map g else findVol id' vs := by
  induction vs with
  | nil => simp [updVol, findVol]
  | cons x xs ih =>
    simp only [updVol, List.map_cons, findVol] at ih ⊢
    by_cases hx : x.id = id
    · simp only [hx, if_true, hg, findVol]
      by_cases h2 : id = id'
      · subst h2; simp
      · simp only [hx, h2, if_false]
        rw [ih]
    · simp only [hx, if_false, findVol]
      by_cases h2 : x.id = id'
      · subst h2; simp [hx]
      · simp only [h2, if_false]
        rw [ih]

theorem sumBy_updVol_same (f : Volume → Nat) (id : Nat) (g : Volume → Volume) (vs : List Volume)
    (h : ∀ v ∈ vs, v.id = id → f (g v) = f v) : sumBy f (updVol id g vs) = sumBy f vs := by
  induction vs with
  | nil => rfl
  | cons x xs ih =>
    simp only [updVol, List.map_cons, sumBy] at ih ⊢
    rw [ih (fun v hv => h v (by simp [hv]))]
    split
    · rw [h x (by simp) ‹_›]
    · rfl

theorem sumBy_updVol (f : Volume → Nat) (id : Nat) (g : Volume → Volume) (vs : List Volume)
    (hn : (vs.map (·.id)).Nodup) (v : Volume) (hv : findVol id vs = some v) :
    sumBy f (updVol id g vs) + f v = sumBy f vs + f (g v) := by
  induction vs with
  | nil => simp [findVol] at hv
  | cons x xs ih =>
    simp only [List.map_cons, List.nodup_cons] at hn
    simp only [findVol] at hv
    by_cases hx : x.id = id
    · simp only [hx, if_true] at hv
      simp at hv; subst hv
      have h2 : sumBy f (updVol id g xs) = sumBy f xs := by
        apply sumBy_updVol_same
        intro v hv e
        exfalso; apply hn.1
        simp only [List.mem_map]; exact ⟨v, hv, by rw [e, hx]⟩
      simp only [updVol, List.map_cons, hx, if_true, sumBy]
      simp only [updVol] at h2
      omega
    · simp only [hx, if_false] at hv
      have h2 := ih hn.2 hv
      simp only [updVol, List.map_cons, hx, if_false, sumBy]
      simp only [updVol] at h2
      omega

theorem sumBy_le_of_mem (f : Volume → Nat) {vs : List Volume} {v : Volume} (h : v ∈ vs) : f v ≤ sumBy f vs := by
  induction vs with
  | nil => simp at h
  | cons x xs ih =>
    simp at h
    simp only [sumBy]
    rcases h with rfl | h
    · omega
    · have := ih h; omega

theorem sumBy_congr (f g : Volume → Nat) (vs : List Volume) (h : ∀ v ∈ vs, f v = g v) : sumBy f vs = sumBy g vs := by
  induction vs with
  | nil => rfl
  | cons x xs ih => simp only [sumBy]; rw [h x (by simp), ih (fun v hv => h v (by simp [hv]))]

theorem sumBy_append (f : Volume → Nat) (a b : List Volume) : sumBy f (a ++ b) = sumBy f a + sumBy f b := by
  induction a with
  | nil => simp [sumBy]
  | cons x xs ih => simp only [List.cons_append, sumBy, ih]; omega

theorem sumBy_map (f : Volume → Nat) (g : Volume → Volume) (vs : List Volume) : sumBy f (vs.map g) = sumBy (fun v => f (g v)) vs := by
  induction vs with
  | nil => rfl
  | cons x xs ih => simp only [List.map_cons, sumBy, ih]

theorem sumBy_add (f g : Volume → Nat) (vs : List Volume) : sumBy (fun v => f v + g v) vs = sumBy f vs + sumBy g vs := by
  induction vs with
  | nil => rfl
  | cons x xs ih => simp only [sumBy, ih]; omega

theorem sumBy_filter_id (f : Volume → Nat) (id : Nat) (vs : List Volume) (hn : (vs.map (·.id)).Nodup) (v : Volume)
    (hv : findVol id vs = some v) : sumBy f (vs.filter fun x => x.id != id) + f v = sumBy f vs := by
  induction vs with
  | nil => simp [findVol] at hv
  | cons x xs ih =>
    simp only [List.map_cons, List.nodup_cons] at hn
    simp only [findVol] at hv
    by_cases hx : x.id = id
    · simp only [hx, if_true] at hv
      simp at hv; subst hv
      have : xs.filter (fun y => y.id != id) = xs := by
        apply List.filter_eq_self.mpr
        intro y hy
        simp only [bne_iff_ne, ne_eq]
        intro e; apply hn.1
        simp only [List.mem_map]; exact ⟨y, hy, by rw [e, hx]⟩
      simp only [List.filter_cons, hx, bne_self_eq_false, Bool.false_eq_true, if_false, this, sumBy]
      omega
    · simp only [hx, if_false] at hv
      have h2 := ih hn.2 hv
      have : (x.id != id) = true := by simp [hx]
      simp only [List.filter_cons, this, if_true, sumBy]
      omega

/-! ### located / cnt -/

theorem located_false_iff (vs : List Volume) (r : SectorId) : located vs r = false ↔ cnt vs r = 0 := by
  induction vs with
  | nil => simp [located, cnt, sumBy]
  | cons x xs ih =>
    simp only [located, cnt, sumBy, List.any_cons, Bool.or_eq_false_iff] at ih ⊢
    rw [ih]
    constructor
    · intro ⟨h1, h2⟩
      have : x.slots.countP (holds r) = 0 := by
        rw [List.countP_eq_zero]; intro a ha
        have := List.any_eq_false.mp h1 a ha
        simpa using this
      omega
    · intro h
      have h1 : x.slots.countP (holds r) = 0 := by omega
      refine ⟨?_, by omega⟩
      rw [List.any_eq_false]; intro a ha
      have := (List.countP_eq_zero.mp h1) a ha
      simpa using this

theorem located_true_iff (vs : List Volume) (r : SectorId) : located vs r = true ↔ cnt vs r > 0 := by
  have := located_false_iff vs r
  cases h : located vs r <;> simp [h] at this ⊢ <;> omega

/-! ### more slot-table facts -/

theorem findVol_append_of_some {id : Nat} {a b : List Volume} {v : Volume} (h : findVol id a = some v) :
    findVol id (a ++ b) = some v := by
  induction a with
  | nil => simp [findVol] at h
  | cons x xs ih =>
    simp only [findVol, List.cons_append] at h ⊢
    split
    · simpa [*] using h
    · simp only [*, if_false] at h; exact ih h

theorem findVol_append_of_none {id : Nat} {a b : List Volume} (h : findVol id a = none) :
    findVol id (a ++ b) = findVol id b := by
  induction a with
  | nil => rfl
  | cons x xs ih =>
    simp only [findVol, List.cons_append] at h ⊢
    split
    · simp [*] at h
    · simp only [*, if_false] at h; exact ih h

theorem findVol_filter_ne {id v : Nat} (vs : List Volume) (h : id ≠ v) :
    findVol id (vs.filter fun x => x.id != v) = findVol id vs := by
  induction vs with
  | nil => rfl
  | cons x xs ih =>
    by_cases hx : x.id = v
    · have : (x.id != v) = false := by simp [hx]
      simp only [List.filter_cons, this, findVol]
      have : x.id ≠ id := by rw [hx]; exact fun e => h e.symm
      simp [this, ih]
    · have : (x.id != v) = true := by simp [hx]
      simp only [List.filter_cons, this, if_true, findVol, ih]

theorem sumBy_le_sumBy (f g : Volume → Nat) (vs : List Volume) (h : ∀ v ∈ vs, f v ≤ g v) : sumBy f vs ≤ sumBy g vs := by
  induction vs with
  | nil => simp [sumBy]
  | cons x xs ih =>
    simp only [sumBy]
    have := h x (by simp)
    have := ih (fun v hv => h v (by simp [hv]))
    omega

theorem sumBy_filter_le (f : Volume → Nat) (p : Volume → Bool) (vs : List Volume) : sumBy f (vs.filter p) ≤ sumBy f vs := by
  induction vs with
  | nil => simp [sumBy]
  | cons x xs ih =>
    simp only [List.filter_cons]
    split <;> simp only [sumBy] <;> omega

theorem sumBy_sub (f g : Volume → Nat) (vs : List Volume) (h : ∀ v ∈ vs, g v ≤ f v) :
    sumBy (fun v => f v - g v) vs = sumBy f vs - sumBy g vs ∧ sumBy g vs ≤ sumBy f vs := by
  induction vs with
  | nil => simp [sumBy]
  | cons x xs ih =>
    simp only [sumBy]
    have := h x (by simp)
    have := ih (fun v hv => h v (by simp [hv]))
    omega

/-- what the accounting invariant can see of a volume -/
def skel (v : Volume) : Nat × Nat × Nat × List (Option SectorId) := (v.id, v.total, v.used, v.slots.map (·.sec))

theorem occ_eq_of_secs {a b : List Slot} (h : a.map (·.sec) = b.map (·.sec)) : occ a = occ b := by
  induction a generalizing b with
  | nil => cases b <;> simp_all [occ]
  | cons x xs ih =>
    cases b with
    | nil => simp at h
    | cons y ys =>
      simp only [List.map_cons, List.cons.injEq] at h
      have := ih h.2
      have e : isOcc x = isOcc y := by simp [isOcc, h.1]
      simp only [occ, List.countP_cons] at this ⊢
      rw [this, e]

theorem countHolds_eq_of_secs (r : SectorId) {a b : List Slot} (h : a.map (·.sec) = b.map (·.sec)) :
    a.countP (holds r) = b.countP (holds r) := by
  induction a generalizing b with
  | nil => cases b <;> simp_all
  | cons x xs ih =>
    cases b with
    | nil => simp at h
    | cons y ys =>
      simp only [List.map_cons, List.cons.injEq] at h
      have := ih h.2
      have e : holds r x = holds r y := by simp [holds, h.1]
      simp only [List.countP_cons] at this ⊢
      rw [this, e]

theorem length_eq_of_secs {a b : List Slot} (h : a.map (·.sec) = b.map (·.sec)) : a.length = b.length := by
  have := congrArg List.length h
  simpa using this

theorem getElem?_sec_of_secs {a b : List Slot} (h : a.map (·.sec) = b.map (·.sec)) (i : Nat) :
    (a[i]?).map (·.sec) = (b[i]?).map (·.sec) := by
  have := congrArg (fun l => l[i]?) h
  simpa using this

theorem findVol_of_skel {vs vs' : List Volume} (h : vs'.map skel = vs.map skel) (id : Nat) :
    (findVol id vs').map skel = (findVol id vs).map skel := by
  induction vs generalizing vs' with
  | nil => cases vs' <;> simp_all [findVol]
  | cons x xs ih =>
    cases vs' with
    | nil => simp at h
    | cons y ys =>
      simp only [List.map_cons, List.cons.injEq] at h
      have hid : y.id = x.id := by have := congrArg (·.1) h.1; simpa [skel] using this
      simp only [findVol, hid]
      split
      · simp [h.1]
      · exact ih h.2

theorem sumBy_of_skel (f : Volume → Nat) (hf : ∀ a b : Volume, skel a = skel b → f a = f b)
    {vs vs' : List Volume} (h : vs'.map skel = vs.map skel) : sumBy f vs' = sumBy f vs := by
  induction vs generalizing vs' with
  | nil => cases vs' <;> simp_all [sumBy]
  | cons x xs ih =>
    cases vs' with
    | nil => simp at h
    | cons y ys =>
      simp only [List.map_cons, List.cons.injEq] at h
      simp only [sumBy, ih h.2, hf y x h.1]

theorem modAt_secs (i : Nat) (f : Slot → Slot) (hf : ∀ x, (f x).sec = x.sec) (l : List Slot) :
    (modAt i f l).map (·.sec) = l.map (·.sec) := by
  induction l generalizing i with
  | nil => simp [modAt]
  | cons x xs ih => cases i <;> simp [modAt, hf, ih]

theorem updVol_skel (id : Nat) (g : Volume → Volume) (hg : ∀ v, skel (g v) = skel v) (vs : List Volume) :
    (updVol id g vs).map skel = vs.map skel := by
  induction vs with
  | nil => rfl
  | cons x xs ih =>
    simp only [updVol, List.map_cons] at ih ⊢
    rw [ih]
    split <;> simp [hg]

end Hostd.Volumes
