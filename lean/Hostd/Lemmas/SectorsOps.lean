import Hostd.Lemmas.SectorsInv
/-!
What each manager operation of the `sectors` engine does under the world invariant: accepted = a closed-form
world, not accepted = the same world (used by Props/C03 and Props/C13).
-/
set_option linter.unusedSectionVars false
set_option linter.unusedSimpArgs false
namespace Hostd.Sectors
variable {H : Type} [DecidableEq H]

/-- without any assumption on `stored_sectors`: the diff writer either produces exactly the rows of the
new list or rejects (a changed root is not stored) -/
theorem v2Loop_cases (stored old : List Root) (pre new : List Root) :
    v2Loop stored old (mkRows 0 (pre ++ old.drop pre.length)) pre.length new =
      .ok (mkRows 0 (pre ++ new ++ old.drop (pre.length + new.length))) ∨
    v2Loop stored old (mkRows 0 (pre ++ old.drop pre.length)) pre.length new = .reject := by
  induction new generalizing pre with
  | nil => left; simp [v2Loop]
  | cons r rest ih =>
    have step := ih (pre ++ [r])
    simp only [List.length_append, List.length_cons, List.length_nil, Nat.zero_add] at step
    have e3 : pre ++ [r] ++ rest ++ List.drop (pre.length + 1 + rest.length) old =
        pre ++ r :: rest ++ List.drop (pre.length + (rest.length + 1)) old := by
      have : pre.length + 1 + rest.length = pre.length + (rest.length + 1) := by omega
      rw [this]; simp
    rw [e3] at step
    simp only [v2Loop, List.length_cons]
    by_cases hk : old[pre.length]? = some r
    · have hlt : pre.length < old.length := by
        rcases Nat.lt_or_ge pre.length old.length with h | h
        · exact h
        · simp [List.getElem?_eq_none h] at hk
      have e1 : pre ++ old.drop pre.length = (pre ++ [r]) ++ old.drop (pre.length + 1) := by
        rw [List.drop_eq_getElem_cons hlt]
        have : old[pre.length] = r := by
          have := List.getElem?_eq_getElem hlt
          rw [this] at hk; simpa using hk
        simp [this]
      simp only [hk, if_true]
      rw [e1]
      exact step
    · simp only [hk, if_false]
      by_cases hr : r ∈ stored
      · simp only [hr, not_true_eq_false, if_false]
        by_cases hlt : pre.length < old.length
        · have e1 : upsert (mkRows 0 (pre ++ old.drop pre.length)) pre.length r =
              mkRows 0 ((pre ++ [r]) ++ old.drop (pre.length + 1)) := by
            rw [upsert_mkRows_lt _ _ _ (by simp; omega)]
            congr 1
            have hd : old.drop pre.length = old[pre.length] :: old.drop (pre.length + 1) :=
              List.drop_eq_getElem_cons hlt
            rw [hd]
            simp only [List.set_append, Nat.lt_irrefl, if_false, Nat.sub_self, List.set_cons_zero,
              List.append_assoc, List.singleton_append]
          rw [e1]
          exact step
        · have hd : old.drop pre.length = [] := List.drop_eq_nil_of_le (by omega)
          have hd1 : old.drop (pre.length + 1) = [] := List.drop_eq_nil_of_le (by omega)
          have e1 : upsert (mkRows 0 (pre ++ old.drop pre.length)) pre.length r =
              mkRows 0 ((pre ++ [r]) ++ old.drop (pre.length + 1)) := by
            rw [hd, hd1, List.append_nil, List.append_nil, upsert_mkRows_eq]
          rw [e1]
          exact step
      · right; simp [hr]

theorem updateV2Sectors_cases (stored old new : List Root) :
    updateV2Sectors stored (mkRows 0 old) old new = .ok (mkRows 0 new) ∨
    updateV2Sectors stored (mkRows 0 old) old new = .reject := by
  have h := v2Loop_cases stored old [] new
  simp only [List.nil_append, List.length_nil, List.drop_zero, Nat.zero_add] at h
  rcases h with h | h
  · left
    simp only [updateV2Sectors, h]
    by_cases hl : new.length < old.length
    · simp only [hl, if_true]
      rw [filter_lt_mkRows]
    · simp only [hl, if_false]
      rw [List.drop_eq_nil_of_le (by omega), List.append_nil]
  · right
    simp only [updateV2Sectors, h]


/-! ### injected failures: either the transaction fails with the injected error or it runs as without it -/

theorem storeReviseV1_fault (db : DB H) (id : Nat) (rev : Rev H) (old : List Root) (acts : List Action) (j : Nat) :
    storeReviseV1 db id rev old acts (some j) = .injected ∨
    storeReviseV1 db id rev old acts (some j) = storeReviseV1 db id rev old acts none := by
  unfold storeReviseV1
  rcases runSteps_fault_cases (reviseFirst id rev old :: acts.map reviseAct) j 0
    (db, ({ rows := [], sectors := 0, roots := [] } : Replay)) with h | h
  · left; rw [h]
  · right; rw [h]

theorem storeReviseV2_fault (db : DB H) (id : Nat) (rev : Rev H) (old new : List Root) (j : Nat) :
    storeReviseV2 db id rev old new (some j) = .injected ∨
    storeReviseV2 db id rev old new (some j) = storeReviseV2 db id rev old new none := by
  unfold storeReviseV2
  exact runSteps_fault_cases _ j 0 db

theorem storeRenew_fault (db : DB H) (v2 : Bool) (o n : Nat) (nr : Rev H) (clr : Option (Rev H)) (j : Nat) :
    storeRenew db v2 o n nr clr (some j) = .injected ∨
    storeRenew db v2 o n nr clr (some j) = storeRenew db v2 o n nr clr none := by
  unfold storeRenew
  exact runSteps_fault_cases _ j 0 db

/-! ### the worlds an accepted operation produces -/

/-- after an accepted modification of contract `id`: revision `rev'`, rows of `l'`, cache entry `l'` -/
def committed (w : World H) (id : Nat) (rev' : Rev H) (l' : List Root) : World H :=
  { db := { w.db with contracts := mapC w.db.contracts id fun c => { c with rev := rev', rows := mkRows 0 l' } },
    cache := cacheSet w.cache id l' }

/-- after an accepted renewal of `o` (id `oldId`) into `newId` -/
def renewedWorld (w : World H) (v2 : Bool) (oldId newId : Nat) (o : Contract H) (newRev : Rev H) (clr : Option (Rev H)) :
    World H :=
  { db := { w.db with contracts := mapC w.db.contracts oldId (superseded newId clr) ++ [successor o v2 oldId newId newRev] },
    cache := cacheSet w.cache newId (cacheGet w.cache oldId) }

/-- v1 commit: either accepted with exactly the updater's result persisted and cached, or nothing changed -/
theorem rpcV1_spec (P : Params H) (w : World H) (g : Good P w) (id : Nat) (c : Contract H)
    (hc : findC w.db.contracts id = some c) (hv : c.v2 = false) (hl : c.renewedTo = none)
    (acts : List Action) (rn : Nat) (fault : Option Nat) :
    let l' := (record (cacheGet w.cache id) acts).2
    let rev' : Rev H := { c.rev with number := rn, filesize := P.sectorSize * l'.length, merkle := P.metaRoot l' }
    ((rpcV1 P w id acts rn fault).1 = committed w id rev' l' ∧ (rpcV1 P w id acts rn fault).2.1 = .ok ()) ∨
    ((rpcV1 P w id acts rn fault).1 = w ∧ (rpcV1 P w id acts rn fault).2.1 ≠ .ok ()) := by
  intro l' rev'
  have hcid : c.id = id := (findC_some hc).2
  have hrows : c.rows = mkRows 0 (cacheGet w.cache id) := by
    have := (g.live c (findC_some hc).1 hl).1
    rwa [hcid] at this
  have hrun := Updater.run_eq (Updater.new (cacheGet w.cache id)) acts
  -- the store call without an injected failure
  have hnone : storeReviseV1 w.db id rev' (cacheGet w.cache id) (record (cacheGet w.cache id) acts).1 none =
      if (record (cacheGet w.cache id) acts).1.all (·.storedOK w.db.stored)
      then .ok { w.db with contracts := mapC w.db.contracts id fun c => { c with rev := rev', rows := mkRows 0 l' } }
      else .reject := by
    rw [storeReviseV1_none w.db id rev' _ _ c hc hv, hrows]
    have := replayAll_record w.db.stored (cacheGet w.cache id) acts
    simp only [mirror] at this
    rw [this]
    by_cases hall : ((record (cacheGet w.cache id) acts).1.all fun x => Action.storedOK w.db.stored x) = true
    · rw [if_pos hall, if_pos hall]
    · rw [if_neg hall, if_neg hall]
  unfold rpcV1
  simp only [hc]
  rcases hr : (Updater.new (cacheGet w.cache id)).run acts with ⟨u, oks⟩
  rw [hr] at hrun
  simp only [Updater.new, List.nil_append] at hrun
  subst hrun
  simp only
  cases fault with
  | none =>
    rw [hnone]
    by_cases hall : ((record (cacheGet w.cache id) acts).1.all fun x => Action.storedOK w.db.stored x) = true
    · rw [if_pos hall]; left; simp [committed, l', rev']
    · rw [if_neg hall]; right; simp
  | some j =>
    rcases storeReviseV1_fault w.db id rev' (cacheGet w.cache id) (record (cacheGet w.cache id) acts).1 j with h | h
    · right; simp only [rev', l'] at h; rw [h]; simp
    · simp only [rev', l'] at h hnone
      rw [h, hnone]
      by_cases hall : ((record (cacheGet w.cache id) acts).1.all fun x => Action.storedOK w.db.stored x) = true
      · rw [if_pos hall]; left; simp [committed, l', rev']
      · rw [if_neg hall]; right; simp


theorem rpcV1_fail (P : Params H) (w : World H) (id : Nat) (acts : List Action) (rn : Nat) (fault : Option Nat)
    (h : (rpcV1 P w id acts rn fault).2.1 ≠ .ok ()) : (rpcV1 P w id acts rn fault).1 = w := by
  unfold rpcV1 at h ⊢
  simp only at h ⊢
  split <;> simp_all

theorem reviseV2_fail (P : Params H) (w : World H) (id : Nat) (r : V2Revision H) (nr : List Root) (fault : Option Nat)
    (h : (reviseV2 P w id r nr fault).2 ≠ .ok ()) : (reviseV2 P w id r nr fault).1 = w := by
  unfold reviseV2 at h ⊢
  repeat' split
  all_goals first
    | (simp_all; done)
    | (cases hst : storeReviseV2 w.db id r.rev (cacheGet w.cache id) nr fault <;> simp_all)

theorem reviseV2_ok (P : Params H) (w : World H) (g : Good P w) (id : Nat) (r : V2Revision H) (nr : List Root)
    (fault : Option Nat) (h : (reviseV2 P w id r nr fault).2 = .ok ()) :
    ∃ c, findC w.db.contracts id = some c ∧ c.v2 = true ∧ c.renewedTo = none ∧
      r.rev.filesize = P.sectorSize * nr.length ∧ r.rev.merkle = P.metaRoot nr ∧ r.rev.filesize ≤ r.rev.capacity ∧
      (reviseV2 P w id r nr fault).1 = committed w id r.rev nr := by
  unfold reviseV2 at h ⊢
  cases hc : findC w.db.contracts id with
  | none => simp [hc] at h
  | some c =>
    simp only [hc] at h ⊢
    by_cases hv : c.v2 = true
    · by_cases hl : c.renewedTo = none
      · have hcid : c.id = id := (findC_some hc).2
        have hrows : c.rows = mkRows 0 (cacheGet w.cache id) := by
          have := (g.live c (findC_some hc).1 hl).1
          rwa [hcid] at this
        simp only [hv, hl, Bool.not_true, Bool.false_eq_true, if_false, Option.isSome_none] at h ⊢
        by_cases h1 : r.sameKeys = true
        · by_cases h2 : r.rev.filesize = P.sectorSize * nr.length
          · by_cases h3 : r.rev.capacity < r.rev.filesize
            · have h3'' : r.rev.capacity < P.sectorSize * nr.length := by rw [← h2]; exact h3
              simp [h1, h2, h3''] at h
            · by_cases h4 : r.sigsOK = true
              · by_cases h5 : r.rev.merkle = P.metaRoot nr
                · refine ⟨c, rfl, hv, hl, h2, h5, by omega, ?_⟩
                  have hstore : storeReviseV2 w.db id r.rev (cacheGet w.cache id) nr none =
                      .ok { w.db with contracts := mapC w.db.contracts id fun c => { c with rev := r.rev, rows := mkRows 0 nr } } ∨
                    storeReviseV2 w.db id r.rev (cacheGet w.cache id) nr none = .reject := by
                    rw [storeReviseV2_none w.db id r.rev _ _ c hc hv, hrows]
                    rcases updateV2Sectors_cases w.db.stored (cacheGet w.cache id) nr with hh | hh
                    · left; rw [hh]
                    · right; rw [hh]
                  have h3' : ¬ r.rev.capacity < P.sectorSize * nr.length := by rw [← h2]; exact h3
                  simp only [h1, h2, h3', h4, h5, Bool.not_true, Bool.false_eq_true, if_false, ne_eq,
                    not_true_eq_false] at h ⊢
                  cases fault with
                  | none =>
                    rcases hstore with hs | hs
                    · rw [hs]; simp [committed]
                    · rw [hs] at h; simp at h
                  | some j =>
                    rcases storeReviseV2_fault w.db id r.rev (cacheGet w.cache id) nr j with hf | hf
                    · rw [hf] at h; simp at h
                    · rw [hf] at h ⊢
                      rcases hstore with hs | hs
                      · rw [hs]; simp [committed]
                      · rw [hs] at h; simp at h
                · have h3' : ¬ r.rev.capacity < P.sectorSize * nr.length := by rw [← h2]; exact h3
                  simp [h1, h2, h3', h4, h5] at h
              · have h3' : ¬ r.rev.capacity < P.sectorSize * nr.length := by rw [← h2]; exact h3
                simp [h1, h2, h3', h4] at h
          · simp [h1, h2] at h
        · simp [h1] at h
      · have : c.renewedTo.isSome = true := by
          cases hr : c.renewedTo with
          | none => exact absurd hr hl
          | some s => rfl
        simp [hv, this] at h
    · simp [hv] at h


/-! ### renewals -/

theorem storeRenew_exists (db : DB H) (v2 : Bool) (oldId newId : Nat) (newRev : Rev H) (clr : Option (Rev H))
    (x : Contract H) (hx : findC db.contracts newId = some x) :
    storeRenew db v2 oldId newId newRev clr none = .reject := by
  unfold storeRenew
  rw [runSteps_none_cons]
  simp [insertStep, hx]

theorem storeRenew_ok (db : DB H) (v2 : Bool) (oldId newId : Nat) (newRev : Rev H) (clr : Option (Rev H))
    (o : Contract H) (ho : findC db.contracts oldId = some o) (hv : o.v2 = v2) (fault : Option Nat) (d : DB H)
    (h : storeRenew db v2 oldId newId newRev clr fault = .ok d) :
    findC db.contracts newId = none ∧
    d = { db with contracts := mapC db.contracts oldId (superseded newId clr) ++ [successor o v2 oldId newId newRev] } := by
  have hnone : storeRenew db v2 oldId newId newRev clr none = .ok d := by
    cases fault with
    | none => exact h
    | some j =>
      rcases storeRenew_fault db v2 oldId newId newRev clr j with hf | hf
      · rw [hf] at h; cases h
      · rw [← hf]; exact h
  cases hn : findC db.contracts newId with
  | some x => rw [storeRenew_exists db v2 oldId newId newRev clr x hn] at hnone; cases hnone
  | none =>
    rw [storeRenew_none db v2 oldId newId newRev clr o ho hv hn] at hnone
    exact ⟨rfl, (Res.ok.inj hnone).symm⟩

theorem lockV1_live (P : Params H) (w : World H) (g : Good P w) (id : Nat) (h : lockV1 w P id = true) :
    ∃ c, findC w.db.contracts id = some c ∧ c.v2 = false ∧ c.renewedTo = none ∧ c.rev.number ≠ P.maxRev := by
  unfold lockV1 at h
  cases hc : findC w.db.contracts id with
  | none => simp [hc] at h
  | some c =>
    simp only [hc, Bool.and_eq_true, Bool.not_eq_eq_eq_not, Bool.not_true, bne_iff_ne, ne_eq] at h
    refine ⟨c, rfl, h.1, ?_, h.2⟩
    cases hr : c.renewedTo with
    | none => rfl
    | some s =>
      exfalso
      exact h.2 ((g.dead c (findC_some hc).1 s hr).2.1 h.1)

theorem renewV1_fail (P : Params H) (w : World H) (o n : Nat) (renewal clearing : Rev H) (fault : Option Nat)
    (h : (renewV1 P w o n renewal clearing fault).2 ≠ .ok ()) : (renewV1 P w o n renewal clearing fault).1 = w := by
  unfold renewV1 at h ⊢
  by_cases h1 : clearing.merkle = P.zeroH
  · by_cases h2 : clearing.filesize = 0
    · by_cases h3 : clearing.number = P.maxRev
      · by_cases h4 : renewal.filesize = P.sectorSize * (cacheGet w.cache o).length
        · by_cases h5 : renewal.merkle = P.metaRoot (cacheGet w.cache o)
          · simp only [h1, h2, h3, h4, h5, ne_eq, not_true_eq_false, if_false] at h ⊢
            cases hst : storeRenew w.db false o n renewal (some clearing) fault <;> simp_all
          · simp [h1, h2, h3, h4, h5]
        · simp [h1, h2, h3, h4]
      · simp [h1, h2, h3]
    · simp [h1, h2]
  · simp [h1]

theorem renewV1_ok (P : Params H) (w : World H) (o n : Nat) (renewal clearing : Rev H) (fault : Option Nat)
    (c : Contract H) (hc : findC w.db.contracts o = some c) (hv : c.v2 = false)
    (h : (renewV1 P w o n renewal clearing fault).2 = .ok ()) :
    findC w.db.contracts n = none ∧
    renewal.filesize = P.sectorSize * (cacheGet w.cache o).length ∧
    renewal.merkle = P.metaRoot (cacheGet w.cache o) ∧
    clearing.number = P.maxRev ∧ clearing.filesize = 0 ∧ clearing.merkle = P.zeroH ∧
    (renewV1 P w o n renewal clearing fault).1 = renewedWorld w false o n c renewal (some clearing) := by
  unfold renewV1 at h ⊢
  by_cases h1 : clearing.merkle = P.zeroH
  · by_cases h2 : clearing.filesize = 0
    · by_cases h3 : clearing.number = P.maxRev
      · by_cases h4 : renewal.filesize = P.sectorSize * (cacheGet w.cache o).length
        · by_cases h5 : renewal.merkle = P.metaRoot (cacheGet w.cache o)
          · simp only [h1, h2, h3, h4, h5, ne_eq, not_true_eq_false, if_false] at h ⊢
            cases hst : storeRenew w.db false o n renewal (some clearing) fault with
            | ok d =>
              obtain ⟨hn, hd⟩ := storeRenew_ok w.db false o n renewal (some clearing) c hc hv fault d hst
              subst hd
              exact ⟨hn, trivial, trivial, trivial, trivial, trivial, by simp [renewedWorld]⟩
            | reject => rw [hst] at h; simp at h
            | panic => rw [hst] at h; simp at h
            | injected => rw [hst] at h; simp at h
          · simp [h1, h2, h3, h4, h5] at h
        · simp [h1, h2, h3, h4] at h
      · simp [h1, h2, h3] at h
    · simp [h1, h2] at h
  · simp [h1] at h

theorem renewV2_fail (P : Params H) (w : World H) (o n : Nat) (fc : Rev H) (fault : Option Nat)
    (h : (renewV2 P w o n fc fault).2 ≠ .ok ()) : (renewV2 P w o n fc fault).1 = w := by
  unfold renewV2 at h ⊢
  cases hc : findC w.db.contracts o with
  | none => simp
  | some c =>
    simp only [hc] at h ⊢
    by_cases hv : c.v2 = true
    · by_cases h1 : fc.filesize = c.rev.filesize
      · by_cases h2 : fc.capacity = c.rev.capacity
        · by_cases h3 : fc.merkle = c.rev.merkle
          · by_cases h4 : fc.merkle = P.metaRoot (cacheGet w.cache o)
            · have h4' : c.rev.merkle = P.metaRoot (cacheGet w.cache o) := by rw [← h3]; exact h4
              simp only [hv, h1, h2, h3, h4', Bool.not_true, Bool.false_eq_true, ne_eq, not_true_eq_false, if_false] at h ⊢
              cases hst : storeRenew w.db true o n fc none fault <;> simp_all
            · have h4' : ¬ c.rev.merkle = P.metaRoot (cacheGet w.cache o) := by rw [← h3]; exact h4
              simp [hv, h1, h2, h3, h4']
          · simp [hv, h1, h2, h3]
        · simp [hv, h1, h2]
      · simp [hv, h1]
    · simp [hv]

theorem renewV2_ok (P : Params H) (w : World H) (o n : Nat) (fc : Rev H) (fault : Option Nat)
    (h : (renewV2 P w o n fc fault).2 = .ok ()) :
    ∃ c, findC w.db.contracts o = some c ∧ c.v2 = true ∧ findC w.db.contracts n = none ∧
      fc.filesize = c.rev.filesize ∧ fc.capacity = c.rev.capacity ∧ fc.merkle = c.rev.merkle ∧
      fc.merkle = P.metaRoot (cacheGet w.cache o) ∧
      (renewV2 P w o n fc fault).1 = renewedWorld w true o n c fc none := by
  unfold renewV2 at h ⊢
  cases hc : findC w.db.contracts o with
  | none => simp [hc] at h
  | some c =>
    simp only [hc] at h ⊢
    by_cases hv : c.v2 = true
    · by_cases h1 : fc.filesize = c.rev.filesize
      · by_cases h2 : fc.capacity = c.rev.capacity
        · by_cases h3 : fc.merkle = c.rev.merkle
          · by_cases h4 : fc.merkle = P.metaRoot (cacheGet w.cache o)
            · have h4' : c.rev.merkle = P.metaRoot (cacheGet w.cache o) := by rw [← h3]; exact h4
              simp only [hv, h1, h2, h3, h4', Bool.not_true, Bool.false_eq_true, ne_eq, not_true_eq_false, if_false] at h ⊢
              cases hst : storeRenew w.db true o n fc none fault with
              | ok d =>
                obtain ⟨hn, hd⟩ := storeRenew_ok w.db true o n fc none c hc hv fault d hst
                subst hd
                refine ⟨c, rfl, hv, hn, ?_, ?_, ?_, ?_, ?_⟩ <;> first | rfl | trivial | exact h4'.symm | simp [renewedWorld]
              | reject => rw [hst] at h; simp at h
              | panic => rw [hst] at h; simp at h
              | injected => rw [hst] at h; simp at h
            · have h4' : ¬ c.rev.merkle = P.metaRoot (cacheGet w.cache o) := by rw [← h3]; exact h4
              simp [hv, h1, h2, h3, h4'] at h
          · simp [hv, h1, h2, h3] at h
        · simp [hv, h1, h2] at h
      · simp [hv, h1] at h
    · simp [hv] at h

/-! ### formation -/

theorem form_fail (w : World H) (id : Nat) (v2 : Bool) (rev : Rev H) (fault : Option Nat)
    (h : (form w id v2 rev fault).2 ≠ .ok ()) : (form w id v2 rev fault).1 = w := by
  unfold form at h ⊢
  split <;> simp_all

theorem form_ok (w : World H) (id : Nat) (v2 : Bool) (rev : Rev H) (fault : Option Nat)
    (h : (form w id v2 rev fault).2 = .ok ()) :
    findC w.db.contracts id = none ∧
    (form w id v2 rev fault).1 = { w with db := { w.db with contracts := w.db.contracts ++
      [{ id, v2, rev, rows := [], renewedTo := none, renewedFrom := none }] } } := by
  have hcases : runSteps [insertStep id v2 rev] fault 0 w.db = .injected ∨
      runSteps [insertStep id v2 rev] fault 0 w.db = runSteps [insertStep id v2 rev] none 0 w.db := by
    cases fault with
    | none => right; rfl
    | some j => exact runSteps_fault_cases _ j 0 w.db
  unfold form at h ⊢
  rcases hcases with hf | hf
  · rw [hf] at h; simp at h
  · rw [hf] at h ⊢
    rw [runSteps_none_cons] at h ⊢
    cases hc : findC w.db.contracts id with
    | some x => simp [insertStep, hc] at h
    | none => simp [insertStep, hc, runSteps_none_nil]


/-! ### every operation preserves the invariant -/

/-- formations start empty (the RPC layer validates this, C12) -/
def OpOK (P : Params H) : Op H → Prop
  | .form _ _ rev _ => rev.filesize = 0 ∧ rev.merkle = P.metaRoot []
  | _ => True

theorem Good_committed (P : Params H) (w : World H) (g : Good P w) (id : Nat) (c : Contract H)
    (hc : findC w.db.contracts id = some c) (hl : c.renewedTo = none) (rev' : Rev H) (l' : List Root)
    (hfs : rev'.filesize = P.sectorSize * l'.length) (hmk : rev'.merkle = P.metaRoot l') :
    Good P (committed w id rev' l') := Good_update P w g id c hc hl rev' l' hfs hmk

theorem Good_renewedWorld (P : Params H) (w : World H) (g : Good P w) (v2 : Bool) (oldId newId : Nat) (o : Contract H)
    (ho : findC w.db.contracts oldId = some o) (hl : o.renewedTo = none) (hv : o.v2 = v2)
    (hn : findC w.db.contracts newId = none) (newRev : Rev H) (clr : Option (Rev H))
    (hfs : newRev.filesize = P.sectorSize * (cacheGet w.cache oldId).length)
    (hmk : newRev.merkle = P.metaRoot (cacheGet w.cache oldId))
    (hclr : v2 = false → ∀ c : Contract H, (clearedRev clr c).number = P.maxRev) :
    Good P (renewedWorld w v2 oldId newId o newRev clr) :=
  Good_renew P w g v2 oldId newId o ho hl hv hn newRev clr hfs hmk hclr

/-- in a good world a v2 contract that passed `renewV2` with the derived successor id was live -/
theorem renew2_live (P : Params H) (w : World H) (g : Good P w) (old new : Nat) (c : Contract H)
    (hc : findC w.db.contracts old = some c)
    (hn : findC w.db.contracts (v2SuccessorId w old new) = none) : c.renewedTo = none := by
  cases hr : c.renewedTo with
  | none => rfl
  | some s =>
    exfalso
    obtain ⟨_, _, c', hc', _, _⟩ := g.dead c (findC_some hc).1 s hr
    have : v2SuccessorId w old new = s := by simp [v2SuccessorId, hc, hr]
    rw [this, hc'] at hn
    cases hn

theorem step_good (P : Params H) (w : World H) (g : Good P w) (op : Op H) (hop : OpOK P op) :
    Good P (stepOp P w op).1 := by
  cases op with
  | store r => exact Good_store P w g r
  | restart => exact Good_restart P w g
  | form id v2 rev fault =>
    simp only [stepOp]
    by_cases h : (form w id v2 rev fault).2 = .ok ()
    · obtain ⟨hn, hw⟩ := form_ok w id v2 rev fault h
      rw [hw]
      exact Good_form P w g id v2 rev hn hop.1 hop.2
    · rw [form_fail w id v2 rev fault h]; exact g
  | rpc1 id acts rn abort fault =>
    simp only [stepOp]
    by_cases hlk : lockV1 w P id = true
    · obtain ⟨c, hc, hv, hl, _⟩ := lockV1_live P w g id hlk
      simp only [hlk, Bool.not_true, Bool.false_eq_true, if_false]
      split
      · exact g
      · rcases rpcV1_spec P w g id c hc hv hl acts rn fault with ⟨hw, _⟩ | ⟨hw, _⟩
        · show Good P (rpcV1 P w id acts rn fault).1
          rw [hw]
          exact Good_committed P w g id c hc hl _ _ rfl rfl
        · show Good P (rpcV1 P w id acts rn fault).1
          rw [hw]; exact g
    · simp [hlk]; exact g
  | rev2 id r nr fault =>
    simp only [stepOp]
    by_cases h : (reviseV2 P w id r nr fault).2 = .ok ()
    · obtain ⟨c, hc, _, hl, hfs, hmk, _, hw⟩ := reviseV2_ok P w g id r nr fault h
      rw [hw]
      exact Good_committed P w g id c hc hl _ _ hfs hmk
    · rw [reviseV2_fail P w id r nr fault h]; exact g
  | renew1 old new renewal clearing fault =>
    simp only [stepOp]
    by_cases hlk : lockV1 w P old = true
    · obtain ⟨c, hc, hv, hl, _⟩ := lockV1_live P w g old hlk
      simp only [hlk, Bool.not_true, Bool.false_eq_true, if_false]
      by_cases h : (renewV1 P w old new renewal clearing fault).2 = .ok ()
      · obtain ⟨hn, hfs, hmk, hnum, _, _, hw⟩ := renewV1_ok P w old new renewal clearing fault c hc hv h
        show Good P (renewV1 P w old new renewal clearing fault).1
        rw [hw]
        exact Good_renewedWorld P w g false old new c hc hl hv hn renewal (some clearing) hfs hmk
          (fun _ _ => by simp [clearedRev, hnum])
      · show Good P (renewV1 P w old new renewal clearing fault).1
        rw [renewV1_fail P w old new renewal clearing fault h]; exact g
    · simp [hlk]; exact g
  | renew2 old new fc force fault =>
    simp only [stepOp]
    cases hlock : lockV2 w old true with
    | none => exact g
    | some t =>
      obtain ⟨renewed, revisable, roots⟩ := t
      simp only
      split
      · exact g
      · by_cases h : (renewV2 P w old (v2SuccessorId w old new) fc fault).2 = .ok ()
        · obtain ⟨c, hc, hv, hn, hfs, _, _, hmk, hw⟩ := renewV2_ok P w old (v2SuccessorId w old new) fc fault h
          have hl := renew2_live P w g old new c hc hn
          show Good P (renewV2 P w old (v2SuccessorId w old new) fc fault).1
          rw [hw]
          have hlive := g.live c (findC_some hc).1 hl
          rw [(findC_some hc).2] at hlive
          refine Good_renewedWorld P w g true old _ c hc hl hv hn fc none ?_ hmk (fun h => by cases h)
          rw [hfs]; exact hlive.2.1
        · show Good P (renewV2 P w old (v2SuccessorId w old new) fc fault).1
          rw [renewV2_fail P w old _ fc fault h]; exact g

theorem run_good (P : Params H) (w : World H) (g : Good P w) (ops : List (Op H)) (hops : ∀ op ∈ ops, OpOK P op) :
    Good P (run P w ops) := by
  induction ops generalizing w with
  | nil => exact g
  | cons op rest ih =>
    simp only [run, List.foldl_cons]
    exact ih _ (step_good P w g op (hops op List.mem_cons_self)) (fun o ho => hops o (List.mem_cons_of_mem _ ho))



/-! ### the complete case list of what an operation does -/

/-- What one operation did to a good world: the complete case list. The Bool is `Out.accepted`. -/
inductive Effect (P : Params H) (w : World H) : Op H → World H → Bool → Prop where
  | unchanged (op : Op H) : Effect P w op w false
  | stored (r : Root) : Effect P w (.store r) (storeSector w r) true
  | restarted : Effect P w .restart (restart w) true
  | formed (id : Nat) (v2 : Bool) (rev : Rev H) (fault : Option Nat)
      (hn : findC w.db.contracts id = none) (hfs : rev.filesize = 0) (hmk : rev.merkle = P.metaRoot []) :
      Effect P w (.form id v2 rev fault)
        { w with db := { w.db with contracts := w.db.contracts ++
          [{ id, v2, rev, rows := [], renewedTo := none, renewedFrom := none }] } } true
  | commit1 (id : Nat) (acts : List Action) (rn : Nat) (abort : Bool) (fault : Option Nat) (c : Contract H)
      (hc : findC w.db.contracts id = some c) (hv : c.v2 = false) (hl : c.renewedTo = none)
      (hnum : c.rev.number ≠ P.maxRev) :
      Effect P w (.rpc1 id acts rn abort fault)
        (committed w id { c.rev with number := rn,
                                     filesize := P.sectorSize * (record (cacheGet w.cache id) acts).2.length,
                                     merkle := P.metaRoot (record (cacheGet w.cache id) acts).2 }
          (record (cacheGet w.cache id) acts).2) true
  | commit2 (id : Nat) (r : V2Revision H) (nr : List Root) (fault : Option Nat) (c : Contract H)
      (hc : findC w.db.contracts id = some c) (hv : c.v2 = true) (hl : c.renewedTo = none)
      (hfs : r.rev.filesize = P.sectorSize * nr.length) (hmk : r.rev.merkle = P.metaRoot nr)
      (hcap : r.rev.filesize ≤ r.rev.capacity) :
      Effect P w (.rev2 id r nr fault) (committed w id r.rev nr) true
  | renewed1 (old new : Nat) (renewal clearing : Rev H) (fault : Option Nat) (c : Contract H)
      (hc : findC w.db.contracts old = some c) (hv : c.v2 = false) (hl : c.renewedTo = none)
      (hn : findC w.db.contracts new = none)
      (hfs : renewal.filesize = P.sectorSize * (cacheGet w.cache old).length)
      (hmk : renewal.merkle = P.metaRoot (cacheGet w.cache old))
      (hnum : clearing.number = P.maxRev) :
      Effect P w (.renew1 old new renewal clearing fault) (renewedWorld w false old new c renewal (some clearing)) true
  | renewed2 (old new : Nat) (fc : Rev H) (force : Bool) (fault : Option Nat) (c : Contract H)
      (hc : findC w.db.contracts old = some c) (hv : c.v2 = true) (hl : c.renewedTo = none)
      (hn : findC w.db.contracts new = none)
      (hfs : fc.filesize = P.sectorSize * (cacheGet w.cache old).length)
      (hmk : fc.merkle = P.metaRoot (cacheGet w.cache old))
      (hcap : fc.capacity = c.rev.capacity) :
      Effect P w (.renew2 old new fc force fault) (renewedWorld w true old new c fc none) true

theorem step_effect (P : Params H) (w : World H) (g : Good P w) (op : Op H) (hop : OpOK P op) :
    Effect P w op (stepOp P w op).1 (stepOp P w op).2.1.accepted := by
  cases op with
  | store r => exact Effect.stored r
  | restart => exact Effect.restarted
  | form id v2 rev fault =>
    simp only [stepOp]
    by_cases h : (form w id v2 rev fault).2 = .ok ()
    · obtain ⟨hn, hw⟩ := form_ok w id v2 rev fault h
      rw [hw, h]
      exact Effect.formed id v2 rev fault hn hop.1 hop.2
    · rw [form_fail w id v2 rev fault h]
      have : (Out.done (form w id v2 rev fault).2).accepted = false := by
        cases hr : (form w id v2 rev fault).2 with
        | ok u => exact absurd hr h
        | reject => rfl
        | panic => rfl
        | injected => rfl
      rw [this]
      exact Effect.unchanged _
  | rpc1 id acts rn abort fault =>
    simp only [stepOp]
    by_cases hlk : lockV1 w P id = true
    · obtain ⟨c, hc, hv, hl, hnum⟩ := lockV1_live P w g id hlk
      simp only [hlk, Bool.not_true, Bool.false_eq_true, if_false]
      split
      · exact Effect.unchanged _
      · rcases rpcV1_spec P w g id c hc hv hl acts rn fault with ⟨hw, hr⟩ | ⟨hw, hr⟩
        · show Effect P w _ (rpcV1 P w id acts rn fault).1 (Out.done (rpcV1 P w id acts rn fault).2.1).accepted
          rw [hw, hr]
          exact Effect.commit1 id acts rn abort fault c hc hv hl hnum
        · show Effect P w _ (rpcV1 P w id acts rn fault).1 (Out.done (rpcV1 P w id acts rn fault).2.1).accepted
          rw [hw]
          have : (Out.done (rpcV1 P w id acts rn fault).2.1).accepted = false := by
            cases hr2 : (rpcV1 P w id acts rn fault).2.1 with
            | ok u => exact absurd hr2 hr
            | reject => rfl
            | panic => rfl
            | injected => rfl
          rw [this]
          exact Effect.unchanged _
    · simp [hlk]; exact Effect.unchanged _
  | rev2 id r nr fault =>
    simp only [stepOp]
    by_cases h : (reviseV2 P w id r nr fault).2 = .ok ()
    · obtain ⟨c, hc, hv, hl, hfs, hmk, hcap, hw⟩ := reviseV2_ok P w g id r nr fault h
      rw [hw, h]
      exact Effect.commit2 id r nr fault c hc hv hl hfs hmk hcap
    · rw [reviseV2_fail P w id r nr fault h]
      have : (Out.done (reviseV2 P w id r nr fault).2).accepted = false := by
        cases hr : (reviseV2 P w id r nr fault).2 with
        | ok u => exact absurd hr h
        | reject => rfl
        | panic => rfl
        | injected => rfl
      rw [this]
      exact Effect.unchanged _
  | renew1 old new renewal clearing fault =>
    simp only [stepOp]
    by_cases hlk : lockV1 w P old = true
    · obtain ⟨c, hc, hv, hl, _⟩ := lockV1_live P w g old hlk
      simp only [hlk, Bool.not_true, Bool.false_eq_true, if_false]
      by_cases h : (renewV1 P w old new renewal clearing fault).2 = .ok ()
      · obtain ⟨hn, hfs, hmk, hnum, _, _, hw⟩ := renewV1_ok P w old new renewal clearing fault c hc hv h
        show Effect P w _ (renewV1 P w old new renewal clearing fault).1 (Out.done (renewV1 P w old new renewal clearing fault).2).accepted
        rw [hw, h]
        exact Effect.renewed1 old new renewal clearing fault c hc hv hl hn hfs hmk hnum
      · show Effect P w _ (renewV1 P w old new renewal clearing fault).1 (Out.done (renewV1 P w old new renewal clearing fault).2).accepted
        rw [renewV1_fail P w old new renewal clearing fault h]
        have : (Out.done (renewV1 P w old new renewal clearing fault).2).accepted = false := by
          cases hr : (renewV1 P w old new renewal clearing fault).2 with
          | ok u => exact absurd hr h
          | reject => rfl
          | panic => rfl
          | injected => rfl
        rw [this]
        exact Effect.unchanged _
    · simp [hlk]; exact Effect.unchanged _
  | renew2 old new fc force fault =>
    simp only [stepOp]
    cases hlock : lockV2 w old true with
    | none => exact Effect.unchanged _
    | some t =>
      obtain ⟨renewed, revisable, roots⟩ := t
      simp only
      split
      · exact Effect.unchanged _
      · by_cases h : (renewV2 P w old (v2SuccessorId w old new) fc fault).2 = .ok ()
        · obtain ⟨c, hc, hv, hn, hfs, hcap, _, hmk, hw⟩ := renewV2_ok P w old (v2SuccessorId w old new) fc fault h
          have hl := renew2_live P w g old new c hc hn
          have hsucc : v2SuccessorId w old new = new := by simp [v2SuccessorId, hc, hl]
          rw [hsucc] at hw h hn
          show Effect P w _ (renewV2 P w old (v2SuccessorId w old new) fc fault).1
            (Out.done (renewV2 P w old (v2SuccessorId w old new) fc fault).2).accepted
          rw [hsucc, hw, h]
          have hlive := g.live c (findC_some hc).1 hl
          rw [(findC_some hc).2] at hlive
          exact Effect.renewed2 old new fc force fault c hc hv hl hn (by rw [hfs]; exact hlive.2.1) hmk hcap
        · show Effect P w _ (renewV2 P w old (v2SuccessorId w old new) fc fault).1
            (Out.done (renewV2 P w old (v2SuccessorId w old new) fc fault).2).accepted
          rw [renewV2_fail P w old _ fc fault h]
          have : (Out.done (renewV2 P w old (v2SuccessorId w old new) fc fault).2).accepted = false := by
            cases hr : (renewV2 P w old (v2SuccessorId w old new) fc fault).2 with
            | ok u => exact absurd hr h
            | reject => rfl
            | panic => rfl
            | injected => rfl
          rw [this]
          exact Effect.unchanged _



/-! ### consequences of the case list -/

/-- an operation that is not accepted leaves the world as it was -/
theorem step_unchanged (P : Params H) (w : World H) (g : Good P w) (op : Op H) (hop : OpOK P op)
    (h : (stepOp P w op).2.1.accepted = false) : (stepOp P w op).1 = w := by
  have e := step_effect P w g op hop
  generalize (stepOp P w op).1 = w' at e ⊢
  generalize (stepOp P w op).2.1.accepted = a at e h
  cases e <;> first | rfl | cases h

theorem findC_committed (w : World H) (id : Nat) (c : Contract H) (hc : findC w.db.contracts id = some c)
    (rev' : Rev H) (l' : List Root) :
    findC (committed w id rev' l').db.contracts id = some { c with rev := rev', rows := mkRows 0 l' } := by
  simp only [committed]
  rw [findC_mapC _ _ _ _ (by intro c; rfl), hc]
  simp [(findC_some hc).2]

theorem findC_renewed_new (w : World H) (v2 : Bool) (old new : Nat) (o : Contract H) (nr : Rev H) (clr : Option (Rev H))
    (hn : findC w.db.contracts new = none) :
    findC (renewedWorld w v2 old new o nr clr).db.contracts new = some (successor o v2 old new nr) := by
  simp only [renewedWorld]
  rw [findC_append, findC_mapC _ _ _ _ (superseded_id new clr), hn]
  simp [findC_cons, successor]

theorem findC_renewed_old (w : World H) (v2 : Bool) (old new : Nat) (o : Contract H) (nr : Rev H) (clr : Option (Rev H))
    (ho : findC w.db.contracts old = some o) :
    findC (renewedWorld w v2 old new o nr clr).db.contracts old = some (superseded new clr o) := by
  simp only [renewedWorld]
  rw [findC_append, findC_mapC _ _ _ _ (superseded_id new clr), ho]
  simp [(findC_some ho).2]

theorem findC_renewed_other (w : World H) (v2 : Bool) (old new : Nat) (o : Contract H) (nr : Rev H) (clr : Option (Rev H))
    (j : Nat) (h1 : j ≠ old) (h2 : j ≠ new) :
    findC (renewedWorld w v2 old new o nr clr).db.contracts j = findC w.db.contracts j := by
  simp only [renewedWorld]
  rw [findC_append, findC_mapC _ _ _ _ (superseded_id new clr)]
  cases hj : findC w.db.contracts j with
  | none =>
    have : ¬ new = j := fun h => h2 h.symm
    simp [findC_cons, findC_nil, successor, this]
  | some c =>
    have : c.id ≠ old := by rw [(findC_some hj).2]; exact h1
    simp [this]

/-! ### acceptance: valid requests on usable contracts go through -/

/-- "the store does not reject": a v1 batch on a usable contract whose appended / updated roots are stored,
with no injected failure, is accepted -/
theorem rpc1_accepted_of_stored (P : Params H) (w : World H) (g : Good P w) (id : Nat) (acts : List Action) (rn : Nat)
    (hlk : lockV1 w P id = true)
    (hs : ∀ a ∈ (record (cacheGet w.cache id) acts).1, a.storedOK w.db.stored = true) :
    (stepOp P w (.rpc1 id acts rn false none)).2.1.accepted = true := by
  obtain ⟨c, hc, hv, hl, _⟩ := lockV1_live P w g id hlk
  have hcid : c.id = id := (findC_some hc).2
  have hrows : c.rows = mkRows 0 (cacheGet w.cache id) := by
    have := (g.live c (findC_some hc).1 hl).1
    rwa [hcid] at this
  have hrun := Updater.run_eq (Updater.new (cacheGet w.cache id)) acts
  simp only [stepOp, hlk, Bool.not_true, Bool.false_eq_true, if_false, Bool.false_and]
  unfold rpcV1
  simp only [hc]
  rcases hr : (Updater.new (cacheGet w.cache id)).run acts with ⟨u, oks⟩
  rw [hr] at hrun
  simp only [Updater.new, List.nil_append] at hrun
  subst hrun
  simp only
  rw [storeReviseV1_none w.db id _ _ _ c hc hv, hrows]
  have := replayAll_record w.db.stored (cacheGet w.cache id) acts
  simp only [mirror] at this
  rw [this, if_pos (by simpa using hs)]
  rfl

/-- a valid `ReviseV2Contract` on a live v2 contract whose new roots are stored is accepted -/
theorem rev2_accepted_of_valid (P : Params H) (w : World H) (g : Good P w) (id : Nat) (c : Contract H)
    (hc : findC w.db.contracts id = some c) (hv : c.v2 = true) (hl : c.renewedTo = none)
    (r : V2Revision H) (nr : List Root)
    (hk : r.sameKeys = true) (hsig : r.sigsOK = true)
    (hfs : r.rev.filesize = P.sectorSize * nr.length) (hcap : r.rev.filesize ≤ r.rev.capacity)
    (hmk : r.rev.merkle = P.metaRoot nr) (hs : ∀ x ∈ nr, x ∈ w.db.stored) :
    (stepOp P w (.rev2 id r nr none)).2.1.accepted = true := by
  have hcid : c.id = id := (findC_some hc).2
  have hrows : c.rows = mkRows 0 (cacheGet w.cache id) := by
    have := (g.live c (findC_some hc).1 hl).1
    rwa [hcid] at this
  have hcap' : ¬ r.rev.capacity < P.sectorSize * nr.length := by rw [← hfs]; omega
  simp only [stepOp]
  unfold reviseV2
  simp only [hc, hv, hl, hk, hsig, hfs, hmk, hcap', Bool.not_true, Bool.false_eq_true, if_false, Option.isSome_none,
    ne_eq, not_true_eq_false]
  rw [storeReviseV2_none w.db id r.rev _ _ c hc hv, hrows, updateV2Sectors_spec _ _ _ hs]
  rfl

/-- a well-formed v1 renewal of a usable contract into a fresh id is accepted -/
theorem renew1_accepted (P : Params H) (w : World H) (g : Good P w) (old new : Nat) (renewal clearing : Rev H)
    (hlk : lockV1 w P old = true) (hn : findC w.db.contracts new = none)
    (h1 : clearing.merkle = P.zeroH) (h2 : clearing.filesize = 0) (h3 : clearing.number = P.maxRev)
    (h4 : renewal.filesize = P.sectorSize * (cacheGet w.cache old).length)
    (h5 : renewal.merkle = P.metaRoot (cacheGet w.cache old)) :
    (stepOp P w (.renew1 old new renewal clearing none)).2.1.accepted = true := by
  obtain ⟨c, hc, hv, hl, _⟩ := lockV1_live P w g old hlk
  simp only [stepOp, hlk, Bool.not_true, Bool.false_eq_true, if_false]
  unfold renewV1
  simp only [h1, h2, h3, h4, h5, ne_eq, not_true_eq_false, if_false]
  rw [storeRenew_none w.db false old new renewal (some clearing) c hc hv hn]
  rfl

/-- a well-formed v2 renewal of a live contract into a fresh id is accepted -/
theorem renew2_accepted (P : Params H) (w : World H) (g : Good P w) (old new : Nat) (fc : Rev H) (force : Bool)
    (c : Contract H) (hc : findC w.db.contracts old = some c) (hv : c.v2 = true) (hl : c.renewedTo = none)
    (hn : findC w.db.contracts new = none)
    (h1 : fc.filesize = c.rev.filesize) (h2 : fc.capacity = c.rev.capacity) (h3 : fc.merkle = c.rev.merkle) :
    (stepOp P w (.renew2 old new fc force none)).2.1.accepted = true := by
  have hlive := g.live c (findC_some hc).1 hl
  rw [(findC_some hc).2] at hlive
  have hsucc : v2SuccessorId w old new = new := by simp [v2SuccessorId, hc, hl]
  have h4 : c.rev.merkle = P.metaRoot (cacheGet w.cache old) := hlive.2.2
  simp only [stepOp, lockV2, hc, hv, hl, hsucc, Bool.not_true, Bool.false_eq_true, if_false, Option.isSome_none,
    Bool.not_false, Bool.and_self, Bool.or_self, Bool.false_and]
  unfold renewV2
  simp only [hc, hv, h1, h2, h3, h4, Bool.not_true, Bool.false_eq_true, if_false, ne_eq, not_true_eq_false]
  rw [storeRenew_none w.db true old new fc none c hc hv hn]
  rfl

/-! ### reference counts -/

/-- rows of one contract that reference `r` -/
def cnt (r : Root) (c : Contract H) : Nat := (c.rows.filter fun p => p.2 == r).length

theorem refs_eq (db : DB H) (r : Root) : refs db r = (db.contracts.map (cnt r)).sum := rfl

theorem sum_mapC_superseded (cs : List (Contract H)) (hn : (cs.map (·.id)).Nodup) (old new : Nat) (clr : Option (Rev H))
    (o : Contract H) (ho : findC cs old = some o) (r : Root) :
    ((mapC cs old (superseded new clr)).map (cnt r)).sum + cnt r o = (cs.map (cnt r)).sum := by
  induction cs with
  | nil => simp [findC] at ho
  | cons d cs ih =>
    simp only [List.map_cons, List.nodup_cons] at hn
    rw [findC_cons] at ho
    by_cases hd : d.id = old
    · simp only [hd, if_true, Option.some.injEq] at ho
      subst ho
      have hrest : findC cs old = none := by
        apply findC_none_of
        intro c hc e
        apply hn.1
        rw [hd, ← e]
        exact List.mem_map.mpr ⟨c, hc, rfl⟩
      simp only [mapC, List.map_cons, hd, if_true]
      have := mapC_of_none cs old (superseded new clr) hrest
      simp only [mapC] at this
      rw [this]
      simp [cnt, superseded]
      omega
    · simp only [hd, if_false] at ho
      have := ih hn.2 ho
      simp only [mapC, List.map_cons, hd, if_false, List.sum_cons] at this ⊢
      omega

/-- a renewal moves rows, it neither drops nor duplicates a reference -/
theorem refs_renewedWorld (P : Params H) (w : World H) (g : Good P w) (v2 : Bool) (old new : Nat) (o : Contract H)
    (ho : findC w.db.contracts old = some o) (nr : Rev H) (clr : Option (Rev H)) (r : Root) :
    refs (renewedWorld w v2 old new o nr clr).db r = refs w.db r := by
  rw [refs_eq, refs_eq]
  simp only [renewedWorld, List.map_append, List.sum_append, List.map_cons, List.map_nil, List.sum_cons, List.sum_nil]
  have := sum_mapC_superseded w.db.contracts g.nodup old new clr o ho r
  have e : cnt r (successor o v2 old new nr) = cnt r o := rfl
  rw [e]
  omega


end Hostd.Sectors
