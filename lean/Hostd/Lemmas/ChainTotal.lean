import Hostd.Props.C05
import Hostd.Lemmas.ChainProj
/-!
Totality of the store model's chain update ("processing a well-formed update never returns an
error or panics", C01): a stage of Apply/RevertContracts fails only when a contract it names is not
stored, when the per-contract transition of some stored contract fails, or when a metric would go
negative — and the last cannot happen while the metrics equal the recomputation (C05's `MInv`).

`StageSpec f g need`: the stage `f` acts on every stored contract as the per-contract function `g`,
preserves keys and `MInv`, and succeeds whenever the contracts `need` are stored and `g` succeeds on
every stored contract.  Specs compose along `>>=` (`StageSpec.bind`), which turns the nine stages of
`applyContracts`/`revertContracts` into one spec whose per-contract function is `evsApply`/`evsRevert`
of the contract's event list.
-/
namespace Hostd.Chain

structure StageSpec (f : State → Except Fault State) (g : Ver → Nat → Contract → Except Fault Contract)
    (need : List (Ver × Nat)) : Prop where
  total : ∀ s, KeysNodup s.cs → MInv s → (∀ k ∈ need, (findC k.1 k.2 s.cs).isSome = true) →
    (∀ v i c, findC v i s.cs = some c → ∃ c', g v i c = .ok c') → ∃ s', f s = .ok s'
  lookup : ∀ s s', f s = .ok s' → ∀ v i, findC v i s'.cs = optApply (g v i) (findC v i s.cs)
  keeps : Keeps f
  pres : Pres f

theorem isSome_of_keys {s s1 : State} (hkeys : s1.cs.map keyOf = s.cs.map keyOf) (v : Ver) (i : Nat) :
    (findC v i s1.cs).isSome = (findC v i s.cs).isSome := by
  have h1 := findC_isSome_iff v i s1.cs
  have h2 := findC_isSome_iff v i s.cs
  rw [hkeys] at h1
  exact Bool.eq_iff_iff.mpr (h1.trans h2.symm)

theorem StageSpec.bind {f f' : State → Except Fault State} {g g' : Ver → Nat → Contract → Except Fault Contract}
    {n1 n2 : List (Ver × Nat)} (hf : StageSpec f g n1) (hg : StageSpec f' g' n2) :
    StageSpec (fun s => f s >>= f') (fun v i c => g v i c >>= g' v i) (n1 ++ n2) where
  total := by
    intro s hk hm hneed hrow
    have hrow1 : ∀ v i c, findC v i s.cs = some c → ∃ c', g v i c = .ok c' := by
      intro v i c h
      obtain ⟨c', hc'⟩ := hrow v i c h
      cases hg1 : g v i c with
      | error e =>
        rw [hg1] at hc'
        change Except.error e = _ at hc'
        cases hc'
      | ok c1 => exact ⟨c1, rfl⟩
    obtain ⟨s1, hs1⟩ := hf.total s hk hm (fun k hk' => hneed k (List.mem_append_left _ hk')) hrow1
    have hkeys := hf.keeps s s1 hs1
    have hk1 : KeysNodup s1.cs := by unfold KeysNodup; rw [hkeys]; exact hk
    have hm1 : MInv s1 := hf.pres s s1 hm hs1
    have hneed1 : ∀ k ∈ n2, (findC k.1 k.2 s1.cs).isSome = true := by
      intro k hk'
      rw [isSome_of_keys hkeys]
      exact hneed k (List.mem_append_right _ hk')
    have hrow2 : ∀ v i c1, findC v i s1.cs = some c1 → ∃ c', g' v i c1 = .ok c' := by
      intro v i c1 h1
      rw [hf.lookup s s1 hs1 v i] at h1
      cases hfind : findC v i s.cs with
      | none => rw [hfind] at h1; simp [optApply] at h1
      | some c =>
        rw [hfind] at h1
        obtain ⟨c', hc'⟩ := hrow v i c hfind
        simp only [optApply] at h1
        cases hgc : g v i c with
        | error e => rw [hgc] at h1; cases h1
        | ok cx =>
          rw [hgc] at h1
          cases h1
          rw [hgc] at hc'
          exact ⟨c', hc'⟩
    obtain ⟨s2, hs2⟩ := hg.total s1 hk1 hm1 hneed1 hrow2
    exact ⟨s2, by show (f s >>= f') = _; rw [hs1]; exact hs2⟩
  lookup := by
    intro s s' h v i
    cases hfs : f s with
    | error e =>
      have : (f s >>= f') = .ok s' := h
      rw [hfs] at this; cases this
    | ok s1 =>
      have h2 : f' s1 = .ok s' := by
        have : (f s >>= f') = .ok s' := h
        rw [hfs] at this; exact this
      rw [hg.lookup s1 s' h2 v i, hf.lookup s s1 hfs v i, optApply_optApply]
  keeps := Keeps.bind hf.keeps hg.keeps
  pres := Pres.bind hf.pres hg.pres

theorem StageSpec.congr {f : State → Except Fault State} {g g' : Ver → Nat → Contract → Except Fault Contract}
    {n : List (Ver × Nat)} (hf : StageSpec f g n)
    (he : ∀ v i c, c.ver = v → c.id = i → g v i c = g' v i c) : StageSpec f g' n where
  total := by
    intro s hk hm hneed hrow
    refine hf.total s hk hm hneed ?_
    intro v i c h
    obtain ⟨hv, hi⟩ := findC_some_ver_id h
    rw [he v i c hv hi]
    exact hrow v i c h
  lookup := by
    intro s s' h v i
    rw [hf.lookup s s' h v i]
    cases hfind : findC v i s.cs with
    | none => rfl
    | some c =>
      obtain ⟨hv, hi⟩ := findC_some_ver_id hfind
      simp only [optApply, he v i c hv hi]
  keeps := hf.keeps
  pres := hf.pres

theorem StageSpec.mono_need {f : State → Except Fault State} {g : Ver → Nat → Contract → Except Fault Contract}
    {n n' : List (Ver × Nat)} (hf : StageSpec f g n) (hsub : ∀ k ∈ n, k ∈ n') : StageSpec f g n' where
  total := fun s hk hm hneed hrow => hf.total s hk hm (fun k hk' => hneed k (hsub k hk')) hrow
  lookup := hf.lookup
  keeps := hf.keeps
  pres := hf.pres

theorem StageSpec.pure : StageSpec (fun s => Except.ok s) (fun _ _ c => .ok c) [] where
  total := fun s _ _ _ _ => ⟨s, rfl⟩
  lookup := by
    intro s s' h v i
    cases h
    cases findC v i s.cs <;> rfl
  keeps := by intro s s' h; cases h; rfl
  pres := Pres.pure

/-! ### the elementary steps -/

theorem fire_spec {T : Table} (hT : CellsOK T) (ver : Ver) (fn : Fn) (h : Nat) (id : Nat) :
    StageSpec (fun s => fire T ver fn h s id)
      (fun v i c => if v = ver ∧ i = id then fireC T fn h c else .ok c) [(ver, id)] where
  total := by
    intro s _ hm hneed hrow
    have hex := hneed (ver, id) (by simp)
    cases hfind : findC ver id s.cs with
    | none => rw [hfind] at hex; cases hex
    | some c =>
      obtain ⟨c', hc'⟩ := hrow ver id c hfind
      simp only [and_self, if_true] at hc'
      obtain ⟨m', hm'⟩ := fireM_no_underflow hT hm hfind fn
      exact ⟨{ cs := setC c' s.cs, m := m' }, by simp [fire, hfind, hc', hm', bind, Except.bind, pure, Except.pure]⟩
  lookup := by
    intro s s' hf v i
    obtain ⟨c, c', hfind, hc, hl⟩ := fire_lookup hf
    rw [hl v i]
    by_cases hvi : v = ver ∧ i = id
    · obtain ⟨rfl, rfl⟩ := hvi
      simp [hfind, optApply, hc]
    · simp only [hvi, if_false]
      cases findC v i s.cs <;> rfl
  keeps := fire_keeps T ver fn h id
  pres := fire_pres hT ver fn h id

theorem setConfRev_spec (ver : Ver) (x : Nat × Nat) :
    StageSpec (fun s => setConfRev ver s x)
      (fun v i c => if v = ver ∧ i = x.1 then .ok (setRev c x.2) else .ok c) [(ver, x.1)] where
  total := by
    intro s _ _ hneed _
    have hex := hneed (ver, x.1) (by simp)
    cases hfind : findC ver x.1 s.cs with
    | none => rw [hfind] at hex; cases hex
    | some c => exact ⟨{ s with cs := setC (setRev c x.2) s.cs }, by simp [setConfRev, hfind]⟩
  lookup := by
    intro s s' hf v i
    obtain ⟨c, hfind, hl⟩ := setConfRev_lookup hf
    rw [hl v i]
    by_cases hvi : v = ver ∧ i = x.1
    · obtain ⟨rfl, rfl⟩ := hvi
      simp [hfind, optApply]
    · simp only [hvi, if_false]
      cases findC v i s.cs <;> rfl
  keeps := setConfRev_keeps ver x
  pres := setConfRev_pres ver x

theorem upsertElem_keeps (x : Nat × Nat) : Keeps (fun s => upsertElem s x) := by
  intro s s' hf
  simp only [upsertElem] at hf
  split at hf
  · cases hf
  · cases hf
    exact setC_keys _ _

theorem deleteElem_keeps (id : Nat) : Keeps (fun s => deleteElem s id) := by
  intro s s' hf
  simp only [deleteElem] at hf
  split at hf
  · cases hf
  · cases hf
    exact setC_keys _ _

theorem upsertElem_spec (x : Nat × Nat) :
    StageSpec (fun s => upsertElem s x)
      (fun v i c => if v = .v2 ∧ i = x.1 then .ok { c with confRev := some x.2 } else .ok c) [(.v2, x.1)] where
  total := by
    intro s _ _ hneed _
    have hex := hneed (.v2, x.1) (by simp)
    cases hfind : findC .v2 x.1 s.cs with
    | none => rw [hfind] at hex; cases hex
    | some c => exact ⟨{ s with cs := setC { c with confRev := some x.2 } s.cs }, by simp [upsertElem, hfind]⟩
  lookup := by
    intro s s' hf v i
    obtain ⟨c, hfind, hl⟩ := upsertElem_lookup hf
    rw [hl v i]
    by_cases hvi : v = .v2 ∧ i = x.1
    · obtain ⟨rfl, rfl⟩ := hvi
      simp [hfind, optApply]
    · simp only [hvi, if_false]
      cases findC v i s.cs <;> rfl
  keeps := upsertElem_keeps x
  pres := upsertElem_pres x

theorem deleteElem_spec (id : Nat) :
    StageSpec (fun s => deleteElem s id)
      (fun v i c => if v = .v2 ∧ i = id then .ok { c with confRev := none } else .ok c) [(.v2, id)] where
  total := by
    intro s _ _ hneed _
    have hex := hneed (.v2, id) (by simp)
    cases hfind : findC .v2 id s.cs with
    | none => rw [hfind] at hex; cases hex
    | some c => exact ⟨{ s with cs := setC { c with confRev := none } s.cs }, by simp [deleteElem, hfind]⟩
  lookup := by
    intro s s' hf v i
    obtain ⟨c, hfind, hl⟩ := deleteElem_lookup hf
    rw [hl v i]
    by_cases hvi : v = .v2 ∧ i = id
    · obtain ⟨rfl, rfl⟩ := hvi
      simp [hfind, optApply]
    · simp only [hvi, if_false]
      cases findC v i s.cs <;> rfl
  keeps := deleteElem_keeps id
  pres := deleteElem_pres id

/-! ### the list stages -/

def gFireAll (T : Table) (ver : Ver) (fn : Fn) (h : Nat) : List Nat → Ver → Nat → Contract → Except Fault Contract
  | [], _, _, c => .ok c
  | id :: rest, v, i, c => (if v = ver ∧ i = id then fireC T fn h c else .ok c) >>= gFireAll T ver fn h rest v i

theorem fireAll_spec {T : Table} (hT : CellsOK T) (ver : Ver) (fn : Fn) (h : Nat) :
    ∀ ids : List Nat, StageSpec (fireAll T ver fn h ids) (gFireAll T ver fn h ids) (ids.map fun id => (ver, id))
  | [] => StageSpec.pure
  | id :: rest => (fire_spec hT ver fn h id).bind (fireAll_spec hT ver fn h rest)

theorem gFireAll_not_mem (T : Table) (ver : Ver) (fn : Fn) (h : Nat) :
    ∀ (ids : List Nat) (v : Ver) (i : Nat) (c : Contract), ¬ (v = ver ∧ i ∈ ids) → gFireAll T ver fn h ids v i c = .ok c
  | [], _, _, _, _ => rfl
  | id :: rest, v, i, c, hn => by
    have h1 : ¬ (v = ver ∧ i = id) := fun hh => hn ⟨hh.1, by simp [hh.2]⟩
    have h2 : ¬ (v = ver ∧ i ∈ rest) := fun hh => hn ⟨hh.1, List.mem_cons_of_mem _ hh.2⟩
    simp only [gFireAll, h1, if_false]
    exact gFireAll_not_mem T ver fn h rest v i c h2

theorem gFireAll_eq (T : Table) (ver : Ver) (fn : Fn) (h : Nat) :
    ∀ (ids : List Nat), ids.Nodup → ∀ (v : Ver) (i : Nat) (c : Contract),
      gFireAll T ver fn h ids v i c = if v = ver ∧ i ∈ ids then fireC T fn h c else .ok c
  | [], _, v, i, c => by simp [gFireAll]
  | id :: rest, hn, v, i, c => by
    obtain ⟨hnot, hrest⟩ := List.nodup_cons.mp hn
    by_cases h1 : v = ver ∧ i = id
    · obtain ⟨hv, hi⟩ := h1
      subst hv hi
      have hm : v = v ∧ i ∈ i :: rest := ⟨rfl, List.mem_cons_self⟩
      rw [if_pos hm]
      simp only [gFireAll, and_self, if_true]
      cases hc : fireC T fn h c with
      | error e => rfl
      | ok c' =>
        change gFireAll T v fn h rest v i c' = Except.ok c'
        exact gFireAll_not_mem T v fn h rest v i c' (fun hh => hnot hh.2)
    · simp only [gFireAll, h1, if_false]
      change gFireAll T ver fn h rest v i c = _
      rw [gFireAll_eq T ver fn h rest hrest v i c]
      by_cases h2 : v = ver ∧ i ∈ rest
      · have : v = ver ∧ i ∈ id :: rest := ⟨h2.1, List.mem_cons_of_mem _ h2.2⟩
        rw [if_pos h2, if_pos this]
      · have : ¬ (v = ver ∧ i ∈ id :: rest) := by
          rintro ⟨hv, hm⟩
          rcases List.mem_cons.mp hm with rfl | hm
          · exact h1 ⟨hv, rfl⟩
          · exact h2 ⟨hv, hm⟩
        rw [if_neg h2, if_neg this]

def gRevAll (ver : Ver) : List (Nat × Nat) → Ver → Nat → Contract → Except Fault Contract
  | [], _, _, c => .ok c
  | x :: rest, v, i, c => (if v = ver ∧ i = x.1 then .ok (setRev c x.2) else .ok c) >>= gRevAll ver rest v i

theorem setConfRevAll_spec (ver : Ver) :
    ∀ xs : List (Nat × Nat), StageSpec (setConfRevAll ver xs) (gRevAll ver xs) (xs.map fun x => (ver, x.1))
  | [] => StageSpec.pure
  | x :: rest => (setConfRev_spec ver x).bind (setConfRevAll_spec ver rest)

theorem gRevAll_not_mem (ver : Ver) :
    ∀ (xs : List (Nat × Nat)) (v : Ver) (i : Nat) (c : Contract), ¬ (v = ver ∧ i ∈ xs.map (·.1)) → gRevAll ver xs v i c = .ok c
  | [], _, _, _, _ => rfl
  | x :: rest, v, i, c, hn => by
    have h1 : ¬ (v = ver ∧ i = x.1) := fun hh => hn ⟨hh.1, by simp [hh.2]⟩
    have h2 : ¬ (v = ver ∧ i ∈ rest.map (·.1)) := fun hh => hn ⟨hh.1, by simp only [List.map_cons]; exact List.mem_cons_of_mem _ hh.2⟩
    simp only [gRevAll, h1, if_false]
    exact gRevAll_not_mem ver rest v i c h2

theorem gRevAll_eq (ver : Ver) :
    ∀ (xs : List (Nat × Nat)), (xs.map (·.1)).Nodup → ∀ (v : Ver) (i : Nat) (c : Contract),
      gRevAll ver xs v i c = match (if v = ver then revFor i xs else none) with
        | some n => .ok (setRev c n)
        | none => .ok c
  | [], _, v, i, c => by by_cases hv : v = ver <;> simp [gRevAll, revFor, hv]
  | x :: rest, hn, v, i, c => by
    simp only [List.map_cons] at hn
    obtain ⟨hnot, hrest⟩ := List.nodup_cons.mp hn
    by_cases h1 : v = ver ∧ i = x.1
    · obtain ⟨rfl, rfl⟩ := h1
      have : gRevAll v rest v x.1 (setRev c x.2) = .ok (setRev c x.2) :=
        gRevAll_not_mem v rest v x.1 _ (fun hh => hnot hh.2)
      simp only [gRevAll, and_self, if_true]
      show gRevAll v rest v x.1 (setRev c x.2) = _
      rw [this]
      simp [revFor, List.find?_cons]
    · simp only [gRevAll, h1, if_false]
      show gRevAll ver rest v i c = _
      rw [gRevAll_eq ver rest hrest v i c]
      by_cases hv : v = ver
      · have hne : ¬ x.1 = i := fun hh => h1 ⟨hv, hh.symm⟩
        simp [hv, revFor, List.find?_cons, hne]
      · simp [hv]

def gFormAll (T : Table) (h : Nat) : List (Nat × Nat) → Ver → Nat → Contract → Except Fault Contract
  | [], _, _, c => .ok c
  | x :: rest, v, i, c =>
    ((if v = .v2 ∧ i = x.1 then .ok { c with confRev := some x.2 } else .ok c) >>=
      (fun c => if v = .v2 ∧ i = x.1 then fireC T .aForm h c else .ok c)) >>= gFormAll T h rest v i

theorem formV2All_spec {T : Table} (hT : CellsOK T) (h : Nat) :
    ∀ xs : List (Nat × Nat), StageSpec (formV2All T h xs) (gFormAll T h xs)
      (xs.flatMap fun x => [(Ver.v2, x.1), (Ver.v2, x.1)])
  | [] => StageSpec.pure
  | x :: rest => by
    have h1 := ((upsertElem_spec x).bind (fire_spec hT .v2 .aForm h x.1)).bind (formV2All_spec hT h rest)
    have hfun : (fun s => (upsertElem s x >>= fun s => fire T .v2 .aForm h s x.1) >>= formV2All T h rest) = formV2All T h (x :: rest) := by
      funext s
      simp only [formV2All, bind, Except.bind]
      cases upsertElem s x with
      | error e => rfl
      | ok s1 => cases fire T .v2 .aForm h s1 x.1 <;> rfl
    rw [hfun] at h1
    exact h1.mono_need (by intro k hk; simpa [List.flatMap_cons] using hk)

theorem gFormAll_not_mem (T : Table) (h : Nat) :
    ∀ (xs : List (Nat × Nat)) (v : Ver) (i : Nat) (c : Contract), ¬ (v = .v2 ∧ i ∈ xs.map (·.1)) → gFormAll T h xs v i c = .ok c
  | [], _, _, _, _ => rfl
  | x :: rest, v, i, c, hn => by
    have h1 : ¬ (v = .v2 ∧ i = x.1) := fun hh => hn ⟨hh.1, by simp [hh.2]⟩
    have h2 : ¬ (v = .v2 ∧ i ∈ rest.map (·.1)) := fun hh => hn ⟨hh.1, by simp only [List.map_cons]; exact List.mem_cons_of_mem _ hh.2⟩
    simp only [gFormAll, h1, if_false]
    exact gFormAll_not_mem T h rest v i c h2

theorem gFormAll_eq (T : Table) (h : Nat) :
    ∀ (xs : List (Nat × Nat)), (xs.map (·.1)).Nodup → ∀ (v : Ver) (i : Nat) (c : Contract),
      gFormAll T h xs v i c = match (if v = .v2 then revFor i xs else none) with
        | some r => fireC T .aForm h { c with confRev := some r }
        | none => .ok c
  | [], _, v, i, c => by by_cases hv : v = .v2 <;> simp [gFormAll, revFor, hv]
  | x :: rest, hn, v, i, c => by
    simp only [List.map_cons] at hn
    obtain ⟨hnot, hrest⟩ := List.nodup_cons.mp hn
    by_cases h1 : v = .v2 ∧ i = x.1
    · obtain ⟨rfl, rfl⟩ := h1
      simp only [gFormAll, and_self, if_true]
      have hrf : revFor x.1 (x :: rest) = some x.2 := by simp [revFor, List.find?_cons]
      simp only [hrf]
      show (fireC T .aForm h { c with confRev := some x.2 } >>= gFormAll T h rest Ver.v2 x.1) = _
      cases hc : fireC T .aForm h { c with confRev := some x.2 } with
      | error e => rfl
      | ok c' => exact gFormAll_not_mem T h rest .v2 x.1 c' (fun hh => hnot hh.2)
    · simp only [gFormAll, h1, if_false]
      show gFormAll T h rest v i c = _
      rw [gFormAll_eq T h rest hrest v i c]
      by_cases hv : v = .v2
      · have hne : ¬ x.1 = i := fun hh => h1 ⟨hv, hh.symm⟩
        simp [hv, revFor, List.find?_cons, hne]
      · simp [hv]

def gUnformAll (T : Table) (h : Nat) : List Nat → Ver → Nat → Contract → Except Fault Contract
  | [], _, _, c => .ok c
  | id :: rest, v, i, c =>
    ((if v = .v2 ∧ i = id then .ok { c with confRev := none } else .ok c) >>=
      (fun c => if v = .v2 ∧ i = id then fireC T .rForm h c else .ok c)) >>= gUnformAll T h rest v i

theorem unformV2All_spec {T : Table} (hT : CellsOK T) (h : Nat) :
    ∀ ids : List Nat, StageSpec (unformV2All T h ids) (gUnformAll T h ids)
      (ids.flatMap fun id => [(Ver.v2, id), (Ver.v2, id)])
  | [] => StageSpec.pure
  | id :: rest => by
    have h1 := ((deleteElem_spec id).bind (fire_spec hT .v2 .rForm h id)).bind (unformV2All_spec hT h rest)
    have hfun : (fun s => (deleteElem s id >>= fun s => fire T .v2 .rForm h s id) >>= unformV2All T h rest) = unformV2All T h (id :: rest) := by
      funext s
      simp only [unformV2All, bind, Except.bind]
      cases deleteElem s id with
      | error e => rfl
      | ok s1 => cases fire T .v2 .rForm h s1 id <;> rfl
    rw [hfun] at h1
    exact h1.mono_need (by intro k hk; simpa [List.flatMap_cons] using hk)

theorem gUnformAll_not_mem (T : Table) (h : Nat) :
    ∀ (ids : List Nat) (v : Ver) (i : Nat) (c : Contract), ¬ (v = .v2 ∧ i ∈ ids) → gUnformAll T h ids v i c = .ok c
  | [], _, _, _, _ => rfl
  | id :: rest, v, i, c, hn => by
    have h1 : ¬ (v = .v2 ∧ i = id) := fun hh => hn ⟨hh.1, by simp [hh.2]⟩
    have h2 : ¬ (v = .v2 ∧ i ∈ rest) := fun hh => hn ⟨hh.1, List.mem_cons_of_mem _ hh.2⟩
    simp only [gUnformAll, h1, if_false]
    exact gUnformAll_not_mem T h rest v i c h2

theorem gUnformAll_eq (T : Table) (h : Nat) :
    ∀ (ids : List Nat), ids.Nodup → ∀ (v : Ver) (i : Nat) (c : Contract),
      gUnformAll T h ids v i c = if v = .v2 ∧ i ∈ ids then fireC T .rForm h { c with confRev := none } else .ok c
  | [], _, v, i, c => by simp [gUnformAll]
  | id :: rest, hn, v, i, c => by
    obtain ⟨hnot, hrest⟩ := List.nodup_cons.mp hn
    by_cases h1 : v = .v2 ∧ i = id
    · obtain ⟨hv, hi⟩ := h1
      subst hv hi
      have hm : Ver.v2 = Ver.v2 ∧ i ∈ i :: rest := ⟨rfl, List.mem_cons_self⟩
      rw [if_pos hm]
      simp only [gUnformAll, and_self, if_true]
      change (fireC T .rForm h { c with confRev := none } >>= gUnformAll T h rest Ver.v2 i) = _
      cases hc : fireC T .rForm h { c with confRev := none } with
      | error e => rfl
      | ok c' => exact gUnformAll_not_mem T h rest .v2 i c' (fun hh => hnot hh.2)
    · simp only [gUnformAll, h1, if_false]
      change gUnformAll T h rest v i c = _
      rw [gUnformAll_eq T h rest hrest v i c]
      by_cases h2 : v = .v2 ∧ i ∈ rest
      · have : v = .v2 ∧ i ∈ id :: rest := ⟨h2.1, List.mem_cons_of_mem _ h2.2⟩
        rw [if_pos h2, if_pos this]
      · have : ¬ (v = .v2 ∧ i ∈ id :: rest) := by
          rintro ⟨hv, hm⟩
          rcases List.mem_cons.mp hm with rfl | hm
          · exact h1 ⟨hv, rfl⟩
          · exact h2 ⟨hv, hm⟩
        rw [if_neg h2, if_neg this]

/-! ### the composite stages -/

def gApply (T : Table) (h : Nat) (ch : Changes) (v : Ver) (i : Nat) (c : Contract) : Except Fault Contract :=
  gFireAll T .v1 .aForm h ch.form1 v i c >>= fun c =>
  gRevAll .v1 ch.rev1 v i c >>= fun c =>
  gFireAll T .v1 .aSucc h ch.succ1 v i c >>= fun c =>
  gFireAll T .v1 .aFail h ch.fail1 v i c >>= fun c =>
  gFormAll T h ch.form2 v i c >>= fun c =>
  gRevAll .v2 ch.rev2 v i c >>= fun c =>
  gFireAll T .v2 .aSucc h ch.succ2 v i c >>= fun c =>
  gFireAll T .v2 .aRenew h ch.renew2 v i c >>= fun c =>
  gFireAll T .v2 .aFail h ch.fail2 v i c

def needOf (ch : Changes) : List (Ver × Nat) :=
  (ids1 ch).map (fun i => (Ver.v1, i)) ++ (ids2 ch).map (fun i => (Ver.v2, i))

theorem applyContracts_spec {T : Table} (hT : CellsOK T) (h : Nat) (ch : Changes) :
    StageSpec (applyContracts T h ch) (gApply T h ch) (needOf ch) := by
  have := (fireAll_spec hT .v1 .aForm h ch.form1).bind ((setConfRevAll_spec .v1 ch.rev1).bind
    ((fireAll_spec hT .v1 .aSucc h ch.succ1).bind ((fireAll_spec hT .v1 .aFail h ch.fail1).bind
    ((formV2All_spec hT h ch.form2).bind ((setConfRevAll_spec .v2 ch.rev2).bind
    ((fireAll_spec hT .v2 .aSucc h ch.succ2).bind ((fireAll_spec hT .v2 .aRenew h ch.renew2).bind
    (fireAll_spec hT .v2 .aFail h ch.fail2))))))))
  refine StageSpec.mono_need this ?_
  intro k hk
  simp only [List.mem_append, List.mem_map, List.mem_flatMap, List.mem_cons, List.not_mem_nil, or_false, or_self] at hk
  simp only [needOf, ids1, ids2, List.mem_append, List.mem_map]
  rcases hk with ⟨a, ha, rfl⟩ | ⟨a, ha, rfl⟩ | ⟨a, ha, rfl⟩ | ⟨a, ha, rfl⟩ | ⟨a, ha, rfl⟩ | ⟨a, ha, rfl⟩ | ⟨a, ha, rfl⟩ | ⟨a, ha, rfl⟩ | ⟨a, ha, rfl⟩
  · exact Or.inl ⟨a, Or.inl (Or.inl (Or.inl ha)), rfl⟩
  · exact Or.inl ⟨a.1, Or.inl (Or.inl (Or.inr ⟨a, ha, rfl⟩)), rfl⟩
  · exact Or.inl ⟨a, Or.inl (Or.inr ha), rfl⟩
  · exact Or.inl ⟨a, Or.inr ha, rfl⟩
  · exact Or.inr ⟨a.1, Or.inl (Or.inl (Or.inl (Or.inl ⟨a, ha, rfl⟩))), rfl⟩
  · exact Or.inr ⟨a.1, Or.inl (Or.inl (Or.inl (Or.inr ⟨a, ha, rfl⟩))), rfl⟩
  · exact Or.inr ⟨a, Or.inl (Or.inl (Or.inr ha)), rfl⟩
  · exact Or.inr ⟨a, Or.inl (Or.inr ha), rfl⟩
  · exact Or.inr ⟨a, Or.inr ha, rfl⟩

theorem gApply_eq_events (T : Table) (h : Nat) (ch : Changes) (hn : ListsNodup ch) (v : Ver) (i : Nat) (c : Contract)
    (hv : c.ver = v) : gApply T h ch v i c = evsApply T h c (eventsFor v i ch) := by
  unfold gApply
  simp only [gFireAll_eq T _ _ h _ hn.form1, gRevAll_eq _ _ hn.rev1, gFireAll_eq T _ _ h _ hn.succ1,
    gFireAll_eq T _ _ h _ hn.fail1, gFormAll_eq T h _ hn.form2, gRevAll_eq _ _ hn.rev2,
    gFireAll_eq T _ _ h _ hn.succ2, gFireAll_eq T _ _ h _ hn.renew2, gFireAll_eq T _ _ h _ hn.fail2]
  cases v with
  | v1 =>
    simp only [eventsFor, reduceCtorEq, false_and, if_false, if_true, true_and]
    by_cases hf : i ∈ ch.form1 <;> cases hr : revFor i ch.rev1 <;>
      by_cases hs : i ∈ ch.succ1 <;> by_cases hfl : i ∈ ch.fail1 <;>
      simp only [hf, hs, hfl, if_true, if_false, evIf, evOpt, List.contains_iff_mem, decide_true, decide_false,
        List.nil_append, List.append_nil, List.cons_append, evsApply, evApply, hv, ok_bind, bind_ok, bind_assoc,
        reduceCtorEq] <;> (try ((repeat (refine bind_congr fun _ => ?_)) <;> (first | rfl | exact bind_ok _)))
  | v2 =>
    simp only [eventsFor, reduceCtorEq, false_and, if_false, if_true, true_and]
    cases hfm : revFor i ch.form2 <;> cases hr : revFor i ch.rev2 <;>
      by_cases hs : i ∈ ch.succ2 <;> by_cases hrn : i ∈ ch.renew2 <;> by_cases hfl : i ∈ ch.fail2 <;>
      simp only [hs, hrn, hfl, if_true, if_false, evIf, evOpt, List.contains_iff_mem, decide_true, decide_false,
        List.nil_append, List.append_nil, List.cons_append, evsApply, evApply, hv, ok_bind, bind_ok, bind_assoc,
        reduceCtorEq] <;> (try ((repeat (refine bind_congr fun _ => ?_)) <;> (first | rfl | exact bind_ok _)))

def gRevert (T : Table) (h : Nat) (ch : Changes) (v : Ver) (i : Nat) (c : Contract) : Except Fault Contract :=
  gFireAll T .v1 .rForm h ch.form1 v i c >>= fun c =>
  gRevAll .v1 ch.rev1 v i c >>= fun c =>
  gFireAll T .v1 .rSucc h ch.succ1 v i c >>= fun c =>
  gFireAll T .v1 .rFail h ch.fail1 v i c >>= fun c =>
  gUnformAll T h (ch.form2.map (·.1)) v i c >>= fun c =>
  gRevAll .v2 ch.rev2 v i c >>= fun c =>
  gFireAll T .v2 .rSucc h ch.succ2 v i c >>= fun c =>
  gFireAll T .v2 .rRenew h ch.renew2 v i c >>= fun c =>
  gFireAll T .v2 .rFail h ch.fail2 v i c

theorem revertContracts_spec {T : Table} (hT : CellsOK T) (h : Nat) (ch : Changes) :
    StageSpec (revertContracts T h ch) (gRevert T h ch) (needOf ch) := by
  have := (fireAll_spec hT .v1 .rForm h ch.form1).bind ((setConfRevAll_spec .v1 ch.rev1).bind
    ((fireAll_spec hT .v1 .rSucc h ch.succ1).bind ((fireAll_spec hT .v1 .rFail h ch.fail1).bind
    ((unformV2All_spec hT h (ch.form2.map (·.1))).bind ((setConfRevAll_spec .v2 ch.rev2).bind
    ((fireAll_spec hT .v2 .rSucc h ch.succ2).bind ((fireAll_spec hT .v2 .rRenew h ch.renew2).bind
    (fireAll_spec hT .v2 .rFail h ch.fail2))))))))
  refine StageSpec.mono_need this ?_
  intro k hk
  simp only [List.mem_append, List.mem_map, List.mem_flatMap, List.mem_cons, List.not_mem_nil, or_false, or_self] at hk
  simp only [needOf, ids1, ids2, List.mem_append, List.mem_map]
  rcases hk with ⟨a, ha, rfl⟩ | ⟨a, ha, rfl⟩ | ⟨a, ha, rfl⟩ | ⟨a, ha, rfl⟩ | ⟨a, ⟨b, hb, rfl⟩, rfl⟩ | ⟨a, ha, rfl⟩ | ⟨a, ha, rfl⟩ | ⟨a, ha, rfl⟩ | ⟨a, ha, rfl⟩
  · exact Or.inl ⟨a, Or.inl (Or.inl (Or.inl ha)), rfl⟩
  · exact Or.inl ⟨a.1, Or.inl (Or.inl (Or.inr ⟨a, ha, rfl⟩)), rfl⟩
  · exact Or.inl ⟨a, Or.inl (Or.inr ha), rfl⟩
  · exact Or.inl ⟨a, Or.inr ha, rfl⟩
  · exact Or.inr ⟨b.1, Or.inl (Or.inl (Or.inl (Or.inl ⟨b, hb, rfl⟩))), rfl⟩
  · exact Or.inr ⟨a.1, Or.inl (Or.inl (Or.inl (Or.inr ⟨a, ha, rfl⟩))), rfl⟩
  · exact Or.inr ⟨a, Or.inl (Or.inl (Or.inr ha)), rfl⟩
  · exact Or.inr ⟨a, Or.inl (Or.inr ha), rfl⟩
  · exact Or.inr ⟨a, Or.inr ha, rfl⟩

theorem mem_map_fst_iff_revFor (i : Nat) (xs : List (Nat × Nat)) : i ∈ xs.map (·.1) ↔ (revFor i xs).isSome = true := by
  constructor
  · intro hm
    cases hr : revFor i xs with
    | none => exact absurd hm ((revFor_none_iff i xs).mp hr)
    | some n => rfl
  · intro hs
    cases hr : revFor i xs with
    | none => rw [hr] at hs; cases hs
    | some n => exact revFor_some_mem hr

theorem gRevert_eq_events (T : Table) (h : Nat) (ch : Changes) (hn : ListsNodup ch) (v : Ver) (i : Nat) (c : Contract)
    (hv : c.ver = v) : gRevert T h ch v i c = evsRevert T h c (eventsFor v i ch) := by
  unfold gRevert
  simp only [gFireAll_eq T _ _ h _ hn.form1, gRevAll_eq _ _ hn.rev1, gFireAll_eq T _ _ h _ hn.succ1,
    gFireAll_eq T _ _ h _ hn.fail1, gUnformAll_eq T h _ hn.form2, gRevAll_eq _ _ hn.rev2,
    gFireAll_eq T _ _ h _ hn.succ2, gFireAll_eq T _ _ h _ hn.renew2, gFireAll_eq T _ _ h _ hn.fail2]
  cases v with
  | v1 =>
    simp only [eventsFor, reduceCtorEq, false_and, if_false, if_true, true_and]
    by_cases hf : i ∈ ch.form1 <;> cases hr : revFor i ch.rev1 <;>
      by_cases hs : i ∈ ch.succ1 <;> by_cases hfl : i ∈ ch.fail1 <;>
      simp only [hf, hs, hfl, if_true, if_false, evIf, evOpt, List.contains_iff_mem, decide_true, decide_false,
        List.nil_append, List.append_nil, List.cons_append, evsRevert, evRevert, hv, ok_bind, bind_ok, bind_assoc,
        reduceCtorEq] <;> (try ((repeat (refine bind_congr fun _ => ?_)) <;> (first | rfl | exact bind_ok _)))
  | v2 =>
    simp only [eventsFor, reduceCtorEq, false_and, if_false, if_true, true_and]
    cases hfm : revFor i ch.form2 with
    | none =>
      have hnm : ¬ i ∈ ch.form2.map (·.1) := (revFor_none_iff i ch.form2).mp hfm
      cases hr : revFor i ch.rev2 <;>
      by_cases hs : i ∈ ch.succ2 <;> by_cases hrn : i ∈ ch.renew2 <;> by_cases hfl : i ∈ ch.fail2 <;>
      simp only [hnm, hs, hrn, hfl, if_true, if_false, evIf, evOpt, List.contains_iff_mem, decide_true, decide_false,
        List.nil_append, List.append_nil, List.cons_append, evsRevert, evRevert, hv, ok_bind, bind_ok, bind_assoc,
        reduceCtorEq] <;> (try ((repeat (refine bind_congr fun _ => ?_)) <;> (first | rfl | exact bind_ok _)))
    | some r =>
      have hm : i ∈ ch.form2.map (·.1) := revFor_some_mem hfm
      cases hr : revFor i ch.rev2 <;>
      by_cases hs : i ∈ ch.succ2 <;> by_cases hrn : i ∈ ch.renew2 <;> by_cases hfl : i ∈ ch.fail2 <;>
      simp only [hm, hs, hrn, hfl, if_true, if_false, evIf, evOpt, List.contains_iff_mem, decide_true, decide_false,
        List.nil_append, List.append_nil, List.cons_append, evsRevert, evRevert, hv, ok_bind, bind_ok, bind_assoc,
        reduceCtorEq] <;> (try ((repeat (refine bind_congr fun _ => ?_)) <;> (first | rfl | exact bind_ok _)))

/-! ### totality of the block operations -/

theorem applyContracts_total {T : Table} (hT : CellsOK T) {h : Nat} {ch : Changes} {s : State}
    (hk : KeysNodup s.cs) (hm : MInv s) (hn : ListsNodup ch)
    (hex : ∀ k ∈ needOf ch, (findC k.1 k.2 s.cs).isSome = true)
    (hrow : ∀ v i c, findC v i s.cs = some c → ∃ c', evsApply T h c (eventsFor v i ch) = .ok c') :
    ∃ s', applyContracts T h ch s = .ok s' := by
  refine (applyContracts_spec hT h ch).total s hk hm hex ?_
  intro v i c hf
  rw [gApply_eq_events T h ch hn v i c (findC_some_ver_id hf).1]
  exact hrow v i c hf

theorem revertContracts_total {T : Table} (hT : CellsOK T) {h : Nat} {ch : Changes} {s : State}
    (hk : KeysNodup s.cs) (hm : MInv s) (hn : ListsNodup ch)
    (hex : ∀ k ∈ needOf ch, (findC k.1 k.2 s.cs).isSome = true)
    (hrow : ∀ v i c, findC v i s.cs = some c → ∃ c', evsRevert T h c (eventsFor v i ch) = .ok c') :
    ∃ s', revertContracts T h ch s = .ok s' := by
  refine (revertContracts_spec hT h ch).total s hk hm hex ?_
  intro v i c hf
  rw [gRevert_eq_events T h ch hn v i c (findC_some_ver_id hf).1]
  exact hrow v i c hf

theorem rejectContracts_total {T : Table} (hT : CellsOK T) {height : Nat} {s : State}
    (hk : KeysNodup s.cs) (hm : MInv s)
    (hrow : ∀ v i c, findC v i s.cs = some c → ∃ c', rejectC T height c = .ok c') :
    ∃ s', rejectContracts T height s = .ok s' := by
  have hspec := (fireAll_spec hT .v1 .reject 0 (rejectIds .v1 height s.cs)).bind
    (fireAll_spec hT .v2 .reject 0 (rejectIds .v2 height s.cs))
  have hfun : rejectContracts T height s =
      (fun s' => fireAll T .v1 .reject 0 (rejectIds .v1 height s.cs) s' >>= fireAll T .v2 .reject 0 (rejectIds .v2 height s.cs)) s := rfl
  rw [hfun]
  refine hspec.total s hk hm ?_ ?_
  · intro k hk'
    simp only [List.mem_append, List.mem_map] at hk'
    rcases hk' with ⟨a, ha, rfl⟩ | ⟨a, ha, rfl⟩
    · obtain ⟨c, hc, _⟩ := (mem_rejectIds_iff hk).mp ha
      simp [hc]
    · obtain ⟨c, hc, _⟩ := (mem_rejectIds_iff hk).mp ha
      simp [hc]
  · intro v i c hf
    obtain ⟨hv, hi⟩ := findC_some_ver_id hf
    obtain ⟨c', hc'⟩ := hrow v i c hf
    simp only [gFireAll_eq T _ _ 0 _ (rejectIds_nodup hk)]
    have hsel : ∀ ver, (v = ver ∧ i ∈ rejectIds ver height s.cs) → rejectSel c.ver height c = true := by
      intro ver ⟨hvv, hmem⟩
      obtain ⟨c2, hc2, hs2⟩ := (mem_rejectIds_iff hk).mp hmem
      rw [← hvv, hf] at hc2
      cases hc2
      rw [hv, hvv]; exact hs2
    unfold rejectC at hc'
    by_cases h1 : v = Ver.v1 ∧ i ∈ rejectIds Ver.v1 height s.cs
    · have hs := hsel _ h1
      rw [if_pos hs] at hc'
      rw [if_pos h1, hc']
      have h2 : ¬ (v = Ver.v2 ∧ i ∈ rejectIds Ver.v2 height s.cs) := by
        rintro ⟨hv2, _⟩; rw [h1.1] at hv2; cases hv2
      exact ⟨c', by change gFireAll T Ver.v2 Fn.reject 0 (rejectIds Ver.v2 height s.cs) v i c' = _; rw [gFireAll_eq T _ _ 0 _ (rejectIds_nodup hk), if_neg h2]⟩
    · rw [if_neg h1]
      by_cases h2 : v = Ver.v2 ∧ i ∈ rejectIds Ver.v2 height s.cs
      · have hs := hsel _ h2
        rw [if_pos hs] at hc'
        exact ⟨c', by change gFireAll T Ver.v2 Fn.reject 0 (rejectIds Ver.v2 height s.cs) v i c = _; rw [gFireAll_eq T _ _ 0 _ (rejectIds_nodup hk), if_pos h2, hc']⟩
      · exact ⟨c, by change gFireAll T Ver.v2 Fn.reject 0 (rejectIds Ver.v2 height s.cs) v i c = _; rw [gFireAll_eq T _ _ 0 _ (rejectIds_nodup hk), if_neg h2]⟩

theorem applyBlock_total {T : Table} (hT : CellsOK T) {rb h : Nat} {ch : Changes} {s : State}
    (hk : KeysNodup s.cs) (hm : MInv s) (hn : ListsNodup ch)
    (hex : ∀ k ∈ needOf ch, (findC k.1 k.2 s.cs).isSome = true)
    (hrow : ∀ v i c, findC v i s.cs = some c → ∃ c', stepH T rb c (.apply h (eventsFor v i ch)) = .ok c') :
    ∃ s', applyBlock T rb h ch s = .ok s' := by
  have hrow1 : ∀ v i c, findC v i s.cs = some c → ∃ c', evsApply T h c (eventsFor v i ch) = .ok c' := by
    intro v i c hf
    obtain ⟨c', hc'⟩ := hrow v i c hf
    simp only [stepH, bind, Except.bind] at hc'
    cases hev : evsApply T h c (eventsFor v i ch) with
    | error e => rw [hev] at hc'; cases hc'
    | ok c1 => exact ⟨c1, rfl⟩
  obtain ⟨s1, hs1⟩ := applyContracts_total hT hk hm hn hex hrow1
  unfold applyBlock
  simp only [bind, Except.bind, hs1]
  by_cases hrb : h ≥ rb
  · simp only [hrb, if_true]
    have hk1 : KeysNodup s1.cs := by unfold KeysNodup; rw [applyContracts_keeps T h ch s s1 hs1]; exact hk
    have hm1 : MInv s1 := applyContracts_pres hT h ch s s1 hm hs1
    refine rejectContracts_total hT hk1 hm1 ?_
    intro v i c1 hf1
    rw [applyContracts_lookup hn hs1 v i] at hf1
    cases hfind : findC v i s.cs with
    | none => rw [hfind, applyStages_none] at hf1; cases hf1
    | some c =>
      rw [hfind, applyStages_eq_events T h ch v i c (findC_some_ver_id hfind).1] at hf1
      obtain ⟨c', hc'⟩ := hrow v i c hfind
      simp only [optApply] at hf1
      simp only [stepH, bind, Except.bind, hrb, if_true] at hc'
      cases hev : evsApply T h c (eventsFor v i ch) with
      | error e => rw [hev] at hf1; cases hf1
      | ok cx =>
        rw [hev] at hf1 hc'
        cases hf1
        exact ⟨c', hc'⟩
  · simp only [hrb, if_false]
    exact ⟨s1, rfl⟩

theorem needOf_of_idsExist {X : State} {ch : Changes} (h : idsExist X ch = true) :
    ∀ k ∈ needOf ch, (findC k.1 k.2 X.cs).isSome = true := by
  simp only [idsExist, Bool.and_eq_true, List.all_eq_true] at h
  intro k hk
  simp only [needOf, List.mem_append, List.mem_map] at hk
  rcases hk with ⟨a, ha, rfl⟩ | ⟨a, ha, rfl⟩
  · exact h.1 a ha
  · exact h.2 a ha

end Hostd.Chain
