import Hostd.Model.Accounts
/-!
Helper lemmas for the `accounts` engine (C04, C11): arithmetic of one `distributeFunds`
row, the distribution fold, funding-row upserts, sums of balances, budget lists.
-/
namespace Hostd.Accounts

/-- unspent funding + recorded revenue of a contract -/
def worth (u : Usage) : Nat := u.accountFunding + u.revenue

/-! ### one funding row -/

theorem step_facts (x r : Nat) :
    (x - min x r) + min x r = x ∧ (r - min x r) + min x r = r ∧ (x - min x r = 0 ∨ r - min x r = 0) := by omega

theorem chain6 (x1 x2 x3 x4 x5 x6 y1 y2 y3 y4 y5 y6 v1 v2 v3 v4 v5 v6 r0 r1 r2 r3 r4 r5 r6 : Nat)
    (h1 : y1 + v1 = x1 ∧ r1 + v1 = r0 ∧ (y1 = 0 ∨ r1 = 0))
    (h2 : y2 + v2 = x2 ∧ r2 + v2 = r1 ∧ (y2 = 0 ∨ r2 = 0))
    (h3 : y3 + v3 = x3 ∧ r3 + v3 = r2 ∧ (y3 = 0 ∨ r3 = 0))
    (h4 : y4 + v4 = x4 ∧ r4 + v4 = r3 ∧ (y4 = 0 ∨ r4 = 0))
    (h5 : y5 + v5 = x5 ∧ r5 + v5 = r4 ∧ (y5 = 0 ∨ r5 = 0))
    (h6 : y6 + v6 = x6 ∧ r6 + v6 = r5 ∧ (y6 = 0 ∨ r6 = 0)) :
    (y6 + y1 + y3 + y2 + y4 + y5) + (v6 + v1 + v3 + v2 + v4 + v5) = x6 + x1 + x3 + x2 + x4 + x5 ∧
    (v6 + v1 + v3 + v2 + v4 + v5) + r6 = r0 ∧
    (v6 + v1 + v3 + v2 + v4 + v5) = min (x6 + x1 + x3 + x2 + x4 + x5) r0 := by
  omega

theorem chain4 (x1 x2 x3 x4 y1 y2 y3 y4 v1 v2 v3 v4 r0 r1 r2 r3 r4 : Nat)
    (h1 : y1 + v1 = x1 ∧ r1 + v1 = r0 ∧ (y1 = 0 ∨ r1 = 0))
    (h2 : y2 + v2 = x2 ∧ r2 + v2 = r1 ∧ (y2 = 0 ∨ r2 = 0))
    (h3 : y3 + v3 = x3 ∧ r3 + v3 = r2 ∧ (y3 = 0 ∨ r3 = 0))
    (h4 : y4 + v4 = x4 ∧ r4 + v4 = r3 ∧ (y4 = 0 ∨ r4 = 0)) :
    (y4 + y1 + y3 + y2) + (v4 + v1 + v3 + v2) = x4 + x1 + x3 + x2 ∧
    (v4 + v1 + v3 + v2) + r4 = r0 ∧
    (v4 + v1 + v3 + v2) = min (x4 + x1 + x3 + x2) r0 := by
  omega

/-- the six `distributeFunds` calls of the RHP3 loop: what is moved is `min(usage, row)`,
nothing is created or lost -/
theorem distRow3_arith (u : Usage) (amt : Nat) :
    (distRow3 u amt).left.total3 + (distRow3 u amt).add.total3 = u.total3 ∧
    (distRow3 u amt).add.total3 + (distRow3 u amt).rem = amt ∧
    (distRow3 u amt).add.total3 = min u.total3 amt := by
  simp only [distRow3, Usage.total3]
  exact chain6 _ _ _ _ _ _ _ _ _ _ _ _ _ _ _ _ _ _ _ _ _ _ _ _ _
    (step_facts _ _) (step_facts _ _) (step_facts _ _) (step_facts _ _) (step_facts _ _) (step_facts _ _)

theorem distRow4_arith (u : Usage) (amt : Nat) :
    (distRow4 u amt).left.dist4 + (distRow4 u amt).add.dist4 = u.dist4 ∧
    (distRow4 u amt).add.dist4 + (distRow4 u amt).rem = amt ∧
    (distRow4 u amt).add.dist4 = min u.dist4 amt := by
  simp only [distRow4, Usage.dist4]
  exact chain4 _ _ _ _ _ _ _ _ _ _ _ _ _ _ _ _ _
    (step_facts _ _) (step_facts _ _) (step_facts _ _) (step_facts _ _)

/-- what the fold needs to know about one protocol version: `tot` is the total it distributes -/
structure DistOK (rowFn : Usage → Nat → RowRes) (addFn : Usage → Usage → Usage) (tot : Usage → Nat) : Prop where
  left  : ∀ u amt, tot (rowFn u amt).left + tot (rowFn u amt).add = tot u
  rem   : ∀ u amt, tot (rowFn u amt).add + (rowFn u amt).rem = amt
  moved : ∀ u amt, tot (rowFn u amt).add = min (tot u) amt
  af    : ∀ c u amt, (addFn c (rowFn u amt).add).accountFunding = c.accountFunding
  rev   : ∀ c u amt, (addFn c (rowFn u amt).add).revenue = c.revenue + tot (rowFn u amt).add

theorem dist3_ok : DistOK distRow3 addUsage1 Usage.total3 where
  left u amt := (distRow3_arith u amt).1
  rem u amt := (distRow3_arith u amt).2.1
  moved u amt := (distRow3_arith u amt).2.2
  af c u amt := by simp [addUsage1, distRow3]
  rev c u amt := by simp only [addUsage1, Usage.revenue, Usage.total3]; omega

theorem dist4_ok : DistOK distRow4 addUsage2 Usage.dist4 where
  left u amt := (distRow4_arith u amt).1
  rem u amt := (distRow4_arith u amt).2.1
  moved u amt := (distRow4_arith u amt).2.2
  af c u amt := by simp [addUsage2, distRow4]
  rev c u amt := by simp only [addUsage2, Usage.revenue, Usage.total3, Usage.dist4]; omega

/-! ### funding tables -/

theorem rowsum_keep (k : Cid) (r : Row) (rem : Nat) (rows : List Row) :
    rowsum k (if rem = 0 then rows else { r with amount := rem } :: rows) =
      (if r.contract = k then rem else 0) + rowsum k rows := by
  by_cases h : rem = 0
  · simp [h]
  · simp [h, rowsum]

theorem acctsum_keep (b : Acct) (r : Row) (rem : Nat) (rows : List Row) :
    acctsum b (if rem = 0 then rows else { r with amount := rem } :: rows) =
      (if r.account = b then rem else 0) + acctsum b rows := by
  by_cases h : rem = 0
  · simp [h]
  · simp [h, acctsum]

theorem rowsum_upsert (k : Cid) (rows : List Row) (c : Cid) (a : Acct) (amt : Nat) :
    rowsum k (upsert rows c a amt) = rowsum k rows + (if c = k then amt else 0) := by
  induction rows with
  | nil => simp [upsert, rowsum]
  | cons r rest ih =>
    by_cases h : r.contract = c ∧ r.account = a
    · obtain ⟨h1, h2⟩ := h
      by_cases hk : c = k <;> simp [upsert, rowsum, h1, h2, hk] <;> omega
    · simp only [upsert, if_neg h, rowsum, ih]; omega

theorem acctsum_upsert (b : Acct) (rows : List Row) (c : Cid) (a : Acct) (amt : Nat) :
    acctsum b (upsert rows c a amt) = acctsum b rows + (if a = b then amt else 0) := by
  induction rows with
  | nil => simp [upsert, acctsum]
  | cons r rest ih =>
    by_cases h : r.contract = c ∧ r.account = a
    · obtain ⟨h1, h2⟩ := h
      by_cases hk : a = b <;> simp [upsert, acctsum, h1, h2, hk] <;> omega
    · simp only [upsert, if_neg h, acctsum, ih]; omega

/-! ### the distribution loop -/

section dist
variable {rowFn : Usage → Nat → RowRes} {addFn : Usage → Usage → Usage} {tot : Usage → Nat}

/-- Contract side of the loop.  If every contract's unspent funding covers its rows
(`rowsum ≤ accountFunding`, in particular under `accountFunding = rowsum`) then no subtraction
underflows, `accountFunding − Σ rows` is unchanged for every contract, and so is
`accountFunding + revenue`. -/
theorem distG_fund (ok : DistOK rowFn addFn tot) (a : Acct) :
    ∀ (rows : List Row) (u : Usage) (cs : Cid → Usage),
      (∀ c, rowsum c rows ≤ (cs c).accountFunding) →
      (distG rowFn addFn a rows u cs).bad = false ∧
      (∀ c, ((distG rowFn addFn a rows u cs).cs c).accountFunding + rowsum c rows =
            (cs c).accountFunding + rowsum c (distG rowFn addFn a rows u cs).rows) ∧
      (∀ c, worth ((distG rowFn addFn a rows u cs).cs c) = worth (cs c)) := by
  intro rows
  induction rows with
  | nil => intro u cs _; simp [distG, rowsum]
  | cons r rest ih =>
    intro u cs h
    by_cases hc : r.account = a ∧ r.amount ≠ 0
    · have hrem := ok.rem u r.amount
      have hk := h r.contract
      simp only [rowsum, if_pos] at hk
      have hle : r.amount - (rowFn u r.amount).rem ≤ (cs r.contract).accountFunding := by omega
      -- the contract row after this funding row
      have haf := ok.af ((cs r.contract).subFunding (r.amount - (rowFn u r.amount).rem)) u r.amount
      have hrev := ok.rev ((cs r.contract).subFunding (r.amount - (rowFn u r.amount).rem)) u r.amount
      have hsf : ((cs r.contract).subFunding (r.amount - (rowFn u r.amount).rem)).accountFunding =
          (cs r.contract).accountFunding - (r.amount - (rowFn u r.amount).rem) := rfl
      have hsr : ((cs r.contract).subFunding (r.amount - (rowFn u r.amount).rem)).revenue = (cs r.contract).revenue := rfl
      rw [hsf] at haf
      rw [hsr] at hrev
      obtain ⟨ih1, ih2, ih3⟩ := ih (rowFn u r.amount).left
        (upd cs r.contract (addFn ((cs r.contract).subFunding (r.amount - (rowFn u r.amount).rem)) (rowFn u r.amount).add))
        (by
          intro c
          by_cases hck : c = r.contract
          · subst hck; simp only [upd_same, haf]; omega
          · have := h c
            have hne : ¬ r.contract = c := fun e => hck e.symm
            simp only [rowsum, if_neg hne] at this
            simp only [upd_other _ _ _ _ hck]; omega)
      simp only [distG, if_pos hc]
      refine ⟨?_, ?_, ?_⟩
      · simp only [ih1, Bool.or_false, decide_eq_false_iff_not]; omega
      · intro c
        rw [rowsum_keep]
        have := ih2 c
        by_cases hck : c = r.contract
        · subst hck
          simp only [upd_same, haf] at this
          simp only [rowsum, if_pos]
          omega
        · have hne : ¬ r.contract = c := fun e => hck e.symm
          simp only [upd_other _ _ _ _ hck] at this
          simp only [rowsum, if_neg hne]
          omega
      · intro c
        rw [ih3 c]
        by_cases hck : c = r.contract
        · subst hck
          simp only [upd_same, worth, haf, hrev]
          omega
        · simp only [upd_other _ _ _ _ hck]
    · obtain ⟨ih1, ih2, ih3⟩ := ih u cs (by
        intro c
        have := h c
        simp only [rowsum] at this
        omega)
      simp only [distG, if_neg hc]
      refine ⟨ih1, ?_, ih3⟩
      intro c
      have := ih2 c
      simp only [rowsum]
      omega

/-- Account side of the loop: the rows of the debited account lose exactly
`min(total, Σ its rows)`, that much of the usage is attributed, the rows of every other
account are untouched. -/
theorem distG_acct (ok : DistOK rowFn addFn tot) (a : Acct) :
    ∀ (rows : List Row) (u : Usage) (cs : Cid → Usage),
      acctsum a (distG rowFn addFn a rows u cs).rows + min (tot u) (acctsum a rows) = acctsum a rows ∧
      tot (distG rowFn addFn a rows u cs).left + min (tot u) (acctsum a rows) = tot u ∧
      (∀ b, b ≠ a → acctsum b (distG rowFn addFn a rows u cs).rows = acctsum b rows) := by
  intro rows
  induction rows with
  | nil => intro u cs; simp [distG, acctsum]
  | cons r rest ih =>
    intro u cs
    by_cases hc : r.account = a ∧ r.amount ≠ 0
    · have hrem := ok.rem u r.amount
      have hleft := ok.left u r.amount
      have hmv := ok.moved u r.amount
      obtain ⟨ih1, ih2, ih3⟩ := ih (rowFn u r.amount).left
        (upd cs r.contract (addFn ((cs r.contract).subFunding (r.amount - (rowFn u r.amount).rem)) (rowFn u r.amount).add))
      simp only [distG, if_pos hc]
      refine ⟨?_, ?_, ?_⟩
      · rw [acctsum_keep]
        simp only [acctsum, if_pos hc.1]
        omega
      · simp only [acctsum, if_pos hc.1]
        omega
      · intro b hb
        rw [acctsum_keep]
        have hne : ¬ r.account = b := fun e => hb (e ▸ hc.1.symm ▸ rfl)
        simp only [acctsum, if_neg hne, ih3 b hb]
    · obtain ⟨ih1, ih2, ih3⟩ := ih u cs
      simp only [distG, if_neg hc]
      have hz : (if r.account = a then r.amount else 0) = 0 := by
        by_cases h1 : r.account = a
        · have : r.amount = 0 := by
            by_cases h2 : r.amount = 0
            · exact h2
            · exact absurd ⟨h1, h2⟩ hc
          simp [this]
        · simp [h1]
      refine ⟨?_, ?_, ?_⟩
      · simp only [acctsum, hz]; omega
      · simp only [acctsum, hz]; omega
      · intro b hb
        simp only [acctsum, ih3 b hb]

end dist

/-! ### sums of balances -/

theorem sumBal_upd_notin (bal : Acct → Nat) (a v : Nat) :
    ∀ l : List Acct, a ∉ l → sumBal (upd bal a v) l = sumBal bal l := by
  intro l
  induction l with
  | nil => intro _; rfl
  | cons x rest ih =>
    intro h
    simp only [List.mem_cons, not_or] at h
    have hx : x ≠ a := fun e => h.1 e.symm
    simp only [sumBal, upd_other _ _ _ _ hx, ih h.2]

theorem sumBal_upd_in (bal : Acct → Nat) (a v : Nat) :
    ∀ l : List Acct, l.Nodup → a ∈ l → sumBal (upd bal a v) l + bal a = sumBal bal l + v := by
  intro l
  induction l with
  | nil => intro _ h; simp at h
  | cons x rest ih =>
    intro hn hm
    simp only [List.nodup_cons] at hn
    by_cases hx : x = a
    · subst hx
      simp only [sumBal, upd_same, sumBal_upd_notin bal x v rest hn.1]
      omega
    · have hm' : a ∈ rest := by
        simp only [List.mem_cons] at hm
        rcases hm with h | h
        · exact absurd h.symm hx
        · exact h
      have := ih hn.2 hm'
      simp only [sumBal, upd_other _ _ _ _ hx]
      omega

theorem sumBal_append (bal : Acct → Nat) (l1 l2 : List Acct) :
    sumBal bal (l1 ++ l2) = sumBal bal l1 + sumBal bal l2 := by
  induction l1 with
  | nil => simp [sumBal]
  | cons x rest ih => simp only [List.cons_append, sumBal, ih]; omega

theorem sumBal_ge (bal : Acct → Nat) (a : Acct) : ∀ l : List Acct, a ∈ l → bal a ≤ sumBal bal l := by
  intro l
  induction l with
  | nil => intro h; simp at h
  | cons x rest ih =>
    intro h
    simp only [List.mem_cons] at h
    rcases h with h | h
    · subst h; simp only [sumBal]; omega
    · have := ih h; simp only [sumBal]; omega

/-! ### the table `accounts` -/

/-- keys unique, absent keys have balance 0, the active-accounts metric counts the rows -/
structure AcctsOK (st : Store) : Prop where
  nodup  : st.accts.Nodup
  absent : ∀ a, a ∉ st.accts → st.bal a = 0
  active : st.mActive = st.accts.length

theorem deposit_ok (st : Store) (a : Acct) (amt : Nat) (h : AcctsOK st) :
    AcctsOK (st.deposit a amt) ∧
    sumBal (st.deposit a amt).bal (st.deposit a amt).accts = sumBal st.bal st.accts + amt ∧
    a ∈ (st.deposit a amt).accts := by
  by_cases ha : a ∈ st.accts
  · refine ⟨⟨?_, ?_, ?_⟩, ?_, ?_⟩
    · simp only [Store.deposit, if_pos ha]; exact h.nodup
    · intro x hx
      simp only [Store.deposit, if_pos ha] at hx ⊢
      have : x ≠ a := fun e => hx (e ▸ ha)
      simp only [upd_other _ _ _ _ this]; exact h.absent x hx
    · simp only [Store.deposit, if_pos ha]; exact h.active
    · simp only [Store.deposit, if_pos ha]
      have := sumBal_upd_in st.bal a (st.bal a + amt) st.accts h.nodup ha
      omega
    · simp only [Store.deposit, if_pos ha]; exact ha
  · have hz := h.absent a ha
    refine ⟨⟨?_, ?_, ?_⟩, ?_, ?_⟩
    · simp only [Store.deposit, if_neg ha]
      rw [List.nodup_append]
      refine ⟨h.nodup, by simp, ?_⟩
      intro x hx y hy
      simp only [List.mem_singleton] at hy
      subst hy
      exact fun e => ha (e ▸ hx)
    · intro x hx
      simp only [Store.deposit, if_neg ha, List.mem_append, List.mem_singleton, not_or] at hx ⊢
      simp only [upd_other _ _ _ _ hx.2]; exact h.absent x hx.1
    · simp only [Store.deposit, if_neg ha, List.length_append, List.length_singleton]
      have := h.active; omega
    · simp only [Store.deposit, if_neg ha, sumBal_append, sumBal, upd_same,
        sumBal_upd_notin st.bal a (st.bal a + amt) st.accts ha]
      omega
    · simp only [Store.deposit, if_neg ha, List.mem_append, List.mem_singleton, or_true]

/-! ### budget lists -/

theorem resv_append (a : Acct) (l : List Budget) (b : Budget) : resv a (l ++ [b]) = resv a l + b.w a := by
  induction l with
  | nil => simp [resv]
  | cons x rest ih => simp only [List.cons_append, resv, ih]; omega

theorem nOpen_append (a : Acct) (l : List Budget) (b : Budget) :
    nOpen a (l ++ [b]) = nOpen a l + (if b.closed = false ∧ b.acct = a then 1 else 0) := by
  induction l with
  | nil => simp [nOpen]
  | cons x rest ih => simp only [List.cons_append, nOpen, ih]; omega

theorem resv_set (a : Acct) (b' : Budget) :
    ∀ (l : List Budget) (i : Nat) (b : Budget), l[i]? = some b →
      resv a (l.set i b') + b.w a = resv a l + b'.w a := by
  intro l
  induction l with
  | nil => intro i b h; simp at h
  | cons x rest ih =>
    intro i b h
    cases i with
    | zero =>
      simp only [List.getElem?_cons_zero, Option.some.injEq] at h
      subst h
      simp only [List.set_cons_zero, resv]; omega
    | succ j =>
      simp only [List.getElem?_cons_succ] at h
      have := ih j b h
      simp only [List.set_cons_succ, resv]; omega

theorem nOpen_set (a : Acct) (b' : Budget) :
    ∀ (l : List Budget) (i : Nat) (b : Budget), l[i]? = some b →
      nOpen a (l.set i b') + (if b.closed = false ∧ b.acct = a then 1 else 0) =
      nOpen a l + (if b'.closed = false ∧ b'.acct = a then 1 else 0) := by
  intro l
  induction l with
  | nil => intro i b h; simp at h
  | cons x rest ih =>
    intro i b h
    cases i with
    | zero =>
      simp only [List.getElem?_cons_zero, Option.some.injEq] at h
      subst h
      simp only [List.set_cons_zero, nOpen]; omega
    | succ j =>
      simp only [List.getElem?_cons_succ] at h
      have := ih j b h
      simp only [List.set_cons_succ, nOpen]; omega

/-- no open budget ⇒ nothing reserved -/
theorem resv_zero_of_nOpen (a : Acct) : ∀ l : List Budget, nOpen a l = 0 → resv a l = 0 := by
  intro l
  induction l with
  | nil => intro _; rfl
  | cons x rest ih =>
    intro h
    simp only [nOpen] at h
    by_cases hx : x.closed = false ∧ x.acct = a
    · simp only [if_pos hx] at h; omega
    · simp only [if_neg hx, Nat.zero_add] at h
      simp only [resv, Budget.w, if_neg hx, ih h]

theorem mem_of_getElem? {α : Type} : ∀ (l : List α) (i : Nat) (b : α), l[i]? = some b → b ∈ l := by
  intro l i b h
  exact List.mem_of_getElem? h

/-! ### the store invariant and its preservation by the four store operations -/

/-- Everything C04 and C11 say about the persisted state. -/
structure StoreInv (f : Facts) (st : Store) : Prop where
  /-- balance = Σ accepted deposits − Σ committed withdrawals (so it is never negative) -/
  led    : ∀ a, st.bal a + st.wd a = st.dep a
  accts  : AcctsOK st
  /-- `accountBalance` = Σ balances (+ what RHP4 debits failed to subtract, on the current tree) -/
  metric : st.mBalance = sumBal st.bal st.accts + (if f.rhp4DebitMetric then 0 else st.r4deb)
  /-- `contracts.account_funding` = Σ of the contract's funding rows (`checkContractAccountFunding`) -/
  fund1  : ∀ c, (st.c1 c).accountFunding = rowsum c st.rows1
  fund2  : ∀ c, (st.c2 c).accountFunding = rowsum c st.rows2
  /-- an account never holds more than its funding rows of both versions -/
  cover  : ∀ a, st.bal a ≤ acctsum a st.rows1 + acctsum a st.rows2

theorem storeInv_init (f : Facts) (n1 n2 : Nat) : StoreInv f (Store.init n1 n2) where
  led a := rfl
  accts := ⟨List.nodup_nil, fun _ _ => rfl, rfl⟩
  metric := by cases f with | mk b => cases b <;> rfl
  fund1 c := rfl
  fund2 c := rfl
  cover a := Nat.zero_le _

theorem credit3_inv (f : Facts) (st st' : Store) (a : Acct) (c : Cid) (amt cost : Nat)
    (h : StoreInv f st) (he : st.credit3 a c amt cost = some st') : StoreInv f st' := by
  unfold Store.credit3 at he
  by_cases hc : c < st.n1
  · simp only [if_pos hc, Option.some.injEq] at he
    subst he
    obtain ⟨hok, hsum, _⟩ := deposit_ok st a amt h.accts
    refine ⟨?_, ⟨hok.nodup, hok.absent, hok.active⟩, ?_, ?_, ?_, ?_⟩
    · intro x
      by_cases hx : x = a
      · subst hx; simp only [Store.deposit, upd_same]; have := h.led x; omega
      · simp only [Store.deposit, upd_other _ _ _ _ hx]; exact h.led x
    · show (st.deposit a amt).mBalance + amt = sumBal (st.deposit a amt).bal (st.deposit a amt).accts + _
      rw [hsum]
      have := h.metric
      simp only [Store.deposit] at *
      omega
    · intro k
      simp only [rowsum_upsert]
      by_cases hk : k = c
      · subst hk; simp only [upd_same, Store.deposit, if_pos]; have := h.fund1 k; omega
      · have hne : ¬ c = k := fun e => hk e.symm
        simp only [upd_other _ _ _ _ hk, Store.deposit, if_neg hne]; have := h.fund1 k; omega
    · exact h.fund2
    · intro x
      simp only [acctsum_upsert]
      by_cases hx : x = a
      · subst hx; simp only [Store.deposit, upd_same, if_pos]; have := h.cover x; omega
      · have hne : ¬ a = x := fun e => hx e.symm
        simp only [Store.deposit, upd_other _ _ _ _ hx, if_neg hne]; have := h.cover x; omega
  · simp [if_neg hc] at he

/-- `DebitAccount` never hits a panicking subtraction in a state satisfying the invariant -/
theorem debit3_no_panic (f : Facts) (st : Store) (a : Acct) (u : Usage) (h : StoreInv f st) :
    (st.debit3 a u).2 ≠ .panic := by
  unfold Store.debit3
  by_cases ha : a ∉ st.accts
  · simp [if_pos ha]
  · by_cases hb : st.bal a < u.total3
    · simp [if_neg ha, if_pos hb]
    · have hd := (distG_fund dist3_ok a st.rows1 u st.c1 (fun c => Nat.le_of_eq (h.fund1 c).symm)).1
      have hge := sumBal_ge st.bal a st.accts (by simpa using ha)
      have hm := h.metric
      have hmb : ¬ st.mBalance < u.total3 := by omega
      simp only [if_neg ha, if_neg hb, dist3, hd, if_neg hmb]
      simp

/-- a refused `DebitAccount` changes nothing -/
theorem debit3_refused (st : Store) (a : Acct) (u : Usage) (h : (st.debit3 a u).2 ≠ .ok) :
    (st.debit3 a u).1 = st := by
  unfold Store.debit3 at h ⊢
  by_cases ha : a ∉ st.accts
  · simp [if_pos ha]
  · by_cases hb : st.bal a < u.total3
    · simp [if_neg ha, if_pos hb]
    · simp only [if_neg ha, if_neg hb] at h ⊢
      by_cases hd : (dist3 a st.rows1 u st.c1).bad = true
      · simp [hd]
      · by_cases hm : st.mBalance < u.total3
        · simp [hd, hm]
        · simp [hd, hm] at h

/-- what an accepted `DebitAccount` does -/
theorem debit3_ok_eq (st : Store) (a : Acct) (u : Usage) (h : (st.debit3 a u).2 = .ok) :
    a ∈ st.accts ∧ u.total3 ≤ st.bal a ∧ u.total3 ≤ st.mBalance ∧ (dist3 a st.rows1 u st.c1).bad = false ∧
    (st.debit3 a u).1 = { st with bal := upd st.bal a (st.bal a - u.total3),
                                  rows1 := (dist3 a st.rows1 u st.c1).rows, c1 := (dist3 a st.rows1 u st.c1).cs,
                                  mBalance := st.mBalance - u.total3,
                                  wd := upd st.wd a (st.wd a + u.total3) } := by
  unfold Store.debit3 at h ⊢
  by_cases ha : a ∉ st.accts
  · simp [if_pos ha] at h
  · by_cases hb : st.bal a < u.total3
    · simp [if_neg ha, if_pos hb] at h
    · simp only [if_neg ha, if_neg hb] at h ⊢
      by_cases hd : (dist3 a st.rows1 u st.c1).bad = true
      · simp [hd] at h
      · by_cases hm : st.mBalance < u.total3
        · simp [hd, hm] at h
        · simp only [Bool.not_eq_true] at hd
          refine ⟨by simpa using ha, by omega, by omega, hd, ?_⟩
          simp [hd, hm]

theorem debit3_inv (f : Facts) (st : Store) (a : Acct) (u : Usage) (h : StoreInv f st) :
    StoreInv f (st.debit3 a u).1 := by
  by_cases hok : (st.debit3 a u).2 = .ok
  · obtain ⟨ha, hb, hm, _, he⟩ := debit3_ok_eq st a u hok
    rw [he]
    obtain ⟨_, hf2, _⟩ := distG_fund dist3_ok a st.rows1 u st.c1 (fun c => Nat.le_of_eq (h.fund1 c).symm)
    obtain ⟨ha1, _, ha3⟩ := distG_acct dist3_ok a st.rows1 u st.c1
    refine ⟨?_, ⟨h.accts.nodup, ?_, h.accts.active⟩, ?_, ?_, h.fund2, ?_⟩
    · intro x
      by_cases hx : x = a
      · subst hx; simp only [upd_same]; have := h.led x; omega
      · simp only [upd_other _ _ _ _ hx]; exact h.led x
    · intro x hx
      have hne : x ≠ a := fun e => hx (e ▸ ha)
      simp only [upd_other _ _ _ _ hne]; exact h.accts.absent x hx
    · have := sumBal_upd_in st.bal a (st.bal a - u.total3) st.accts h.accts.nodup ha
      have := h.metric
      show st.mBalance - u.total3 = sumBal (upd st.bal a (st.bal a - u.total3)) st.accts + (if f.rhp4DebitMetric then 0 else st.r4deb)
      omega
    · intro c
      have := hf2 c
      have := h.fund1 c
      show ((dist3 a st.rows1 u st.c1).cs c).accountFunding = rowsum c (dist3 a st.rows1 u st.c1).rows
      simp only [dist3] at *
      omega
    · intro x
      show upd st.bal a (st.bal a - u.total3) x ≤ acctsum x (dist3 a st.rows1 u st.c1).rows + acctsum x st.rows2
      by_cases hx : x = a
      · subst hx
        have := h.cover x
        simp only [upd_same, dist3] at *
        omega
      · have := h.cover x
        have := ha3 x hx
        simp only [upd_other _ _ _ _ hx, dist3] at *
        omega
  · rw [debit3_refused st a u hok]; exact h

theorem debit4_no_panic (f : Facts) (st : Store) (a : Acct) (u : Usage) (h : StoreInv f st) :
    (st.debit4 f a u).2 ≠ .panic := by
  unfold Store.debit4
  by_cases ha : a ∉ st.accts
  · simp [if_pos ha]
  · by_cases hb : st.bal a < u.cost4
    · simp [if_pos hb]
    · have hd := (distG_fund dist4_ok a st.rows2 u st.c2 (fun c => Nat.le_of_eq (h.fund2 c).symm)).1
      have hge := sumBal_ge st.bal a st.accts (by simpa using ha)
      have hm := h.metric
      simp only [if_neg ha, if_neg hb, dist4, hd]
      cases hf : f.rhp4DebitMetric
      · simp
      · simp only [hf, if_true] at hm
        have hmb : ¬ st.mBalance < u.cost4 := by omega
        simp [hmb]

theorem debit4_refused (f : Facts) (st : Store) (a : Acct) (u : Usage) (h : (st.debit4 f a u).2 ≠ .ok) :
    (st.debit4 f a u).1 = st := by
  unfold Store.debit4 at h ⊢
  by_cases ha : a ∉ st.accts
  · simp [if_pos ha]
  · by_cases hb : st.bal a < u.cost4
    · simp [if_pos hb]
    · simp only [if_neg ha, if_neg hb] at h ⊢
      by_cases hd : (dist4 a st.rows2 u st.c2).bad = true
      · simp [hd]
      · by_cases hm : (f.rhp4DebitMetric && decide (st.mBalance < u.cost4)) = true
        · simp [hd, hm]
        · simp [hd, hm] at h

theorem debit4_ok_eq (f : Facts) (st : Store) (a : Acct) (u : Usage) (h : (st.debit4 f a u).2 = .ok) :
    a ∈ st.accts ∧ u.cost4 ≤ st.bal a ∧ (f.rhp4DebitMetric = true → u.cost4 ≤ st.mBalance) ∧
    (dist4 a st.rows2 u st.c2).bad = false ∧
    (st.debit4 f a u).1 = { st with bal := upd st.bal a (st.bal a - u.cost4),
                                    rows2 := (dist4 a st.rows2 u st.c2).rows, c2 := (dist4 a st.rows2 u st.c2).cs,
                                    mBalance := if f.rhp4DebitMetric then st.mBalance - u.cost4 else st.mBalance,
                                    wd := upd st.wd a (st.wd a + u.cost4),
                                    r4deb := st.r4deb + u.cost4 } := by
  unfold Store.debit4 at h ⊢
  by_cases ha : a ∉ st.accts
  · simp [if_pos ha] at h
  · by_cases hb : st.bal a < u.cost4
    · simp [if_pos hb] at h
    · simp only [if_neg ha, if_neg hb] at h ⊢
      by_cases hd : (dist4 a st.rows2 u st.c2).bad = true
      · simp [hd] at h
      · by_cases hm : (f.rhp4DebitMetric && decide (st.mBalance < u.cost4)) = true
        · simp [hd, hm] at h
        · simp only [Bool.not_eq_true] at hd
          refine ⟨by simpa using ha, by omega, ?_, hd, ?_⟩
          · intro hf
            simp only [hf, Bool.true_and, decide_eq_true_eq] at hm
            omega
          · simp [hd, hm]

theorem debit4_inv (f : Facts) (st : Store) (a : Acct) (u : Usage) (h : StoreInv f st) :
    StoreInv f (st.debit4 f a u).1 := by
  by_cases hok : (st.debit4 f a u).2 = .ok
  · obtain ⟨ha, hb, hm, _, he⟩ := debit4_ok_eq f st a u hok
    rw [he]
    obtain ⟨_, hf2, _⟩ := distG_fund dist4_ok a st.rows2 u st.c2 (fun c => Nat.le_of_eq (h.fund2 c).symm)
    obtain ⟨ha1, _, ha3⟩ := distG_acct dist4_ok a st.rows2 u st.c2
    refine ⟨?_, ⟨h.accts.nodup, ?_, h.accts.active⟩, ?_, h.fund1, ?_, ?_⟩
    · intro x
      by_cases hx : x = a
      · subst hx; simp only [upd_same]; have := h.led x; omega
      · simp only [upd_other _ _ _ _ hx]; exact h.led x
    · intro x hx
      have hne : x ≠ a := fun e => hx (e ▸ ha)
      simp only [upd_other _ _ _ _ hne]; exact h.accts.absent x hx
    · have hs := sumBal_upd_in st.bal a (st.bal a - u.cost4) st.accts h.accts.nodup ha
      have hmt := h.metric
      have hge := sumBal_ge st.bal a st.accts ha
      show (if f.rhp4DebitMetric then st.mBalance - u.cost4 else st.mBalance) =
        sumBal (upd st.bal a (st.bal a - u.cost4)) st.accts + (if f.rhp4DebitMetric then 0 else st.r4deb + u.cost4)
      cases hf : f.rhp4DebitMetric
      · simp only [hf] at hmt ⊢
        simp only [Bool.false_eq_true, if_false] at hmt ⊢
        omega
      · simp only [hf, if_true] at hmt ⊢
        omega
    · intro c
      have := hf2 c
      have := h.fund2 c
      show ((dist4 a st.rows2 u st.c2).cs c).accountFunding = rowsum c (dist4 a st.rows2 u st.c2).rows
      simp only [dist4] at *
      omega
    · intro x
      show upd st.bal a (st.bal a - u.cost4) x ≤ acctsum x st.rows1 + acctsum x (dist4 a st.rows2 u st.c2).rows
      have hcd : u.dist4 ≤ u.cost4 := by simp only [Usage.dist4, Usage.cost4]; omega
      by_cases hx : x = a
      · subst hx
        have := h.cover x
        simp only [upd_same, dist4] at *
        omega
      · have := h.cover x
        have := ha3 x hx
        simp only [upd_other _ _ _ _ hx, dist4] at *
        omega
  · rw [debit4_refused f st a u hok]; exact h

/-- what the deposit loop of `RHP4CreditAccounts` does -/
structure Deps4Spec (st r : Store) (c : Cid) (deps : List (Acct × Nat)) : Prop where
  accts : AcctsOK r
  sum   : sumBal r.bal r.accts = sumBal st.bal st.accts + sumDeps deps
  bal   : ∀ x, r.bal x = st.bal x + depsFor x deps
  dep   : ∀ x, r.dep x = st.dep x + depsFor x deps
  rows  : ∀ k, rowsum k r.rows2 = rowsum k st.rows2 + (if c = k then sumDeps deps else 0)
  arows : ∀ b, acctsum b r.rows2 = acctsum b st.rows2 + depsFor b deps
  rows1 : r.rows1 = st.rows1
  c1    : r.c1 = st.c1
  c2    : r.c2 = st.c2
  mbal  : r.mBalance = st.mBalance
  wd    : r.wd = st.wd
  r4deb : r.r4deb = st.r4deb

theorem deposits4_spec (c : Cid) : ∀ (deps : List (Acct × Nat)) (st : Store), AcctsOK st →
    Deps4Spec st (st.deposits4 c deps).1 c deps := by
  intro deps
  induction deps with
  | nil =>
    intro st h
    exact ⟨h, by simp [Store.deposits4, sumDeps], by simp [Store.deposits4, depsFor], by simp [Store.deposits4, depsFor],
      by simp [Store.deposits4, sumDeps], by simp [Store.deposits4, depsFor], rfl, rfl, rfl, rfl, rfl, rfl⟩
  | cons d rest ih =>
    intro st h
    obtain ⟨a, amt⟩ := d
    obtain ⟨hok, hsum, _⟩ := deposit_ok st a amt h
    have h2 : AcctsOK { st.deposit a amt with rows2 := upsert (st.deposit a amt).rows2 c a amt } :=
      ⟨hok.nodup, hok.absent, hok.active⟩
    have := ih _ h2
    simp only [Store.deposits4]
    refine ⟨this.accts, ?_, ?_, ?_, ?_, ?_, ?_, ?_, ?_, ?_, ?_, ?_⟩
    · rw [this.sum]
      show sumBal (st.deposit a amt).bal (st.deposit a amt).accts + sumDeps rest = _
      rw [hsum]; simp only [sumDeps]; omega
    · intro x
      rw [this.bal x]
      simp only [depsFor, Store.deposit]
      by_cases hx : x = a
      · subst hx; simp only [upd_same, if_pos]; omega
      · have hne : ¬ a = x := fun e => hx e.symm
        simp only [upd_other _ _ _ _ hx, if_neg hne]; omega
    · intro x
      rw [this.dep x]
      simp only [depsFor, Store.deposit]
      by_cases hx : x = a
      · subst hx; simp only [upd_same, if_pos]; omega
      · have hne : ¬ a = x := fun e => hx e.symm
        simp only [upd_other _ _ _ _ hx, if_neg hne]; omega
    · intro k
      rw [this.rows k]
      simp only [rowsum_upsert, sumDeps, Store.deposit]
      by_cases hk : c = k <;> simp [hk] <;> omega
    · intro b
      rw [this.arows b]
      simp only [acctsum_upsert, depsFor, Store.deposit]
      by_cases hb : a = b <;> simp [hb] <;> omega
    · rw [this.rows1]; rfl
    · rw [this.c1]; rfl
    · rw [this.c2]; rfl
    · rw [this.mbal]; rfl
    · rw [this.wd]; rfl
    · rw [this.r4deb]; rfl

/-- `RHP4CreditAccounts` keeps the invariant when the caller's `usage.AccountFunding` is the
sum of the deposits (which is how `handleRPCFundAccounts`/`ReviseForFundAccounts` build it). -/
theorem credit4_inv (f : Facts) (st st' : Store) (c : Cid) (deps : List (Acct × Nat)) (u : Usage) (bals : List Nat)
    (h : StoreInv f st) (hu : u.accountFunding = sumDeps deps)
    (he : st.credit4 c deps u = some (st', bals)) : StoreInv f st' := by
  unfold Store.credit4 at he
  by_cases hc : c < st.n2
  · simp only [if_pos hc, Option.some.injEq, Prod.mk.injEq] at he
    obtain ⟨he, _⟩ := he
    subst he
    have sp := deposits4_spec c deps st h.accts
    refine ⟨?_, ⟨sp.accts.nodup, sp.accts.absent, sp.accts.active⟩, ?_, ?_, ?_, ?_⟩
    · intro x
      show (st.deposits4 c deps).1.bal x + (st.deposits4 c deps).1.wd x = (st.deposits4 c deps).1.dep x
      rw [sp.bal, sp.dep, sp.wd]; have := h.led x; omega
    · show (st.deposits4 c deps).1.mBalance + u.accountFunding =
        sumBal (st.deposits4 c deps).1.bal (st.deposits4 c deps).1.accts + (if f.rhp4DebitMetric then 0 else (st.deposits4 c deps).1.r4deb)
      rw [sp.mbal, sp.sum, sp.r4deb, hu]; have := h.metric; omega
    · intro k
      show ((st.deposits4 c deps).1.c1 k).accountFunding = rowsum k (st.deposits4 c deps).1.rows1
      rw [sp.c1, sp.rows1]; exact h.fund1 k
    · intro k
      show (upd (st.deposits4 c deps).1.c2 c (addUsage2 ((st.deposits4 c deps).1.c2 c) u) k).accountFunding =
        rowsum k (st.deposits4 c deps).1.rows2
      rw [sp.rows k, sp.c2]
      by_cases hk : k = c
      · subst hk; simp only [upd_same, addUsage2, if_pos]; have := h.fund2 k; omega
      · have hne : ¬ c = k := fun e => hk e.symm
        simp only [upd_other _ _ _ _ hk, if_neg hne]; have := h.fund2 k; omega
    · intro x
      show (st.deposits4 c deps).1.bal x ≤ acctsum x (st.deposits4 c deps).1.rows1 + acctsum x (st.deposits4 c deps).1.rows2
      rw [sp.bal, sp.rows1, sp.arows]; have := h.cover x; omega
  · simp [if_neg hc] at he

end Hostd.Accounts
