import Hostd.Lemmas.ChainAlg
/-!
Projection of the global store model (`fire`, `fireAll`, `setConfRevAll`, … of `Model/Chain.lean`)
on a single contract: what `findC ver id` returns after a stage is what the per-contract function
returns on what it returned before.  These lemmas connect the executed model with the per-contract
semantics (`evApply`/`evRevert`/`rejectC`) the C01 theorems are stated about.
-/
namespace Hostd.Chain

/-- the state-transforming stages only ever replace a stored contract by one with the same key -/
theorem fireC_key {T : Table} {fn : Fn} {h : Nat} {c c' : Contract} (hc : fireC T fn h c = .ok c') :
    c'.ver = c.ver ∧ c'.id = c.id := by
  unfold fireC at hc
  split at hc <;> first | (cases hc; exact ⟨rfl, rfl⟩) | cases hc

/-- lookup after one `fire` -/
theorem fire_lookup {T : Table} {ver : Ver} {fn : Fn} {h : Nat} {s s' : State} {id : Nat}
    (hf : fire T ver fn h s id = .ok s') :
    ∃ c c', findC ver id s.cs = some c ∧ fireC T fn h c = .ok c' ∧
      ∀ v i, findC v i s'.cs = if v = ver ∧ i = id then some c' else findC v i s.cs := by
  simp only [fire] at hf
  split at hf
  · cases hf
  · rename_i c hfind
    simp only [bind, Except.bind] at hf
    split at hf
    · cases hf
    · rename_i c' hc
      split at hf
      · cases hf
      · cases hf
        obtain ⟨hv, hi⟩ := findC_some_ver_id hfind
        obtain ⟨hv', hi'⟩ := fireC_key hc
        refine ⟨c, c', hfind, hc, ?_⟩
        intro v i
        by_cases hvi : v = ver ∧ i = id
        · obtain ⟨rfl, rfl⟩ := hvi
          simp only [and_self, if_true]
          exact findC_setC_same hfind (by rw [hv', hv]) (by rw [hi', hi])
        · simp only [hvi, if_false]
          exact findC_setC_other (by rw [hv', hv]) (by rw [hi', hi]) hvi

/-- a per-contract function applied to an optional contract, keeping absent contracts absent -/
def optApply (f : Contract → Except Fault Contract) (o : Option Contract) : Option Contract :=
  match o with
  | none => none
  | some c => match f c with
    | .ok c' => some c'
    | .error _ => none

/-- lookup after `fireAll` over a duplicate-free id list -/
theorem fireAll_lookup {T : Table} {ver : Ver} {fn : Fn} {h : Nat} :
    ∀ (ids : List Nat) (s s' : State), ids.Nodup → fireAll T ver fn h ids s = .ok s' →
      ∀ v i, findC v i s'.cs =
        if v = ver ∧ i ∈ ids then optApply (fireC T fn h) (findC v i s.cs) else findC v i s.cs := by
  intro ids
  induction ids with
  | nil => intro s s' _ hf v i; simp [fireAll] at hf; cases hf; simp
  | cons id rest ih =>
    intro s s' hn hf v i
    simp only [fireAll, bind, Except.bind] at hf
    split at hf
    · cases hf
    · rename_i s1 h1
      obtain ⟨c, c', hfind, hc, hlook⟩ := fire_lookup h1
      have hnr : rest.Nodup := (List.nodup_cons.mp hn).2
      have hid : id ∉ rest := (List.nodup_cons.mp hn).1
      rw [ih s1 s' hnr hf v i, hlook v i]
      by_cases hv : v = ver
      · subst hv
        by_cases hi : i = id
        · subst hi
          simp [hid, hfind, optApply, hc]
        · by_cases hir : i ∈ rest <;> simp [hi, hir]
      · simp [hv]

theorem setConfRev_lookup {ver : Ver} {s s' : State} {x : Nat × Nat} (hf : setConfRev ver s x = .ok s') :
    ∃ c, findC ver x.1 s.cs = some c ∧
      ∀ v i, findC v i s'.cs = if v = ver ∧ i = x.1 then some (setRev c x.2) else findC v i s.cs := by
  simp only [setConfRev] at hf
  split at hf
  · cases hf
  · rename_i c hfind
    cases hf
    obtain ⟨hv, hi⟩ := findC_some_ver_id hfind
    refine ⟨c, hfind, ?_⟩
    intro v i
    have hk : (setRev c x.2).ver = ver ∧ (setRev c x.2).id = x.1 := by
      unfold setRev; cases hcv : c.ver <;> simp [← hv, hcv, hi]
    by_cases hvi : v = ver ∧ i = x.1
    · obtain ⟨rfl, rfl⟩ := hvi
      simp only [and_self, if_true]
      exact findC_setC_same hfind hk.1 hk.2
    · simp only [hvi, if_false]
      exact findC_setC_other hk.1 hk.2 hvi

/-- the revision number recorded for contract `i` by a revision list (first match) -/

theorem setConfRevAll_lookup {ver : Ver} :
    ∀ (xs : List (Nat × Nat)) (s s' : State), (xs.map (·.1)).Nodup → setConfRevAll ver xs s = .ok s' →
      ∀ v i, findC v i s'.cs =
        match (if v = ver then revFor i xs else none) with
        | some n => (findC v i s.cs).map (fun c => setRev c n)
        | none => findC v i s.cs := by
  intro xs
  induction xs with
  | nil => intro s s' _ hf v i; simp [setConfRevAll] at hf; cases hf; simp [revFor]
  | cons x rest ih =>
    intro s s' hn hf v i
    simp only [setConfRevAll, bind, Except.bind] at hf
    split at hf
    · cases hf
    · rename_i s1 h1
      obtain ⟨c, hfind, hlook⟩ := setConfRev_lookup h1
      simp only [List.map_cons, List.nodup_cons] at hn
      rw [ih s1 s' hn.2 hf v i, hlook v i]
      by_cases hv : v = ver
      · subst hv
        by_cases hi : i = x.1
        · subst hi
          have hnot : revFor x.1 rest = none := by
            unfold revFor
            cases hfd : rest.find? (·.1 == x.1) with
            | none => rfl
            | some y =>
              exfalso
              have hm := List.mem_of_find?_eq_some hfd
              have hp := List.find?_some hfd
              simp only [beq_iff_eq] at hp
              exact hn.1 (List.mem_map.mpr ⟨y, hm, hp⟩)
          unfold revFor at hnot
          simp [hnot, revFor, hfind]
        · have hne : ¬ (x.1 == i) = true := by simp; exact fun h => hi h.symm
          simp [hi, revFor, List.find?_cons, hne]
      · simp [hv]


theorem upsertElem_lookup {s s' : State} {x : Nat × Nat} (hf : upsertElem s x = .ok s') :
    ∃ c, findC .v2 x.1 s.cs = some c ∧
      ∀ v i, findC v i s'.cs = if v = .v2 ∧ i = x.1 then some { c with confRev := some x.2 } else findC v i s.cs := by
  simp only [upsertElem] at hf
  split at hf
  · cases hf
  · rename_i c hfind
    cases hf
    obtain ⟨hv, hi⟩ := findC_some_ver_id hfind
    refine ⟨c, hfind, ?_⟩
    intro v i
    by_cases hvi : v = .v2 ∧ i = x.1
    · obtain ⟨rfl, rfl⟩ := hvi
      simp only [and_self, if_true]
      exact findC_setC_same hfind hv hi
    · simp only [hvi, if_false]
      exact findC_setC_other (c' := { c with confRev := some x.2 }) hv hi hvi

theorem deleteElem_lookup {s s' : State} {id : Nat} (hf : deleteElem s id = .ok s') :
    ∃ c, findC .v2 id s.cs = some c ∧
      ∀ v i, findC v i s'.cs = if v = .v2 ∧ i = id then some { c with confRev := none } else findC v i s.cs := by
  simp only [deleteElem] at hf
  split at hf
  · cases hf
  · rename_i c hfind
    cases hf
    obtain ⟨hv, hi⟩ := findC_some_ver_id hfind
    refine ⟨c, hfind, ?_⟩
    intro v i
    by_cases hvi : v = .v2 ∧ i = id
    · obtain ⟨rfl, rfl⟩ := hvi
      simp only [and_self, if_true]
      exact findC_setC_same hfind hv hi
    · simp only [hvi, if_false]
      exact findC_setC_other (c' := { c with confRev := none }) hv hi hvi

theorem formV2All_lookup {T : Table} {h : Nat} :
    ∀ (xs : List (Nat × Nat)) (s s' : State), (xs.map (·.1)).Nodup → formV2All T h xs s = .ok s' →
      ∀ v i, findC v i s'.cs =
        match (if v = .v2 then revFor i xs else none) with
        | some r => optApply (fun c => fireC T .aForm h { c with confRev := some r }) (findC v i s.cs)
        | none => findC v i s.cs := by
  intro xs
  induction xs with
  | nil => intro s s' _ hf v i; simp [formV2All] at hf; cases hf; simp [revFor]
  | cons x rest ih =>
    intro s s' hn hf v i
    simp only [formV2All, bind, Except.bind] at hf
    split at hf
    · cases hf
    · rename_i s1 h1
      split at hf
      · cases hf
      · rename_i s2 h2
        obtain ⟨c, hfind, hlook1⟩ := upsertElem_lookup h1
        obtain ⟨c1, c2, hfind2, hc2, hlook2⟩ := fire_lookup h2
        simp only [List.map_cons, List.nodup_cons] at hn
        rw [ih s2 s' hn.2 hf v i, hlook2 v i, hlook1 v i]
        have hc1 : c1 = { c with confRev := some x.2 } := by
          have := hlook1 .v2 x.1
          simp only [and_self, if_true] at this
          rw [hfind2] at this
          exact Option.some.inj this
        by_cases hv : v = .v2
        · subst hv
          by_cases hi : i = x.1
          · subst hi
            have hnot : (rest.find? (·.1 == x.1)) = none := by
              cases hfd : rest.find? (·.1 == x.1) with
              | none => rfl
              | some y =>
                exfalso
                have hm := List.mem_of_find?_eq_some hfd
                have hp := List.find?_some hfd
                simp only [beq_iff_eq] at hp
                exact hn.1 (List.mem_map.mpr ⟨y, hm, hp⟩)
            simp [revFor, hnot, hfind, optApply, ← hc1, hc2]
          · have hne : ¬ (x.1 == i) = true := by simp; exact fun h => hi h.symm
            simp [hi, revFor, hne]
        · simp [hv]

theorem unformV2All_lookup {T : Table} {h : Nat} :
    ∀ (ids : List Nat) (s s' : State), ids.Nodup → unformV2All T h ids s = .ok s' →
      ∀ v i, findC v i s'.cs =
        if v = .v2 ∧ i ∈ ids then optApply (fun c => fireC T .rForm h { c with confRev := none }) (findC v i s.cs)
        else findC v i s.cs := by
  intro ids
  induction ids with
  | nil => intro s s' _ hf v i; simp [unformV2All] at hf; cases hf; simp
  | cons id rest ih =>
    intro s s' hn hf v i
    simp only [unformV2All, bind, Except.bind] at hf
    split at hf
    · cases hf
    · rename_i s1 h1
      split at hf
      · cases hf
      · rename_i s2 h2
        obtain ⟨c, hfind, hlook1⟩ := deleteElem_lookup h1
        obtain ⟨c1, c2, hfind2, hc2, hlook2⟩ := fire_lookup h2
        have hnr : rest.Nodup := (List.nodup_cons.mp hn).2
        have hid : id ∉ rest := (List.nodup_cons.mp hn).1
        rw [ih s2 s' hnr hf v i, hlook2 v i, hlook1 v i]
        have hc1 : c1 = { c with confRev := none } := by
          have := hlook1 .v2 id
          simp only [and_self, if_true] at this
          rw [hfind2] at this
          exact Option.some.inj this
        by_cases hv : v = .v2
        · subst hv
          by_cases hi : i = id
          · subst hi
            simp [hid, hfind, optApply, ← hc1, hc2]
          · by_cases hir : i ∈ rest <;> simp [hi, hir]
        · simp [hv]


/-! ### the nine stages of `applyContracts` as one contract sees them -/

def applyStages (T : Table) (h : Nat) (ch : Changes) (v : Ver) (i : Nat) (o : Option Contract) : Option Contract :=
  let o := if v = .v1 ∧ i ∈ ch.form1 then optApply (fireC T .aForm h) o else o
  let o := match (if v = .v1 then revFor i ch.rev1 else none) with
    | some n => o.map (fun c => setRev c n)
    | none => o
  let o := if v = .v1 ∧ i ∈ ch.succ1 then optApply (fireC T .aSucc h) o else o
  let o := if v = .v1 ∧ i ∈ ch.fail1 then optApply (fireC T .aFail h) o else o
  let o := match (if v = .v2 then revFor i ch.form2 else none) with
    | some r => optApply (fun c => fireC T .aForm h { c with confRev := some r }) o
    | none => o
  let o := match (if v = .v2 then revFor i ch.rev2 else none) with
    | some n => o.map (fun c => setRev c n)
    | none => o
  let o := if v = .v2 ∧ i ∈ ch.succ2 then optApply (fireC T .aSucc h) o else o
  let o := if v = .v2 ∧ i ∈ ch.renew2 then optApply (fireC T .aRenew h) o else o
  if v = .v2 ∧ i ∈ ch.fail2 then optApply (fireC T .aFail h) o else o

/-- every list of a block's changes mentions a contract at most once -/
structure ListsNodup (ch : Changes) : Prop where
  form1 : ch.form1.Nodup
  rev1 : (ch.rev1.map (·.1)).Nodup
  succ1 : ch.succ1.Nodup
  fail1 : ch.fail1.Nodup
  form2 : (ch.form2.map (·.1)).Nodup
  rev2 : (ch.rev2.map (·.1)).Nodup
  succ2 : ch.succ2.Nodup
  renew2 : ch.renew2.Nodup
  fail2 : ch.fail2.Nodup

theorem applyContracts_lookup {T : Table} {h : Nat} {ch : Changes} {s s' : State} (hn : ListsNodup ch)
    (hf : applyContracts T h ch s = .ok s') (v : Ver) (i : Nat) :
    findC v i s'.cs = applyStages T h ch v i (findC v i s.cs) := by
  unfold applyContracts at hf
  simp only [bind, Except.bind] at hf
  split at hf; · cases hf
  rename_i s1 h1
  split at hf; · cases hf
  rename_i s2 h2
  split at hf; · cases hf
  rename_i s3 h3
  split at hf; · cases hf
  rename_i s4 h4
  split at hf; · cases hf
  rename_i s5 h5
  split at hf; · cases hf
  rename_i s6 h6
  split at hf; · cases hf
  rename_i s7 h7
  split at hf; · cases hf
  rename_i s8 h8
  rw [fireAll_lookup _ _ _ hn.fail2 hf v i, fireAll_lookup _ _ _ hn.renew2 h8 v i,
    fireAll_lookup _ _ _ hn.succ2 h7 v i, setConfRevAll_lookup _ _ _ hn.rev2 h6 v i,
    formV2All_lookup _ _ _ hn.form2 h5 v i, fireAll_lookup _ _ _ hn.fail1 h4 v i,
    fireAll_lookup _ _ _ hn.succ1 h3 v i, setConfRevAll_lookup _ _ _ hn.rev1 h2 v i,
    fireAll_lookup _ _ _ hn.form1 h1 v i]
  rfl


theorem revFor_none_iff (i : Nat) (xs : List (Nat × Nat)) : revFor i xs = none ↔ i ∉ xs.map (·.1) := by
  unfold revFor
  induction xs with
  | nil => simp
  | cons x rest ih =>
    by_cases hx : x.1 = i
    · simp [List.find?_cons, hx]
    · have : ¬ i = x.1 := fun h => hx h.symm
      simpa [List.find?_cons, hx, this] using ih

theorem revFor_some_mem {i n : Nat} {xs : List (Nat × Nat)} (h : revFor i xs = some n) : i ∈ xs.map (·.1) := by
  by_cases hm : i ∈ xs.map (·.1)
  · exact hm
  · rw [(revFor_none_iff i xs).mpr hm] at h; cases h

/-! ### algebra of `optApply` and of the per-contract event lists -/

theorem optApply_optApply (f g : Contract → Except Fault Contract) (o : Option Contract) :
    optApply g (optApply f o) = optApply (fun c => f c >>= g) o := by
  cases o with
  | none => rfl
  | some c =>
    simp only [optApply, bind, Except.bind]
    cases f c <;> rfl

theorem map_eq_optApply (g : Contract → Contract) (o : Option Contract) :
    o.map g = optApply (fun c => .ok (g c)) o := by
  cases o <;> rfl

theorem ite_optApply (p : Prop) [Decidable p] (f : Contract → Except Fault Contract) (o : Option Contract) :
    (if p then optApply f o else o) = optApply (fun c => if p then f c else .ok c) o := by
  by_cases hp : p
  · simp [hp]
  · cases o <;> simp [hp, optApply]

theorem optApply_congr {f g : Contract → Except Fault Contract} {c : Contract} (h : f c = g c) :
    optApply f (some c) = optApply g (some c) := by
  simp only [optApply, h]

theorem ok_bind (a : Contract) (f : Contract → Except Fault Contract) :
    ((Except.ok a : Except Fault Contract) >>= f) = f a := rfl
theorem bind_ok (x : Except Fault Contract) : (x >>= fun c => (Except.ok c : Except Fault Contract)) = x := by
  cases x <;> rfl

theorem evsApply_append (T : Table) (h : Nat) (c : Contract) (a b : List Ev) :
    evsApply T h c (a ++ b) = (evsApply T h c a >>= fun c1 => evsApply T h c1 b) := by
  induction a generalizing c with
  | nil => rfl
  | cons e es ih =>
    simp only [List.cons_append, evsApply, bind, Except.bind]
    cases evApply T h c e with
    | error x => rfl
    | ok c1 => exact ih c1

theorem evsRevert_append (T : Table) (h : Nat) (c : Contract) (a b : List Ev) :
    evsRevert T h c (a ++ b) = (evsRevert T h c a >>= fun c1 => evsRevert T h c1 b) := by
  induction a generalizing c with
  | nil => rfl
  | cons e es ih =>
    simp only [List.cons_append, evsRevert, bind, Except.bind]
    cases evRevert T h c e with
    | error x => rfl
    | ok c1 => exact ih c1

theorem evsApply_single (T : Table) (h : Nat) (c : Contract) (e : Ev) : evsApply T h c [e] = evApply T h c e := by
  simp only [evsApply, bind, Except.bind]
  cases evApply T h c e <;> rfl

theorem evsRevert_single (T : Table) (h : Nat) (c : Contract) (e : Ev) : evsRevert T h c [e] = evRevert T h c e := by
  simp only [evsRevert, bind, Except.bind]
  cases evRevert T h c e <;> rfl

/-- The nine stages of `applyContracts`, as contract `(v,i)` sees them, are the per-contract events
`eventsFor v i ch` processed in order — for **every** block of changes (no disjointness needed). -/
theorem applyStages_eq_events (T : Table) (h : Nat) (ch : Changes) (v : Ver) (i : Nat) (c : Contract)
    (hv : c.ver = v) :
    applyStages T h ch v i (some c) = optApply (fun c => evsApply T h c (eventsFor v i ch)) (some c) := by
  cases v with
  | v1 =>
    simp only [applyStages, eventsFor, reduceCtorEq, false_and, if_false, if_true, true_and]
    by_cases hf : i ∈ ch.form1 <;> cases hr : revFor i ch.rev1 <;>
      by_cases hs : i ∈ ch.succ1 <;> by_cases hfl : i ∈ ch.fail1 <;>
      simp only [hf, hs, hfl, if_true, if_false, map_eq_optApply, optApply_optApply, evIf, evOpt,
        List.contains_iff_mem, decide_true, decide_false, List.nil_append, List.append_nil, List.cons_append] <;>
      (try rfl) <;>
      (apply optApply_congr) <;>
      simp only [evsApply, evApply, hv, ok_bind, bind_ok, bind_assoc, reduceCtorEq, if_false, if_true]
  | v2 =>
    simp only [applyStages, eventsFor, reduceCtorEq, false_and, if_false, if_true, true_and]
    cases hfm : revFor i ch.form2 <;> cases hr : revFor i ch.rev2 <;>
      by_cases hs : i ∈ ch.succ2 <;> by_cases hrn : i ∈ ch.renew2 <;> by_cases hfl : i ∈ ch.fail2 <;>
      simp only [hs, hrn, hfl, if_true, if_false, map_eq_optApply, optApply_optApply, evIf, evOpt,
        List.contains_iff_mem, decide_true, decide_false, List.nil_append, List.append_nil, List.cons_append] <;>
      (try rfl) <;>
      (apply optApply_congr) <;>
      simp only [evsApply, evApply, hv, ok_bind, bind_ok, bind_assoc, reduceCtorEq, if_false, if_true]

/-! ### the same for `revertContracts` -/

theorem unformV2All_lookup' {T : Table} {h : Nat} (xs : List (Nat × Nat)) (s s' : State)
    (hn : (xs.map (·.1)).Nodup) (hf : unformV2All T h (xs.map (·.1)) s = .ok s') (v : Ver) (i : Nat) :
    findC v i s'.cs =
      match (if v = .v2 then revFor i xs else none) with
      | some _ => optApply (fun c => fireC T .rForm h { c with confRev := none }) (findC v i s.cs)
      | none => findC v i s.cs := by
  rw [unformV2All_lookup _ _ _ hn hf v i]
  by_cases hv : v = .v2
  · subst hv
    by_cases hm : i ∈ xs.map (·.1)
    · have : revFor i xs ≠ none := fun h => ((revFor_none_iff i xs).mp h) hm
      cases hr : revFor i xs with
      | none => exact absurd hr this
      | some n => simp [hm]
    · have : revFor i xs = none := (revFor_none_iff i xs).mpr hm
      simp [hm, this]
  · simp [hv]

def revertStages (T : Table) (h : Nat) (ch : Changes) (v : Ver) (i : Nat) (o : Option Contract) : Option Contract :=
  let o := if v = .v1 ∧ i ∈ ch.form1 then optApply (fireC T .rForm h) o else o
  let o := match (if v = .v1 then revFor i ch.rev1 else none) with
    | some n => o.map (fun c => setRev c n)
    | none => o
  let o := if v = .v1 ∧ i ∈ ch.succ1 then optApply (fireC T .rSucc h) o else o
  let o := if v = .v1 ∧ i ∈ ch.fail1 then optApply (fireC T .rFail h) o else o
  let o := match (if v = .v2 then revFor i ch.form2 else none) with
    | some _ => optApply (fun c => fireC T .rForm h { c with confRev := none }) o
    | none => o
  let o := match (if v = .v2 then revFor i ch.rev2 else none) with
    | some n => o.map (fun c => setRev c n)
    | none => o
  let o := if v = .v2 ∧ i ∈ ch.succ2 then optApply (fireC T .rSucc h) o else o
  let o := if v = .v2 ∧ i ∈ ch.renew2 then optApply (fireC T .rRenew h) o else o
  if v = .v2 ∧ i ∈ ch.fail2 then optApply (fireC T .rFail h) o else o

theorem revertContracts_lookup {T : Table} {h : Nat} {ch : Changes} {s s' : State} (hn : ListsNodup ch)
    (hf : revertContracts T h ch s = .ok s') (v : Ver) (i : Nat) :
    findC v i s'.cs = revertStages T h ch v i (findC v i s.cs) := by
  unfold revertContracts at hf
  simp only [bind, Except.bind] at hf
  split at hf; · cases hf
  rename_i s1 h1
  split at hf; · cases hf
  rename_i s2 h2
  split at hf; · cases hf
  rename_i s3 h3
  split at hf; · cases hf
  rename_i s4 h4
  split at hf; · cases hf
  rename_i s5 h5
  split at hf; · cases hf
  rename_i s6 h6
  split at hf; · cases hf
  rename_i s7 h7
  split at hf; · cases hf
  rename_i s8 h8
  rw [fireAll_lookup _ _ _ hn.fail2 hf v i, fireAll_lookup _ _ _ hn.renew2 h8 v i,
    fireAll_lookup _ _ _ hn.succ2 h7 v i, setConfRevAll_lookup _ _ _ hn.rev2 h6 v i,
    unformV2All_lookup' _ _ _ hn.form2 h5 v i, fireAll_lookup _ _ _ hn.fail1 h4 v i,
    fireAll_lookup _ _ _ hn.succ1 h3 v i, setConfRevAll_lookup _ _ _ hn.rev1 h2 v i,
    fireAll_lookup _ _ _ hn.form1 h1 v i]
  rfl


/-- the same for `revertContracts` -/
theorem revertStages_eq_events (T : Table) (h : Nat) (ch : Changes) (v : Ver) (i : Nat) (c : Contract)
    (hv : c.ver = v) :
    revertStages T h ch v i (some c) = optApply (fun c => evsRevert T h c (eventsFor v i ch)) (some c) := by
  cases v with
  | v1 =>
    simp only [revertStages, eventsFor, reduceCtorEq, false_and, if_false, if_true, true_and]
    by_cases hf : i ∈ ch.form1 <;> cases hr : revFor i ch.rev1 <;>
      by_cases hs : i ∈ ch.succ1 <;> by_cases hfl : i ∈ ch.fail1 <;>
      simp only [hf, hs, hfl, if_true, if_false, map_eq_optApply, optApply_optApply, evIf, evOpt,
        List.contains_iff_mem, decide_true, decide_false, List.nil_append, List.append_nil, List.cons_append] <;>
      (try rfl) <;>
      (apply optApply_congr) <;>
      simp only [evsRevert, evRevert, hv, ok_bind, bind_ok, bind_assoc, reduceCtorEq, if_false, if_true]
  | v2 =>
    simp only [revertStages, eventsFor, reduceCtorEq, false_and, if_false, if_true, true_and]
    cases hfm : revFor i ch.form2 <;> cases hr : revFor i ch.rev2 <;>
      by_cases hs : i ∈ ch.succ2 <;> by_cases hrn : i ∈ ch.renew2 <;> by_cases hfl : i ∈ ch.fail2 <;>
      simp only [hs, hrn, hfl, if_true, if_false, map_eq_optApply, optApply_optApply, evIf, evOpt,
        List.contains_iff_mem, decide_true, decide_false, List.nil_append, List.append_nil, List.cons_append] <;>
      (try rfl) <;>
      (apply optApply_congr) <;>
      simp only [evsRevert, evRevert, hv, ok_bind, bind_ok, bind_assoc, reduceCtorEq, if_false, if_true]

/-! ### keys are never changed; the reject stage -/

def keyOf (c : Contract) : Ver × Nat := (c.ver, c.id)

theorem setC_keys (c' : Contract) (cs : List Contract) : (setC c' cs).map keyOf = cs.map keyOf := by
  induction cs with
  | nil => rfl
  | cons x xs ih =>
    by_cases hx : x.ver = c'.ver ∧ x.id = c'.id
    · simp [setC, hx, keyOf]
    · simp [setC, hx, ih]

/-- an operation that keeps the list of stored contract keys -/
def Keeps (f : State → Except Fault State) : Prop := ∀ s s', f s = .ok s' → s'.cs.map keyOf = s.cs.map keyOf

theorem Keeps.bind {f g : State → Except Fault State} (hf : Keeps f) (hg : Keeps g) : Keeps (fun s => f s >>= g) := by
  intro s s' h
  cases hfs : f s with
  | error e =>
    change f s >>= g = _ at h
    rw [hfs] at h
    have h' : (Except.error e : Except Fault State) = Except.ok s' := h
    cases h'
  | ok s1 =>
    change f s >>= g = _ at h
    rw [hfs] at h
    have h' : g s1 = Except.ok s' := h
    rw [hg s1 s' h', hf s s1 hfs]

theorem fire_keeps (T : Table) (ver : Ver) (fn : Fn) (h : Nat) (id : Nat) : Keeps (fun s => fire T ver fn h s id) := by
  intro s s' hf
  simp only [fire] at hf
  split at hf
  · cases hf
  · simp only [bind, Except.bind] at hf
    split at hf
    · cases hf
    · split at hf
      · cases hf
      · cases hf; exact setC_keys _ _

theorem fireAll_keeps (T : Table) (ver : Ver) (fn : Fn) (h : Nat) (ids : List Nat) : Keeps (fireAll T ver fn h ids) := by
  induction ids with
  | nil => intro s s' hf; simp [fireAll] at hf; cases hf; rfl
  | cons id rest ih =>
    intro s s' hf
    simp only [fireAll, bind, Except.bind] at hf
    split at hf
    · cases hf
    · rename_i s1 h1
      rw [ih s1 s' hf, fire_keeps T ver fn h id s s1 h1]

theorem setConfRev_keeps (ver : Ver) (x : Nat × Nat) : Keeps (fun s => setConfRev ver s x) := by
  intro s s' hf
  simp only [setConfRev] at hf
  split at hf
  · cases hf
  · cases hf; exact setC_keys _ _

theorem setConfRevAll_keeps (ver : Ver) (xs : List (Nat × Nat)) : Keeps (setConfRevAll ver xs) := by
  induction xs with
  | nil => intro s s' hf; simp [setConfRevAll] at hf; cases hf; rfl
  | cons x rest ih =>
    intro s s' hf
    simp only [setConfRevAll, bind, Except.bind] at hf
    split at hf
    · cases hf
    · rename_i s1 h1
      rw [ih s1 s' hf, setConfRev_keeps ver x s s1 h1]

theorem formV2All_keeps (T : Table) (h : Nat) (xs : List (Nat × Nat)) : Keeps (formV2All T h xs) := by
  induction xs with
  | nil => intro s s' hf; simp [formV2All] at hf; cases hf; rfl
  | cons x rest ih =>
    intro s s' hf
    simp only [formV2All, bind, Except.bind] at hf
    split at hf
    · cases hf
    · rename_i s1 h1
      split at hf
      · cases hf
      · rename_i s2 h2
        rw [ih s2 s' hf, fire_keeps T .v2 .aForm h x.1 s1 s2 h2]
        simp only [upsertElem] at h1
        split at h1
        · cases h1
        · cases h1; exact setC_keys _ _

theorem applyContracts_keeps (T : Table) (h : Nat) (ch : Changes) : Keeps (applyContracts T h ch) := by
  unfold applyContracts
  exact (fireAll_keeps T .v1 .aForm h ch.form1).bind <| (setConfRevAll_keeps .v1 ch.rev1).bind <|
    (fireAll_keeps T .v1 .aSucc h ch.succ1).bind <| (fireAll_keeps T .v1 .aFail h ch.fail1).bind <|
    (formV2All_keeps T h ch.form2).bind <| (setConfRevAll_keeps .v2 ch.rev2).bind <|
    (fireAll_keeps T .v2 .aSucc h ch.succ2).bind <| (fireAll_keeps T .v2 .aRenew h ch.renew2).bind <|
    (fireAll_keeps T .v2 .aFail h ch.fail2)

/-- the UNIQUE(contract_id) constraint of both contract tables -/
def KeysNodup (cs : List Contract) : Prop := (cs.map keyOf).Nodup

theorem findC_of_mem {cs : List Contract} (hk : KeysNodup cs) {c : Contract} (hm : c ∈ cs) :
    findC c.ver c.id cs = some c := by
  induction cs with
  | nil => cases hm
  | cons x xs ih =>
    simp only [KeysNodup, List.map_cons, List.nodup_cons] at hk
    rcases List.mem_cons.mp hm with rfl | hm'
    · simp [findC]
    · have hne : ¬ (x.ver = c.ver ∧ x.id = c.id) := by
        intro hx
        apply hk.1
        have : keyOf x = keyOf c := by simp [keyOf, hx.1, hx.2]
        rw [this]; exact List.mem_map.mpr ⟨c, hm', rfl⟩
      simp only [findC, hne, if_false]
      exact ih hk.2 hm'

theorem findC_mem {ver : Ver} {id : Nat} {cs : List Contract} {c : Contract} (h : findC ver id cs = some c) : c ∈ cs := by
  induction cs with
  | nil => simp [findC] at h
  | cons x xs ih =>
    unfold findC at h
    split at h
    · cases h; exact List.mem_cons_self
    · exact List.mem_cons_of_mem _ (ih h)

theorem mem_rejectIds_iff {ver : Ver} {height : Nat} {cs : List Contract} (hk : KeysNodup cs) {i : Nat} :
    i ∈ rejectIds ver height cs ↔ ∃ c, findC ver i cs = some c ∧ rejectSel ver height c = true := by
  simp only [rejectIds, List.mem_map, List.mem_filter]
  constructor
  · rintro ⟨c, ⟨hm, hsel⟩, rfl⟩
    have hv : c.ver = ver := by
      simp only [rejectSel, Bool.and_eq_true, decide_eq_true_eq] at hsel; exact hsel.1.1.1
    exact ⟨c, by rw [← hv]; exact findC_of_mem hk hm, hsel⟩
  · rintro ⟨c, hf, hsel⟩
    exact ⟨c, ⟨findC_mem hf, hsel⟩, (findC_some_ver_id hf).2⟩

theorem rejectIds_nodup {ver : Ver} {height : Nat} {cs : List Contract} (hk : KeysNodup cs) :
    (rejectIds ver height cs).Nodup := by
  induction cs with
  | nil => simp [rejectIds]
  | cons x xs ih =>
    simp only [KeysNodup, List.map_cons, List.nodup_cons] at hk
    have ihx := ih hk.2
    simp only [rejectIds, List.filter_cons]
    split
    · rename_i hsel
      simp only [List.map_cons, List.nodup_cons]
      refine ⟨?_, ihx⟩
      intro hm
      obtain ⟨c, hcf, hid⟩ := List.mem_map.mp hm
      obtain ⟨hmc, hselc⟩ := List.mem_filter.mp hcf
      apply hk.1
      have hvx : x.ver = ver := by
        simp only [rejectSel, Bool.and_eq_true, decide_eq_true_eq] at hsel; exact hsel.1.1.1
      have hvc : c.ver = ver := by
        simp only [rejectSel, Bool.and_eq_true, decide_eq_true_eq] at hselc; exact hselc.1.1.1
      have : keyOf x = keyOf c := by simp [keyOf, hvx, hvc, hid]
      rw [this]; exact List.mem_map.mpr ⟨c, hmc, rfl⟩
    · exact ihx

/-- lookup after RejectContracts: exactly `rejectC` on the looked-up contract -/
theorem rejectContracts_lookup {T : Table} {height : Nat} {s s' : State} (hk : KeysNodup s.cs)
    (hf : rejectContracts T height s = .ok s') (v : Ver) (i : Nat) :
    findC v i s'.cs = optApply (rejectC T height) (findC v i s.cs) := by
  unfold rejectContracts at hf
  simp only [bind, Except.bind] at hf
  split at hf; · cases hf
  rename_i s1 h1
  have hk1 : KeysNodup s1.cs := by
    unfold KeysNodup; rw [fireAll_keeps T .v1 .reject 0 _ s s1 h1]; exact hk
  rw [fireAll_lookup _ _ _ (rejectIds_nodup hk) hf v i, fireAll_lookup _ _ _ (rejectIds_nodup hk) h1 v i]
  cases hfind : findC v i s.cs with
  | none =>
    by_cases h1' : v = Ver.v1 ∧ i ∈ rejectIds Ver.v1 height s.cs <;>
      by_cases h2' : v = Ver.v2 ∧ i ∈ rejectIds Ver.v2 height s.cs <;> simp [h1', h2', optApply]
  | some c =>
    obtain ⟨hcv, hci⟩ := findC_some_ver_id hfind
    have hsel2 : ∀ ver, (v = ver ∧ i ∈ rejectIds ver height s.cs) ↔ (v = ver ∧ rejectSel ver height c = true) := by
      intro ver
      constructor
      · rintro ⟨rfl, hm⟩
        obtain ⟨c', hf', hs'⟩ := (mem_rejectIds_iff hk).mp hm
        rw [hfind] at hf'; cases hf'; exact ⟨rfl, hs'⟩
      · rintro ⟨rfl, hs'⟩
        exact ⟨rfl, (mem_rejectIds_iff hk).mpr ⟨c, hfind, hs'⟩⟩
    cases v with
    | v1 =>
      simp only [reduceCtorEq, false_and, if_false]
      by_cases hs1 : rejectSel .v1 height c = true
      · have : Ver.v1 = Ver.v1 ∧ i ∈ rejectIds .v1 height s.cs := (hsel2 .v1).mpr ⟨rfl, hs1⟩
        simp [this.2, optApply, rejectC, hcv, hs1]
      · have : ¬ (Ver.v1 = Ver.v1 ∧ i ∈ rejectIds .v1 height s.cs) := fun h => hs1 ((hsel2 .v1).mp h).2
        simp only [true_and] at this
        simp [this, optApply, rejectC, hcv, hs1]
    | v2 =>
      simp only [reduceCtorEq, false_and, if_false]
      by_cases hs1 : rejectSel .v2 height c = true
      · have : Ver.v2 = Ver.v2 ∧ i ∈ rejectIds .v2 height s.cs := (hsel2 .v2).mpr ⟨rfl, hs1⟩
        simp [this.2, optApply, rejectC, hcv, hs1]
      · have : ¬ (Ver.v2 = Ver.v2 ∧ i ∈ rejectIds .v2 height s.cs) := fun h => hs1 ((hsel2 .v2).mp h).2
        simp only [true_and] at this
        simp [this, optApply, rejectC, hcv, hs1]


theorem applyStages_none (T : Table) (h : Nat) (ch : Changes) (v : Ver) (i : Nat) :
    applyStages T h ch v i none = none := by
  cases v <;> simp only [applyStages, reduceCtorEq, false_and, true_and, if_false, if_true] <;>
  cases (revFor i ch.rev1) <;> cases (revFor i ch.form2) <;> cases (revFor i ch.rev2) <;> simp [optApply]

theorem listsNodup_of_ids {ch : Changes} (h1 : (ids1 ch).Nodup) (h2 : (ids2 ch).Nodup) : ListsNodup ch := by
  simp only [ids1, ids2, List.nodup_append] at h1 h2
  obtain ⟨⟨⟨a1, a2, _⟩, a3, _⟩, a4, _⟩ := h1
  obtain ⟨⟨⟨⟨b1, b2, _⟩, b3, _⟩, b4, _⟩, b5, _⟩ := h2
  exact ⟨a1, a2, a3, a4, b1, b2, b3, b4, b5⟩

/-- **Projection of a connected block**: after `applyBlock` (ApplyContracts followed by
RejectContracts(h - rb) when h ≥ rb) the row of every contract is what the per-contract step
`stepH … (.apply h (eventsFor …))` makes of its previous row.  Only "no list mentions a contract
twice" is needed; a contract may occur in several lists. -/
theorem applyBlock_lookup {T : Table} {rb h : Nat} {ch : Changes} {s s' : State}
    (hn : ListsNodup ch) (hk : KeysNodup s.cs)
    (hf : applyBlock T rb h ch s = .ok s') (v : Ver) (i : Nat) :
    findC v i s'.cs = optApply (fun c => stepH T rb c (.apply h (eventsFor v i ch))) (findC v i s.cs) := by
  unfold applyBlock at hf
  simp only [bind, Except.bind] at hf
  split at hf; · cases hf
  rename_i s1 hs1
  have hl1 := applyContracts_lookup hn hs1 v i
  have hk1 : KeysNodup s1.cs := by
    unfold KeysNodup; rw [applyContracts_keeps T h ch s s1 hs1]; exact hk
  cases hfind : findC v i s.cs with
  | none =>
    rw [hfind, applyStages_none] at hl1
    split at hf
    · rw [rejectContracts_lookup hk1 hf v i, hl1]; rfl
    · cases hf; rw [hl1]; rfl
  | some c =>
    rw [hfind, applyStages_eq_events T h ch v i c (findC_some_ver_id hfind).1] at hl1
    by_cases hrb : h ≥ rb
    · simp only [hrb, if_true] at hf
      rw [rejectContracts_lookup hk1 hf v i, hl1]
      simp only [optApply, stepH, hrb, if_true, bind, Except.bind, pure, Except.pure]
      cases hev : evsApply T h c (eventsFor v i ch) <;> simp
    · simp only [hrb, if_false] at hf
      cases hf
      rw [hl1]
      simp only [optApply, stepH, hrb, if_false, bind, Except.bind, pure, Except.pure]
      cases hev : evsApply T h c (eventsFor v i ch) <;> simp


theorem revertStages_none (T : Table) (h : Nat) (ch : Changes) (v : Ver) (i : Nat) :
    revertStages T h ch v i none = none := by
  cases v <;> simp only [revertStages, reduceCtorEq, false_and, true_and, if_false, if_true] <;>
  cases (revFor i ch.rev1) <;> cases (revFor i ch.form2) <;> cases (revFor i ch.rev2) <;> simp [optApply]

/-- **Projection of a disconnected block** -/
theorem revertBlock_lookup {T : Table} {rb h : Nat} {ch : Changes} {s s' : State}
    (hn : ListsNodup ch)
    (hf : revertContracts T h ch s = .ok s') (v : Ver) (i : Nat) :
    findC v i s'.cs = optApply (fun c => stepH T rb c (.revert h (eventsFor v i ch))) (findC v i s.cs) := by
  have hl := revertContracts_lookup hn hf v i
  cases hfind : findC v i s.cs with
  | none => rw [hfind, revertStages_none] at hl; rw [hl]; rfl
  | some c =>
    rw [hfind, revertStages_eq_events T h ch v i c (findC_some_ver_id hfind).1] at hl
    rw [hl]
    simp only [optApply, stepH]

theorem unformV2All_keeps (T : Table) (h : Nat) (ids : List Nat) : Keeps (unformV2All T h ids) := by
  induction ids with
  | nil => intro s s' hf; simp [unformV2All] at hf; cases hf; rfl
  | cons x rest ih =>
    intro s s' hf
    simp only [unformV2All, bind, Except.bind] at hf
    split at hf
    · cases hf
    · rename_i s1 h1
      split at hf
      · cases hf
      · rename_i s2 h2
        rw [ih s2 s' hf, fire_keeps T .v2 .rForm h x s1 s2 h2]
        simp only [deleteElem] at h1
        split at h1
        · cases h1
        · cases h1; exact setC_keys _ _

theorem revertContracts_keeps (T : Table) (h : Nat) (ch : Changes) : Keeps (revertContracts T h ch) := by
  unfold revertContracts
  exact (fireAll_keeps T .v1 .rForm h ch.form1).bind <| (setConfRevAll_keeps .v1 ch.rev1).bind <|
    (fireAll_keeps T .v1 .rSucc h ch.succ1).bind <| (fireAll_keeps T .v1 .rFail h ch.fail1).bind <|
    (unformV2All_keeps T h _).bind <| (setConfRevAll_keeps .v2 ch.rev2).bind <|
    (fireAll_keeps T .v2 .rSucc h ch.succ2).bind <| (fireAll_keeps T .v2 .rRenew h ch.renew2).bind <|
    (fireAll_keeps T .v2 .rFail h ch.fail2)

theorem rejectContracts_keeps (T : Table) (height : Nat) : Keeps (rejectContracts T height) := by
  intro s s' hf
  unfold rejectContracts at hf
  exact ((fireAll_keeps T .v1 .reject 0 (rejectIds .v1 height s.cs)).bind
    (fireAll_keeps T .v2 .reject 0 (rejectIds .v2 height s.cs))) s s' hf

theorem applyBlock_keeps (T : Table) (rb h : Nat) (ch : Changes) : Keeps (applyBlock T rb h ch) := by
  unfold applyBlock
  apply (applyContracts_keeps T h ch).bind
  intro s s' hf
  split at hf
  · exact rejectContracts_keeps T _ s s' hf
  · cases hf; rfl

theorem findC_isSome_iff (v : Ver) (i : Nat) (cs : List Contract) :
    (findC v i cs).isSome = true ↔ (v, i) ∈ cs.map keyOf := by
  induction cs with
  | nil => simp [findC]
  | cons x xs ih =>
    by_cases hx : x.ver = v ∧ x.id = i
    · simp [findC, hx, keyOf]
    · simp only [findC, hx, if_false, List.map_cons, List.mem_cons, ih]
      constructor
      · exact Or.inr
      · rintro (h | h)
        · exfalso; apply hx; simp only [keyOf, Prod.mk.injEq] at h; exact ⟨h.1.symm, h.2.symm⟩
        · exact h

end Hostd.Chain
