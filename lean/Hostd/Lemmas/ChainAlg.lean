import Hostd.Model.Chain
/-! Algebra of `Rev6` / `Metrics` and list lemmas (`findC`, `setC`) used by C01/C05/C06. -/
namespace Hostd.Chain

@[ext] theorem Rev6.ext' {a b : Rev6} (h1 : a.rpc = b.rpc) (h2 : a.storage = b.storage) (h3 : a.ingress = b.ingress)
    (h4 : a.egress = b.egress) (h5 : a.regRead = b.regRead) (h6 : a.regWrite = b.regWrite) : a = b := by
  cases a; cases b; simp_all

@[simp] theorem Rev6.add_sub_cancel (a b : Rev6) : (b.add a).sub b = a := by
  ext <;> simp [Rev6.add, Rev6.sub]

@[simp] theorem Rev6.le_add (a b : Rev6) : b.le (b.add a) = true := by
  simp [Rev6.le, Rev6.add]

@[simp] theorem Rev6.add_zero (a : Rev6) : a.add {} = a := by
  ext <;> simp [Rev6.add]

@[simp] theorem Rev6.zero_add (a : Rev6) : ({} : Rev6).add a = a := by
  ext <;> simp [Rev6.add]

theorem Rev6.add_assoc (a b c : Rev6) : (a.add b).add c = a.add (b.add c) := by
  ext <;> simp [Rev6.add] <;> omega

theorem Rev6.add_comm (a b : Rev6) : a.add b = b.add a := by
  ext <;> simp [Rev6.add] <;> omega

@[simp] theorem decN_add (w : String) (a b : Nat) : decN w (b + a) b = .ok a := by
  unfold decN
  have h : ¬ (b + a < b) := by omega
  simp [h]

@[simp] theorem decRev_add (w : String) (a b : Rev6) : decRev w (b.add a) b = .ok a := by
  simp [decRev]

@[ext] theorem Metrics.ext' {a b : Metrics} (h1 : a.active = b.active) (h2 : a.rejected = b.rejected)
    (h3 : a.successful = b.successful) (h4 : a.failed = b.failed) (h5 : a.renewed = b.renewed)
    (h6 : a.locked = b.locked) (h7 : a.risked = b.risked) (h8 : a.pot = b.pot) (h9 : a.earned = b.earned) : a = b := by
  cases a; cases b; simp_all

@[simp] theorem Metrics.zero_add (a : Metrics) : ({} : Metrics).add a = a := by
  ext <;> simp [Metrics.add]

/-! ### findC / setC -/

theorem findC_some_ver_id {ver : Ver} {id : Nat} {cs : List Contract} {c : Contract}
    (h : findC ver id cs = some c) : c.ver = ver ∧ c.id = id := by
  induction cs with
  | nil => simp [findC] at h
  | cons x rest ih =>
    unfold findC at h
    split at h
    · rename_i hx; cases h; exact hx
    · exact ih h

/-- replacing the contract found by `findC` by one with the same key: the recomputation splits off
exactly that contract's contribution -/
theorem recompute_setC {ver : Ver} {id : Nat} {cs : List Contract} {c c' : Contract}
    (h : findC ver id cs = some c) (hv : c'.ver = ver) (hi : c'.id = id) :
    ∃ rest : Metrics, recompute cs = (contrib c).add rest ∧ recompute (setC c' cs) = (contrib c').add rest := by
  induction cs with
  | nil => simp [findC] at h
  | cons x xs ih =>
    unfold findC at h
    split at h
    · rename_i hx
      cases h
      refine ⟨recompute xs, by simp [recompute], ?_⟩
      have : c.ver = c'.ver ∧ c.id = c'.id := by simp [hv, hi, hx.1, hx.2]
      simp [setC, this, recompute]
    · rename_i hx
      obtain ⟨rest, h1, h2⟩ := ih h
      have hne : ¬ (x.ver = c'.ver ∧ x.id = c'.id) := by simpa [hv, hi] using hx
      refine ⟨(contrib x).add rest, ?_, ?_⟩
      · simp only [recompute, h1]
        ext <;> simp [Metrics.add, Rev6.add] <;> omega
      · simp only [setC, hne, if_false, recompute, h2]
        ext <;> simp [Metrics.add, Rev6.add] <;> omega

theorem findC_setC_same {ver : Ver} {id : Nat} {cs : List Contract} {c c' : Contract}
    (h : findC ver id cs = some c) (hv : c'.ver = ver) (hi : c'.id = id) :
    findC ver id (setC c' cs) = some c' := by
  induction cs with
  | nil => simp [findC] at h
  | cons x xs ih =>
    unfold findC at h
    split at h
    · rename_i hx
      have : x.ver = c'.ver ∧ x.id = c'.id := by simp [hv, hi, hx.1, hx.2]
      simp [setC, this, findC, hv, hi]
    · rename_i hx
      have hne : ¬ (x.ver = c'.ver ∧ x.id = c'.id) := by simpa [hv, hi] using hx
      simp only [setC, hne, if_false, findC, hx]
      exact ih h

theorem findC_setC_other {ver ver2 : Ver} {id id2 : Nat} {cs : List Contract} {c' : Contract}
    (hv : c'.ver = ver) (hi : c'.id = id) (hne : ¬ (ver2 = ver ∧ id2 = id)) :
    findC ver2 id2 (setC c' cs) = findC ver2 id2 cs := by
  induction cs with
  | nil => simp [setC, findC]
  | cons x xs ih =>
    by_cases hx : x.ver = c'.ver ∧ x.id = c'.id
    · have h2 : ¬ (x.ver = ver2 ∧ x.id = id2) := by
        intro h; apply hne; constructor
        · rw [← h.1, hx.1, hv]
        · rw [← h.2, hx.2, hi]
      have h3 : ¬ (c'.ver = ver2 ∧ c'.id = id2) := by
        intro h; apply hne; exact ⟨by rw [← h.1, hv], by rw [← h.2, hi]⟩
      simp [setC, hx, findC, h2, h3]
    · simp only [setC, hx, if_false, findC]
      split
      · rfl
      · exact ih

end Hostd.Chain
