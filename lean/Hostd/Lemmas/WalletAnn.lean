import Hostd.Model.Wallet
/-!
The announcement record (`last_announce_index`, `last_announce_address`, `last_v2_announce_hash`)
under `ConfigManager.UpdateChainState`, per comparison variant `RevCmp`.

The chain is a stack `List ABlock`, tip first.

* `annBatch_own_spec`, `C16_announcement_own_step`, `C16_announcement_own`: with the reverted block's
  OWN index compared (`RevCmp.own`, the repair) the record is, after any well-formed history of calls,
  empty or names a block of the current best chain that contains a host announcement; it is cleared
  when the recorded block is disconnected and only then.
* `C16_announcement_parent_not_cleared`, `C16_announcement_parent_cleared_wrongly`: the tree as found
  (`RevCmp.parent`) violates both directions.
* `C16_announcement_parent_partial`, `annBatch_parent_spec`: what still holds for the tree as found.
-/
namespace Hostd.Wallet

def keysOf (l : List ABlock) : List Key := l.map (·.key)

/-- one call of `UpdateChainState` on chain `stk`: the reverted blocks are the top blocks of the chain,
tip first; each carries as `parent` the key of the block below it; the chain that remains is not empty
(genesis is never disconnected); applied blocks have keys not on the remaining chain and pairwise
distinct -/
structure WFbatch (stk reverted applied : List ABlock) : Prop where
  pre : reverted <+: stk
  links : ∀ i b, reverted[i]? = some b → ∃ p, stk[i + 1]? = some p ∧ b.parent = p.key
  rest_ne : stk.drop reverted.length ≠ []
  fresh : ∀ b ∈ applied, b.key ∉ keysOf (stk.drop reverted.length)
  nodupA : (keysOf applied).Nodup

def chainAfter (stk reverted applied : List ABlock) : List ABlock :=
  applied.reverse ++ stk.drop reverted.length

/-- the record is empty or names a block of the chain that contains a host announcement -/
structure AnnInv (stk : List ABlock) (r : AnnRec) : Prop where
  empty : r.idx = none → r.addr = none ∧ r.hash = none
  onChain : ∀ k, r.idx = some k → ∃ b ∈ stk, b.key = k ∧ hasAnn b = true

/-! ### the revert loop -/

theorem annRevert_eq (c : RevCmp) (last : Option Key) (r : AnnRec) (b : ABlock) :
    annRevert c last r b = if some (cmpKey c b) = last then {} else r := by
  unfold annRevert
  split <;> simp

theorem foldl_annRevert_empty (c : RevCmp) (last : Option Key) (l : List ABlock) :
    l.foldl (annRevert c last) {} = {} := by
  induction l with
  | nil => rfl
  | cons b rest ih => simp [List.foldl, annRevert_eq, ih]

theorem foldl_annRevert_hit (c : RevCmp) (last : Option Key) : ∀ (l : List ABlock) (r : AnnRec),
    (∃ b ∈ l, some (cmpKey c b) = last) → l.foldl (annRevert c last) r = {} := by
  intro l
  induction l with
  | nil => intro r h; simp at h
  | cons b rest ih =>
    intro r h
    simp only [List.foldl, annRevert_eq]
    by_cases hb : some (cmpKey c b) = last
    · simp [hb, foldl_annRevert_empty]
    · simp only [hb, if_false]
      apply ih
      obtain ⟨x, hx, hx'⟩ := h
      simp only [List.mem_cons] at hx
      rcases hx with rfl | hx
      · exact absurd hx' hb
      · exact ⟨x, hx, hx'⟩

theorem foldl_annRevert_miss (c : RevCmp) (last : Option Key) : ∀ (l : List ABlock) (r : AnnRec),
    (∀ b ∈ l, some (cmpKey c b) ≠ last) → l.foldl (annRevert c last) r = r := by
  intro l
  induction l with
  | nil => intro r _; rfl
  | cons b rest ih =>
    intro r h
    simp only [List.foldl, annRevert_eq]
    have hb := h b (List.mem_cons_self ..)
    simp only [hb, if_false]
    exact ih r (fun x hx => h x (List.mem_cons_of_mem _ hx))

/-- the revert loop comparing the reverted block's own index: the record is cleared iff the recorded
block is among the reverted ones -/
theorem foldl_annRevert_own (last : Option Key) (reverted : List ABlock) (r : AnnRec) :
    ((∃ b ∈ reverted, some b.key = last) → reverted.foldl (annRevert .own last) r = {}) ∧
    ((∀ b ∈ reverted, some b.key ≠ last) → reverted.foldl (annRevert .own last) r = r) :=
  ⟨foldl_annRevert_hit .own last reverted r, foldl_annRevert_miss .own last reverted r⟩

/-! ### the apply scan -/

/-- the scan of one protocol version, `p` selecting the announcement of that version -/
def annStep (p : ABlock → Option Nat) (acc : Option (Key × Nat)) (b : ABlock) : Option (Key × Nat) :=
  match p b with
  | some a => some (b.key, a)
  | none => acc

def lastP (p : ABlock → Option Nat) (bs : List ABlock) : Option (Key × Nat) := bs.foldl (annStep p) none

theorem lastAnn1_eq (bs : List ABlock) : lastAnn1 bs = lastP (·.ann1) bs := rfl
theorem lastAnn2_eq (bs : List ABlock) : lastAnn2 bs = lastP (·.ann2) bs := rfl

theorem foldl_annStep (p : ABlock → Option Nat) : ∀ (bs : List ABlock) (acc : Option (Key × Nat)),
    bs.foldl (annStep p) acc = (lastP p bs).or acc := by
  intro bs
  induction bs with
  | nil => intro acc; simp [lastP]
  | cons b rest ih =>
    intro acc
    simp only [lastP, List.foldl]
    rw [ih, ih (annStep p none b)]
    cases lastP p rest <;> cases hb : p b <;> simp [annStep, hb]

theorem lastP_cons (p : ABlock → Option Nat) (b : ABlock) (rest : List ABlock) :
    lastP p (b :: rest) = (lastP p rest).or (annStep p none b) := by
  simp only [lastP, List.foldl]
  rw [foldl_annStep]
  rfl

theorem lastP_some {p : ABlock → Option Nat} {bs : List ABlock} {k : Key} {a : Nat} :
    lastP p bs = some (k, a) → ∃ b ∈ bs, b.key = k ∧ p b = some a := by
  induction bs with
  | nil => intro h; simp [lastP] at h
  | cons b rest ih =>
    rw [lastP_cons]
    cases hr : lastP p rest with
    | some x =>
      intro h
      simp only [Option.some_or, Option.some.injEq] at h
      subst h
      obtain ⟨x, hx, h1, h2⟩ := ih hr
      exact ⟨x, List.mem_cons_of_mem _ hx, h1, h2⟩
    | none =>
      cases hb : p b with
      | none => intro h; simp [annStep, hb] at h
      | some a' =>
        intro h
        simp only [annStep, hb, Option.none_or, Option.some.injEq, Prod.mk.injEq] at h
        exact ⟨b, List.mem_cons_self .., h.1, by rw [hb, h.2]⟩

theorem lastP_none {p : ABlock → Option Nat} {bs : List ABlock} :
    lastP p bs = none ↔ ∀ b ∈ bs, p b = none := by
  induction bs with
  | nil => simp [lastP]
  | cons b rest ih =>
    rw [lastP_cons]
    cases hr : lastP p rest with
    | some x =>
      simp only [Option.some_or, reduceCtorEq, false_iff]
      intro h
      have := ih.mpr (fun x hx => h x (List.mem_cons_of_mem _ hx))
      rw [hr] at this
      cases this
    | none =>
      have hrest := ih.mp hr
      cases hb : p b with
      | none =>
        simp only [annStep, hb, Option.none_or, true_iff]
        intro x hx
        simp only [List.mem_cons] at hx
        rcases hx with rfl | hx
        · exact hb
        · exact hrest x hx
      | some a =>
        simp only [annStep, hb, Option.none_or, reduceCtorEq, false_iff]
        intro h
        have := h b (List.mem_cons_self ..)
        rw [hb] at this
        cases this

theorem lastAnn1_some {bs : List ABlock} {k : Key} {a : Nat} :
    lastAnn1 bs = some (k, a) → ∃ b ∈ bs, b.key = k ∧ b.ann1 = some a := by
  rw [lastAnn1_eq]; exact lastP_some

theorem lastAnn1_none {bs : List ABlock} : lastAnn1 bs = none ↔ ∀ b ∈ bs, b.ann1 = none := by
  rw [lastAnn1_eq]; exact lastP_none

theorem lastAnn2_some {bs : List ABlock} {k : Key} {a : Nat} :
    lastAnn2 bs = some (k, a) → ∃ b ∈ bs, b.key = k ∧ b.ann2 = some a := by
  rw [lastAnn2_eq]; exact lastP_some

theorem lastAnn2_none {bs : List ABlock} : lastAnn2 bs = none ↔ ∀ b ∈ bs, b.ann2 = none := by
  rw [lastAnn2_eq]; exact lastP_none

/-- no block of the batch announces iff neither scan finds anything -/
theorem any_hasAnn_false {applied : List ABlock} :
    applied.any hasAnn = false ↔ lastAnn1 applied = none ∧ lastAnn2 applied = none := by
  rw [lastAnn1_none, lastAnn2_none]
  simp only [List.any_eq_false, hasAnn, Bool.or_eq_true, not_or, Bool.not_eq_true,
    Option.isSome_eq_false_iff, Option.isNone_iff_eq_none]
  exact ⟨fun h => ⟨fun b hb => (h b hb).1, fun b hb => (h b hb).2⟩, fun h b hb => ⟨h.1 b hb, h.2 b hb⟩⟩

/-- whatever the revert loop left, a batch that connects an announcing block records one of them -/
theorem annBatch_applied_ann (c : RevCmp) (r : AnnRec) (reverted applied : List ABlock)
    (h : applied.any hasAnn = true) :
    ∃ b ∈ applied, hasAnn b = true ∧ (annBatch c r reverted applied).idx = some b.key := by
  unfold annBatch
  cases h2 : lastAnn2 applied with
  | some x =>
    obtain ⟨k, a⟩ := x
    obtain ⟨b, hb, hk, ha⟩ := lastAnn2_some h2
    exact ⟨b, hb, by simp [hasAnn, ha], by simp [hk]⟩
  | none =>
    cases h1 : lastAnn1 applied with
    | some x =>
      obtain ⟨k, a⟩ := x
      obtain ⟨b, hb, hk, ha⟩ := lastAnn1_some h1
      exact ⟨b, hb, by simp [hasAnn, ha], by simp [hk]⟩
    | none =>
      have := any_hasAnn_false.mpr ⟨h1, h2⟩
      rw [h] at this
      cases this

/-- a batch that connects no announcing block leaves what the revert loop produced -/
theorem annBatch_no_ann (c : RevCmp) (r : AnnRec) (reverted applied : List ABlock)
    (h : applied.any hasAnn = false) :
    annBatch c r reverted applied = reverted.foldl (annRevert c r.idx) r := by
  obtain ⟨h1, h2⟩ := any_hasAnn_false.mp h
  simp [annBatch, h1, h2]

/-! ### 1. one call, own index compared -/

/-- With the reverted block's own index compared, one call of `UpdateChainState`
(i) records a block of the batch that announces, if there is one; otherwise
(ii) clears all three columns when the recorded block is among the disconnected ones, and
(iii) leaves the record untouched in every other case. -/
theorem annBatch_own_spec (r : AnnRec) (reverted applied : List ABlock) :
    (applied.any hasAnn = true →
      ∃ b ∈ applied, hasAnn b = true ∧ (annBatch .own r reverted applied).idx = some b.key) ∧
    (applied.any hasAnn = false → ∀ k, r.idx = some k → k ∈ keysOf reverted →
      (annBatch .own r reverted applied).idx = none ∧ (annBatch .own r reverted applied).addr = none ∧
      (annBatch .own r reverted applied).hash = none) ∧
    (applied.any hasAnn = false → (∀ k, r.idx = some k → k ∉ keysOf reverted) →
      annBatch .own r reverted applied = r) := by
  refine ⟨annBatch_applied_ann .own r reverted applied, ?_, ?_⟩
  · intro h k hk hmem
    rw [annBatch_no_ann _ _ _ _ h]
    simp only [keysOf, List.mem_map] at hmem
    obtain ⟨b, hb, hbk⟩ := hmem
    rw [foldl_annRevert_hit .own r.idx reverted r ⟨b, hb, by simp [cmpKey, hbk, hk]⟩]
    simp
  · intro h hno
    rw [annBatch_no_ann _ _ _ _ h]
    apply foldl_annRevert_miss
    intro b hb heq
    simp only [cmpKey] at heq
    exact hno b.key heq.symm (by simp only [keysOf, List.mem_map]; exact ⟨b, hb, rfl⟩)

example : annBatch .own ⟨some (1, 2), some 5, none⟩ [⟨(1, 2), (0, 1), some 5, none⟩] [] = {} := by decide

/-! ### 2. the invariant along any history -/

theorem mem_stk_of_not_reverted {stk reverted : List ABlock} (hp : reverted <+: stk) {b : ABlock}
    (hb : b ∈ stk) (hn : b ∉ reverted) : b ∈ stk.drop reverted.length := by
  obtain ⟨t, rfl⟩ := hp
  simp only [List.drop_left]
  simp only [List.mem_append] at hb
  rcases hb with hb | hb
  · exact absurd hb hn
  · exact hb

theorem C16_announcement_own_step {stk reverted applied : List ABlock} {r : AnnRec}
    (_hnd : (keysOf stk).Nodup) (hwf : WFbatch stk reverted applied) (hinv : AnnInv stk r) :
    AnnInv (chainAfter stk reverted applied) (annBatch .own r reverted applied) := by
  obtain ⟨s1, s2, s3⟩ := annBatch_own_spec r reverted applied
  cases hany : applied.any hasAnn with
  | true =>
    obtain ⟨b, hb, hba, hidx⟩ := s1 hany
    constructor
    · intro h; rw [hidx] at h; cases h
    · intro k hk
      rw [hidx] at hk
      cases hk
      exact ⟨b, by simp [chainAfter, hb], rfl, hba⟩
  | false =>
    by_cases hk : ∃ k, r.idx = some k ∧ k ∈ keysOf reverted
    · obtain ⟨k, hk1, hk2⟩ := hk
      obtain ⟨e1, e2, e3⟩ := s2 hany k hk1 hk2
      constructor
      · intro _; exact ⟨e2, e3⟩
      · intro k' hk'; rw [e1] at hk'; cases hk'
    · have hr := s3 hany (fun k h1 h2 => hk ⟨k, h1, h2⟩)
      rw [hr]
      constructor
      · exact hinv.empty
      · intro k hidx
        obtain ⟨b, hb, hbk, hba⟩ := hinv.onChain k hidx
        refine ⟨b, ?_, hbk, hba⟩
        simp only [chainAfter, List.mem_append]
        right
        apply mem_stk_of_not_reverted hwf.pre hb
        intro hbr
        exact hk ⟨k, hidx, by simp only [keysOf, List.mem_map]; exact ⟨b, hbr, hbk⟩⟩

/-- a well-formed call keeps the block indices of the chain pairwise distinct -/
theorem nodup_chainAfter {stk reverted applied : List ABlock}
    (hnd : (keysOf stk).Nodup) (hwf : WFbatch stk reverted applied) :
    (keysOf (chainAfter stk reverted applied)).Nodup := by
  obtain ⟨t, ht⟩ := hwf.pre
  have hdrop : stk.drop reverted.length = t := by rw [← ht]; simp
  have hfresh := hwf.fresh
  rw [hdrop] at hfresh
  simp only [chainAfter, keysOf, hdrop, List.map_append, List.map_reverse]
  rw [List.nodup_append]
  refine ⟨?_, ?_, ?_⟩
  · exact (List.reverse_perm _).nodup_iff.mpr hwf.nodupA
  · rw [← ht] at hnd
    simp only [keysOf, List.map_append] at hnd
    exact (List.nodup_append.mp hnd).2.1
  · intro a ha b hb hab
    simp only [List.mem_reverse, List.mem_map] at ha
    obtain ⟨x, hx, rfl⟩ := ha
    exact hfresh x hx (hab ▸ hb)

/-- the calls of a history, threading the chain -/
def runAnn (c : RevCmp) : AnnRec → List ABlock → List (List ABlock × List ABlock) → AnnRec × List ABlock
  | r, stk, [] => (r, stk)
  | r, stk, (rev, app) :: rest => runAnn c (annBatch c r rev app) (chainAfter stk rev app) rest

/-- every call of the history is well-formed on the chain the previous calls produced -/
def WFhist : List ABlock → List (List ABlock × List ABlock) → Prop
  | _, [] => True
  | stk, (rev, app) :: rest => WFbatch stk rev app ∧ WFhist (chainAfter stk rev app) rest

theorem C16_announcement_own_inv : ∀ (hist : List (List ABlock × List ABlock)) (stk : List ABlock) (r : AnnRec),
    (keysOf stk).Nodup → WFhist stk hist → AnnInv stk r →
    AnnInv (runAnn .own r stk hist).2 (runAnn .own r stk hist).1 ∧
      (keysOf (runAnn .own r stk hist).2).Nodup := by
  intro hist
  induction hist with
  | nil => intro stk r hnd _ hinv; exact ⟨hinv, hnd⟩
  | cons p rest ih =>
    intro stk r hnd hwf hinv
    obtain ⟨rev, app⟩ := p
    obtain ⟨hw, hrest⟩ := hwf
    simp only [runAnn]
    exact ih _ _ (nodup_chainAfter hnd hw) hrest (C16_announcement_own_step hnd hw hinv)

/-- C16, announcement half, own index compared: starting from the empty record on any chain, after ANY
well-formed history of `UpdateChainState` calls the record is empty (all three columns) or names a
block of the current best chain that contains a host announcement. -/
theorem C16_announcement_own (stk : List ABlock) (hist : List (List ABlock × List ABlock))
    (hnd : (keysOf stk).Nodup) (hwf : WFhist stk hist) :
    ((runAnn .own {} stk hist).1 = {} ∨
      ∃ b ∈ (runAnn .own {} stk hist).2, (runAnn .own {} stk hist).1.idx = some b.key ∧ hasAnn b = true) ∧
    (keysOf (runAnn .own {} stk hist).2).Nodup := by
  have h0 : AnnInv stk {} := ⟨fun _ => ⟨rfl, rfl⟩, fun k h => by cases h⟩
  obtain ⟨hinv, hn⟩ := C16_announcement_own_inv hist stk {} hnd hwf h0
  refine ⟨?_, hn⟩
  cases hidx : (runAnn .own {} stk hist).1.idx with
  | none =>
    left
    obtain ⟨e1, e2⟩ := hinv.empty hidx
    cases hr : (runAnn .own {} stk hist).1 with
    | mk i a h =>
      rw [hr] at hidx e1 e2
      simp only at hidx e1 e2
      subst hidx e1 e2
      rfl
  | some k =>
    right
    obtain ⟨b, hb, hbk, hba⟩ := hinv.onChain k hidx
    exact ⟨b, hb, by rw [hbk], hba⟩

/-! ### 3. the tree as found violates both directions -/

namespace AnnWitness

def g : ABlock := ⟨(0, 1), (0, 0), none, none⟩            -- genesis
def a : ABlock := ⟨(1, 2), (0, 1), some 5, none⟩          -- announces address 5
def a' : ABlock := ⟨(1, 3), (0, 1), none, none⟩           -- the competing fork of length 2
def a'' : ABlock := ⟨(2, 4), (1, 3), none, none⟩
def b : ABlock := ⟨(2, 3), (1, 2), none, none⟩            -- on top of `a`
def b' : ABlock := ⟨(2, 5), (1, 2), none, none⟩           -- the competing fork on top of `a`
def b'' : ABlock := ⟨(3, 6), (2, 5), none, none⟩
def rec : AnnRec := ⟨some (1, 2), some 5, none⟩

theorem wf1 : WFbatch [a, g] [a] [a', a''] := by
  refine ⟨⟨[g], rfl⟩, ?_, by decide, by decide, by decide⟩
  intro i x h
  match i, h with
  | 0, h => cases h; exact ⟨g, rfl, rfl⟩

theorem wf2 : WFbatch [b, a, g] [b] [b', b''] := by
  refine ⟨⟨[a, g], rfl⟩, ?_, by decide, by decide, by decide⟩
  intro i x h
  match i, h with
  | 0, h => cases h; exact ⟨a, rfl, rfl⟩

theorem inv1 : AnnInv [a, g] rec :=
  ⟨fun h => (by cases h), fun k h => (by cases h; exact ⟨a, by simp, rfl, rfl⟩)⟩

theorem inv2 : AnnInv [b, a, g] rec :=
  ⟨fun h => (by cases h), fun k h => (by cases h; exact ⟨a, by simp, rfl, rfl⟩)⟩

end AnnWitness

open AnnWitness in
/-- Chain `[a, g]`, `a` announces and is recorded.  One well-formed call disconnects `a` and connects
the fork `a', a''` (no announcements).  The tree as found compares `a`'s PARENT index `(0,1)` with the
recorded `(1,2)` and leaves the whole record in place: it names a block that is no longer on the best
chain, so the invariant is broken.  With the own index compared the record is cleared. -/
theorem C16_announcement_parent_not_cleared :
    (keysOf [a, g]).Nodup ∧ WFbatch [a, g] [a] [a', a''] ∧ AnnInv [a, g] rec ∧
    annBatch .parent rec [a] [a', a''] = rec ∧
    (annBatch .parent rec [a] [a', a'']).idx = some (1, 2) ∧
    (1, 2) ∉ keysOf (chainAfter [a, g] [a] [a', a'']) ∧
    ¬ AnnInv (chainAfter [a, g] [a] [a', a'']) (annBatch .parent rec [a] [a', a'']) ∧
    annBatch .own rec [a] [a', a''] = {} := by
  refine ⟨by decide, wf1, inv1, by decide, by decide, by decide, ?_, by decide⟩
  intro h
  obtain ⟨x, hx, hk, _⟩ := h.onChain (1, 2) (by decide)
  have : (1, 2) ∈ keysOf (chainAfter [a, g] [a] [a', a'']) := by
    simp only [keysOf, List.mem_map]; exact ⟨x, hx, hk⟩
  exact absurd this (by decide)

open AnnWitness in
/-- Chain `[b, a, g]`, `a` announces and is recorded, `b` sits on top of it.  One well-formed call
disconnects only `b` and connects the fork `b', b''` (no announcements).  The tree as found compares
`b`'s PARENT index `(1,2)` with the recorded `(1,2)` and clears the record although `a` is still on the
best chain and no announcing block was disconnected (clause (iii) of `annBatch_own_spec` fails for
`.parent`).  With the own index compared the record is unchanged. -/
theorem C16_announcement_parent_cleared_wrongly :
    (keysOf [b, a, g]).Nodup ∧ WFbatch [b, a, g] [b] [b', b''] ∧ AnnInv [b, a, g] rec ∧
    [b', b''].any hasAnn = false ∧ (∀ k, rec.idx = some k → k ∉ keysOf [b]) ∧
    a ∈ chainAfter [b, a, g] [b] [b', b''] ∧ hasAnn a = true ∧ rec.idx = some a.key ∧
    annBatch .parent rec [b] [b', b''] = {} ∧
    annBatch .parent rec [b] [b', b''] ≠ rec ∧
    annBatch .own rec [b] [b', b''] = rec := by
  refine ⟨by decide, wf2, inv2, by decide, ?_, by decide, by decide, by decide, by decide, by decide,
    by decide⟩
  intro k hk
  cases hk
  decide

open AnnWitness in
/-- the hypotheses of `C16_announcement_own` are satisfiable by a history with a reorg, and on it the
two comparisons end differently -/
example : (keysOf [a, g]).Nodup ∧ WFhist [a, g] [([a], [a', a''])] ∧
    (runAnn .own rec [a, g] [([a], [a', a''])]).1 = {} ∧
    (runAnn .parent rec [a, g] [([a], [a', a''])]).1 = rec :=
  ⟨by decide, ⟨wf1, trivial⟩, by decide, by decide⟩

/-! ### 4. what still holds for the tree as found -/

/-- connecting blocks does not look at the comparison -/
theorem annBatch_nil_indep (c : RevCmp) (r : AnnRec) (applied : List ABlock) :
    annBatch c r [] applied = annBatch .own r [] applied := rfl

theorem runAnn_noRevert_indep (c : RevCmp) : ∀ (hist : List (List ABlock × List ABlock)) (r : AnnRec)
    (stk : List ABlock), (∀ p ∈ hist, p.1 = []) → runAnn c r stk hist = runAnn .own r stk hist := by
  intro hist
  induction hist with
  | nil => intro r stk _; rfl
  | cons p rest ih =>
    intro r stk h
    obtain ⟨rev, app⟩ := p
    have h0 : rev = [] := h (rev, app) (List.mem_cons_self ..)
    subst h0
    simp only [runAnn, annBatch_nil_indep c]
    exact ih _ _ (fun q hq => h q (List.mem_cons_of_mem _ hq))

/-- `.parent` clears when SOME reverted block has the recorded index as its parent -/
theorem annBatch_parent_clears {r : AnnRec} {reverted applied : List ABlock} {k : Key}
    (hidx : r.idx = some k) (hpar : ∃ b ∈ reverted, b.parent = k) (hno : applied.any hasAnn = false) :
    annBatch .parent r reverted applied = {} := by
  rw [annBatch_no_ann _ _ _ _ hno]
  obtain ⟨b, hb, hbk⟩ := hpar
  exact foldl_annRevert_hit .parent r.idx reverted r ⟨b, hb, by simp [cmpKey, hbk, hidx]⟩

/-- `.parent` leaves the record alone when NO reverted block has the recorded index as its parent -/
theorem annBatch_parent_keeps {r : AnnRec} {reverted applied : List ABlock}
    (hpar : ∀ b ∈ reverted, some b.parent ≠ r.idx) (hno : applied.any hasAnn = false) :
    annBatch .parent r reverted applied = r := by
  rw [annBatch_no_ann _ _ _ _ hno]
  exact foldl_annRevert_miss .parent r.idx reverted r (fun b hb => by simpa [cmpKey] using hpar b hb)

/-- What the tree as found still guarantees:
(a) a call without reverts does not depend on the comparison, so (b) along any well-formed history
WITHOUT reverts (the chain only grows) the record is empty or names an announcing block of the chain;
(c) a call that connects an announcing block records one of the batch (whatever was reverted);
(d) a call that connects no announcement and whose reverted blocks include both the recorded block
and the block on top of it (some reverted block has the recorded index as parent) clears the record. -/
theorem C16_announcement_parent_partial :
    (∀ (r : AnnRec) (applied : List ABlock) (c : RevCmp),
      annBatch c r [] applied = annBatch .own r [] applied) ∧
    (∀ (stk : List ABlock) (hist : List (List ABlock × List ABlock)) (r : AnnRec),
      (keysOf stk).Nodup → WFhist stk hist → (∀ p ∈ hist, p.1 = []) → AnnInv stk r →
      AnnInv (runAnn .parent r stk hist).2 (runAnn .parent r stk hist).1) ∧
    (∀ (r : AnnRec) (reverted applied : List ABlock), applied.any hasAnn = true →
      ∃ b ∈ applied, hasAnn b = true ∧ (annBatch .parent r reverted applied).idx = some b.key) ∧
    (∀ (r : AnnRec) (reverted applied : List ABlock) (k : Key),
      r.idx = some k → k ∈ keysOf reverted → (∃ b ∈ reverted, b.parent = k) →
      applied.any hasAnn = false →
      (annBatch .parent r reverted applied).idx = none ∧ (annBatch .parent r reverted applied).addr = none ∧
      (annBatch .parent r reverted applied).hash = none) := by
  refine ⟨fun r applied c => annBatch_nil_indep c r applied, ?_, ?_, ?_⟩
  · intro stk hist r hnd hwf hnr hinv
    rw [runAnn_noRevert_indep .parent hist r stk hnr]
    exact (C16_announcement_own_inv hist stk r hnd hwf hinv).1
  · intro r reverted applied h
    exact annBatch_applied_ann .parent r reverted applied h
  · intro r reverted applied k hidx _ hpar hno
    rw [annBatch_parent_clears hidx hpar hno]
    simp

/-- On a well-formed call of a chain with pairwise distinct indices, without announcement in the
applied blocks, the tree as found clears the record exactly when the recorded block is at depth
`1 … reverted.length` of the chain (tip = depth 0): it misses the case "the tip is recorded and
disconnected" and wrongly includes the case "the recorded block is the first one that stays". -/
theorem annBatch_parent_spec {stk reverted applied : List ABlock} {r : AnnRec} {k : Key}
    (hwf : WFbatch stk reverted applied) (hidx : r.idx = some k) (hno : applied.any hasAnn = false) :
    ((∃ i x, i < reverted.length ∧ stk[i + 1]? = some x ∧ x.key = k) →
      annBatch .parent r reverted applied = {}) ∧
    ((∀ i x, i < reverted.length → stk[i + 1]? = some x → x.key ≠ k) →
      annBatch .parent r reverted applied = r) := by
  constructor
  · intro ⟨i, x, hi, hx, hxk⟩
    have hb : reverted[i]? = some reverted[i] := List.getElem?_eq_getElem hi
    obtain ⟨p, hp, hpar⟩ := hwf.links i _ hb
    rw [hx] at hp
    cases hp
    exact annBatch_parent_clears hidx ⟨reverted[i], List.getElem_mem hi, by rw [hpar, hxk]⟩ hno
  · intro h
    apply annBatch_parent_keeps _ hno
    intro b hb heq
    obtain ⟨i, hi, rfl⟩ := List.getElem_of_mem hb
    obtain ⟨p, hp, hpar⟩ := hwf.links i _ (List.getElem?_eq_getElem hi)
    rw [hidx] at heq
    cases heq
    exact h i p hi hp hpar.symm

end Hostd.Wallet
