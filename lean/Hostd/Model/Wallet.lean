/-
Model of the chain-driven wallet, announcement and proof-element state of hostd (core Lean only).

Part 1 (C16)  persist/sqlite/consensus.go  WalletApplyIndex / WalletRevertIndex
              (deleteSiacoinElements, createSiacoinElements, createWalletEvents,
              maturedSiacoinBalance, updateBalanceMetric → incrementCurrencyStat)
Part 2 (C16)  host/settings/update.go      ConfigManager.UpdateChainState on the
              global_settings columns last_announce_index / last_announce_address /
              last_v2_announce_hash (persist/sqlite/consensus.go:509-545)
Part 3 (C17)  host/contracts/update.go     Manager.UpdateChainState: order of the element
              calls, on an abstract "basis" model of Merkle proofs.

Money is `Nat` (types.Currency never overflows here: total supply < 2^128, trusted base);
the only arithmetic fault is the *underflow panic* of incrementCurrencyStat, which is modelled.
-/
namespace Hostd.Wallet

/-! ## Part 1: wallet tables and balance metrics -/

inductive Fault where
  | notFound      -- deleteSiacoinElements: RowsAffected ≠ 1 ("failed to delete siacoin element: not found")
  | negBalance    -- incrementCurrencyStat panics: negative stat value walletBalance
  | negImmature   -- … walletImmatureBalance
  | revertAbsent  -- core panics: "cannot update an element that is not present in the accumulator" (Part 3)
deriving DecidableEq, Repr

/-- a row of `wallet_siacoin_elements` (proof columns are the business of Part 3) -/
structure Utxo where
  id : Nat
  value : Nat
  maturity : Nat
deriving DecidableEq, Repr

/-- a row of `wallet_events`: primary key `id`, indexed by the block (`chain_index`) that produced it -/
structure Ev where
  id : Nat
  blk : Nat
deriving DecidableEq, Repr

/-- what `wallet.SingleAddressWallet.applyChainUpdate/revertChainUpdate` hands to the store for one block -/
structure Diff where
  h : Nat                 -- index.Height
  blk : Nat               -- index.ID
  created : List Utxo     -- created (apply) = removed (revert)
  spent : List Utxo       -- spent (apply) = unspent (revert)
  events : List Nat       -- ids of the wallet events of the block
deriving DecidableEq, Repr

structure WState where
  utxos : List Utxo := []
  events : List Ev := []
  balance : Nat := 0      -- host_stats walletBalance
  immature : Nat := 0     -- host_stats walletImmatureBalance
  height : Nat := 0       -- global_settings.last_scanned_index.Height as index.Manager sets it after the batch
deriving Repr

def ids (l : List Utxo) : List Nat := l.map (·.id)

/-- Σ value of the elements the code classifies as mature at `h` (`elem.MaturityHeight <= index.Height`) -/
def matureSum (h : Nat) (l : List Utxo) : Nat := ((l.filter (fun u => decide (u.maturity ≤ h))).map (·.value)).sum
def immatureSum (h : Nat) (l : List Utxo) : Nat := ((l.filter (fun u => !decide (u.maturity ≤ h))).map (·.value)).sum
/-- `maturedSiacoinBalance`: `SELECT siacoin_value … WHERE maturity_height = index.Height` -/
def maturedAt (h : Nat) (l : List Utxo) : Nat := ((l.filter (fun u => u.maturity == h)).map (·.value)).sum

/-- `deleteSiacoinElements`: `DELETE … WHERE id=?` per element, exactly one row must be affected -/
def deleteElems : List Utxo → List Utxo → Except Fault (List Utxo)
  | tbl, [] => .ok tbl
  | tbl, e :: rest =>
    if tbl.any (fun u => u.id == e.id) then deleteElems (tbl.filter (fun u => u.id != e.id)) rest
    else .error .notFound

/-- `createSiacoinElements`: `INSERT … ON CONFLICT (id) DO NOTHING` -/
def createElems : List Utxo → List Utxo → List Utxo
  | tbl, [] => tbl
  | tbl, e :: rest => createElems (if tbl.any (fun u => u.id == e.id) then tbl else tbl ++ [e]) rest

/-- `createWalletEvents`: `INSERT … ON CONFLICT (id) DO NOTHING` -/
def createEvents (blk : Nat) : List Ev → List Nat → List Ev
  | tbl, [] => tbl
  | tbl, i :: rest => createEvents blk (if tbl.any (fun e => e.id == i) then tbl else tbl ++ [⟨i, blk⟩]) rest

/-- one `increment(stat, delta, negative)` of `updateBalanceMetric`: the net of inflow and outflow is applied,
a net decrease below zero panics -/
def bump (cur inflow outflow : Nat) : Option Nat :=
  if inflow ≥ outflow then some (cur + (inflow - outflow))
  else if cur < outflow - inflow then none
  else some (cur - (outflow - inflow))

def updateBalanceMetric (s : WState) (mIn mOut iIn iOut : Nat) : Except Fault (Nat × Nat) :=
  match bump s.balance mIn mOut with
  | none => .error .negBalance
  | some b =>
    match bump s.immature iIn iOut with
    | none => .error .negImmature
    | some i => .ok (b, i)

/-- Variants of the code the correspondence run accepts: the tree as found (`asFound`) or a tree in
which the defect this model exposes has been repaired.  Theorems are stated per variant. -/
structure Variant where
  /-- `WalletApplyIndex` classifies a *spent* element as mature when `maturity < h` (it was mature
  before this block) instead of `maturity ≤ h` (as found: `deleteSiacoinElements` compares with the
  height of the block being applied, although the maturation of height `h` has not been booked yet
  and no longer sees the deleted row) -/
  spentLt : Bool := false
deriving DecidableEq, Repr

def asFound : Variant := { spentLt := false }
def repaired : Variant := { spentLt := true }

def spentMatureSum (v : Variant) (h : Nat) (l : List Utxo) : Nat :=
  if v.spentLt then ((l.filter (fun u => decide (u.maturity < h))).map (·.value)).sum else matureSum h l
def spentImmatureSum (v : Variant) (h : Nat) (l : List Utxo) : Nat :=
  if v.spentLt then ((l.filter (fun u => !decide (u.maturity < h))).map (·.value)).sum else immatureSum h l

/-- the four arguments of `updateBalanceMetric` -/
structure Flows where
  mIn : Nat
  mOut : Nat
  iIn : Nat
  iOut : Nat
deriving DecidableEq, Repr

/-- table part of `WalletApplyIndex(index, created, spent, events)` and the flows it books -/
def applyTables (v : Variant) (utxos : List Utxo) (events : List Ev) (d : Diff) :
    Except Fault (List Utxo × List Ev × Flows) := do
  let t1 ← deleteElems utxos d.spent
  let t2 := createElems t1 d.created
  let ev := createEvents d.blk events d.events
  let matured := maturedAt d.h t2
  pure (t2, ev, { mIn := matureSum d.h d.created + matured, mOut := spentMatureSum v d.h d.spent,
                  iIn := immatureSum d.h d.created, iOut := spentImmatureSum v d.h d.spent + matured })

/-- table part of `WalletRevertIndex(index, removed, unspent)` -/
def revertTables (utxos : List Utxo) (events : List Ev) (d : Diff) :
    Except Fault (List Utxo × List Ev × Flows) := do
  let t1 ← deleteElems utxos d.created
  let t2 := createElems t1 d.spent
  let ev := events.filter (fun e => e.blk != d.blk)
  let matured := maturedAt d.h t2
  pure (t2, ev, { mIn := matureSum d.h d.spent, mOut := matureSum d.h d.created + matured,
                  iIn := immatureSum d.h d.spent + matured, iOut := immatureSum d.h d.created })

/-- `WalletApplyIndex` with the metrics seen as one current value each -/
def applyIndex (v : Variant) (s : WState) (d : Diff) : Except Fault WState := do
  let (t, ev, f) ← applyTables v s.utxos s.events d
  let (b, i) ← updateBalanceMetric s f.mIn f.mOut f.iIn f.iOut
  pure { utxos := t, events := ev, balance := b, immature := i, height := d.h }

/-- `WalletRevertIndex`; afterwards the processed height is the parent's -/
def revertIndex (s : WState) (d : Diff) : Except Fault WState := do
  let (t, ev, f) ← revertTables s.utxos s.events d
  let (b, i) ← updateBalanceMetric s f.mIn f.mOut f.iIn f.iOut
  pure { utxos := t, events := ev, balance := b, immature := i, height := d.h - 1 }

inductive Op where
  | apply (d : Diff)
  | revert (d : Diff)
deriving Repr

def step (v : Variant) (s : WState) : Op → Except Fault WState
  | .apply d => applyIndex v s d
  | .revert d => revertIndex s d

def run (v : Variant) : WState → List Op → Except Fault WState
  | s, [] => .ok s
  | s, op :: ops => do
      let s1 ← step v s op
      run v s1 ops

/-! ### the metrics as stored: one row per 5-minute bucket of the *block timestamp*

`incrementCurrencyStat(stat, delta, negative, timestamp)` reads
`SELECT stat_value … WHERE stat=? AND date_created<=? ORDER BY date_created DESC LIMIT 1` with the
truncated block timestamp and upserts the row of that bucket; `Metrics(now)` reports the row of the
latest bucket.  Rows are kept sorted by bucket, newest first. -/

abbrev Stat := List (Nat × Nat)

def readAt (st : Stat) (ts : Nat) : Nat :=
  match st.find? (fun r => decide (r.1 ≤ ts)) with
  | some r => r.2
  | none => 0

def writeAt : Stat → Nat → Nat → Stat
  | [], ts, v => [(ts, v)]
  | (b, x) :: rest, ts, v =>
    if ts > b then (ts, v) :: (b, x) :: rest
    else if ts = b then (ts, v) :: rest
    else (b, x) :: writeAt rest ts v

/-- what `Metrics(now)` reports once `now` is past every bucket -/
def latest : Stat → Nat
  | [] => 0
  | (_, v) :: _ => v

def newestBucket : Stat → Nat
  | [] => 0
  | (b, _) :: _ => b

/-- one `increment` call of `updateBalanceMetric`; a zero delta executes no statement -/
def bumpStat (st : Stat) (ts inflow outflow : Nat) : Option Stat :=
  if inflow = outflow then some st
  else match bump (readAt st ts) inflow outflow with
    | none => none
    | some v => some (writeAt st ts v)

structure BState where
  utxos : List Utxo := []
  events : List Ev := []
  bal : Stat := []
  imm : Stat := []
  height : Nat := 0
deriving Repr

def updateBalanceMetricB (s : BState) (ts : Nat) (f : Flows) : Except Fault (Stat × Stat) :=
  match bumpStat s.bal ts f.mIn f.mOut with
  | none => .error .negBalance
  | some b =>
    match bumpStat s.imm ts f.iIn f.iOut with
    | none => .error .negImmature
    | some i => .ok (b, i)

/-- an update together with the bucket of the block's timestamp -/
structure TOp where
  op : Op
  ts : Nat
deriving Repr

def stepB (v : Variant) (s : BState) (o : TOp) : Except Fault BState :=
  match o.op with
  | .apply d => do
      let (t, ev, f) ← applyTables v s.utxos s.events d
      let (b, i) ← updateBalanceMetricB s o.ts f
      pure { utxos := t, events := ev, bal := b, imm := i, height := d.h }
  | .revert d => do
      let (t, ev, f) ← revertTables s.utxos s.events d
      let (b, i) ← updateBalanceMetricB s o.ts f
      pure { utxos := t, events := ev, bal := b, imm := i, height := d.h - 1 }

def runB (v : Variant) : BState → List TOp → Except Fault BState
  | s, [] => .ok s
  | s, o :: os => do
      let s1 ← stepB v s o
      runB v s1 os

/-- the current values `Metrics(now)` shows -/
def flat (s : BState) : WState :=
  { utxos := s.utxos, events := s.events, balance := latest s.bal, immature := latest s.imm, height := s.height }

/-! ### specification: the fold over the best chain alone -/

structure Spec where
  utxos : List Utxo := []
  events : List Ev := []
  height : Nat := 0
deriving Repr

def specApply (S : Spec) (d : Diff) : Spec :=
  { utxos := S.utxos.filter (fun u => !(ids d.spent).contains u.id) ++ d.created,
    events := S.events ++ d.events.map (fun i => ⟨i, d.blk⟩),
    height := d.h }

/-- the chain as a stack, tip first -/
def specOf : List Diff → Spec
  | [] => {}
  | d :: below => specApply (specOf below) d

/-! ## Part 2: the announcement record -/

abbrev Key := Nat × Nat   -- (height, block id)

structure AnnRec where
  idx : Option Key := none     -- last_announce_index (shared by the v1 and the v2 record)
  addr : Option Nat := none    -- last_announce_address
  hash : Option Nat := none    -- last_v2_announce_hash
deriving DecidableEq, Repr

/-- what `UpdateChainState` looks at in one block -/
structure ABlock where
  key : Key                    -- the block's own index
  parent : Key                 -- `State.Index` of a RevertUpdate: the index of the parent block
  ann1 : Option Nat := none    -- last v1 announcement of the host key in the block (its net address)
  ann2 : Option Nat := none    -- last non-empty v2 announcement of the host key (hash of the addresses)
deriving DecidableEq, Repr

/-- which index the revert loop compares with the recorded one -/
inductive RevCmp where
  | parent    -- `cru.State.Index`                       (the tree as found)
  | own       -- `{ID: cru.Block.ID(), Height: cru.State.Index.Height+1}`  (the reverted block itself)
deriving DecidableEq, Repr

def cmpKey (c : RevCmp) (b : ABlock) : Key := match c with | .parent => b.parent | .own => b.key

/-- the revert loop: both comparisons read the index fetched *before* the loop -/
def annRevert (c : RevCmp) (last : Option Key) (r : AnnRec) (b : ABlock) : AnnRec :=
  let r1 := if some (cmpKey c b) = last then { r with addr := none, idx := none } else r      -- RevertLastAnnouncement
  if some (cmpKey c b) = last then { r1 with hash := none, idx := none } else r1               -- RevertLastV2Announcement

/-- the apply scan: the last announcing block of the batch wins, per protocol version -/
def lastAnn1 (bs : List ABlock) : Option (Key × Nat) :=
  bs.foldl (fun acc b => match b.ann1 with | some a => some (b.key, a) | none => acc) none
def lastAnn2 (bs : List ABlock) : Option (Key × Nat) :=
  bs.foldl (fun acc b => match b.ann2 with | some a => some (b.key, a) | none => acc) none

/-- `ConfigManager.UpdateChainState(tx, reverted, applied)` -/
def annBatch (c : RevCmp) (r : AnnRec) (reverted applied : List ABlock) : AnnRec :=
  let last := r.idx
  let r1 := reverted.foldl (annRevert c last) r
  let r2 := match lastAnn1 applied with
    | some (k, a) => { r1 with idx := some k, addr := some a }      -- SetLastAnnouncement
    | none => r1
  match lastAnn2 applied with
  | some (k, a) => { r2 with idx := some k, hash := some a }        -- SetLastV2AnnouncementHash
  | none => r2

def hasAnn (b : ABlock) : Bool := b.ann1.isSome || b.ann2.isSome

/-! ## Part 3: proof elements and their basis

A stored state element carries a Merkle proof that verifies against exactly one chain state, its
*basis* (identified by the id of the tip block of that state).  `born` is the block whose
application created the element's leaf.  `consensus.ApplyUpdate.UpdateElementProof` skips leaves the
update itself added, moves a proof from the parent state to the new one, and produces garbage for
any other input; `RevertUpdate.UpdateElementProof` panics for a leaf the reverted block had added. -/

structure Elem where
  basis : Nat
  born : Nat
  corrupt : Bool := false
deriving DecidableEq, Repr

structure IdxElem where     -- row of contracts_v2_chain_index_elements
  h : Nat
  blk : Nat
  e : Elem
deriving DecidableEq, Repr

structure ConElem where     -- row of contract_v2_state_elements
  c : Nat
  e : Elem
deriving DecidableEq, Repr

/-- one block as `contracts.Manager.UpdateChainState` sees it -/
structure CBlock where
  h : Nat
  blk : Nat
  parent : Nat              -- id of the parent block
  formed : List Nat         -- host contracts whose formation the block confirms
deriving DecidableEq, Repr

structure EState where
  idx : List IdxElem := []
  con : List ConElem := []
deriving Repr

def applyProof (b p : Nat) (e : Elem) : Elem :=
  if e.corrupt then e
  else if e.born = b then e
  else if e.basis = p then { e with basis := b }
  else { e with corrupt := true }

def revertProof (b p : Nat) (e : Elem) : Except Fault Elem :=
  if e.born = b then .error .revertAbsent
  else if e.corrupt then .ok e
  else if e.basis = b then .ok { e with basis := p }
  else .ok { e with corrupt := true }

def chainIndexBuffer : Nat := 144

/-- the element calls of the apply loop, in the order of the code -/
def applyBlockE (s : EState) (b : CBlock) : EState :=
  -- ApplyContracts → applyV2ContractFormation: INSERT … ON CONFLICT (contract_id) DO UPDATE
  let con1 := s.con.filter (fun x => !b.formed.contains x.c) ++ b.formed.map (fun c => ⟨c, ⟨b.blk, b.blk, false⟩⟩)
  -- UpdateChainIndexElementProofs(cau), UpdateContractElementProofs(cau)
  let idx2 := s.idx.map (fun x => { x with e := applyProof b.blk b.parent x.e })
  let con2 := con1.map (fun x => { x with e := applyProof b.blk b.parent x.e })
  -- AddContractChainIndexElement(cau.ChainIndexElement()): INSERT … ON CONFLICT (id) DO UPDATE
  let idx3 := idx2.filter (fun x => x.blk != b.blk) ++ [⟨b.h, b.blk, ⟨b.blk, b.blk, false⟩⟩]
  -- DeleteExpiredChainIndexElements(height - chainIndexBuffer) when height > chainIndexBuffer
  let idx4 := if b.h > chainIndexBuffer then idx3.filter (fun x => !decide (x.h ≤ b.h - chainIndexBuffer)) else idx3
  { idx := idx4, con := con2 }

def mapExcept {α β : Type} (f : α → Except Fault β) : List α → Except Fault (List β)
  | [] => .ok []
  | a :: rest => do
      let b ← f a
      let bs ← mapExcept f rest
      pure (b :: bs)

/-- the element calls of the revert loop, in the order of the code -/
def revertBlockE (s : EState) (b : CBlock) : Except Fault EState := do
  -- RevertContracts → revertV2ContractFormation: DELETE FROM contract_v2_state_elements WHERE contract_id=?
  let con1 := s.con.filter (fun x => !b.formed.contains x.c)
  -- RevertContractChainIndexElement(revertedIndex): DELETE … WHERE height=? AND id=?
  let idx1 := s.idx.filter (fun x => !(x.h == b.h && x.blk == b.blk))
  -- UpdateChainIndexElementProofs(cru), UpdateContractElementProofs(cru)
  let idx2 ← mapExcept (fun x => do let e ← revertProof b.blk b.parent x.e; pure { x with e := e }) idx1
  let con2 ← mapExcept (fun x => do let e ← revertProof b.blk b.parent x.e; pure { x with e := e }) con1
  pure { idx := idx2, con := con2 }

inductive EOp where
  | apply (b : CBlock)
  | revert (b : CBlock)
deriving Repr

def stepE (s : EState) : EOp → Except Fault EState
  | .apply b => .ok (applyBlockE s b)
  | .revert b => revertBlockE s b

def runE : EState → List EOp → Except Fault EState
  | s, [] => .ok s
  | s, op :: ops => do
      let s1 ← stepE s op
      runE s1 ops

/-- `UpdateChainState(tx, reverted, applied)`: all reverts, then all applies -/
structure Batch where
  reverted : List CBlock
  applied : List CBlock

def batchOps (b : Batch) : List EOp := b.reverted.map .revert ++ b.applied.map .apply

def runBatches : EState → List Batch → Except Fault EState
  | s, [] => .ok s
  | s, b :: bs => do
      let s1 ← runE s (batchOps b)
      runBatches s1 bs


/-! ## Part 4: what `contracts.Manager.ProcessActions` does at a processed index

For each of the seven action kinds the store selects contracts (`Store.ContractActions`); for every
selected contract the loop builds a transaction set unless a listed skip applies (no funds, no benefit
to the host, proof index unknown, proof cannot be built, formation set empty), hands it to the pool
(`AddPoolTransactions` / `AddV2PoolTransactions`) and, when the pool accepted it, to the syncer
(`BroadcastTransactionSet` / `BroadcastV2TransactionSet`).  The v1 formation rebroadcast is the one
path that hands the set to the syncer whether or not the pool accepted it (`tryFormationBroadcast`'s
error is only logged). -/

inductive ActKind where
  | formation1 | revision1 | proof1 | formation2 | revision2 | proof2 | expiration2
deriving DecidableEq, Repr

/-- the v1 formation path broadcasts even what the pool refused (host/contracts/update.go:211-216) -/
def ActKind.broadcastsRefused : ActKind → Bool
  | .formation1 => true
  | _ => false

structure ActOut where
  submitted : List Nat      -- contracts for which a set was handed to the pool
  broadcast : List Nat      -- contracts whose set was handed to the syncer
deriving DecidableEq, Repr

/-- the decision function of one loop of `ProcessActions` -/
def actsOf (k : ActKind) (selected : List Nat) (skip accepts : Nat → Bool) : ActOut :=
  let sub := selected.filter (fun c => !skip c)
  { submitted := sub, broadcast := sub.filter (fun c => accepts c || k.broadcastsRefused) }

/-- what the harness observed of one loop: selected contracts, contracts with a logged skip, pool
submissions that were accepted / refused, sets handed to the syncer (same transactions as the accepted
submission / anything else) -/
structure ActObs where
  sel : List Nat
  skips : List Nat
  subOk : List Nat
  subRej : List Nat
  bcSame : List Nat
  bcDiff : List Nat
deriving Repr

/-- `c06/acts/submitted`: every selected contract got a pool submission unless a listed skip applies -/
def submittedOk (o : ActObs) : Bool := o.sel.all fun c => o.subOk.contains c || o.subRej.contains c || o.skips.contains c
/-- `c06/acts/only_selected`: nothing is submitted for a contract the store did not select -/
def onlySelectedOk (o : ActObs) : Bool := (o.subOk ++ o.subRej).all fun c => o.sel.contains c
/-- `c06/acts/broadcast`: every accepted set is handed to the syncer, with the same transactions, and nothing else is -/
def broadcastOk (o : ActObs) : Bool :=
  (o.subOk.all fun c => o.bcSame.contains c) && o.bcDiff.isEmpty && (o.bcSame.all fun c => o.subOk.contains c || o.subRej.contains c)
/-- `c06/acts/broadcast_refused`: nothing the pool refused is handed to the syncer -/
def noRefusedBroadcastOk (o : ActObs) : Bool := (o.bcSame ++ o.bcDiff).all fun c => !o.subRej.contains c || o.subOk.contains c

end Hostd.Wallet
