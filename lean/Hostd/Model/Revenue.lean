/-
Model of the revenue accounting of hostd (engine `revenue`, property C10):
"recorded revenue equals the money that moved".

Transcribed from
* `rhp/v2/rpc.go`       — `rpcFormContract` (usage.RPC = contract price, locked collateral =
                          host payout − contract price, `validateContractFormation`),
                          `rpcWrite` / `rpcRead` / `rpcSectorRoots` (cost = `RPCCost.Total()`,
                          `rhp.ValidateRevision`, the renter's EXCESS = transferred − cost folded
                          into Storage (write) / Egress (read, sector roots), `costs.Collateral = risked`),
                          `rpcRenewAndClearContract` (clearing usage RPC = final payment, renewal usage
                          RPC = contract price, Storage = base revenue − contract price, locked =
                          host payout − base revenue)
* `rhp/v3/payments.go`  — `processFundAccountPayment` (Cost = FundAccountCost, Amount = total − cost;
                          a payment below the cost is refused, fix d77a196; `ValidatePaymentRevision`), `processContractPayment`
                          (whole transfer credited to the refund account)
* `rhp/v3/rpc.go`       — `handleRPCRenew` (RPC = contract price, Storage = RenewContractCost +
                          storage extension, locked = host payout − (contract price + that))
* `rhp/v3/execute.go`   — `commit`: finalisation usage = risked collateral only (host valid payout
                          must not change, `ValidateProgramRevision`)
* `persist/sqlite/accounts.go` — `CreditAccountWithContract` (usage RPC += cost, AccountFunding +=
                          amount, funding row += amount, all in the transaction that revises the
                          contract), `DebitAccount` + `distributeRHP3AccountUsage`
* `persist/sqlite/contracts.go` — `insertContract`, `reviseContract`/`clearContract` →
                          `incrementContractUsage` (which columns are added), `incrementV2ContractUsage`
* `host/contracts/manager.go` — `AddV2Contract`, `RenewV2Contract`, `ReviseV2Contract` (store the
                          `proto4.Usage` argument they are given)

Money is `Nat`.  Every Go operation that can fail is an explicit outcome (`Out.reject` = the RPC
answers with an error and nothing is committed, `Out.panic` = a `types.Currency.Sub` underflow);
no truncated subtraction is ever *used*: each `a - b` below is guarded by `b ≤ a`.

The places where money is routed into a usage category are parameters (`Facts`); `Facts.current`
is what the code does now.  `Props/C10.lean` proves conservation for every `Facts` that routes the
money *somewhere* and shows with concrete witnesses that dropping any of them breaks it.

Core Lean only.
-/
namespace Hostd.Revenue

abbrev Cid  := Nat
abbrev Acct := Nat

/-- `contracts.Usage` (eight columns of table `contracts`). -/
structure Usage where
  rpc  : Nat := 0
  sto  : Nat := 0
  ing  : Nat := 0
  egr  : Nat := 0
  rr   : Nat := 0   -- registry read
  rw   : Nat := 0   -- registry write
  af   : Nat := 0   -- account funding (unspent)
  risk : Nat := 0   -- risked collateral (not revenue)
deriving DecidableEq, Repr

/-- Σ of the revenue categories (everything but the risked collateral). -/
def Usage.revenue (u : Usage) : Nat := u.rpc + u.sto + u.ing + u.egr + u.rr + u.rw + u.af

/-- `accounts.Usage.Total()`: the six categories an account can be charged for. -/
def Usage.total6 (u : Usage) : Nat := u.rpc + u.sto + u.ing + u.egr + u.rr + u.rw

/-- `contracts.Usage.Add` -/
def Usage.add (a b : Usage) : Usage :=
  { rpc := a.rpc + b.rpc, sto := a.sto + b.sto, ing := a.ing + b.ing, egr := a.egr + b.egr,
    rr := a.rr + b.rr, rw := a.rw + b.rw, af := a.af + b.af, risk := a.risk + b.risk }

/-- a revenue category -/
inductive Cat where
  | rpc | sto | ing | egr | rr | rw | af
deriving DecidableEq, Repr

def Usage.bump (u : Usage) : Cat → Nat → Usage
  | .rpc, n => { u with rpc := u.rpc + n }
  | .sto, n => { u with sto := u.sto + n }
  | .ing, n => { u with ing := u.ing + n }
  | .egr, n => { u with egr := u.egr + n }
  | .rr,  n => { u with rr := u.rr + n }
  | .rw,  n => { u with rw := u.rw + n }
  | .af,  n => { u with af := u.af + n }

/-- `none` = the amount is not recorded anywhere -/
def Usage.bump? (u : Usage) : Option Cat → Nat → Usage
  | none, _ => u
  | some c, n => u.bump c n

/-- the three RHP2 RPCs that revise a contract with renter supplied payouts -/
inductive Kind where
  | write | read | roots
deriving DecidableEq, Repr

/-- Where the handlers and the store route money. -/
structure Facts where
  /-- category receiving `payment − cost` in `rpcWrite` / `rpcRead` / `rpcSectorRoots` -/
  excess : Kind → Option Cat
  /-- `CreditAccountWithContract` adds the deposit to `AccountFunding` -/
  fundAf : Bool
  /-- `incrementContractUsage` persists (and `Contract()` reports) `registry_read`/`registry_write`
  (fix commits 7f588c8, 01c80e7) -/
  keepRegistry : Bool
  /-- the RHP3 payment paths run `rhp.ValidatePaymentRevision` before signing: what leaves the
  renter's valid payout is exactly what the host's valid and missed payouts gain -/
  validatePay : Bool

/-- the current tree: `costs.Storage += excess` (rpc.go:710), `costs.Egress += excess` (rpc.go:524,800) -/
def Facts.current : Facts :=
  { excess := fun k => match k with | .write => some .sto | .read => some .egr | .roots => some .egr,
    fundAf := true, keepRegistry := true, validatePay := true }

/-- every amount is recorded somewhere: the excess in a revenue category proper (the unspent
account funding is backed by funding rows, an over-payment is not), deposits as account funding,
registry revenue persisted -/
def Facts.ok (F : Facts) : Prop :=
  (∀ k, ∃ c, F.excess k = some c ∧ c ≠ Cat.af) ∧ F.fundAf = true ∧ F.keepRegistry = true ∧
  F.validatePay = true

/-- what `incrementContractUsage` adds to the row -/
def Facts.persist (F : Facts) (u : Usage) : Usage :=
  if F.keepRegistry then u else { u with rr := 0, rw := 0 }

/-- `rhp2.RPCCost` as returned by `settings.RPCWriteCost/RPCReadCost/RPCSectorRootsCost` -/
structure Cost where
  base : Nat := 0
  sto  : Nat := 0
  ing  : Nat := 0
  egr  : Nat := 0
  coll : Nat := 0
deriving DecidableEq, Repr

/-- `RPCCost.Total()` (first component) -/
def Cost.total (c : Cost) : Nat := c.base + c.sto + c.ing + c.egr

/-- `newUsageFromRPCCost` -/
def Cost.usage (c : Cost) : Usage :=
  { rpc := c.base, sto := c.sto, ing := c.ing, egr := c.egr, risk := c.coll }

/-- a v1 contract as the property sees it -/
structure Contract where
  present   : Bool := false
  revisable : Bool := false   -- revision number below the maximum (not cleared)
  vhp    : Nat := 0           -- `Revision.ValidHostPayout()`
  vrp    : Nat := 0           -- `Revision.ValidRenterPayout()`
  mhp    : Nat := 0           -- `Revision.MissedHostPayout()`
  locked : Nat := 0           -- `LockedCollateral`
  u      : Usage := {}
deriving DecidableEq, Repr

/-- the clause of C10 for one contract -/
def Conserved (c : Contract) : Prop := c.vhp = c.locked + c.u.revenue

instance (c : Contract) : Decidable (Conserved c) := by unfold Conserved; exact inferInstance

/-- a row of `contract_account_funding` -/
structure Row where
  cid  : Cid
  acct : Acct
  amt  : Nat
deriving DecidableEq, Repr

def upd {β : Type} (f : Nat → β) (k : Nat) (v : β) : Nat → β := fun x => if x = k then v else f x

@[simp] theorem upd_same {β : Type} (f : Nat → β) (k : Nat) (v : β) : upd f k v k = v := by simp [upd]
@[simp] theorem upd_other {β : Type} (f : Nat → β) (k x : Nat) (v : β) (h : x ≠ k) :
    upd f k v x = f x := by simp [upd, h]

/-- Σ amount of the funding rows of contract `c` -/
def rowsSum (c : Cid) : List Row → Nat
  | [] => 0
  | r :: rest => (if r.cid = c then r.amt else 0) + rowsSum c rest

/-- `incrementContractAccountFunding`: `amount += amt`, row appended when missing -/
def upsert : List Row → Cid → Acct → Nat → List Row
  | [], c, a, amt => [{ cid := c, acct := a, amt := amt }]
  | r :: rest, c, a, amt =>
    if r.cid = c ∧ r.acct = a then { r with amt := r.amt + amt } :: rest
    else r :: upsert rest c a amt

structure Settings where
  maxBal  : Nat   -- `MaxAccountBalance`
  maxColl : Nat   -- `MaxCollateral`
deriving Repr

structure State where
  cfg  : Settings
  ctr  : Cid → Contract
  rows : List Row
  bal  : Acct → Nat

def init (cfg : Settings) : State := { cfg := cfg, ctr := fun _ => {}, rows := [], bal := fun _ => 0 }

inductive Out where
  | ok | reject | panic
deriving DecidableEq, Repr

/-! ### formation (`rpcFormContract` + `validateContractFormation` + `AddContract`) -/

/-- the money related checks of `validateContractFormation` (+ the id is new) -/
def formGuard (s : State) (cid : Cid) (hp mhp price : Nat) : Bool :=
  !(s.ctr cid).present && decide (rowsSum cid s.rows = 0)   -- contract does not exist yet
  && decide (price ≤ hp)                                    -- host valid payout is too small
  && decide (hp = mhp)                                      -- host valid and missed outputs must be equal
  && decide (hp ≤ s.cfg.maxColl)                            -- excessive initial collateral

/-- usage `RPC = contract price`, locked collateral `= host payout − contract price` -/
def formed (hp mhp vrp price : Nat) : Contract :=
  { present := true, revisable := true, vhp := hp, vrp := vrp, mhp := mhp,
    locked := hp - price, u := { rpc := price } }

/-- `hp`/`mhp`/`vrp` are the host valid, host missed and renter valid payouts of the proposed
contract, `price` the host's contract price. -/
def form (s : State) (cid : Cid) (hp mhp vrp price : Nat) : State × Out :=
  if formGuard s cid hp mhp price then ({ s with ctr := upd s.ctr cid (formed hp mhp vrp price) }, .ok)
  else (s, .reject)

/-! ### RHP2 write / read / sector roots -/

/-- collateral the handler passes to `ValidateRevision`: the computed one for write, zero otherwise -/
def collArg (k : Kind) (cost : Cost) : Nat := match k with | .write => cost.coll | _ => 0

/-- The checks of `rpcSectorRoots` on the requested range, made before anything is charged
(fix e3519d3: an empty range has no Merkle proof; the sum must not wrap around). -/
def rootsWF (sectors off n : Nat) : Bool := n != 0 && decide (off ≤ sectors) && decide (n ≤ sectors - off)

/-- What `rpcWrite` demands of the action list beyond `RPCWriteCost`: no Merkle proof for `update`
actions (fix b659995), and — at commit — the root of every patched sector must be a sector the
host stores (`updateSector` looks the new root up; the handler writes the patched data under the
OLD root, so on the current tree this only holds when the new root happens to be stored already). -/
def writeWF (proof hasUpdate newRootsStored : Bool) : Bool := !(proof && hasUpdate) && (!hasUpdate || newRootsStored)

/-- `Revise` + `rhp.ValidateRevision` on the money fields.  `transfer` is what the proposed
revision moves from the renter's to the host's valid payout, `burn` what it moves from the
host's missed payout to the void.  `wf`: the request passes the non-monetary checks
(`rootsWF` / `writeWF`); a request failing them is refused and nothing is recorded. -/
def reviseGuard (c : Contract) (k : Kind) (cost : Cost) (transfer burn : Nat) (wf : Bool) : Bool :=
  wf && c.present && c.revisable
  && decide (cost.total ≤ c.vrp)         -- renter output must cover the payment amount
  && decide (collArg k cost ≤ c.mhp)     -- host missed output must cover the collateral amount
  && decide (transfer ≤ c.vrp)           -- renter valid payout must decrease (no underflow)
  && decide (burn ≤ c.mhp)               -- host missed payout must decrease (no underflow)
  && decide (cost.total ≤ transfer)      -- insufficient host transfer
  && decide (burn ≤ collArg k cost)      -- excessive collateral transfer

/-- the usage the handler commits: the cost categories, the excess `transfer − cost` folded into
`F.excess k`, and for write `costs.Collateral = risked` (the actual burn) -/
def reviseUsage (F : Facts) (k : Kind) (cost : Cost) (transfer burn : Nat) : Usage :=
  let risk := match k with | .write => burn | _ => cost.coll
  (({ cost with coll := risk } : Cost).usage).bump? (F.excess k) (transfer - cost.total)

def revised (F : Facts) (c : Contract) (k : Kind) (cost : Cost) (transfer burn : Nat) : Contract :=
  { c with vhp := c.vhp + transfer, vrp := c.vrp - transfer, mhp := c.mhp - burn,
           u := c.u.add (F.persist (reviseUsage F k cost transfer burn)) }

def revise (F : Facts) (s : State) (cid : Cid) (k : Kind) (cost : Cost) (transfer burn : Nat) (wf : Bool := true) :
    State × Out :=
  if reviseGuard (s.ctr cid) k cost transfer burn wf then
    ({ s with ctr := upd s.ctr cid (revised F (s.ctr cid) k cost transfer burn) }, .ok)
  else (s, .reject)

/-! ### RHP3 payments by contract -/

/-- A proposed payment revision: `total` leaves the renter's valid (and missed) payout, `up` is
added to the host's valid payout, `mup` to the host's missed payout.  A well-formed payment has
`up = mup = total`. -/
structure PayRev where
  total : Nat
  up : Nat
  mup : Nat
deriving DecidableEq, Repr

def PayRev.exact (total : Nat) : PayRev := { total := total, up := total, mup := total }

def creditGuard (F : Facts) (s : State) (cid : Cid) (a : Acct) (cost : Nat) (p : PayRev) (checkMax : Bool) : Bool :=
  (s.ctr cid).present && (s.ctr cid).revisable
  && decide (p.total ≤ (s.ctr cid).vrp)                             -- new revision has more funds than current
  && (!F.validatePay || (decide (p.up = p.total) && decide (p.mup = p.total)))   -- ValidatePaymentRevision
  && decide (cost ≤ p.total)                                        -- payment does not cover the cost (fix d77a196)
  && (!checkMax || decide (s.bal a + (p.total - cost) ≤ s.cfg.maxBal))  -- ErrBalanceExceeded

def credited (F : Facts) (c : Contract) (cost : Nat) (p : PayRev) : Contract :=
  { c with vhp := c.vhp + p.up, vrp := c.vrp - p.total, mhp := c.mhp + p.mup,
           u := c.u.add (F.persist { rpc := cost, af := if F.fundAf then p.total - cost else 0 }) }

/-- `CreditAccountWithContract` for a payment revision taking `p.total` from the renter; `cost` goes
to RPC revenue, `p.total − cost` to the account.  `checkMax` = `!refund`. -/
def credit (F : Facts) (s : State) (cid : Cid) (a : Acct) (cost : Nat) (p : PayRev) (checkMax : Bool) : State × Out :=
  if creditGuard F s cid a cost p checkMax then
    ({ s with ctr := upd s.ctr cid (credited F (s.ctr cid) cost p),
              rows := upsert s.rows cid a (p.total - cost),
              bal := upd s.bal a (s.bal a + (p.total - cost)) }, .ok)
  else (s, .reject)

/-- `handleRPCFundAccount` -/
def fund (F : Facts) (s : State) (cid : Cid) (a : Acct) (cost : Nat) (p : PayRev) : State × Out :=
  credit F s cid a cost p true

/-- `processContractPayment`: the whole transfer is credited to the refund account -/
def pay (F : Facts) (s : State) (cid : Cid) (a : Acct) (p : PayRev) : State × Out :=
  credit F s cid a 0 p false

/-! ### account spending (`Budget.Commit` → `DebitAccount` → `distributeRHP3AccountUsage`) -/

/-- result of attributing the remaining usage to ONE funding row -/
structure RowRes where
  left : Usage     -- usage still unattributed
  rem  : Nat       -- what remains of the row
  add  : Usage     -- `additionalUsage` for the contract

/-- the outcome of one row once the six moved amounts are known -/
def rowRes (u : Usage) (amt v1 v2 v3 v4 v5 v6 : Nat) : RowRes :=
  { left := { u with sto := u.sto - v1, ing := u.ing - v2, egr := u.egr - v3, rr := u.rr - v4,
                     rw := u.rw - v5, rpc := u.rpc - v6 },
    rem := amt - v1 - v2 - v3 - v4 - v5 - v6,
    add := { sto := v1, ing := v2, egr := v3, rr := v4, rw := v5, rpc := v6 } }

/-- the six `distributeFunds` calls in code order (storage, ingress, egress, registry read,
registry write, rpc), each moving `min(usage, remainder)` -/
def distRow (u : Usage) (amt : Nat) : RowRes :=
  let v1 := min u.sto amt
  let v2 := min u.ing (amt - v1)
  let v3 := min u.egr (amt - v1 - v2)
  let v4 := min u.rr (amt - v1 - v2 - v3)
  let v5 := min u.rw (amt - v1 - v2 - v3 - v4)
  let v6 := min u.rpc (amt - v1 - v2 - v3 - v4 - v5)
  rowRes u amt v1 v2 v3 v4 v5 v6

/-- `contract.Usage.AccountFunding.Sub(moved)` then `updateContractUsage(additionalUsage)` -/
def applyMoved (F : Facts) (c : Contract) (moved : Nat) (add : Usage) : Contract :=
  { c with u := ({ c.u with af := c.u.af - moved } : Usage).add (F.persist add) }

structure DistRes where
  rows : List Row
  left : Usage
  ctr  : Cid → Contract
  bad  : Bool     -- `AccountFunding.Sub` would have panicked

/-- the loop of `distributeRHP3AccountUsage` over the non-zero rows of account `a`, in table order -/
def dist (F : Facts) (a : Acct) : List Row → Usage → (Cid → Contract) → DistRes
  | [], u, ctr => { rows := [], left := u, ctr := ctr, bad := false }
  | r :: rest, u, ctr =>
    if r.acct = a ∧ r.amt ≠ 0 then
      let rr := distRow u r.amt
      let moved := r.amt - rr.rem
      let c := ctr r.cid
      let t := dist F a rest rr.left (upd ctr r.cid (applyMoved F c moved rr.add))
      { rows := if rr.rem = 0 then t.rows else { r with amt := rr.rem } :: t.rows,
        left := t.left, ctr := t.ctr, bad := decide (c.u.af < moved) || t.bad }
    else
      let t := dist F a rest u ctr
      { rows := r :: t.rows, left := t.left, ctr := t.ctr, bad := t.bad }

/-- `DebitAccount` with the usage of a committed budget (af and risk of `u` are ignored) -/
def debit (F : Facts) (s : State) (a : Acct) (u : Usage) : State × Out :=
  if s.bal a < u.total6 then (s, .reject)             -- insufficient balance
  else
    let d := dist F a s.rows u s.ctr
    if d.bad then (s, .panic)
    else ({ s with bal := upd s.bal a (s.bal a - u.total6), rows := d.rows, ctr := d.ctr }, .ok)

/-! ### program finalisation (`programExecutor.commit`) -/

def finalizeGuard (c : Contract) (burn stoCost collCost : Nat) : Bool :=
  c.present && c.revisable && decide (burn ≤ c.mhp) && decide (burn ≤ stoCost + collCost)

/-- `ValidateProgramRevision(existing, revision, cost.Storage, cost.Collateral)`; the committed
usage is `RiskedCollateral = cost.Collateral` only, the valid payouts must not change -/
def finalize (F : Facts) (s : State) (cid : Cid) (burn stoCost collCost : Nat) : State × Out :=
  let c := s.ctr cid
  if finalizeGuard c burn stoCost collCost then
    let c' : Contract := { c with mhp := c.mhp - burn, u := c.u.add (F.persist { risk := collCost }) }
    ({ s with ctr := upd s.ctr cid c' }, .ok)
  else (s, .reject)

/-! ### renewal (`rpcRenewAndClearContract`, `handleRPCRenew`) -/

/-- base revenue the host burn is compared with: RHP2 includes the contract price, RHP3 does not -/
def baseRev (v3 : Bool) (price sto : Nat) : Nat := if v3 then sto else price + sto

/-- risked collateral of the new contract: burn − base revenue, zero on underflow -/
def renewRisk (v3 : Bool) (hp mhp price sto : Nat) : Nat := (hp - mhp) - baseRev v3 price sto

def renewGuard (s : State) (old new : Cid) (v3 : Bool)
    (transfer minPay hp mhp price sto baseColl : Nat) : Bool :=
  (s.ctr old).present && (s.ctr old).revisable
  && decide (new ≠ old) && !(s.ctr new).present && decide (rowsSum new s.rows = 0)
  && decide (transfer ≤ (s.ctr old).vrp)                 -- renter valid payout must not increase
  && decide (minPay ≤ transfer)                          -- expected host payment of at least …
  && decide (mhp ≤ hp)                                   -- host valid payout below host missed payout
  && decide (hp - mhp ≤ baseRev v3 price sto + baseColl) -- excessive host burn
  && decide (price + sto ≤ hp)                           -- valid host output below base cost
  && decide (hp - (price + sto) ≤ s.cfg.maxColl)         -- collateral exceeds maximum
  && (!v3 || decide (price + (hp - (price + sto)) ≤ mhp + renewRisk v3 hp mhp price sto))  -- insufficient host missed payout

/-- the old contract after the clearing revision: usage `RPC += final payment` -/
def cleared (F : Facts) (c : Contract) (transfer : Nat) : Contract :=
  { c with revisable := false, vhp := c.vhp + transfer, vrp := c.vrp - transfer, mhp := c.vhp + transfer,
           u := c.u.add (F.persist { rpc := transfer }) }

/-- the new contract: `RPC = contract price`, `Storage = sto`, locked `= host payout − (price + sto)` -/
def renewed (v3 : Bool) (hp mhp vrp price sto : Nat) : Contract :=
  { present := true, revisable := true, vhp := hp, vrp := vrp, mhp := mhp, locked := hp - (price + sto),
    u := { rpc := price, sto := sto, risk := renewRisk v3 hp mhp price sto } }

/-- `v3 = false`: RHP2 (`price` = contract price, `sto` = storage price · size · extension,
`minPay` = min(base RPC price, renter payout)); `v3 = true`: RHP3 (`sto` = RenewContractCost +
WriteStoreCost · size · extension, `minPay = 0`).  `transfer` = what the clearing revision moves to
the host; `hp/mhp/vrp` = payouts of the new contract; `baseColl` the base risked collateral. -/
def renew (F : Facts) (s : State) (old new : Cid) (v3 : Bool)
    (transfer minPay hp mhp vrp price sto baseColl : Nat) : State × Out :=
  if renewGuard s old new v3 transfer minPay hp mhp price sto baseColl then
    ({ s with ctr := upd (upd s.ctr old (cleared F (s.ctr old) transfer)) new (renewed v3 hp mhp vrp price sto) }, .ok)
  else (s, .reject)

/-! ### operation sequences -/

inductive Op where
  | form (cid : Cid) (hp mhp vrp price : Nat)
  | revise (cid : Cid) (k : Kind) (cost : Cost) (transfer burn : Nat) (wf : Bool := true)
  | fund (cid : Cid) (a : Acct) (cost : Nat) (p : PayRev)
  | pay (cid : Cid) (a : Acct) (p : PayRev)
  | debit (a : Acct) (u : Usage)
  | finalize (cid : Cid) (burn stoCost collCost : Nat)
  | renew (old new : Cid) (v3 : Bool) (transfer minPay hp mhp vrp price sto baseColl : Nat)
deriving Repr

def stepOut (F : Facts) (s : State) : Op → State × Out
  | .form cid hp mhp vrp price => form s cid hp mhp vrp price
  | .revise cid k cost t b wf => revise F s cid k cost t b wf
  | .fund cid a cost p => fund F s cid a cost p
  | .pay cid a p => pay F s cid a p
  | .debit a u => debit F s a u
  | .finalize cid b sc cc => finalize F s cid b sc cc
  | .renew o n v3 t mp hp mhp vrp p st bc => renew F s o n v3 t mp hp mhp vrp p st bc

def step (F : Facts) (s : State) (op : Op) : State := (stepOut F s op).1

def run (F : Facts) (s : State) (ops : List Op) : State := ops.foldl (step F) s

/-! ### v2 contracts (`AddV2Contract`, `RenewV2Contract`, `ReviseV2Contract`, RHP4 accounts) -/

/-- `proto4.Usage` -/
structure Usage4 where
  rpc  : Nat := 0
  sto  : Nat := 0
  egr  : Nat := 0
  ing  : Nat := 0
  af   : Nat := 0
  risk : Nat := 0
deriving DecidableEq, Repr

/-- `proto4.Usage.Add` -/
def Usage4.add (a b : Usage4) : Usage4 :=
  { rpc := a.rpc + b.rpc, sto := a.sto + b.sto, egr := a.egr + b.egr, ing := a.ing + b.ing,
    af := a.af + b.af, risk := a.risk + b.risk }

/-- `proto4.Usage.RenterCost()` -/
def Usage4.renterCost (u : Usage4) : Nat := u.rpc + u.sto + u.egr + u.ing + u.af

/-- a v2 contract as the property sees it -/
structure Contract4 where
  hostOut  : Nat := 0      -- `HostOutput.Value`
  totalColl : Nat := 0     -- `TotalCollateral`
  u : Usage4 := {}         -- recorded usage
  /-- revenue carried over from a refreshed predecessor (0 for formed/renewed contracts) -/
  carry : Nat := 0
deriving DecidableEq, Repr

/-- which `proto4.Usage` columns `insertV2Contract` / `incrementV2ContractUsage` write -/
structure Facts4 where
  keep : Usage4 → Usage4

def Facts4.current : Facts4 := { keep := id }

/-- `insertV2Contract` with the usage the RHP4 server passes to `AddV2Contract`/`RenewV2Contract` -/
def insert4 (F : Facts4) (hostOut totalColl carry : Nat) (u : Usage4) : Contract4 :=
  { hostOut := hostOut, totalColl := totalColl, u := F.keep u, carry := carry }

/-- `reviseV2Contract` + `incrementV2ContractUsage`: the revision replaces the payouts, the usage
argument is added to the recorded usage -/
def revise4 (F : Facts4) (c : Contract4) (hostOut : Nat) (u : Usage4) : Contract4 :=
  { c with hostOut := hostOut, u := c.u.add (F.keep u) }

/-- the four `distributeFunds` calls of `distributeRHP4AccountUsage` (storage, ingress, egress, rpc) -/
structure RowRes4 where
  left : Usage4
  rem  : Nat
  add  : Usage4

def rowRes4 (u : Usage4) (amt v1 v2 v3 v4 : Nat) : RowRes4 :=
  { left := { u with sto := u.sto - v1, ing := u.ing - v2, egr := u.egr - v3, rpc := u.rpc - v4 },
    rem := amt - v1 - v2 - v3 - v4,
    add := { sto := v1, ing := v2, egr := v3, rpc := v4 } }

def distRow4 (u : Usage4) (amt : Nat) : RowRes4 :=
  let v1 := min u.sto amt
  let v2 := min u.ing (amt - v1)
  let v3 := min u.egr (amt - v1 - v2)
  let v4 := min u.rpc (amt - v1 - v2 - v3)
  rowRes4 u amt v1 v2 v3 v4

/-- one funding row of `distributeRHP4AccountUsage` applied to its contract: unspent funding
decreases by what moved, the categories receive it (guard: `moved ≤ af`, else `Sub` panics) -/
def spend4 (F : Facts4) (c : Contract4) (u : Usage4) (amt : Nat) : Option Contract4 :=
  let rr := distRow4 u amt
  let moved := amt - rr.rem
  if c.u.af < moved then none
  else some { c with u := ({ c.u with af := c.u.af - moved } : Usage4).add (F.keep rr.add) }

/-- what happens to one v2 contract during its life -/
inductive Op4 where
  | rpc (hostOut : Nat) (u : Usage4)        -- ReviseV2Contract / RHP4CreditAccounts
  | spend (u : Usage4) (amt : Nat)          -- an account debit attributed to a funding row of this contract
deriving Repr

def step4 (F : Facts4) (c : Contract4) : Op4 → Contract4
  | .rpc ho u => revise4 F c ho u
  | .spend u amt => match spend4 F c u amt with | some c' => c' | none => c

def run4 (F : Facts4) (c : Contract4) (ops : List Op4) : Contract4 := ops.foldl (step4 F) c

/-- Σ of the usage arguments of the RPCs of a history (`proto4.Usage.Add` fold) -/
def sumUsage4 : List Op4 → Usage4
  | [] => {}
  | .rpc _ u :: rest => u.add (sumUsage4 rest)
  | .spend _ _ :: rest => sumUsage4 rest

end Hostd.Revenue
