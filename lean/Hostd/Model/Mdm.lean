/-
Model for C14 — "no peer input can crash the host or change state when rejected".

What is modelled (core Lean only, everything is a total function on `Nat`/`List`):

* `programData` accessors of rhp/v3/execute.go with the uint64 wrap-around
  arithmetic exactly as written in Go (`% 2^64`), Go's slice expression
  `s[lo:hi]` (panics unless `lo ≤ hi ≤ cap`) and the slice→array conversions;
* every MDM instruction (`executeXxx`) as the *sequence of steps the Go code
  performs*: guards (`if … return err`), slice/index expressions, library
  preconditions (`BuildProof` / `BuildSectorRangeProof` panic on an illegal
  range), `Currency.Mul64` (panics on 128-bit overflow) and the payment;
* the program executor and the RHP3 execute-program handler: budget,
  rollback/commit accounting, finalisation;
* RHP2 `rpcSectorRoots`, `rpcRead`, `rpcWrite`, `rpcFormContract` range checks;
* `ContractUpdater` index checks; the registry access recorder flush.

The code under test contains genuine defects (see Props/C14.lean for the
witnesses).  `Fixes` selects, per site, between the guard *as currently
written* (`false`) and the minimal overflow-safe repair (`true`); `deployed`
says what the tree under test contains and is the only thing to edit when a
`fix:` commit lands in /repo.
-/
namespace Hostd.Mdm

/-! ## constants and uint64 arithmetic -/

def U64 : Nat := 18446744073709551616          -- 2^64
def U128 : Nat := 340282366920938463463374607431768211456 -- 2^128
def SectorSize : Nat := 4194304                -- rhp2.SectorSize = 1 <<< 22
def LeafSize : Nat := 64
def LeavesPerSector : Nat := 65536
def MaxTempSectorBlocks : Nat := 1008          -- storage.MaxTempSectorBlocks = 144*7
def MaxInt : Nat := 9223372036854775807        -- math.MaxInt (64-bit)

/-- uint64 addition/subtraction as Go computes them -/
def wrap (x : Nat) : Nat := x % U64
def wsub (a b : Nat) : Nat := (a + U64 - b % U64) % U64

/-- Panic sites: the Go function containing the failing expression (or calling
the library function whose precondition fails).  Each site is a separate
known-finding signature. -/
inductive Site where
  | pdSector | pdBytes | pdUint64 | pdHash | pdUnlockKey | pdSignature
  | executeAppendSector | executeAppendSectorRoot | executeDropSectors | executeHasSector
  | executeReadOffset | executeReadSector | executeSwapSector | executeUpdateSector
  | executeStoreSector | executeReadRegistry | executeUpdateRegistry
  | swapSectors | trimSectors | updateSector | sectorRoot
  | rpcSectorRoots | rpcRead | rpcWrite | rpcFormContract
  | validateStdRevision | recorderFlush | processFundAccountPayment
  | handleRPCRenew | rpcRenewAndClearContract | rollback
deriving DecidableEq, Repr

/-- the name the harness derives from the Go stack trace -/
def Site.name : Site → String
  | .pdSector => "programData.Sector" | .pdBytes => "programData.Bytes"
  | .pdUint64 => "programData.Uint64" | .pdHash => "programData.Hash"
  | .pdUnlockKey => "programData.UnlockKey" | .pdSignature => "programData.Signature"
  | .executeAppendSector => "executeAppendSector" | .executeAppendSectorRoot => "executeAppendSectorRoot"
  | .executeDropSectors => "executeDropSectors" | .executeHasSector => "executeHasSector"
  | .executeReadOffset => "executeReadOffset" | .executeReadSector => "executeReadSector"
  | .executeSwapSector => "executeSwapSector" | .executeUpdateSector => "executeUpdateSector"
  | .executeStoreSector => "executeStoreSector" | .executeReadRegistry => "executeReadRegistry"
  | .executeUpdateRegistry => "executeUpdateRegistry"
  | .swapSectors => "ContractUpdater.SwapSectors" | .trimSectors => "ContractUpdater.TrimSectors"
  | .updateSector => "ContractUpdater.UpdateSector" | .sectorRoot => "ContractUpdater.SectorRoot"
  | .rpcSectorRoots => "rpcSectorRoots" | .rpcRead => "rpcRead" | .rpcWrite => "rpcWrite"
  | .rpcFormContract => "rpcFormContract"
  | .validateStdRevision => "validateStdRevision" | .recorderFlush => "registryAccessRecorder.Flush"
  | .processFundAccountPayment => "processFundAccountPayment"
  | .handleRPCRenew => "handleRPCRenew" | .rpcRenewAndClearContract => "rpcRenewAndClearContract"
  | .rollback => "Usage.Sub"   -- rollback() → Budget.Refund → accounts.Usage.Sub (innermost hostd frame of the panic)

/-- Which repairs the code under test contains.  `false` = the guard as written
in the pinned snapshot. -/
structure Fixes where
  /-- accessors check `offset > len || n > len-offset` instead of `offset+n > len` -/
  pdOverflow : Bool := false
  /-- `UnlockKey` rejects `length < 16` -/
  unlockKeyMin : Bool := false
  /-- `executeReadSector`: `offset > SectorSize || length > SectorSize-offset` -/
  readSector : Bool := false
  /-- `executeReadOffset`: length ≠ 0, `length ≤ SectorSize - relOffset`, alignment when a proof is requested -/
  readOffset : Bool := false
  /-- `executeDropSectors`: `count ≤ SectorCount()` checked before the proof; no proof for `count = 0` -/
  dropSectors : Bool := false
  /-- `rpcSectorRoots`: `NumRoots = 0` rejected, overflow-safe range check -/
  v2Roots : Bool := false
  /-- `rpcRead`: host-side overflow-safe section check -/
  v2Read : Bool := false
  /-- `rpcWrite`: Merkle proof with an update action rejected -/
  v2WriteUpdateProof : Bool := false
  /-- `rpcFormContract`: renter key length checked -/
  v2FormKeyLen : Bool := false
  /-- `validateStdRevision`: output sums added with overflow check (owned by C07) -/
  revisionSum : Bool := false
  /-- `registry.NewManager` sets `recorder.store` -/
  regRecorder : Bool := false
  /-- `processFundAccountPayment` rejects a transfer smaller than `FundAccountCost` instead of `Sub`-ing it -/
  fundCost : Bool := false
  /-- not a repair but the shape of `programExecutor.rollback`: it refunds `pe.usage.StorageRevenue`, the
  bucket the budget really holds (`false`: it refunds `pe.cost.Storage`, the announced FailureRefund) -/
  rollbackRefundsUsage : Bool := true
  /-- renewal / formation handlers reject a proof window end that the contract store cannot hold (≥ 2^63) -/
  windowEndFits : Bool := false
deriving DecidableEq, Repr

/-- every repair applied -/
def Fixes.all : Fixes :=
  { pdOverflow := true, unlockKeyMin := true, readSector := true, readOffset := true, dropSectors := true,
    v2Roots := true, v2Read := true, v2WriteUpdateProof := true, v2FormKeyLen := true, revisionSum := true,
    regRecorder := true, fundCost := true, windowEndFits := true }

/-- the pinned snapshot: nothing repaired -/
def Fixes.none : Fixes := {}

/-- **What /repo contains now** unless the driver is told otherwise on its command line
(`driver_args` in lib/props.d/C14.py, see `Fixes.enable`). -/
def deployed : Fixes :=
  { Fixes.none with
    -- /repo 44e5446 "fix: validateStdRevision checks the output counts before indexing and sums without panicking"
    revisionSum := true }

/-- Marks one repair as present.  `name` is a field name of `Fixes`, the number of the
proposed patch (known-findings.d/mdm-fix-<n>-*.patch) or `all`. -/
def Fixes.enable (f : Fixes) (name : String) : Option Fixes :=
  match name with
  | "1" | "programData" => some { f with pdOverflow := true, unlockKeyMin := true }
  | "pdOverflow" => some { f with pdOverflow := true }
  | "unlockKeyMin" => some { f with unlockKeyMin := true }
  | "2" | "readSector" => some { f with readSector := true }
  | "3" | "readOffset" => some { f with readOffset := true }
  | "4" | "dropSectors" => some { f with dropSectors := true }
  | "5" | "v2Roots" => some { f with v2Roots := true }
  | "6" | "v2Read" => some { f with v2Read := true }
  | "7" | "v2WriteUpdateProof" => some { f with v2WriteUpdateProof := true }
  | "8" | "v2FormKeyLen" => some { f with v2FormKeyLen := true }
  | "9" | "regRecorder" => some { f with regRecorder := true }
  | "10" | "fundCost" => some { f with fundCost := true }
  | "11" | "windowEndFits" => some { f with windowEndFits := true }
  | "refundAnnounced" => some { f with rollbackRefundsUsage := false }   -- model of the variant that refunds cost.Storage
  | "revisionSum" => some { f with revisionSum := true }
  | "all" => some Fixes.all
  | "none" => some Fixes.none
  | _ => none

/-! ## steps: what one Go function does, in order -/

inductive Step where
  /-- `if !ok { return err }` -/
  | guard (ok : Bool)
  /-- slice or index expression `s[lo:hi]` on something of capacity `cap` (an index `s[i]` is `s[i:i+1]`) -/
  | slice (lo hi cap : Nat) (site : Site)
  /-- precondition of a library call that panics when violated (BuildProof range, slice→array conversion length, map/nil access) -/
  | need (ok : Bool) (site : Site)
  /-- `Currency.Mul64`: panics when the product does not fit 128 bits -/
  | mul (p n : Nat) (site : Site)
  /-- `payForExecution(cost)`: fails when the budget is exhausted; `storage` is the refundable
  part of `cost` (capped at `cost`) -/
  | pay (cost storage : Nat)
deriving Repr

/-- budget accounting while executing -/
structure Acc where
  budget  : Nat
  spent   : Nat := 0   -- total usage incl. refundable storage
  storage : Nat := 0   -- refundable part (usage.StorageRevenue)
  paid    : Nat := 0   -- number of pay steps that succeeded
  cstorage : Nat := 0  -- pe.cost.Storage: the storage part of the instruction costs, announced as FailureRefund
                       -- (maintained by `execInstrs`; differs from `storage` after a paid registry instruction,
                       -- whose storage cost is booked as RegistryRead/RegistryWrite usage)
deriving Repr, DecidableEq

inductive Out where
  | pass (a : Acc)
  | reject (a : Acc)
  | panic (s : Site)
deriving Repr, DecidableEq

def run (a : Acc) : List Step → Out
  | [] => .pass a
  | .guard ok :: r => if ok then run a r else .reject a
  | .slice lo hi cap s :: r => if lo ≤ hi ∧ hi ≤ cap then run a r else .panic s
  | .need ok s :: r => if ok then run a r else .panic s
  | .mul p n s :: r => if p * n < U128 then run a r else .panic s
  | .pay c st :: r =>
      if a.spent + c ≤ a.budget then run { a with spent := a.spent + c, storage := a.storage + min st c, paid := a.paid + 1 } r
      else .reject a

/-- The proof obligation of `slices_in_bounds`: whenever the guards in front of
it pass, every slice expression is in bounds (and every library precondition
and multiplication is fine). -/
def Safe : List Step → Prop
  | [] => True
  | .guard ok :: r => ok = true → Safe r
  | .slice lo hi cap _ :: r => (lo ≤ hi ∧ hi ≤ cap) ∧ Safe r
  | .need ok _ :: r => ok = true ∧ Safe r
  | .mul p n _ :: r => p * n < U128 ∧ Safe r
  | .pay _ _ :: r => Safe r

/-! ## programData accessors (rhp/v3/execute.go:735-785) -/

/-- the bounds check in front of every accessor; `true` = passes -/
def pdCheck (f : Fixes) (off n len : Nat) : Bool :=
  if f.pdOverflow then decide (off ≤ len ∧ n ≤ len - off)
  else decide (wrap (off + n) ≤ len)      -- `if offset+n > uint64(len(pd)) { return err }`

def pdSector (f : Fixes) (off len : Nat) : List Step :=
  [ .guard (pdCheck f off SectorSize len),
    .slice off (wrap (off + SectorSize)) len .pdSector,                   -- pd[offset : offset+SectorSize]
    .need (decide (SectorSize ≤ wrap (off + SectorSize) - off)) .pdSector ] -- (*[SectorSize]byte)(…)

def pdBytes (f : Fixes) (off n len : Nat) : List Step :=
  [ .guard (pdCheck f off n len),
    .slice off (wrap (off + n)) len .pdBytes ]                            -- pd[offset : offset+length]

/-- `Uint64`, `Hash`, `Signature`: `pd[offset:]` followed by a fixed-size read -/
def pdFixed (f : Fixes) (k : Nat) (site : Site) (off len : Nat) : List Step :=
  [ .guard (pdCheck f off k len),
    .slice off len len site,                                              -- pd[offset:]
    .need (decide (k ≤ len - off)) site ]                                 -- Uint64(b) / *(*[k]byte)(b)

def pdUint64 (f : Fixes) := pdFixed f 8 .pdUint64
def pdHash (f : Fixes) := pdFixed f 32 .pdHash
def pdSignature (f : Fixes) := pdFixed f 64 .pdSignature

def pdUnlockKey (f : Fixes) (off n len : Nat) : List Step :=
  [ .guard (pdCheck f off n len) ] ++
  (if f.unlockKeyMin then [ .guard (decide (16 ≤ n)) ] else []) ++
  [ .slice off (wrap (off + 16)) len .pdUnlockKey,                        -- pd[offset : offset+16]
    .need (decide (16 ≤ wrap (off + 16) - off)) .pdUnlockKey,             -- *(*types.Specifier)(…)
    .slice (wrap (off + 16)) (wrap (off + n)) len .pdUnlockKey ]          -- pd[offset+16 : offset+length]

/-- length of the key returned by `UnlockKey` -/
def unlockKeyLen (off n : Nat) : Nat := wrap (off + n) - wrap (off + 16)

inductive PdFn where
  | sector | bytes | uint64 | hash | unlockKey | signature
deriving DecidableEq, Repr

def pdSteps (f : Fixes) (fn : PdFn) (off n len : Nat) : List Step :=
  match fn with
  | .sector => pdSector f off len
  | .bytes => pdBytes f off n len
  | .uint64 => pdUint64 f off len
  | .hash => pdHash f off len
  | .unlockKey => pdUnlockKey f off n len
  | .signature => pdSignature f off len

/-- the span of program data the accessor hands out when it succeeds -/
def pdSpan (fn : PdFn) (off n : Nat) : Nat × Nat :=
  match fn with
  | .sector => (off, wrap (off + SectorSize))
  | .bytes => (off, wrap (off + n))
  | .uint64 => (off, off + 8)
  | .hash => (off, off + 32)
  | .signature => (off, off + 64)
  | .unlockKey => (wrap (off + 16), wrap (off + n))

/-! ## instructions -/

/-- per-byte / per-unit prices of the host's price table that are multiplied
with renter-controlled operands before any validation -/
structure Prices where
  dropUnit   : Nat := 0   -- DropSectorsUnitCost
  readLen    : Nat := 0   -- ReadLengthCost
  download   : Nat := 0   -- DownloadBandwidthCost
  upload     : Nat := 0   -- UploadBandwidthCost
  writeStore : Nat := 0   -- WriteStoreCost
  collateral : Nat := 0   -- CollateralCost
deriving Repr

/-- An MDM instruction as decoded from the wire plus the facts about host state
that the modelled guards consult (`present`, `algOk`, `found`, `putOk`). -/
inductive Instr where
  | appendSector (dataOff : Nat) (proof : Bool)
  | appendSectorRoot (rootOff : Nat) (proof : Bool) (present : Bool)
  | dropSectors (countOff : Nat) (proof : Bool)
  | hasSector (rootOff : Nat)
  | readOffset (offOff lenOff : Nat) (proof : Bool)
  | readSector (lenOff offOff rootOff : Nat) (proof : Bool) (present : Bool)
  | swapSector (aOff bOff : Nat) (proof : Bool)
  | updateSector (offset length dataOff : Nat) (proof : Bool)
  | storeSector (dataOff duration : Nat)
  | revision
  | readRegistry (pkOff pkLen tweakOff version : Nat) (algOk found : Bool)
  | updateRegistry (tweakOff revOff sigOff pkOff pkLen dataOff dataLen : Nat) (algOk putOk : Bool)
deriving Repr

/-- what an instruction sees: program data (length and the little-endian
uint64 found at each offset), the price table, the remaining contract
duration, the harness-computed cost of this instruction -/
structure Env where
  pdLen : Nat
  rd    : Nat → Nat          -- little-endian uint64 at an offset of the program data
  prices : Prices := {}
  duration : Nat := 0        -- revision.WindowEnd - pt.HostBlockHeight
  cost : Nat := 0
  storage : Nat := 0

/-- BuildProof(sector, start, end) does not panic -/
def proofRangeOK (s e : Nat) : Bool := !(decide (e > LeavesPerSector) || decide (s > e) || decide (s = e))
/-- BuildSectorRangeProof(roots, start, end) does not panic (`n = len(roots)`) -/
def rootRangeOK (s e n : Nat) : Bool := decide (n = 0) || !(decide (e > n) || decide (s > e) || decide (s = e))

def aligned (off len : Nat) : Bool := decide (off % LeafSize = 0) && decide (len % LeafSize = 0)

/-- steps of one instruction when the updater holds `n` sector roots -/
def instrSteps (f : Fixes) (e : Env) (n : Nat) : Instr → List Step
  | .appendSector dataOff proof =>
      pdSector f dataOff e.pdLen ++
      [ .mul e.prices.writeStore SectorSize .executeAppendSector,
        .mul (e.prices.writeStore * SectorSize) e.duration .executeAppendSector,
        .mul e.prices.collateral SectorSize .executeAppendSector,
        .mul (e.prices.collateral * SectorSize) e.duration .executeAppendSector,
        .mul e.prices.upload SectorSize .executeAppendSector,
        .pay e.cost e.storage ] ++
      (if proof then [ .slice 0 n (n + 1) .executeAppendSector ] else [])   -- roots[:len(roots)-1]
  | .appendSectorRoot rootOff proof present =>
      pdHash f rootOff e.pdLen ++
      [ .mul e.prices.writeStore SectorSize .executeAppendSectorRoot,
        .mul (e.prices.writeStore * SectorSize) e.duration .executeAppendSectorRoot,
        .mul e.prices.collateral SectorSize .executeAppendSectorRoot,
        .mul (e.prices.collateral * SectorSize) e.duration .executeAppendSectorRoot,
        .pay e.cost e.storage,
        .guard present ] ++
      (if proof then [ .slice 0 n (n + 1) .executeAppendSectorRoot ] else [])
  | .dropSectors countOff proof =>
      let count := e.rd countOff
      pdUint64 f countOff e.pdLen ++
      [ .mul e.prices.dropUnit count .executeDropSectors,
        .pay e.cost e.storage ] ++
      (if f.dropSectors then
        [ .guard (decide (count ≤ n)) ] ++
        (if proof && decide (count ≠ 0) then [ .need (rootRangeOK (n - count) n n) .executeDropSectors ] else [])
       else
        (if proof then [ .need (rootRangeOK (wsub n count) n n) .executeDropSectors ] else [])) ++
      [ .guard (decide (count ≤ n)),                                        -- TrimSectors
        .slice 0 (n - count) n .trimSectors ]                               -- cu.sectorRoots[:len-n]
  | .hasSector rootOff =>
      pdHash f rootOff e.pdLen ++ [ .mul e.prices.upload 32 .executeHasSector, .pay e.cost e.storage ]
  | .readOffset offOff lenOff proof =>
      let offset := e.rd offOff
      let length := e.rd lenOff
      let idx := offset / SectorSize
      let rel := offset % SectorSize
      pdUint64 f offOff e.pdLen ++ pdUint64 f lenOff e.pdLen ++
      (if f.readOffset then
        [ .guard (decide (length ≠ 0)),
          .guard (decide (length ≤ SectorSize - rel)),
          .guard (!proof || aligned rel length) ] else []) ++
      [ .mul e.prices.readLen length .executeReadOffset,
        .mul e.prices.download length .executeReadOffset,
        .pay e.cost e.storage,
        .guard (decide (idx < n)),                                          -- updater.SectorRoot
        .slice idx (idx + 1) n .sectorRoot ] ++
      (if proof then [ .need (proofRangeOK (rel / LeafSize) (wrap (rel + length) / LeafSize)) .executeReadOffset ] else []) ++
      [ .slice rel (wrap (rel + length)) SectorSize .executeReadOffset ]    -- sector[relOffset : relOffset+length]
  | .readSector lenOff offOff rootOff proof present =>
      let length := e.rd lenOff
      let offset := e.rd offOff
      pdHash f rootOff e.pdLen ++ pdUint64 f lenOff e.pdLen ++ pdUint64 f offOff e.pdLen ++
      [ .guard (decide (length ≠ 0)),
        .guard (if f.readSector then decide (offset ≤ SectorSize ∧ length ≤ SectorSize - offset)
                else decide (wrap (offset + length) ≤ SectorSize)),
        .guard (!proof || aligned offset length),
        .mul e.prices.readLen length .executeReadSector,
        .mul e.prices.download length .executeReadSector,
        .pay e.cost e.storage,
        .guard present ] ++
      (if proof then [ .need (proofRangeOK (offset / LeafSize) (wrap (offset + length) / LeafSize)) .executeReadSector ] else []) ++
      [ .slice offset (wrap (offset + length)) SectorSize .executeReadSector ]
  | .swapSector aOff bOff _proof =>
      let a := e.rd aOff
      let b := e.rd bOff
      pdUint64 f aOff e.pdLen ++ pdUint64 f bOff e.pdLen ++
      [ .pay e.cost e.storage,
        -- BuildDiffProof ignores indices ≥ len(roots) (sectorsChanged filters them): no step
        .guard (decide (a < n) && decide (b < n)),                          -- SwapSectors
        .slice a (a + 1) n .swapSectors,
        .slice b (b + 1) n .swapSectors ]
  | .updateSector offset length dataOff _proof =>
      let idx := offset / SectorSize
      let rel := offset % SectorSize
      pdBytes f dataOff length e.pdLen ++
      [ .mul e.prices.upload length .executeUpdateSector,
        .pay e.cost e.storage,
        .guard (decide (idx < n)),
        .slice idx (idx + 1) n .sectorRoot,
        .guard (decide (wrap (rel + length) ≤ SectorSize)),
        .slice rel SectorSize SectorSize .executeUpdateSector,               -- copy(sector[relOffset:], patch)
        .guard (decide (idx < n)),                                          -- UpdateSector
        .slice idx (idx + 1) n .updateSector ]
  | .storeSector dataOff duration =>
      pdSector f dataOff e.pdLen ++
      [ .mul e.prices.writeStore SectorSize .executeStoreSector,
        .mul (e.prices.writeStore * SectorSize) duration .executeStoreSector,
        .mul e.prices.upload SectorSize .executeStoreSector,
        .pay e.cost e.storage,
        .guard (decide (duration ≠ 0)),
        .guard (decide (duration ≤ MaxTempSectorBlocks)) ]
  | .revision => [ .pay e.cost e.storage ]
  | .readRegistry pkOff pkLen tweakOff version algOk found =>
      [ .guard (decide (version = 1) || decide (version = 2)) ] ++
      pdUnlockKey f pkOff pkLen e.pdLen ++
      [ .guard algOk, .guard (decide (unlockKeyLen pkOff pkLen = 32)) ] ++
      pdHash f tweakOff e.pdLen ++
      [ .pay e.cost e.storage, .guard found ]
  | .updateRegistry tweakOff revOff sigOff pkOff pkLen dataOff dataLen algOk putOk =>
      pdHash f tweakOff e.pdLen ++ pdUint64 f revOff e.pdLen ++ pdSignature f sigOff e.pdLen ++
      pdUnlockKey f pkOff pkLen e.pdLen ++
      [ .guard algOk, .guard (decide (unlockKeyLen pkOff pkLen = 32)) ] ++
      pdBytes f dataOff dataLen e.pdLen ++
      [ .pay e.cost e.storage, .guard putOk ]

def Instr.requiresContract : Instr → Bool
  | .appendSector .. | .appendSectorRoot .. | .dropSectors .. | .readOffset .. | .swapSector ..
  | .updateSector .. | .revision => true
  | _ => false

def Instr.requiresFinalization : Instr → Bool
  | .appendSector .. | .appendSectorRoot .. | .dropSectors .. | .swapSector .. | .updateSector .. => true
  | _ => false

/-! ### effect of a successful instruction on the updater's private root list -/

def swapList (l : List Nat) (a b : Nat) : List Nat :=
  match l[a]?, l[b]? with
  | some x, some y => (l.set a y).set b x
  | _, _ => l

/-- roots after the instruction succeeded; `fresh` names a root not seen before -/
def applyRoots (e : Env) (roots : List Nat) (fresh : Nat) : Instr → List Nat
  | .appendSector .. => roots ++ [fresh]
  | .appendSectorRoot .. => roots ++ [fresh]
  | .dropSectors countOff _ => roots.take (roots.length - e.rd countOff)
  | .swapSector aOff bOff _ =>
      let a := e.rd aOff; let b := e.rd bOff
      if a > b then swapList roots b a else swapList roots a b
  | .updateSector offset _ _ _ => roots.set (offset / SectorSize) fresh
  | _ => roots

/-- length of the instruction output when known -/
def outLen (e : Env) (n : Nat) : Instr → Option Nat
  | .appendSector .. | .appendSectorRoot .. | .dropSectors .. => some 0
  | .hasSector _ => some 1
  | .readOffset _ lenOff _ => some (e.rd lenOff)
  | .readSector lenOff _ _ _ _ => some (e.rd lenOff)
  | .swapSector aOff bOff proof =>
      let a := e.rd aOff; let b := e.rd bOff
      if proof then some (8 + 32 * (if a = b then (if a < n then 1 else 0) else (if a < n then 1 else 0) + (if b < n then 1 else 0)))
      else some 0
  | .updateSector .. => some 32
  | .storeSector .. => some 32
  | .updateRegistry .. => some 0
  | .revision | .readRegistry .. => none

/-! ## the executor and the RHP3 execute-program handler -/

/-- a costed instruction: harness-computed price of the instruction (`cost`
total, `storage` the refundable part) -/
structure CInstr where
  i : Instr
  cost : Nat := 0
  /-- part of `cost` booked as usage.StorageRevenue (what rollback() refunds) -/
  storage : Nat := 0
  /-- cost.Storage of the instruction (what the host announces as FailureRefund) -/
  cstorage : Nat := 0
deriving Repr

/-- observable host state the property talks about -/
structure HostState where
  rev     : Nat          -- contract revision number
  roots   : List Nat     -- contract sector roots
  balance : Nat          -- ephemeral account balance
deriving Repr, DecidableEq

inductive ExecOut where
  /-- all instructions ran -/
  | done (a : Acc) (roots : List Nat) (outs : List (Option Nat))
  /-- instruction `k` returned an error -/
  | failed (k : Nat) (a : Acc) (outs : List (Option Nat))
  | panic (k : Nat) (s : Site)
deriving Repr, DecidableEq

/-- `payForExecution` also adds the instruction's cost to `pe.cost`: when the instruction was paid for
(`a'.paid` grew) its `cost.Storage` joins the announced failure refund -/
def bookCost (a a' : Acc) (ci : CInstr) : Acc :=
  if a.paid < a'.paid then { a' with cstorage := a'.cstorage + ci.cstorage } else a'

/-- `executeProgram`: instructions in order on the updater's private copy -/
def execInstrs (f : Fixes) (pdLen : Nat) (rd : Nat → Nat) (prices : Prices) (duration : Nat) :
    Acc → List Nat → Nat → List (Option Nat) → List CInstr → ExecOut
  | a, roots, _, outs, [] => .done a roots outs.reverse
  | a, roots, k, outs, ci :: rest =>
      let e : Env := { pdLen, rd, prices, duration, cost := ci.cost, storage := ci.storage }
      match run a (instrSteps f e roots.length ci.i) with
      | .panic s => .panic k s
      | .reject a' => .failed k (bookCost a a' ci) outs.reverse
      | .pass a' => execInstrs f pdLen rd prices duration (bookCost a a' ci) (applyRoots e roots (1000 + k) ci.i) (k + 1)
                      (outLen e roots.length ci.i :: outs) rest

/-- how the renter pays and finalises -/
inductive PayMode where
  | ok             -- valid payment of `budget` (ephemeral account, or a correct pay-by-contract revision)
  | refused        -- payment refused before execution (bad signature, expired, zero amount, mismatched output lists, …)
  | sumOverflow    -- pay-by-contract revision whose output values sum to more than 2^128 (validateStdRevision)
deriving DecidableEq, Repr

inductive FinMode where
  | ok | refused   -- refused: wrong signature / invalid values / stream closed
  | sumOverflow    -- output values whose sum overflows 2^128 (validateStdRevision)
deriving DecidableEq, Repr

structure Request where
  pay      : PayMode := .ok
  budget   : Nat
  initCost : Nat := 0
  hasContract : Bool
  pdLen    : Nat
  rd       : Nat → Nat
  prices   : Prices := {}
  duration : Nat := 0
  prog     : List CInstr
  fin      : FinMode := .ok

inductive Outcome where
  /-- program ran to completion (and was finalised when required) -/
  | accept (outs : List (Option Nat))
  /-- refused before any instruction ran -/
  | refused
  /-- instruction `k` failed (`k = prog.length`: finalisation refused) -/
  | failed (k : Nat) (outs : List (Option Nat))
  | panic (k : Nat) (s : Site)
deriving Repr, DecidableEq

def needsContract (prog : List CInstr) : Bool := prog.any (·.i.requiresContract)
def needsFinalization (prog : List CInstr) : Bool := prog.any (·.i.requiresFinalization)

/-- everything `handleRPCExecute` checks before the executor starts: the payment,
`accounts.Budget` (balance), `budget.Spend(init cost)`, `ErrContractRequired`.
A request that is not admitted is refused and the deferred `budget.Rollback()`
returns the whole budget. -/
def admitted (s : HostState) (r : Request) : Bool :=
  decide (r.pay = .ok) && decide (r.budget ≤ s.balance) && decide (r.initCost ≤ r.budget) &&
  !((needsContract r.prog || needsFinalization r.prog) && !r.hasContract)

/-- what `rollback()` hands to `budget.Refund` as StorageRevenue -/
def refundOf (f : Fixes) (a : Acc) : Nat := if f.rollbackRefundsUsage then a.storage else a.cstorage

/-- `Execute` after `executeProgram` returned: `rollback()` or `commit()` -/
def settle (f : Fixes) (s : HostState) (r : Request) : ExecOut → Outcome × HostState
  | .panic k site => (.panic k site, s)
  | .failed k a outs =>
      -- rollback(): updater closed, storage refunded (budget.Refund panics when asked for more than the
      -- StorageRevenue bucket holds), the rest committed
      if refundOf f a ≤ a.storage then (.failed k outs, { s with balance := s.balance - (a.spent - refundOf f a) })
      else (.panic k .rollback, s)
  | .done a roots outs =>
      if needsFinalization r.prog then
        match r.fin with
        | .ok => (.accept outs, { rev := s.rev + 1, roots := roots, balance := s.balance - a.spent })
        | .refused =>
            -- commit() returned early with `committed = true`: rollback() is a no-op and the
            -- handler's deferred budget.Rollback() returns the whole budget
            (.failed r.prog.length outs, s)
        | .sumOverflow =>
            if f.revisionSum then (.failed r.prog.length outs, s)
            else (.panic r.prog.length .validateStdRevision, s)
      else (.accept outs, { s with balance := s.balance - a.spent })

/-- `handleRPCExecute` + `programExecutor.Execute/commit/rollback` -/
def handle (f : Fixes) (s : HostState) (r : Request) : Outcome × HostState :=
  if r.pay = .sumOverflow ∧ f.revisionSum = false then (.panic 0 .validateStdRevision, s)
  else if admitted s r then
    settle f s r (execInstrs f r.pdLen r.rd r.prices r.duration { budget := r.budget, spent := r.initCost } s.roots 0 [] r.prog)
  else (.refused, s)

/-! ## the other paid RHP3 RPCs (rhp/v3/rpc.go, payments.go)

`handleRPCFundAccount`, `handleRPCAccountBalance`, `handleRPCLatestRevision`,
`handleRPCPriceTable`: a registered price table id, a payment (ephemeral account
or contract revision) and `budget.Spend(cost)`; FundAccount moves the contract
payment minus `FundAccountCost` into an account. -/

inductive Rpc3 where
  | fund | balance | revision | priceTable
deriving DecidableEq, Repr

structure PaidReq where
  rpc    : Rpc3
  /-- the price table id is registered and not expired -/
  uidOk  : Bool := true
  pay    : PayMode := .ok
  /-- payment by contract revision (`false`: ephemeral account withdrawal) -/
  byContract : Bool := false
  /-- amount withdrawn from the account / transferred by the contract revision -/
  amount : Nat
  /-- `pt.FundAccountCost`, `AccountBalanceCost`, `LatestRevisionCost`, `UpdatePriceTableCost` -/
  cost   : Nat
  /-- fund: the credited account is the one whose balance is observed -/
  toSelf : Bool := true
  /-- latest revision: the contract exists / the renter goes on to pay -/
  known  : Bool := true
  pays   : Bool := true

inductive POut where
  | accept | reject | panic (s : Site)
  /-- the request was answered with an error AFTER the host had broadcast its transaction set -/
  | rejectBroadcast
deriving DecidableEq, Repr

/-- `processPayment`/`processFundAccountPayment` up to the creation of the budget -/
def payStage (f : Fixes) (s : HostState) (r : PaidReq) : List Step :=
  (match r.pay with
    | .ok => []
    | .refused => [ .guard false ]
    | .sumOverflow => if f.revisionSum then [ .guard false ] else [ .need false .validateStdRevision ]) ++
  (if r.byContract then [] else
    [ .guard (decide (r.amount ≠ 0)),              -- "withdrawal request has zero amount"
      .guard (decide (r.amount ≤ s.balance)) ])    -- accounts.Budget: insufficient funds

/-- state after the payment revision of a pay-by-contract request was accepted: the refund account holds `amount` -/
def afterContractPayment (s : HostState) (r : PaidReq) : HostState :=
  if r.byContract then { s with rev := s.rev + 1, balance := s.balance + r.amount } else s

/-- a paid RPC after its payment: `budget.Spend(cost)` then commit -/
def spendCost (s : HostState) (r : PaidReq) : POut × HostState :=
  let s1 := afterContractPayment s r
  if r.cost ≤ r.amount then (.accept, { s1 with balance := s1.balance - r.cost }) else (.reject, s1)

def paid (f : Fixes) (s : HostState) (r : PaidReq) : POut × HostState :=
  match r.rpc with
  | .fund =>
      let steps : List Step :=
        [ .guard r.uidOk, .guard r.byContract ] ++ payStage f s r ++
        (if f.fundCost then [ .guard (decide (r.cost ≤ r.amount)) ]
         else [ .need (decide (r.cost ≤ r.amount)) .processFundAccountPayment ])   -- totalAmount.Sub(pt.FundAccountCost)
      match run { budget := 0 } steps with
      | .panic site => (.panic site, s)
      | .reject _ => (.reject, s)
      | .pass _ => (.accept, { s with rev := s.rev + 1, balance := if r.toSelf then s.balance + (r.amount - r.cost) else s.balance })
  | .balance =>
      match run { budget := 0 } ([ .guard r.uidOk ] ++ payStage f s r) with
      | .panic site => (.panic site, s)
      | .reject _ => (.reject, s)
      | .pass _ => spendCost s r
  | .priceTable =>
      match run { budget := 0 } (payStage f s r) with
      | .panic site => (.panic site, s)
      | .reject _ => (.reject, s)
      | .pass _ => spendCost s r
  | .revision =>
      if !r.known then (.reject, s)
      else if !r.pays then (.accept, s)
      else
        -- the revision has been sent; the payment that follows is optional and its failure is not reported to the renter
        match run { budget := 0 } ([ .guard r.uidOk ] ++ payStage f s r) with
        | .panic site => (.panic site, s)
        | .reject _ => (.accept, s)
        | .pass _ => (.accept, (spendCost s r).2)

/-! ## contract renewal and formation (rhp/v3/rpc.go handleRPCRenew, rhp/v2/rpc.go
rpcRenewAndClearContract / rpcFormContract)

Everything the handlers index or convert is explicit: the transaction set, the
file contracts / revisions of its last transaction, the output lists of the
clearing revision and of the new contract, the renter key and the revision
signature (slice → array conversions).  The value-level clauses of the validators
(payout arithmetic — all overflow-checked since 839f27b —, addresses, unlock
hashes, signature verification, the transaction pool) are facts of the request. -/

structure RenewReq where
  /-- the request fits the handler's read limit and decodes -/
  readable : Bool := true
  txns : Nat := 1          -- len(TransactionSet)
  fcs  : Nat := 1          -- len(lastTxn.FileContracts)
  revs : Nat := 1          -- len(lastTxn.FileContractRevisions)   (RHP3)
  algOk  : Bool := true    -- RenterKey.Algorithm == ed25519
  keyLen : Nat := 32       -- len(RenterKey.Key)
  hardforkOk : Bool := true    -- WindowStart below the v2 require height
  clrKnown   : Bool := true    -- RHP3: the clearing revision names a contract that can be locked
  clrShapeOk : Bool := true    -- file size, root, windows, revision number, unlock hash/conditions of the clearing revision
  clrValid   : Nat := 2        -- its valid outputs (RHP2: the number of final values)
  clrMissed  : Nat := 2        -- its missed outputs
  clrValuesOk : Bool := true   -- transfer from renter to host, equal valid/missed values, at least the expected payment
  fsigOk : Bool := true        -- final revision signature verifies
  baseOk : Bool := true        -- RenewalBaseCosts does not overflow 128 bits
  fcFieldsOk : Bool := true    -- revision number, file size, root, proof window of the new contract
  fcValid  : Nat := 2
  fcMissed : Nat := 3
  fcRestOk : Bool := true      -- addresses, unlock hash, payouts/collateral of the new contract
  fundOk : Bool := true        -- the host wallet can fund its collateral
  sigsReadable : Bool := true  -- the second message arrives
  rsigMetaOk : Bool := true    -- parent id, key index, covered fields of the revision signature
  rsigLen : Nat := 64          -- len(RevisionSignature.Signature)
  rsigOk : Bool := true        -- it verifies
  poolOk : Bool := true        -- the transaction set enters the pool
  /-- WindowEnd of the new contract is below 2^63: `contracts.RenewContract` / `AddContract` can store it
  (database/sql refuses uint64 values with the high bit set) -/
  storable : Bool := true

/-- `ValidateClearingRevision` on a revision with `v` valid and `m` missed outputs -/
def clearingSteps (r : RenewReq) (site : Site) : List Step :=
  [ .guard r.clrShapeOk,
    .guard (decide (r.clrMissed = 2)),
    .guard (decide (r.clrValid = r.clrMissed)),
    .slice 0 1 r.clrMissed site,       -- final.MissedRenterPayout()
    .slice 1 2 r.clrValid site,        -- final.ValidHostPayout()
    .guard r.clrValuesOk,
    .slice 0 r.clrValid r.clrMissed site ]   -- the loop indexes MissedProofOutputs[i] for i < len(ValidProofOutputs)

/-- `validateContractRenewal` / `validateContractFormation`: lengths are checked before the outputs are indexed -/
def contractSteps (r : RenewReq) (site : Site) : List Step :=
  [ .guard r.fcFieldsOk,
    .guard (decide (r.fcValid = 2)),
    .guard (decide (r.fcMissed = 3)),
    .slice 1 2 r.fcValid site,         -- ValidHostOutput()
    .slice 1 2 r.fcMissed site,        -- MissedHostOutput()
    .slice 2 3 r.fcMissed site,        -- MissedProofOutputs[2]
    .guard r.fcRestOk ]

/-- `validateRenterRevisionSignature` then `*(*types.Signature)(sig.Signature)` -/
def revSigSteps (r : RenewReq) (site : Site) : List Step :=
  [ .guard r.rsigMetaOk,
    .guard (decide (r.rsigLen = 64)),
    .need (decide (64 ≤ r.rsigLen)) site,
    .guard r.rsigOk ]

/-- repaired handlers: the window end is checked next to the hardfork check, before anything is signed or broadcast -/
def storableGuard (f : Fixes) (r : RenewReq) : List Step :=
  if f.windowEndFits then [ .guard r.storable ] else []

def renew3Steps (f : Fixes) (r : RenewReq) : List Step :=
  [ .guard r.readable,
    -- validRenewalTxnSet
    .guard (decide (r.txns ≠ 0)),
    .slice (r.txns - 1) r.txns r.txns .handleRPCRenew,
    .guard (decide (r.fcs = 1)),
    .guard (decide (r.revs = 1)),
    -- renter key
    .guard (r.algOk && decide (r.keyLen = 32)),
    .need (decide (32 ≤ r.keyLen)) .handleRPCRenew,                 -- *(*types.PublicKey)(req.RenterKey.Key)
    .slice 0 (r.txns - 1) r.txns .handleRPCRenew,                   -- TransactionSet[:len-1]
    .slice (r.txns - 1) r.txns r.txns .handleRPCRenew,              -- TransactionSet[len-1]
    .slice 0 1 r.revs .handleRPCRenew,                              -- FileContractRevisions[0]
    .slice 0 1 r.fcs .handleRPCRenew,                               -- FileContracts[0]
    .guard r.hardforkOk ] ++ storableGuard f r ++
  [ .guard r.clrKnown ] ++
  clearingSteps r .handleRPCRenew ++
  [ .guard r.fsigOk, .guard r.baseOk ] ++
  contractSteps r .handleRPCRenew ++
  [ .guard r.fundOk, .guard r.sigsReadable,
    .slice 0 1 r.fcs .handleRPCRenew ] ++                           -- InitialRevision: FileContracts[0]
  revSigSteps r .handleRPCRenew ++
  [ .need (decide (64 ≤ r.rsigLen)) .handleRPCRenew,               -- RenterSignature conversion
    .guard r.poolOk ]

def renew2Steps (f : Fixes) (r : RenewReq) : List Step :=
  [ .guard r.readable,
    -- convertToPublicKey
    .guard r.algOk, .guard (decide (r.keyLen = 32)),
    .need (decide (32 ≤ r.keyLen)) .rpcRenewAndClearContract,
    .guard (decide (r.txns ≠ 0)),
    .slice (r.txns - 1) r.txns r.txns .rpcRenewAndClearContract,
    .guard (decide (r.fcs = 1)),
    .slice 0 (r.txns - 1) r.txns .rpcRenewAndClearContract,
    .slice 0 1 r.fcs .rpcRenewAndClearContract,
    .guard r.hardforkOk ] ++ storableGuard f r ++
  [ .guard (decide (r.clrValid = 2)) ] ++                          -- rhp.ClearingRevision: one value per output
  clearingSteps { r with clrMissed := r.clrValid } .rpcRenewAndClearContract ++
  [ .guard r.baseOk ] ++
  contractSteps r .rpcRenewAndClearContract ++
  [ .guard r.fundOk, .guard r.sigsReadable,
    .guard (decide (r.rsigLen = 64)),
    .slice 0 1 r.fcs .rpcRenewAndClearContract,                     -- InitialRevision
    .guard r.fsigOk,
    .need (decide (64 ≤ r.rsigLen)) .rpcRenewAndClearContract,     -- *(*types.Signature)(RevisionSignature.Signature)
    .guard r.rsigOk,
    .guard r.poolOk ]

/-- `rpcFormContract` in full (the `v2form` op stops at the renter key) -/
def form2Steps (f : Fixes) (r : RenewReq) : List Step :=
  [ .guard r.readable,
    .guard (decide (r.txns ≠ 0)),
    .slice (r.txns - 1) r.txns r.txns .rpcFormContract,
    .guard (decide (r.fcs = 1)),
    .guard r.algOk ] ++
  (if f.v2FormKeyLen then [ .guard (decide (r.keyLen = 32)) ] else []) ++
  [ .need (decide (32 ≤ r.keyLen)) .rpcFormContract,
    .slice 0 (r.txns - 1) r.txns .rpcFormContract,
    .slice 0 1 r.fcs .rpcFormContract,
    .guard r.hardforkOk ] ++ storableGuard f r ++
  contractSteps r .rpcFormContract ++
  [ .guard r.fundOk,
    .slice 0 1 r.fcs .rpcFormContract,                              -- InitialRevision
    .guard r.sigsReadable ] ++
  revSigSteps r .rpcFormContract ++
  [ .guard r.poolOk,
    .need (decide (64 ≤ r.rsigLen)) .rpcFormContract ]

inductive RenewKind where
  | renew3 | renew2 | form2
deriving DecidableEq, Repr

def renewSteps (f : Fixes) : RenewKind → RenewReq → List Step
  | .renew3, r => renew3Steps f r
  | .renew2, r => renew2Steps f r
  | .form2, r => form2Steps f r

/-- revision number of a cleared contract -/
def MaxRevision : Nat := U64 - 1

/-- outcome and effect on the attacked contract: an accepted renewal clears it (its sectors move to the
new contract), an accepted formation does not touch it, a rejected request changes nothing -/
def renew (f : Fixes) (k : RenewKind) (s : HostState) (r : RenewReq) : POut × HostState :=
  match run { budget := 0 } (renewSteps f k r) with
  | .panic site => (.panic site, s)
  | .reject _ => (.reject, s)
  | .pass _ =>
      -- the transaction set is in the pool; now the contract store has to take the new contract
      if r.storable then (.accept, if k = .form2 then s else { s with rev := MaxRevision, roots := [] })
      else (.rejectBroadcast, s)

/-! ## commit order of the upload-carrying handlers (C02's second engine)

The volumes model (Model/Volumes.lean, Props/C02.lean) proves that referenced data is durable for
histories in which a reference is committed only after `Sync` returned.  Whether the RPC handlers
produce such histories is a fact about their code, transcribed here and observed on the real host by
the monitor `c02/rpc_commit_synced/<site>` (ground truth: a wrapper around each volume data file). -/

structure CommitShape where
  /-- name used by the monitor -/
  site : String
  /-- the handler calls `sectors.Sync()` and checks its error before it commits the revision /
  registers the temporary sectors that reference the uploaded data -/
  syncBeforeCommit : Bool
deriving DecidableEq, Repr

/-- rhp/v3/execute.go `programExecutor.commit`: `pe.sectors.Sync()` (:664) precedes
`pe.updater.Commit` (:724) and `pe.sectors.AddTemporarySectors` (:746) -/
def rhp3CommitShape : CommitShape := { site := "programExecutor.commit", syncBeforeCommit := true }
/-- rhp/v2/rpc.go `rpcWrite`: `sh.sectors.Sync()` (:726) precedes `contractUpdater.Commit` (:742) -/
def rhp2WriteShape : CommitShape := { site := "rpcWrite", syncBeforeCommit := true }

/-! ## RHP2 range checks (rhp/v2/rpc.go + the validators of core it relies on) -/

inductive V2Out where
  | accept            -- served; the payment revision is committed
  | reject            -- refused, nothing changed
  | rejectPaid        -- payment revision committed, then the request failed
  | panic (s : Site)
  | either            -- outcome decided by parts of the host that are not modelled here (never a panic)
deriving DecidableEq, Repr

/-- how the payment revision of an RHP2 request is built -/
inductive V2Pay where
  | ok | refused | sumOverflow
deriving DecidableEq, Repr

def v2PaySteps (f : Fixes) : V2Pay → List Step
  | .ok => []
  | .refused => [ .guard false ]
  | .sumOverflow => if f.revisionSum then [ .guard false ] else [ .need false .validateStdRevision ]

/-- `rpcSectorRoots` for a contract with `n` sectors -/
def v2RootsSteps (f : Fixes) (n off num : Nat) (pay : V2Pay) (sigOk : Bool) : List Step × List Step :=
  let e := wrap (off + num)
  -- before the commit
  ( (if f.v2Roots then [ .guard (decide (num ≠ 0)), .guard (decide (off ≤ n ∧ num ≤ n - off)) ]
     else [ .guard (decide (e ≤ n)) ]) ++
    v2PaySteps f pay ++
    [ .guard sigOk, .guard (decide (num ≤ MaxInt)), .guard (decide (off ≤ MaxInt)) ],
    -- after the commit
    [ .slice off e n .rpcSectorRoots,                                      -- roots[start:end]
      .need (rootRangeOK off e n) .rpcSectorRoots ] )                      -- BuildSectorRangeProof

/-- one section of an RHP2 read -/
structure Section where
  present : Bool
  off : Nat
  len : Nat
deriving Repr

/-- validation in `RPCReadCost` (core) + host-side re-check when repaired -/
def v2ReadPre (f : Fixes) (proof : Bool) : List Section → List Step
  | [] => []
  | s :: r =>
      [ .guard (decide (wrap (s.off + s.len) ≤ SectorSize)),
        .guard (decide (s.len ≠ 0)),
        .guard (!proof || aligned s.off s.len) ] ++
      (if f.v2Read then [ .guard (decide (s.off ≤ SectorSize ∧ s.len ≤ SectorSize - s.off)) ] else []) ++
      v2ReadPre f proof r

def v2ReadPost (proof : Bool) : List Section → List Step
  | [] => []
  | s :: r =>
      [ .guard s.present,
        .slice s.off (wrap (s.off + s.len)) SectorSize .rpcRead ] ++
      (if proof then [ .need (proofRangeOK (s.off / LeafSize) (wrap (s.off + s.len) / LeafSize)) .rpcRead ] else []) ++
      v2ReadPost proof r

inductive WAction where
  | append (dataLen : Nat)
  | trim (k : Nat)
  | swap (a b : Nat)
  | update (idx off dataLen : Nat)
  | unknown
deriving Repr

/-- validation loop of `RPCWriteCost` (core), threading the new sector count -/
def v2WritePre (proof : Bool) : Nat → List WAction → List Step
  | _, [] => []
  | m, .append dl :: r => [ .guard (decide (dl = SectorSize)) ] ++ v2WritePre proof (m + 1) r
  | m, .trim k :: r => [ .guard (decide (k ≤ m)) ] ++ v2WritePre proof (m - k) r
  | m, .swap a b :: r => [ .guard (decide (a < m) && decide (b < m)) ] ++ v2WritePre proof m r
  | m, .update idx off dl :: r =>
      [ .guard (decide (idx < m)),
        .guard (decide (wrap (off + dl) ≤ SectorSize)),
        .guard (!((proof && decide (off % LeafSize ≠ 0)) || decide (dl % LeafSize ≠ 0))) ] ++ v2WritePre proof m r
  | _, .unknown :: _ => [ .guard false ]

def hasUpdate : List WAction → Bool
  | [] => false
  | .update .. :: _ => true
  | _ :: r => hasUpdate r

/-- the host's own loop over the actions (updater calls and the update patch) -/
def v2WriteLoop : Nat → List WAction → List Step
  | _, [] => []
  | m, .append dl :: r => [ .guard (decide (dl = SectorSize)) ] ++ v2WriteLoop (m + 1) r
  | m, .trim k :: r => [ .guard (decide (k ≤ m)), .slice 0 (m - k) m .trimSectors ] ++ v2WriteLoop (m - k) r
  | m, .swap a b :: r =>
      [ .guard (decide (a < m) && decide (b < m)), .slice a (a + 1) m .swapSectors, .slice b (b + 1) m .swapSectors ] ++ v2WriteLoop m r
  | m, .update idx off dl :: r =>
      [ .guard (decide (idx < m)), .slice idx (idx + 1) m .sectorRoot,
        .guard (decide (off ≤ SectorSize)),
        .guard (decide (wrap (off + dl) ≤ SectorSize)),
        .slice off SectorSize SectorSize .rpcWrite,                         -- copy(sector[offset:], data)
        .guard (decide (idx < m)), .slice idx (idx + 1) m .updateSector ] ++ v2WriteLoop m r
  | _, .unknown :: _ => []

def v2WriteSteps (f : Fixes) (n : Nat) (acts : List WAction) (proof : Bool) (pay : V2Pay) : List Step :=
  v2WritePre proof n acts ++
  -- DiffProofSize → sectorsChanged panics on an update action
  (if proof && hasUpdate acts then
     (if f.v2WriteUpdateProof then [ .guard false ] else [ .need false .rpcWrite ]) else []) ++
  v2PaySteps f pay ++
  v2WriteLoop n acts

def v2Class (pre post : List Step) : V2Out :=
  match run { budget := 0 } pre with
  | .panic s => .panic s
  | .reject _ => .reject
  | .pass _ =>
    match run { budget := 0 } post with
    | .panic s => .panic s
    | .reject _ => .rejectPaid
    | .pass _ => .accept

def v2Roots (f : Fixes) (n off num : Nat) (pay : V2Pay) (sigOk : Bool) : V2Out :=
  let (pre, post) := v2RootsSteps f n off num pay sigOk
  v2Class pre post

def v2Read (f : Fixes) (secs : List Section) (proof : Bool) (pay : V2Pay) (sigOk : Bool) : V2Out :=
  if secs.isEmpty then .either else
  v2Class (v2ReadPre f proof secs ++ [ .guard sigOk ] ++ v2PaySteps f pay) (v2ReadPost proof secs)

/-- `rpcWrite`; `sigOk`: the renter's signature of the final revision verifies -/
def v2Write (f : Fixes) (n : Nat) (acts : List WAction) (proof : Bool) (pay : V2Pay) (sigOk : Bool) : V2Out :=
  match run { budget := 0 } (v2WriteSteps f n acts proof pay) with
  | .panic s => .panic s
  | .reject _ => .reject
  | .pass _ =>
      if !sigOk then .reject
      else if hasUpdate acts then .either   -- the patched sector is stored under the old root; the commit outcome belongs to C02
      else .accept

/-- `rpcFormContract` up to the renter-key conversion -/
def v2Form (f : Fixes) (txns fcs keyLen : Nat) (algOk : Bool) : V2Out :=
  let steps : List Step :=
    [ .guard (decide (txns ≠ 0) && decide (fcs = 1)), .guard algOk ] ++
    (if f.v2FormKeyLen then [ .guard (decide (keyLen = 32)) ] else []) ++
    [ .need (decide (32 ≤ keyLen)) .rpcFormContract ]                       -- *(*types.PublicKey)(req.RenterKey.Key)
  match run { budget := 0 } steps with
  | .panic s => .panic s
  | .reject _ => .reject
  | .pass _ => .either

/-! ## ContractUpdater (host/contracts/contracts.go:341-401) -/

inductive UOp where
  | append | swap (a b : Nat) | trim (k : Nat) | update (i : Nat) | root (i : Nat)
deriving Repr

def updaterSteps (n : Nat) : UOp → List Step
  | .append => []
  | .swap a b => [ .guard (decide (a < n) && decide (b < n)), .slice a (a + 1) n .swapSectors, .slice b (b + 1) n .swapSectors ]
  | .trim k => [ .guard (decide (k ≤ n)), .slice 0 (n - k) n .trimSectors ]
  | .update i => [ .guard (decide (i < n)), .slice i (i + 1) n .updateSector ]
  | .root i => [ .guard (decide (i < n)), .slice i (i + 1) n .sectorRoot ]

def updaterApply (roots : List Nat) (fresh : Nat) : UOp → List Nat
  | .append => roots ++ [fresh]
  | .swap a b => swapList roots a b
  | .trim k => roots.take (roots.length - k)
  | .update i => roots.set i fresh
  | .root _ => roots

/-- result of one updater call: new private list, or rejection (list unchanged) -/
def updater (roots : List Nat) (fresh : Nat) (op : UOp) : Out × List Nat :=
  match run { budget := 0 } (updaterSteps roots.length op) with
  | .pass a => (.pass a, updaterApply roots fresh op)
  | o => (o, roots)

/-! ## registry access recorder (host/registry/recorder.go) -/

/-- `Flush` after `r` recorded reads and `w` recorded writes -/
def recorderFlush (f : Fixes) (r w : Nat) : List Step :=
  if r = 0 ∧ w = 0 then [] else [ .need f.regRecorder .recorderFlush ]    -- rr.store.IncrementRegistryAccess on a nil store

/-! ## cost functions evaluated before the operand is validated -/

inductive CostFn where
  | readOffset | readSector | dropSectors | updateSector | storeSector | appendSector
deriving DecidableEq, Repr

def costSteps (fn : CostFn) (p1 p2 arg : Nat) : List Step :=
  match fn with
  | .readOffset => [ .mul p1 arg .executeReadOffset, .mul p2 arg .executeReadOffset ]
  | .readSector => [ .mul p1 arg .executeReadSector, .mul p2 arg .executeReadSector ]
  | .dropSectors => [ .mul p1 arg .executeDropSectors ]
  | .updateSector => [ .mul p1 arg .executeUpdateSector ]
  | .storeSector => [ .mul p1 SectorSize .executeStoreSector, .mul (p1 * SectorSize) arg .executeStoreSector ]
  | .appendSector => [ .mul p1 SectorSize .executeAppendSector, .mul (p1 * SectorSize) arg .executeAppendSector,
                       .mul p2 SectorSize .executeAppendSector, .mul (p2 * SectorSize) arg .executeAppendSector ]

end Hostd.Mdm
