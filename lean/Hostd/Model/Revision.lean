/-
Model of the v1 revision / formation / renewal validators of hostd
(engine `revision`, properties C07 and C12).  Core Lean only.

Transcribed statement by statement from
  rhp/contracts.go      validateStdRevision, ValidateRevision, ValidateProgramRevision,
                        ValidatePaymentRevision, ValidateClearingRevision, Revise, ClearingRevision
  rhp/v2/contracts.go   validateContractFormation, validateContractRenewal
  rhp/v3/contracts.go   validateContractRenewal
  rhp/v2/rpc.go         rpcFormContract / rpcRenewAndClearContract (hard-fork guard, base cost arithmetic, usage)
  rhp/v3/rpc.go         handleRPCRenew (the same)

Conventions
* `types.Currency` is a 128-bit unsigned integer: `Add/Sub/Mul64` PANIC on
  overflow/underflow (`cadd/csub/cmul`), `SubWithUnderflow`/`Cmp` do not.
* Go slice indexing out of range = panic (`out0/out1/out2`, the loops).
* `uint64` addition wraps (`uadd`).
* every function returns `Res α = ok a | reject tag | panic site`.
* addresses, unlock hashes, unlock-condition hashes and Merkle roots are
  natural-number identifiers (equal ids ⇔ equal hashes; the all-zero
  hash/address, i.e. `types.VoidAddress` / `types.Hash256{}`, is id 0).

The parameter `fx : Bool` selects the code variant:
  `fx = false`  the CURRENT tree (indexing before length checks, panicking sums),
  `fx = true`   the proposed repair (shape checks first, overflow-checked sums
                that reject instead of panicking).  See known-findings.d/revision.json.
Everything except the guards marked `fx` is identical in both variants.
-/
namespace Hostd.Revision

/-- 2^128 -/
def C128 : Nat := 340282366920938463463374607431768211456
/-- 2^64 -/
def U64 : Nat := 18446744073709551616
/-- `types.MaxRevisionNumber = math.MaxUint64` -/
def maxRev : Nat := 18446744073709551615
/-- id of `types.VoidAddress` -/
def voidAddr : Nat := 0

/-- rejection reasons (one per `return …, errors.New(…)` of the code) -/
inductive Tag where
  | curShape | sumOverflow | costOverflow | paymentRange | locked
  | validAddr | missedAddr | validSum | missedSum | unlockHash | unlockConds | revNo
  | wStart | wEnd | validCount | missedCount | renterValidIncrease | renterMissedIncrease
  | renterPayoutsDiffer
  | renterValidFunds | renterMissedFunds | hostMissedFunds | renterValidUnderflow
  | hostValidUnderflow | hostMissedUnderflow | transferMismatch | insufficientTransfer | excessiveBurn
  | voidUnderflow | voidMismatch | renterValidChanged | hostValidChanged | renterMissedChanged
  | renterValidNotReduced | renterMissedNotReduced | hostValidNotIncreased | hostMissedNotIncreased
  | filesize | root | revNoMax | missedNeValid
  | tooSoon | tooLong | windowSmall | hostValidAddr | hostMissedAddr | voidAddress | voidValue
  | hostValidSmall | hostValidNeMissed | excessiveCollateral | windowEndShrinks
  | voidNeBurn | validBelowBase
  | hostMissedSmall | afterHardfork | renterSig | fundCost | budget | sessionOver | noContract
  | windowEndUnstorable
deriving DecidableEq, Repr

/-- panic sites, grouped by root cause (`Site.label`) -/
inductive Site where
  -- validateStdRevision
  | stdOldSum | stdCurValidIndex | stdValidSum | stdCurMissedIndex | stdMissedSum
  | stdRevValidRenter | stdCurValidRenter | stdRevMissedRenter | stdCurMissedRenter
  -- ValidateRevision
  | revCurValidRenter | revCurMissedRenter | revCurMissedHost | revRevValidRenter
  | revRevValidHost | revCurValidHost | revRevMissedHost
  -- ValidateProgramRevision
  | progCurMissedHost | progRevMissedHost | progExpectedBurn | progRevVoid | progCurVoid
  | progCurValidRenter | progRevValidRenter | progCurValidHost | progRevValidHost
  | progCurMissedRenter | progRevMissedRenter
  -- ValidatePaymentRevision
  | payRevValidRenter | payCurValidRenter | payValidRenterSub | payRevMissedRenter | payCurMissedRenter
  | payMissedRenterSub | payRevValidHost | payCurValidHost | payValidHostAdd
  | payRevMissedHost | payCurMissedHost | payMissedHostAdd
  -- ValidateClearingRevision
  | clrCurValidRenter | clrFinMissedRenter | clrFinValidHost | clrCurValidHost | clrLoopCur | clrLoopMissed
  -- Revise / ClearingRevision
  | reviseOld
  -- renewal validators and handler arithmetic
  | renExpectedBurn | renMinValidPayout | renMinMissedAdd | renMinMissedSub
  | formCollateralSub | conValidHost | conMissedHost | conVoid
  | baseStorageMul1 | baseStorageMul2 | baseRevenueAdd | baseCollateralMul1 | baseCollateralMul2
  | usageStorageSub | rpcExistingValidRenter | usageTotalAdd
  -- signing sites of rhp/v3/payments.go
  | payCurRenter | payRevRenter
deriving DecidableEq, Repr

/-- root cause of a panic site; used in monitor names / known-finding signatures -/
def Site.label : Site → String
  | .stdOldSum => "current_sum_overflow"
  | .stdCurValidIndex | .stdCurMissedIndex => "more_outputs_than_current"
  | .stdValidSum | .stdMissedSum => "output_sum_overflow"
  | .stdRevValidRenter | .stdCurValidRenter | .stdRevMissedRenter | .stdCurMissedRenter
  | .revCurValidRenter | .revCurMissedRenter | .revRevValidRenter
  | .progCurValidRenter | .progRevValidRenter | .progCurMissedRenter | .progRevMissedRenter
  | .payRevValidRenter | .payCurValidRenter | .payRevMissedRenter | .payCurMissedRenter
  | .clrCurValidRenter | .clrFinMissedRenter | .rpcExistingValidRenter | .payCurRenter | .payRevRenter => "missing_renter_output"
  | .revCurMissedHost | .revRevValidHost | .revCurValidHost | .revRevMissedHost
  | .progCurMissedHost | .progRevMissedHost | .progCurValidHost | .progRevValidHost
  | .payRevValidHost | .payCurValidHost | .payRevMissedHost | .payCurMissedHost
  | .clrFinValidHost | .clrCurValidHost | .clrLoopCur | .clrLoopMissed => "missing_host_output"
  | .progRevVoid | .progCurVoid => "missing_void_output"
  | .progExpectedBurn => "cost_overflow"
  | .payValidRenterSub | .payMissedRenterSub => "payment_underflow"
  | .payValidHostAdd | .payMissedHostAdd => "payment_overflow"
  | .reviseOld => "revise_index"
  | .renExpectedBurn => "expected_burn_overflow"
  | .renMinValidPayout => "min_valid_payout_overflow"
  | .renMinMissedAdd | .renMinMissedSub => "min_missed_payout"
  | .formCollateralSub => "collateral_underflow"
  | .conValidHost | .conMissedHost | .conVoid => "contract_output_index"
  | .baseStorageMul1 | .baseStorageMul2 | .baseRevenueAdd => "base_revenue_overflow"
  | .baseCollateralMul1 | .baseCollateralMul2 => "base_collateral_overflow"
  | .usageStorageSub => "usage_underflow"
  | .usageTotalAdd => "usage_total_overflow"

/-- kind of Go panic raised at a site (what the harness can observe) -/
def Site.kind : Site → String
  | .stdOldSum | .stdValidSum | .stdMissedSum | .progExpectedBurn | .payValidHostAdd | .payMissedHostAdd
  | .renExpectedBurn | .renMinValidPayout | .renMinMissedAdd
  | .baseStorageMul1 | .baseStorageMul2 | .baseRevenueAdd | .baseCollateralMul1 | .baseCollateralMul2
  | .usageTotalAdd => "overflow"
  | .payValidRenterSub | .payMissedRenterSub | .renMinMissedSub | .formCollateralSub | .usageStorageSub => "underflow"
  | _ => "index"

inductive Res (α : Type) where
  | ok (a : α)
  | reject (t : Tag)
  | panic (s : Site)
deriving DecidableEq, Repr

def Res.bind {α β : Type} : Res α → (α → Res β) → Res β
  | .ok a, f => f a
  | .reject t, _ => .reject t
  | .panic s, _ => .panic s

instance : Monad Res where
  pure := .ok
  bind := Res.bind

def Res.isOk {α : Type} : Res α → Bool
  | .ok _ => true | _ => false
def Res.isPanic {α : Type} : Res α → Bool
  | .panic _ => true | _ => false

structure Out where
  addr : Nat
  val  : Nat
deriving DecidableEq, Repr

/-- `types.FileContractRevision` (also used for `types.FileContract`, where `ucHash` is unused) -/
structure Rev where
  revNo      : Nat
  wStart     : Nat
  wEnd       : Nat
  unlockHash : Nat
  ucHash     : Nat    -- id of `UnlockConditions.UnlockHash()`
  filesize   : Nat
  root       : Nat    -- 0 = `types.Hash256{}`
  valid      : List Out
  missed     : List Out
deriving DecidableEq, Repr

/-! ### primitive operations -/

/-- `if bad { return error }` -/
def check (t : Tag) (bad : Bool) : Res Unit := if bad then .reject t else .ok ()

/-- `Currency.Add` (panics on overflow) -/
def cadd (s : Site) (a b : Nat) : Res Nat := if a + b < C128 then .ok (a + b) else .panic s
/-- `Currency.Sub` (panics on underflow) -/
def csub (s : Site) (a b : Nat) : Res Nat := if b ≤ a then .ok (a - b) else .panic s
/-- `Currency.Mul64` (panics on overflow) -/
def cmul (s : Site) (a b : Nat) : Res Nat := if a * b < C128 then .ok (a * b) else .panic s

/-- `Add` in the current tree, `AddWithOverflow` + error in the repaired one -/
def caddF (fx : Bool) (s : Site) (t : Tag) (a b : Nat) : Res Nat :=
  if a + b < C128 then .ok (a + b) else if fx then .reject t else .panic s
def csubF (fx : Bool) (s : Site) (t : Tag) (a b : Nat) : Res Nat :=
  if b ≤ a then .ok (a - b) else if fx then .reject t else .panic s
def cmulF (fx : Bool) (s : Site) (t : Tag) (a b : Nat) : Res Nat :=
  if a * b < C128 then .ok (a * b) else if fx then .reject t else .panic s

/-- `outputs[0]` -/
def out0 (s : Site) : List Out → Res Out
  | o :: _ => .ok o
  | [] => .panic s
/-- `outputs[1]` -/
def out1 (s : Site) : List Out → Res Out
  | _ :: o :: _ => .ok o
  | _ => .panic s
/-- `outputs[2]` -/
def out2 (s : Site) : List Out → Res Out
  | _ :: _ :: o :: _ => .ok o
  | _ => .panic s

/-- uint64 addition (wraps) -/
def uadd (a b : Nat) : Nat := (a + b) % U64

/-! ### rhp/contracts.go -/

/-- `for _, o := range outs { acc = acc.Add(o.Value) }` -/
def sumVals (fx : Bool) (s : Site) : List Out → Nat → Res Nat
  | [], acc => .ok acc
  | o :: os, acc => do
    let a ← caddF fx s .sumOverflow acc o.val
    sumVals fx s os a

/-- `for i := range rev { if rev[i].Address != cur[i].Address {return err}; acc = acc.Add(rev[i].Value) }`
 — note `cur[i]` is indexed before any length comparison. -/
def addrLoop (fx : Bool) (sIdx sSum : Site) (tAddr : Tag) : List Out → List Out → Nat → Res Nat
  | [], _, acc => .ok acc
  | _ :: _, [], _ => .panic sIdx
  | r :: rs, c :: cs, acc =>
    if r.addr ≠ c.addr then .reject tAddr
    else do
      let a ← caddF fx sSum .sumOverflow acc r.val
      addrLoop fx sIdx sSum tAddr rs cs a

/-- the current tree compares the proposed missed sum with the current VALID sum
(`oldPayout`); the repaired variant sums the current missed outputs -/
def oldMissedSum (fx : Bool) (cur : Rev) (oldPayout : Nat) : Res Nat :=
  if fx then sumVals fx .stdOldSum cur.missed 0 else .ok oldPayout

/-- rhp/contracts.go:21 `validateStdRevision` -/
def validateStd (fx : Bool) (cur rev : Rev) : Res Unit := do
  -- repaired variant only (`fx && …`): shape checks before anything is indexed
  check .curShape (fx && (decide (cur.valid.length < 2) || decide (cur.missed.length < 2)))
  check .validCount (fx && decide (rev.valid.length ≠ cur.valid.length))
  check .missedCount (fx && decide (rev.missed.length ≠ cur.missed.length))
  let oldPayout ← sumVals fx .stdOldSum cur.valid 0
  let oldMissed ← oldMissedSum fx cur oldPayout
  let validPayout ← addrLoop fx .stdCurValidIndex .stdValidSum .validAddr rev.valid cur.valid 0
  let missedPayout ← addrLoop fx .stdCurMissedIndex .stdMissedSum .missedAddr rev.missed cur.missed 0
  check .validSum (decide (validPayout ≠ oldPayout))
  check .missedSum (decide (missedPayout ≠ oldMissed))
  check .unlockHash (decide (rev.unlockHash ≠ cur.unlockHash))
  check .unlockConds (decide (rev.ucHash ≠ cur.ucHash))
  check .revNo (decide (rev.revNo ≤ cur.revNo))
  check .wStart (decide (rev.wStart ≠ cur.wStart))
  check .wEnd (decide (rev.wEnd ≠ cur.wEnd))
  check .validCount (decide (rev.valid.length ≠ cur.valid.length))
  check .missedCount (decide (rev.missed.length ≠ cur.missed.length))
  let rvr ← out0 .stdRevValidRenter rev.valid
  let cvr ← out0 .stdCurValidRenter cur.valid
  check .renterValidIncrease (decide (rvr.val > cvr.val))
  let rmr ← out0 .stdRevMissedRenter rev.missed
  let cmr ← out0 .stdCurMissedRenter cur.missed
  check .renterMissedIncrease (decide (rmr.val > cmr.val))
  check .renterPayoutsDiffer (decide (rvr.val ≠ rmr.val))

/-- rhp/contracts.go:203 `ValidateRevision`; returns `(transfer, burn)` -/
def validateRevision (fx : Bool) (cur rev : Rev) (payment collateral : Nat) : Res (Nat × Nat) := do
  validateStd fx cur rev
  let cvr ← out0 .revCurValidRenter cur.valid
  check .renterValidFunds (decide (cvr.val < payment))
  let cmr ← out0 .revCurMissedRenter cur.missed
  check .renterMissedFunds (decide (cmr.val < payment))
  let cmh ← out1 .revCurMissedHost cur.missed
  check .hostMissedFunds (decide (cmh.val < collateral))
  let rvr ← out0 .revRevValidRenter rev.valid
  check .renterValidUnderflow (decide (cvr.val < rvr.val))
  let rvh ← out1 .revRevValidHost rev.valid
  let cvh ← out1 .revCurValidHost cur.valid
  check .hostValidUnderflow (decide (rvh.val < cvh.val))
  let rmh ← out1 .revRevMissedHost rev.missed
  check .hostMissedUnderflow (decide (cmh.val < rmh.val))
  check .transferMismatch (decide (cvr.val - rvr.val ≠ rvh.val - cvh.val))
  check .insufficientTransfer (decide (rvh.val - cvh.val < payment))
  check .excessiveBurn (decide (cmh.val - rmh.val > collateral))
  pure (rvh.val - cvh.val, cmh.val - rmh.val)

/-- rhp/contracts.go:247 `ValidateProgramRevision`; returns the host burn -/
def validateProgram (fx : Bool) (cur rev : Rev) (storage collateral : Nat) : Res Nat := do
  validateStd fx cur rev
  check .curShape (fx && decide (cur.missed.length < 3))
  let cmh ← out1 .progCurMissedHost cur.missed
  let rmh ← out1 .progRevMissedHost rev.missed
  check .hostMissedUnderflow (decide (cmh.val < rmh.val))
  let expectedBurn ← caddF fx .progExpectedBurn .costOverflow storage collateral
  check .excessiveBurn (decide (cmh.val - rmh.val > expectedBurn))
  let rvoid ← out2 .progRevVoid rev.missed
  let cvoid ← out2 .progCurVoid cur.missed
  check .voidUnderflow (decide (rvoid.val < cvoid.val))
  check .voidMismatch (decide (rvoid.val - cvoid.val ≠ cmh.val - rmh.val))
  let cvr ← out0 .progCurValidRenter cur.valid
  let rvr ← out0 .progRevValidRenter rev.valid
  check .renterValidChanged (decide (cvr.val ≠ rvr.val))
  let cvh ← out1 .progCurValidHost cur.valid
  let rvh ← out1 .progRevValidHost rev.valid
  check .hostValidChanged (decide (cvh.val ≠ rvh.val))
  let cmr ← out0 .progCurMissedRenter cur.missed
  let rmr ← out0 .progRevMissedRenter rev.missed
  check .renterMissedChanged (decide (cmr.val ≠ rmr.val))
  pure (cmh.val - rmh.val)

/-- rhp/contracts.go:289 `ValidatePaymentRevision` -/
def validatePayment (fx : Bool) (cur rev : Rev) (payment : Nat) : Res Unit := do
  validateStd fx cur rev
  let rvr ← out0 .payRevValidRenter rev.valid
  let cvr ← out0 .payCurValidRenter cur.valid
  let a ← csubF fx .payValidRenterSub .paymentRange cvr.val payment
  check .renterValidNotReduced (decide (rvr.val ≠ a))
  let rmr ← out0 .payRevMissedRenter rev.missed
  let cmr ← out0 .payCurMissedRenter cur.missed
  let b ← csubF fx .payMissedRenterSub .paymentRange cmr.val payment
  check .renterMissedNotReduced (decide (rmr.val ≠ b))
  let rvh ← out1 .payRevValidHost rev.valid
  let cvh ← out1 .payCurValidHost cur.valid
  let c ← caddF fx .payValidHostAdd .paymentRange cvh.val payment
  check .hostValidNotIncreased (decide (rvh.val ≠ c))
  let rmh ← out1 .payRevMissedHost rev.missed
  let cmh ← out1 .payCurMissedHost cur.missed
  let d ← caddF fx .payMissedHostAdd .paymentRange cmh.val payment
  check .hostMissedNotIncreased (decide (rmh.val ≠ d))

/-- the final loop of `ValidateClearingRevision`:
`for i := range final.Valid { current, valid, missed := current.Valid[i], final.Valid[i], final.Missed[i]; … }` -/
def clearLoop : List Out → List Out → List Out → Res Unit
  | [], _, _ => .ok ()
  | _ :: _, [], _ => .panic .clrLoopCur
  | _ :: _, _ :: _, [] => .panic .clrLoopMissed
  | v :: vs, c :: cs, m :: ms => do
    check .validAddr (decide (v.addr ≠ c.addr))
    check .missedAddr (decide (v.addr ≠ m.addr))
    check .missedNeValid (decide (v.val ≠ m.val))
    clearLoop vs cs ms

/-- rhp/contracts.go:148 `ValidateClearingRevision`; returns the amount transferred to the host -/
def validateClearing (fx : Bool) (cur fin : Rev) (finalPayment : Nat) : Res Nat := do
  check .curShape (fx && decide (cur.valid.length ≠ 2))
  check .locked (fx && decide (cur.revNo = maxRev))
  check .filesize (decide (fin.filesize ≠ 0))
  check .root (decide (fin.root ≠ 0))
  check .wStart (decide (cur.wStart ≠ fin.wStart))
  check .wEnd (decide (cur.wEnd ≠ fin.wEnd))
  check .missedCount (decide (fin.missed.length ≠ 2))
  check .validCount (decide (fin.valid.length ≠ fin.missed.length))
  check .revNoMax (decide (fin.revNo ≠ maxRev))
  check .unlockHash (decide (fin.unlockHash ≠ cur.unlockHash))
  check .unlockConds (decide (fin.ucHash ≠ cur.ucHash))
  let cvr ← out0 .clrCurValidRenter cur.valid
  let fmr ← out0 .clrFinMissedRenter fin.missed
  check .renterValidUnderflow (decide (cvr.val < fmr.val))
  let fvh ← out1 .clrFinValidHost fin.valid
  let cvh ← out1 .clrCurValidHost cur.valid
  check .hostValidUnderflow (decide (fvh.val < cvh.val))
  check .transferMismatch (decide (cvr.val - fmr.val ≠ fvh.val - cvh.val))
  check .insufficientTransfer (decide (cvr.val - fmr.val < finalPayment))
  clearLoop fin.valid cur.valid fin.missed
  pure (fvh.val - cvh.val)

/-- `for i := range vals { new[i].Address = old[i].Address; new[i].Value = vals[i] }` -/
def reviseLoop : List Nat → List Out → Res (List Out)
  | [], _ => .ok []
  | _ :: _, [] => .panic .reviseOld
  | v :: vs, o :: os => do
    let rest ← reviseLoop vs os
    pure ({ addr := o.addr, val := v } :: rest)

/-- rhp/contracts.go:96 `Revise` -/
def revise (cur : Rev) (revNo : Nat) (validVals missedVals : List Nat) : Res Rev := do
  check .locked (decide (cur.revNo = maxRev))
  check .revNo (decide (revNo ≤ cur.revNo))
  check .validCount (decide (validVals.length ≠ cur.valid.length))
  check .missedCount (decide (missedVals.length ≠ cur.missed.length))
  let v ← reviseLoop validVals cur.valid
  let m ← reviseLoop missedVals cur.missed
  pure { cur with revNo := revNo, valid := v, missed := m }

/-- rhp/contracts.go:125 `ClearingRevision` -/
def clearingRevision (cur : Rev) (vals : List Nat) : Res Rev := do
  check .locked (decide (cur.revNo = maxRev))
  check .validCount (decide (vals.length ≠ cur.valid.length))
  let v ← reviseLoop vals cur.valid
  pure { cur with revNo := maxRev, filesize := 0, root := 0, valid := v, missed := v }

/-! ### rhp/v2/contracts.go, rhp/v3/contracts.go -/

/-- the fields of `rhp2.HostSettings` / `rhp3.HostPriceTable` the validators and handlers read -/
structure Settings where
  windowSize    : Nat   -- uint64
  maxDuration   : Nat   -- uint64
  address       : Nat   -- settings.Address (v2) / wallet.Address() (v3)
  contractPrice : Nat
  maxCollateral : Nat
  storagePrice  : Nat   -- v2 StoragePrice / v3 WriteStoreCost  (per byte per block)
  collateral    : Nat   -- v2 Collateral   / v3 CollateralCost  (per byte per block)
  renewCost     : Nat   -- v3 RenewContractCost
  baseRPCPrice  : Nat   -- v2 BaseRPCPrice
deriving DecidableEq, Repr

/-- rhp/v2/contracts.go:35 `validateContractFormation`; `expUH` is the id of
`contractUnlockConditions(hostKey, renterKey).UnlockHash()`; returns the host collateral -/
def validateFormation (fc : Rev) (expUH height : Nat) (st : Settings) : Res Nat := do
  check .filesize (decide (fc.filesize ≠ 0))
  check .revNo (decide (fc.revNo ≠ 0))
  check .root (decide (fc.root ≠ 0))
  check .tooSoon (decide (fc.wStart < uadd height st.windowSize))
  check .tooLong (decide (fc.wStart > uadd height st.maxDuration))
  check .windowSmall (decide (fc.wEnd < uadd fc.wStart st.windowSize))
  check .validCount (decide (fc.valid.length ≠ 2))
  check .missedCount (decide (fc.missed.length ≠ 3))
  let vh ← out1 .conValidHost fc.valid
  check .hostValidAddr (decide (vh.addr ≠ st.address))
  let mh ← out1 .conMissedHost fc.missed
  check .hostMissedAddr (decide (mh.addr ≠ st.address))
  let void ← out2 .conVoid fc.missed
  check .voidAddress (decide (void.addr ≠ voidAddr))
  check .voidValue (decide (void.val ≠ 0))
  check .hostValidSmall (decide (vh.val < st.contractPrice))
  check .hostValidNeMissed (decide (vh.val ≠ mh.val))
  check .excessiveCollateral (decide (vh.val > st.maxCollateral))
  check .unlockHash (decide (fc.unlockHash ≠ expUH))
  csub .formCollateralSub vh.val st.contractPrice

/-- the first `switch` shared by both renewal validators -/
def renewalShape (existing renewal : Rev) (expUH height : Nat) (st : Settings) : Res (Out × Out × Out) := do
  check .revNo (decide (renewal.revNo ≠ 0))
  check .filesize (decide (renewal.filesize ≠ existing.filesize))
  check .root (decide (renewal.root ≠ existing.root))
  check .windowEndShrinks (decide (renewal.wEnd < existing.wEnd))
  check .tooSoon (decide (renewal.wStart < uadd height st.windowSize))
  check .tooLong (decide (renewal.wStart > uadd height st.maxDuration))
  check .windowSmall (decide (renewal.wEnd < uadd renewal.wStart st.windowSize))
  check .validCount (decide (renewal.valid.length ≠ 2))
  check .missedCount (decide (renewal.missed.length ≠ 3))
  let vh ← out1 .conValidHost renewal.valid
  check .hostValidAddr (decide (vh.addr ≠ st.address))
  let mh ← out1 .conMissedHost renewal.missed
  check .hostMissedAddr (decide (mh.addr ≠ st.address))
  let void ← out2 .conVoid renewal.missed
  check .voidAddress (decide (void.addr ≠ voidAddr))
  check .unlockHash (decide (renewal.unlockHash ≠ expUH))
  pure (vh, mh, void)

/-- rhp/v2/contracts.go:76 `validateContractRenewal`;
returns `(storageRevenue, riskedCollateral, lockedCollateral)` -/
def validateRenewal2 (fx : Bool) (existing renewal : Rev) (expUH : Nat) (baseHostRevenue baseRisked : Nat)
    (height : Nat) (st : Settings) : Res (Nat × Nat × Nat) := do
  let (vh, mh, void) ← renewalShape existing renewal expUH height st
  let expectedBurn ← caddF fx .renExpectedBurn .costOverflow baseHostRevenue baseRisked
  check .hostValidUnderflow (decide (vh.val < mh.val))
  check .excessiveBurn (decide (vh.val - mh.val > expectedBurn))
  check .voidNeBurn (decide (void.val ≠ vh.val - mh.val))
  -- riskedCollateral = hostBurn - baseHostRevenue, or 0 on underflow (Nat subtraction truncates)
  let risked := (vh.val - mh.val) - baseHostRevenue
  check .validBelowBase (decide (vh.val < baseHostRevenue))
  check .excessiveCollateral (decide (vh.val - baseHostRevenue > st.maxCollateral))
  pure (baseHostRevenue, risked, vh.val - baseHostRevenue)

/-- rhp/v3/contracts.go:29 `validateContractRenewal`; `st.address` is the wallet address,
`height` is `pt.HostBlockHeight`; returns `(riskedCollateral, lockedCollateral)` -/
def validateRenewal3 (fx : Bool) (existing renewal : Rev) (expUH : Nat) (baseStorageRevenue baseRisked : Nat)
    (height : Nat) (st : Settings) : Res (Nat × Nat) := do
  let (vh, mh, void) ← renewalShape existing renewal expUH height st
  let expectedBurn ← caddF fx .renExpectedBurn .costOverflow baseStorageRevenue baseRisked
  check .hostValidUnderflow (decide (vh.val < mh.val))
  check .excessiveBurn (decide (vh.val - mh.val > expectedBurn))
  check .voidNeBurn (decide (void.val ≠ vh.val - mh.val))
  let risked := (vh.val - mh.val) - baseStorageRevenue
  let minValidPayout ← caddF fx .renMinValidPayout .costOverflow st.contractPrice baseStorageRevenue
  check .validBelowBase (decide (vh.val < minValidPayout))
  let locked := vh.val - minValidPayout
  check .excessiveCollateral (decide (locked > st.maxCollateral))
  let x ← cadd .renMinMissedAdd st.contractPrice locked
  let minMissedPayout ← csub .renMinMissedSub x risked
  check .hostMissedSmall (decide (mh.val < minMissedPayout))
  pure (risked, locked)

/-! ### handler arithmetic (rhp/v2/rpc.go, rhp/v3/rpc.go) -/

/-- `baseRevenue := flat; if renewal.WindowEnd > existing.WindowEnd { extension := …;
baseRevenue = baseRevenue.Add(price.Mul64(filesize).Mul64(extension)); baseCollateral = coll.Mul64(filesize).Mul64(extension) }`
— computed BEFORE `validateContractRenewal`, on the renter-supplied `Filesize` and `WindowEnd`. -/
def renewBase (fx : Bool) (flat price coll : Nat) (existing renewal : Rev) : Res (Nat × Nat) :=
  if renewal.wEnd > existing.wEnd then do
    let ext := renewal.wEnd - existing.wEnd
    let a ← cmulF fx .baseStorageMul1 .costOverflow price renewal.filesize
    let b ← cmulF fx .baseStorageMul2 .costOverflow a ext
    let r ← caddF fx .baseRevenueAdd .costOverflow flat b
    let c ← cmulF fx .baseCollateralMul1 .costOverflow coll renewal.filesize
    let d ← cmulF fx .baseCollateralMul2 .costOverflow c ext
    pure (r, d)
  else pure (flat, 0)

/-- what the handlers hand to `contracts.AddContract / RenewContract` -/
structure Recorded where
  locked         : Nat   -- lockedCollateral argument
  rpcRevenue     : Nat   -- initial usage .RPCRevenue
  storageRevenue : Nat   -- initial usage .StorageRevenue
  risked         : Nat   -- initial usage .RiskedCollateral
  clearingRPC    : Nat   -- clearing usage .RPCRevenue (renewals)
deriving DecidableEq, Repr

/-- whether the renter's signatures verify: over the clearing / final revision of the old contract and
over the initial revision of the new contract -/
structure Sigs where
  clearing : Bool
  contract : Bool
deriving DecidableEq, Repr

/-- `math.MaxInt64`: the largest height the contract store can record (database/sql refuses a uint64 with the high
bit set); the handlers refuse a larger proof window end before anything is signed or broadcast -/
def maxStorable : Nat := 2 ^ 63 - 1

/-- rhp/v2/rpc.go `rpcFormContract` once the request has been read: `height` is the height handed to the
validator (`sh.chain.Tip().Height`, read AFTER the request body arrived), `st` the settings read when the
handler started -/
def rpcForm2Body (requireHeight : Nat) (fc : Rev) (expUH height : Nat) (st : Settings) (sg : Sigs) : Res Recorded := do
  check .afterHardfork (decide (fc.wStart ≥ requireHeight))
  check .windowEndUnstorable (decide (fc.wEnd > maxStorable))   -- heights are stored as int64
  let hostCollateral ← validateFormation fc expUH height st
  check .renterSig (!sg.contract)                            -- validateRenterRevisionSignature
  pure { locked := hostCollateral, rpcRevenue := st.contractPrice, storageRevenue := 0, risked := 0, clearingRPC := 0 }

/-- rhp/v2/rpc.go `rpcFormContract` from the hard-fork guard to `AddContract` (chain tip constant during the RPC) -/
def rpcForm2 (requireHeight : Nat) (fc : Rev) (expUH height : Nat) (st : Settings) (sg : Sigs) : Res Recorded := do
  check .afterHardfork (decide (height ≥ requireHeight))     -- rpcLoop: RHP2 is disabled after the require height
  rpcForm2Body requireHeight fc expUH height st sg

/-- rhp/v2/rpc.go `rpcRenewAndClearContract` from the hard-fork guard to `RenewContract`
(transaction funding is outside the model) -/
def rpcRenew2Body (fx : Bool) (requireHeight : Nat) (existing renewal : Rev) (finalVals : List Nat)
    (expUH height : Nat) (st : Settings) (sg : Sigs) : Res Recorded := do
  check .locked (decide (existing.revNo = maxRev))             -- session.ContractRevisable
  check .afterHardfork (decide (renewal.wStart ≥ requireHeight))
  check .windowEndUnstorable (decide (renewal.wEnd > maxStorable))
  let clearing ← clearingRevision existing finalVals
  let evr ← out0 .rpcExistingValidRenter existing.valid
  let expectedExchange := if st.baseRPCPrice > evr.val then evr.val else st.baseRPCPrice
  let finalPayment ← validateClearing fx existing clearing expectedExchange
  let (baseRevenue, baseCollateral) ← renewBase fx st.contractPrice st.storagePrice st.collateral existing renewal
  let (baseRevenue', risked, locked) ← validateRenewal2 fx existing renewal expUH baseRevenue baseCollateral height st
  let storage ← csub .usageStorageSub baseRevenue' st.contractPrice
  check .renterSig (!sg.clearing)     -- clearing revision signature, verified with the existing contract's renter key
  check .renterSig (!sg.contract)     -- renewal revision signature
  -- `return clearingUsage.Add(renewalUsage), …` after RenewContract: RPCRevenue fields are added with the panicking Add
  let _ ← cadd .usageTotalAdd finalPayment st.contractPrice
  pure { locked := locked, rpcRevenue := st.contractPrice, storageRevenue := storage, risked := risked,
         clearingRPC := finalPayment }

def rpcRenew2 (fx : Bool) (requireHeight : Nat) (existing renewal : Rev) (finalVals : List Nat)
    (expUH height : Nat) (st : Settings) (sg : Sigs) : Res Recorded := do
  check .afterHardfork (decide (height ≥ requireHeight))     -- rpcLoop
  rpcRenew2Body fx requireHeight existing renewal finalVals expUH height st sg

/-! #### the chain moves while an RPC is in flight

The handlers read the chain twice: when the RPC id arrives (`rpcLoop`, `cs := sh.chain.TipState()`: height `h1`)
and, after the request body has been read, `sh.chain.Tip().Height` (height `h2 ≥ h1`), which is what the validator
must be given.  `useTip = false` is the stale shape: the validator gets the height captured at `h1`.
The settings are one snapshot taken when the handler starts.  RHP3 validates against the price table the renter
pays with (`pt.HostBlockHeight`, `pt.WindowSize`, …): that is the `height` / `st` of `rpcRenew3`. -/

def rpcForm2At (useTip : Bool) (requireHeight : Nat) (fc : Rev) (expUH h1 h2 : Nat) (st : Settings) (sg : Sigs) :
    Res Recorded := do
  check .afterHardfork (decide (h1 ≥ requireHeight))
  rpcForm2Body requireHeight fc expUH (if useTip then h2 else h1) st sg

def rpcRenew2At (fx useTip : Bool) (requireHeight : Nat) (existing renewal : Rev) (finalVals : List Nat)
    (expUH h1 h2 : Nat) (st : Settings) (sg : Sigs) : Res Recorded := do
  check .afterHardfork (decide (h1 ≥ requireHeight))
  rpcRenew2Body fx requireHeight existing renewal finalVals expUH (if useTip then h2 else h1) st sg

/-- rhp/v3/rpc.go `handleRPCRenew` from the hard-fork guard to `RenewContract` (the height check of
`Serve` is outside: the harness hands the stream to `handleHostStream` directly) -/
def rpcRenew3 (fx : Bool) (requireHeight : Nat) (existing clearing renewal : Rev)
    (expUH height : Nat) (st : Settings) (sg : Sigs) : Res Recorded := do
  check .afterHardfork (decide (renewal.wStart ≥ requireHeight))
  check .windowEndUnstorable (decide (renewal.wEnd > maxStorable))
  let finalPayment ← validateClearing fx existing clearing 0
  check .renterSig (!sg.clearing)     -- final revision signature, verified with the existing contract's renter key
  let (baseRevenue, baseCollateral) ← renewBase fx st.renewCost st.storagePrice st.collateral existing renewal
  let (risked, locked) ← validateRenewal3 fx existing renewal expUH baseRevenue baseCollateral height st
  check .renterSig (!sg.contract)     -- validateRenterRevisionSignature
  -- `return finalRevisionUsage.Add(renewalUsage), …` after RenewContract
  let _ ← cadd .usageTotalAdd finalPayment st.contractPrice
  pure { locked := locked, rpcRevenue := st.contractPrice, storageRevenue := baseRevenue, risked := risked,
         clearingRPC := finalPayment }

/-! ### property clauses (decidable; the driver evaluates exactly these on the
implementation's verdicts, the theorems of Props/C07, Props/C12 are about them) -/

def vals (l : List Out) : List Nat := l.map (·.val)
def addrs (l : List Out) : List Nat := l.map (·.addr)
/-- mathematical (unbounded) sum of the output values -/
def total : List Out → Nat
  | [] => 0
  | o :: l => o.val + total l

def renterVal : List Out → Option Nat
  | o :: _ => some o.val | [] => none
def hostVal : List Out → Option Nat
  | _ :: o :: _ => some o.val | _ => none
def hostAddr : List Out → Option Nat
  | _ :: o :: _ => some o.addr | _ => none
def voidOut : List Out → Option Out
  | _ :: _ :: o :: _ => some o | _ => none

/-- `b ≤ a` on optional payouts; false when either output is missing -/
def optLe : Option Nat → Option Nat → Bool
  | some a, some b => decide (a ≤ b)
  | _, _ => false

def optAdd : Option Nat → Nat → Option Nat
  | some a, n => some (a + n)
  | none, _ => none

/-- C07, first sentence: clauses every accepted (current, proposed) pair must satisfy.
`price` = what the RPC costs, `maxBurn` = collateral (+ storage) the RPC puts at risk. -/
def revisionClauses (cur rev : Rev) (price maxBurn : Nat) : List (String × Bool) :=
  [ ("revno_increases", decide (rev.revNo > cur.revNo)),
    ("unlock_hash_unchanged", decide (rev.unlockHash = cur.unlockHash)),
    ("unlock_conditions_unchanged", decide (rev.ucHash = cur.ucHash)),
    ("window_unchanged", decide (rev.wStart = cur.wStart ∧ rev.wEnd = cur.wEnd)),
    ("output_count_unchanged", decide (rev.valid.length = cur.valid.length ∧ rev.missed.length = cur.missed.length)),
    ("output_addresses_unchanged", decide (addrs rev.valid = addrs cur.valid ∧ addrs rev.missed = addrs cur.missed)),
    ("valid_sum_unchanged", decide (total rev.valid = total cur.valid)),
    ("missed_sum_unchanged", decide (total rev.missed = total cur.missed)),
    ("renter_valid_not_increased", optLe (renterVal rev.valid) (renterVal cur.valid)),
    ("renter_missed_not_increased", optLe (renterVal rev.missed) (renterVal cur.missed)),
    ("host_valid_gains_price", optLe (optAdd (hostVal cur.valid) price) (hostVal rev.valid)),
    ("host_missed_loss_bounded", optLe (hostVal cur.missed) (optAdd (hostVal rev.missed) maxBurn)) ]

/-- C07, second sentence: clauses every accepted clearing revision must satisfy -/
def clearingClauses (cur fin : Rev) (finalPayment : Nat) : List (String × Bool) :=
  [ ("file_zeroed", decide (fin.filesize = 0 ∧ fin.root = 0)),
    ("revno_max", decide (fin.revNo = maxRev)),
    ("missed_equals_valid", decide (fin.missed = fin.valid)),
    ("revno_increases", decide (fin.revNo > cur.revNo)),
    ("unlock_hash_unchanged", decide (fin.unlockHash = cur.unlockHash)),
    ("unlock_conditions_unchanged", decide (fin.ucHash = cur.ucHash)),
    ("window_unchanged", decide (fin.wStart = cur.wStart ∧ fin.wEnd = cur.wEnd)),
    ("valid_addresses_unchanged", decide (addrs fin.valid = addrs cur.valid)),
    ("valid_sum_unchanged", decide (total fin.valid = total cur.valid)),
    ("renter_valid_not_increased", optLe (renterVal fin.valid) (renterVal cur.valid)),
    ("host_valid_gains_price", optLe (optAdd (hostVal cur.valid) finalPayment) (hostVal fin.valid)) ]

/-- configuration hypothesis of C12: the uint64 additions of the window checks do not wrap -/
def noWrap (height : Nat) (st : Settings) : Bool :=
  decide (height + st.maxDuration + st.windowSize < U64)

/-- C12: clauses every accepted formation / renewal must satisfy; `base` = base storage
revenue of the renewed data (0 for a formation) -/
def contractClauses (fc : Rev) (height : Nat) (st : Settings) (base locked : Nat) : List (String × Bool) :=
  [ ("window_start_not_too_soon", !noWrap height st || decide (height + st.windowSize ≤ fc.wStart)),
    ("window_start_not_too_late", !noWrap height st || decide (fc.wStart ≤ height + st.maxDuration)),
    ("window_long_enough", !noWrap height st || decide (fc.wStart + st.windowSize ≤ fc.wEnd)),
    ("host_valid_address", decide (hostAddr fc.valid = some st.address)),
    ("host_missed_address", decide (hostAddr fc.missed = some st.address)),
    ("void_address", decide ((voidOut fc.missed).map (·.addr) = some voidAddr)),
    ("collateral_le_max", decide (locked ≤ st.maxCollateral)),
    ("valid_payout_covers_price_and_base", optLe (some (st.contractPrice + base)) (hostVal fc.valid)) ]

/-- mathematical base storage cost `price · filesize · extension` (0 if the window end does not move) -/
def baseCost (price : Nat) (existing renewal : Rev) : Nat :=
  if renewal.wEnd > existing.wEnd then price * renewal.filesize * (renewal.wEnd - existing.wEnd) else 0

/-- closed form of what `rpcFormContract` records -/
def formRecorded (fc : Rev) (st : Settings) : Option Recorded :=
  match hostVal fc.valid with
  | some vh => some { locked := vh - st.contractPrice, rpcRevenue := st.contractPrice,
                      storageRevenue := 0, risked := 0, clearingRPC := 0 }
  | none => none

/-- closed form of what `rpcRenewAndClearContract` records (RHP2): the base revenue handed to the
validator contains the contract price -/
def renew2Recorded (existing renewal : Rev) (finalVals : List Nat) (st : Settings) : Option Recorded :=
  match hostVal renewal.valid, hostVal renewal.missed, hostVal existing.valid, finalVals with
  | some vh, some mh, some evh, _ :: fh :: _ =>
    let storage := baseCost st.storagePrice existing renewal
    some { locked := vh - (st.contractPrice + storage), rpcRevenue := st.contractPrice,
           storageRevenue := storage, risked := (vh - mh) - (st.contractPrice + storage),
           clearingRPC := fh - evh }
  | _, _, _, _ => none

/-- closed form of what `handleRPCRenew` records (RHP3): the base revenue is
`RenewContractCost + WriteStoreCost·filesize·extension` and is recorded as storage revenue -/
def renew3Recorded (existing clearing renewal : Rev) (st : Settings) : Option Recorded :=
  match hostVal renewal.valid, hostVal renewal.missed, hostVal existing.valid, hostVal clearing.valid with
  | some vh, some mh, some evh, some fh =>
    let base := st.renewCost + baseCost st.storagePrice existing renewal
    some { locked := vh - (st.contractPrice + base), rpcRevenue := st.contractPrice,
           storageRevenue := base, risked := (vh - mh) - base, clearingRPC := fh - evh }
  | _, _, _, _ => none

/-! ### signing sites (C07)

Every call of `SignHash` in rhp/v2 and rhp/v3 that produces a host signature over a contract
revision, with the validator that must guard it and the clauses that must hold between the
revision the host holds and the revision it counter-signs.  The harness reads the source tree
(`signsites` line) and the driver checks that this table names exactly the functions that sign. -/

inductive Guard where
  | formation | renewal2 | renewal3 | clearing | revision | program | payment
  | none     -- the signature is not over a contract revision
deriving DecidableEq, Repr

inductive SignSite where
  | rhp2Form | rhp2RenewClearing | rhp2RenewContract | rhp2SectorRoots | rhp2Write | rhp2Read
  | rhp3Pay | rhp3Fund | rhp3Finalize | rhp3RenewClearing | rhp3RenewContract | rhp3FundReceipt
deriving DecidableEq, Repr

structure SiteInfo where
  site    : SignSite
  name    : String   -- `<site>` in the monitor names `accept_safe/<site>/<clause>`
  file    : String
  fn      : String   -- enclosing function of the `SignHash` call
  line    : Nat      -- line of the call at the time of writing (documentation; the tie is file + function)
  guard   : Guard
  builtBy : String   -- where the signed revision comes from
  clauses : String   -- clause family that must hold for (current, signed)
deriving Repr

def signingSites : List SiteInfo :=
  [ { site := .rhp2Form, name := "rpcFormContract", file := "rhp/v2/rpc.go", fn := "rpcFormContract", line := 188,
      guard := .formation, builtBy := "InitialRevision(renter's formation transaction)", clauses := "contractClauses (C12)" },
    { site := .rhp2RenewClearing, name := "rpcRenewAndClearContract", file := "rhp/v2/rpc.go", fn := "rpcRenewAndClearContract", line := 413,
      guard := .clearing, builtBy := "ClearingRevision(current, renter values)", clauses := "clearingClauses finalPayment" },
    { site := .rhp2RenewContract, name := "rpcRenewAndClearContract", file := "rhp/v2/rpc.go", fn := "rpcRenewAndClearContract", line := 418,
      guard := .renewal2, builtBy := "InitialRevision(renter's renewal transaction)", clauses := "contractClauses (C12)" },
    { site := .rhp2SectorRoots, name := "rhp2.rpcSectorRoots", file := "rhp/v2/rpc.go", fn := "rpcSectorRoots", line := 502,
      guard := .revision, builtBy := "Revise(current, renter values)", clauses := "revisionClauses cost 0" },
    { site := .rhp2Write, name := "rhp2.rpcWrite", file := "rhp/v2/rpc.go", fn := "rpcWrite", line := 718,
      guard := .revision, builtBy := "Revise(current, renter values) + host-computed file size and root",
      clauses := "revisionClauses cost collateral" },
    { site := .rhp2Read, name := "rhp2.rpcRead", file := "rhp/v2/rpc.go", fn := "rpcRead", line := 817,
      guard := .revision, builtBy := "Revise(current, renter values)", clauses := "revisionClauses cost 0" },
    { site := .rhp3Finalize, name := "rhp3.finalize", file := "rhp/v3/execute.go", fn := "commit", line := 715,
      guard := .program, builtBy := "Revise(current, renter values) + host-computed file size and root",
      clauses := "revisionClauses 0 (storage + collateral)" },
    { site := .rhp3Pay, name := "rhp3.processContractPayment", file := "rhp/v3/payments.go", fn := "processContractPayment", line := 67,
      guard := .payment, builtBy := "Revise(current, renter values)", clauses := "revisionClauses paid 0, credited = paid" },
    { site := .rhp3Fund, name := "rhp3.processFundAccountPayment", file := "rhp/v3/payments.go", fn := "processFundAccountPayment", line := 221,
      guard := .payment, builtBy := "Revise(current, renter values)", clauses := "revisionClauses paid 0, credited = paid - fund cost" },
    { site := .rhp3FundReceipt, name := "rhp3.fundReceipt", file := "rhp/v3/rpc.go", fn := "handleRPCFundAccount", line := 131,
      guard := .none, builtBy := "FundAccountReceipt (no contract revision)", clauses := "-" },
    { site := .rhp3RenewClearing, name := "handleRPCRenew", file := "rhp/v3/rpc.go", fn := "handleRPCRenew", line := 330,
      guard := .clearing, builtBy := "renter's transaction", clauses := "clearingClauses 0" },
    { site := .rhp3RenewContract, name := "handleRPCRenew", file := "rhp/v3/rpc.go", fn := "handleRPCRenew", line := 390,
      guard := .renewal3, builtBy := "InitialRevision(renter's renewal transaction)", clauses := "contractClauses (C12)" } ]

/-- number of signing calls the table attributes to a function of a file -/
def siteCount (file fn : String) : Nat :=
  (signingSites.filter fun i => i.file == file && i.fn == fn).length

/-- what the renter sends to a site whose revision is built by `Revise`, the price and allowed burn
of the RPC (computed with the cost functions of `core`) and whether the renter's signature is over
the revision the host builds -/
structure SiteIn where
  cur   : Rev
  no    : Nat
  vv    : List Nat
  mv    : List Nat
  price : Nat     -- cost of the RPC (rpcSectorRoots/Read/Write), fund account cost (fund account)
  burn  : Nat     -- collateral of a write, storage + collateral of a program
  sigOK : Bool
deriving Repr

/-- rhp/v2/rpc.go rpcSectorRoots / rpcRead / rpcWrite from `ContractRevisable` to the host signature -/
def rhp2Pay (fx : Bool) (i : SiteIn) : Res Rev := do
  check .locked (decide (i.cur.revNo = maxRev))          -- session.ContractRevisable
  let r ← revise i.cur i.no i.vv i.mv
  let _ ← validateRevision fx i.cur r i.price i.burn
  check .renterSig (!i.sigOK)
  pure r

/-- the amount a payment revision moves out of the renter's valid payout:
`current.ValidRenterPayout().SubWithUnderflow(revision.ValidRenterPayout())` -/
def paidAmount (cur r : Rev) : Res Nat := do
  let cvr ← out0 .payCurRenter cur.valid
  let rvr ← out0 .payRevRenter r.valid
  check .renterValidUnderflow (decide (cvr.val < rvr.val))
  pure (cvr.val - rvr.val)

/-- rhp/v3/payments.go processContractPayment; returns the signed revision and the credited amount -/
def rhp3Pay (fx : Bool) (i : SiteIn) : Res (Rev × Nat) := do
  let r ← revise i.cur i.no i.vv i.mv
  let amount ← paidAmount i.cur r
  validatePayment fx i.cur r amount
  check .renterSig (!i.sigOK)
  pure (r, amount)

/-- rhp/v3/payments.go processFundAccountPayment (`i.price` = `pt.FundAccountCost`) -/
def rhp3Fund (fx : Bool) (i : SiteIn) : Res (Rev × Nat) := do
  let r ← revise i.cur i.no i.vv i.mv
  let total ← paidAmount i.cur r
  check .fundCost (decide (total < i.price))
  validatePayment fx i.cur r total
  check .renterSig (!i.sigOK)
  pure (r, total - i.price)

/-- rhp/v3/execute.go programExecutor.commit (`i.burn` = `pe.cost.Storage + pe.cost.Collateral`) -/
def rhp3Finalize (fx : Bool) (i : SiteIn) : Res Rev := do
  let r ← revise i.cur i.no i.vv i.mv
  let _ ← validateProgram fx i.cur r i.burn 0
  check .renterSig (!i.sigOK)
  pure r

/-- the sites whose revision is built by `Revise` from the renter's values -/
def signRevise (fx : Bool) : SignSite → SiteIn → Res (Rev × Nat)
  -- rpcSectorRoots and rpcRead pass `types.ZeroCurrency` as the collateral
  | .rhp2SectorRoots, i | .rhp2Read, i => do let r ← rhp2Pay fx { i with burn := 0 }; pure (r, 0)
  | .rhp2Write, i => do let r ← rhp2Pay fx i; pure (r, 0)
  | .rhp3Pay, i => rhp3Pay fx i
  | .rhp3Fund, i => rhp3Fund fx i
  | .rhp3Finalize, i => do let r ← rhp3Finalize fx i; pure (r, 0)
  | _, _ => .reject .curShape

/-- what the renter's valid payout loses between two revisions (0 when an output is missing) -/
def paid (cur r : Rev) : Nat :=
  match renterVal cur.valid, renterVal r.valid with
  | some a, some b => a - b
  | _, _ => 0

/-- the signed revision is the current one with only the revision number and output values replaced -/
def onlyValuesChanged (cur r : Rev) (no : Nat) (vv mv : List Nat) : List (String × Bool) :=
  [ ("signed_revno_as_requested", decide (r.revNo = no)),
    ("signed_values_as_requested", decide (vals r.valid = vv ∧ vals r.missed = mv)),
    ("signed_addresses_of_current", decide (addrs r.valid = addrs cur.valid ∧ addrs r.missed = addrs cur.missed)) ]

/-- clauses that must hold between the current revision and the revision counter-signed at a site;
`credited` is the amount credited to the account (RHP3 payments) -/
def siteClauses (s : SignSite) (i : SiteIn) (r : Rev) (credited : Nat) : List (String × Bool) :=
  match s with
  | .rhp2SectorRoots | .rhp2Read =>
    revisionClauses i.cur r i.price 0 ++ onlyValuesChanged i.cur r i.no i.vv i.mv ++
      [("file_unchanged", decide (r.filesize = i.cur.filesize ∧ r.root = i.cur.root))]
  | .rhp2Write => revisionClauses i.cur r i.price i.burn ++ onlyValuesChanged i.cur r i.no i.vv i.mv
  | .rhp3Finalize => revisionClauses i.cur r 0 i.burn ++ onlyValuesChanged i.cur r i.no i.vv i.mv
  | .rhp3Pay =>
    revisionClauses i.cur r (paid i.cur r) 0 ++ onlyValuesChanged i.cur r i.no i.vv i.mv ++
      [("file_unchanged", decide (r.filesize = i.cur.filesize ∧ r.root = i.cur.root)),
       ("credited_is_paid", decide (credited = paid i.cur r))]
  | .rhp3Fund =>
    revisionClauses i.cur r (paid i.cur r) 0 ++ onlyValuesChanged i.cur r i.no i.vv i.mv ++
      [("file_unchanged", decide (r.filesize = i.cur.filesize ∧ r.root = i.cur.root)),
       ("covers_fund_cost", decide (i.price ≤ paid i.cur r)),
       ("credited_is_paid", decide (credited + i.price = paid i.cur r))]
  | _ => []

/-! ### sessions: several revising RPCs against one contract

An RHP2 session caches the revision of the locked contract (`session.contract`): `rpcLock` sets it from the
contract manager, every revising handler validates the renter's proposal against it, commits the new revision
to the store and must then refresh the cache (`s.contract = signedRevision`).  The RHP3 program executor
caches the revision it got from `contracts.Lock` until finalisation.  `Sess` is that pair of revisions. -/

structure Sess where
  cached : Rev     -- what the session / executor believes the current revision to be
  stored : Rev     -- what the host's store holds
deriving Repr

/-- facts about the handlers: does the handler refresh the cached revision after its commit?
(`s.contract = signedRevision` in rpcSectorRoots, rpcRead, rpcWrite) -/
structure SessFacts where
  refresh : SignSite → Bool

/-- the code as it is: every revising RHP2 handler refreshes the cache -/
def codeFacts : SessFacts := { refresh := fun _ => true }

/-- `rpcLock` (after `rpcUnlock`) / `contracts.Lock`: the cache is what the store holds -/
def sessLock (s : Sess) : Sess := { s with cached := s.stored }

/-- one revising RPC: validated against the CACHED revision, committed to the store -/
def sessStep (fx : Bool) (F : SessFacts) (site : SignSite) (s : Sess) (i : SiteIn) : Sess × Res (Rev × Nat) :=
  match signRevise fx site { i with cur := s.cached } with
  | .ok (r, cr) => ({ cached := if F.refresh site then r else s.cached, stored := r }, .ok (r, cr))
  | .reject t => (s, .reject t)
  | .panic p => (s, .panic p)

/-- a two-RPC RHP2 session: Lock, RPC 1, optionally Unlock+Lock, RPC 2.  A failed RPC ends the session
(`upgrade` returns on the first `rpcLoop` error): the second result is then `reject sessionOver`. -/
def session2 (fx : Bool) (F : SessFacts) (c : Rev) (k1 k2 : SignSite) (i1 i2 : SiteIn) (relock : Bool) :
    Res (Rev × Nat) × Res (Rev × Nat) :=
  let s0 := sessLock { cached := c, stored := c }
  let (s1, r1) := sessStep fx F k1 s0 i1
  match r1 with
  | .ok _ =>
    let s1 := if relock then sessLock s1 else s1
    (r1, (sessStep fx F k2 s1 i2).2)
  | _ => (r1, .reject .sessionOver)

/-- RHP3 `RPCExecuteProgram` paid by contract: the payment revises the contract, then the handler locks
the contract (`lockAfterPayment`: the executor's cached revision is what the store holds now), runs the
program if the budget (`need`) suffices, and finalises against the cached revision. -/
def execByContract (fx : Bool) (lockAfterPayment : Bool) (c : Rev) (i1 i2 : SiteIn) (need : Nat) :
    Res (Rev × Nat) × Res (Rev × Nat) :=
  let s0 : Sess := { cached := c, stored := c }
  let (s1, r1) := sessStep fx codeFacts .rhp3Pay (sessLock s0) i1
  match r1 with
  | .ok (_, amount) =>
    -- processContractPayment does not refresh anything: the executor's revision comes from the Lock that follows
    let s1 : Sess := { cached := if lockAfterPayment then s1.stored else c, stored := s1.stored }
    if amount < need then (r1, .reject .budget)
    else (r1, (sessStep fx codeFacts .rhp3Finalize s1 i2).2)
  | _ => (r1, .reject .sessionOver)

/-! ### sessions with a renewal or a formation step -/

/-- one RPC of an RHP2 session -/
inductive SessOp where
  /-- rpcSectorRoots / rpcRead / rpcWrite -/
  | rpc (site : SignSite) (i : SiteIn)
  /-- rpcRenewAndClearContract: the locked contract is cleared (revision number MaxUint64) and renewed -/
  | renew (renewal : Rev) (finalVals : List Nat) (expUH height requireHeight : Nat) (st : Settings) (sg : Sigs)
  /-- rpcFormContract: a NEW contract; the locked contract (if any) is not touched -/
  | form (fc : Rev) (expUH height requireHeight : Nat) (st : Settings) (sg : Sigs)
deriving Repr

/-- `rpcRenewAndClearContract` in a session: validated against the CACHED revision; the store then holds the
clearing revision for the old contract id and the handler must refresh the cache with it
(`s.contract = signedClearing`, `F.refresh .rhp2RenewClearing`).  Returns the clearing revision. -/
def sessRenew (fx : Bool) (F : SessFacts) (s : Sess) (renewal : Rev) (finalVals : List Nat)
    (expUH height requireHeight : Nat) (st : Settings) (sg : Sigs) : Sess × Res (Rev × Nat) :=
  match rpcRenew2 fx requireHeight s.cached renewal finalVals expUH height st sg with
  | .ok _ =>
    match clearingRevision s.cached finalVals with
    | .ok clr => ({ cached := if F.refresh .rhp2RenewClearing then clr else s.cached, stored := clr }, .ok (clr, 0))
    | .reject t => (s, .reject t)
    | .panic p => (s, .panic p)
  | .reject t => (s, .reject t)
  | .panic p => (s, .panic p)

def sessOp (fx : Bool) (F : SessFacts) (s : Sess) : SessOp → Sess × Res (Rev × Nat)
  | .rpc site i => sessStep fx F site s i
  | .renew renewal fv expUH h rh st sg => sessRenew fx F s renewal fv expUH h rh st sg
  | .form fc expUH h rh st sg =>
    match rpcForm2 rh fc expUH h st sg with
    | .ok rec => (s, .ok (fc, rec.locked))
    | .reject t => (s, .reject t)
    | .panic p => (s, .panic p)

/-- does the RPC need a locked contract (`session.ContractRevisable`)? -/
def SessOp.needsLock : SessOp → Bool
  | .form .. => false
  | _ => true

/-- a two-RPC RHP2 session over arbitrary RPC kinds; `locked = false`: the session never called rpcLock, every
RPC that needs a contract is refused (`ErrNoContractLocked`) -/
def sessionOps (fx : Bool) (F : SessFacts) (c : Rev) (locked : Bool) (o1 o2 : SessOp) (relock : Bool) :
    Res (Rev × Nat) × Res (Rev × Nat) :=
  let run (s : Sess) (o : SessOp) : Sess × Res (Rev × Nat) :=
    if !locked && o.needsLock then (s, .reject .noContract) else sessOp fx F s o
  let s0 := sessLock { cached := c, stored := c }
  let (s1, r1) := run s0 o1
  match r1 with
  | .ok _ =>
    let s1 := if relock && locked then sessLock s1 else s1
    (r1, (run s1 o2).2)
  | _ => (r1, .reject .sessionOver)

end Hostd.Revision
