/-
Model of the sector-root bookkeeping of a contract (engine `sectors`, C03 + C13).

Transcribed from
* host/contracts/contracts.go   ContractUpdater.{AppendSector,SwapSectors,TrimSectors,UpdateSector,Commit}
* host/contracts/manager.go     ReviseContract, ReviseV2Contract, RenewContract, RenewV2Contract,
                                SectorRoots, NewManager (loading of the root cache), isGoodForModification
* host/contracts/lock.go        Manager.Lock, LockV2Contract (Renewed / Revisable)
* persist/sqlite/contracts.go   ReviseContract (replay of the recorded actions with cross checks),
                                appendSector/updateSector/swapSectors/trimSectors, updateV2ContractSectors,
                                RenewContract/RenewV2Contract (insert, link both ways, move rows),
                                SectorRoots/V2SectorRoots (ORDER BY root_index)

Core Lean only.  Roots are small naturals (the harness maps them to 32-byte
hashes); the Merkle root function `metaRoot` and the zero hash are parameters.
A SQLite transaction is modelled as a list of steps run on a working copy that
is thrown away on the first failing step (`runSteps`): rollback is the assumption,
what the model decides is *where* the cache is written relative to the store call.
-/
namespace Hostd.Sectors

abbrev Root := Nat

/-- rows `(root_index, root)` of one contract in `contract_sector_roots` / `contract_v2_sector_roots` -/
abbrev Table := List (Nat × Root)

/-- the rows of a contract whose persisted list is `l` (first index `s`) -/
def mkRows : Nat → List Root → Table
  | _, [] => []
  | s, r :: l => (s, r) :: mkRows (s + 1) l

/-- `SELECT … WHERE contract_id=? AND root_index=?` -/
def rowAt : Table → Nat → Option Root
  | [], _ => none
  | (j, r) :: t, i => if j = i then some r else rowAt t i

/-- `UPDATE … SET sector_id=? WHERE id=<the selected row>` -/
def setRow : Table → Nat → Root → Table
  | [], _, _ => []
  | (j, x) :: t, i, r => if j = i then (j, r) :: t else (j, x) :: setRow t i r

/-- `SELECT … ORDER BY root_index DESC LIMIT 1` -/
def lastRow : Table → Option (Nat × Root)
  | [] => none
  | p :: t =>
    match lastRow t with
    | none => some p
    | some q => if p.1 < q.1 then some q else some p

/-- `DELETE FROM … WHERE id=<the selected row>` -/
def delRow : Table → Nat → Table
  | [], _ => []
  | (j, x) :: t, i => if j = i then t else (j, x) :: delRow t i

/-- `SELECT … ORDER BY root_index ASC`: what `SectorRoots()` / `V2SectorRoots()` return for one contract -/
def load (t : Table) : List Root :=
  (t.mergeSort (fun p q => decide (p.1 ≤ q.1))).map (·.2)

/-! ### ContractUpdater (the private copy) -/

inductive Action where
  | append (r : Root)
  | swap (a b : Nat)
  | trim (n : Nat)
  | update (i : Nat) (r : Root)
deriving DecidableEq, Repr

/-- one updater method on the private copy; `none` = the method returned an error (nothing recorded) -/
def applyAction (l : List Root) : Action → Option (List Root)
  | .append r => some (l ++ [r])
  | .swap a b =>
    if h : a < l.length ∧ b < l.length then some ((l.set a l[b]).set b l[a]) else none
  | .trim n => if n > l.length then none else some (l.take (l.length - n))
  | .update i r => if i ≥ l.length then none else some (l.set i r)

structure Updater where
  roots   : List Root          -- cu.sectorRoots
  old     : List Root          -- cu.oldRoots
  actions : List Action        -- cu.sectorActions
deriving Repr

def Updater.new (cached : List Root) : Updater := { roots := cached, old := cached, actions := [] }

/-- one call; the Bool says whether the method accepted -/
def Updater.step (u : Updater) (a : Action) : Updater × Bool :=
  match applyAction u.roots a with
  | some l => ({ u with roots := l, actions := u.actions ++ [a] }, true)
  | none => (u, false)

/-- a batch of calls, rejected ones are skipped; returns the acceptance flags -/
def Updater.run (u : Updater) : List Action → Updater × List Bool
  | [] => (u, [])
  | a :: rest =>
    let (u', ok) := u.step a
    let (u'', oks) := Updater.run u' rest
    (u'', ok :: oks)

/-! ### Results and transactions -/

inductive Res (α : Type) where
  | ok (a : α)
  | reject            -- an error return (validation, SQL error, cross check)
  | panic             -- a Go runtime panic (index out of range)
  | injected          -- the injected statement failure
deriving Repr, DecidableEq

def Res.isOk {α} : Res α → Bool
  | .ok _ => true
  | _ => false

/-- run the statements of one transaction on a working copy; statement `k` (0-based,
`steps.length` = COMMIT) fails when `fault = some k`. Any non-ok result means rollback. -/
def runSteps {σ : Type} : List (σ → Res σ) → Option Nat → Nat → σ → Res σ
  | [], fault, k, s => if fault = some k then .injected else .ok s
  | f :: rest, fault, k, s =>
    if fault = some k then .injected
    else match f s with
      | .ok s' => runSteps rest fault (k + 1) s'
      | .reject => .reject
      | .panic => .panic
      | .injected => .injected

/-! ### Store: replay of the recorded actions (persist/sqlite ReviseContract) -/

/-- `trimSectors`: n times select the row with the largest index and delete it; the deleted roots in index order -/
def trimRows : Table → Nat → Option (Table × List Root)
  | t, 0 => some (t, [])
  | t, n + 1 =>
    match lastRow t with
    | none => none
    | some (i, r) =>
      match trimRows (delRow t i) n with
      | none => none
      | some (t', rs) => some (t', rs ++ [r])

/-- local state of the replay loop: the rows in the database, the counter `sectors` and the shadow copy `roots` -/
structure Replay where
  rows    : Table
  sectors : Nat
  roots   : List Root
deriving Repr, DecidableEq

def replayStep (stored : List Root) (s : Replay) : Action → Res Replay
  | .append r =>
    -- INSERT … SELECT $1, id, $2 FROM stored_sectors WHERE sector_root=$3 RETURNING …
    if ¬ r ∈ stored then .reject                       -- no row returned: sql.ErrNoRows
    else if (rowAt s.rows s.sectors).isSome then .reject -- UNIQUE(contract_id, root_index)
    else .ok { rows := s.rows ++ [(s.sectors, r)], sectors := s.sectors + 1, roots := s.roots ++ [r] }
  | .trim n =>
    if s.sectors < n then .reject
    else match trimRows s.rows n with
      | none => .reject
      | some (t', trimmed) =>
        if s.roots.length < n then .panic                -- roots[len(roots)-n:] out of range
        else if trimmed ≠ s.roots.drop (s.roots.length - n) then .reject
        else .ok { rows := t', sectors := s.sectors - n, roots := s.roots.take (s.roots.length - n) }
  | .update i r =>
    match rowAt s.rows i with
    | none => .reject                                    -- failed to get old sector id
    | some oldRoot =>
      if ¬ r ∈ stored then .reject                       -- failed to get new sector id
      else match s.roots[i]? with
        | none => .panic                                 -- roots[change.A] out of range
        | some expect =>
          if expect ≠ oldRoot then .reject               -- inconsistent sector update
          else .ok { s with rows := setRow s.rows i r, roots := s.roots.set i r }
  | .swap a0 b0 =>
    let a := if a0 > b0 then b0 else a0
    let b := if a0 > b0 then a0 else b0
    if a = b then
      -- swapSectors returns (nil, nil); then `oldA, oldB := roots[A], roots[B]`
      match s.roots[a]? with
      | none => .panic
      | some _ => .ok s
    else match rowAt s.rows a, rowAt s.rows b with
      | some ra, some rb =>
        match s.roots[a]?, s.roots[b]? with
        | some oa, some ob =>
          if (ra ≠ oa ∧ ra ≠ ob) ∨ (rb ≠ oa ∧ rb ≠ ob) then .reject   -- inconsistent sector swap
          else .ok { s with rows := setRow (setRow s.rows a rb) b ra, roots := (s.roots.set a ob).set b oa }
        | _, _ => .panic
      | _, _ => .reject                                  -- failed to find both sectors

/-! ### Store: v2 diff writer (updateV2ContractSectors) -/

/-- `INSERT … ON CONFLICT (contract_id, root_index) DO UPDATE SET sector_id=excluded.sector_id` -/
def upsert (t : Table) (i : Nat) (r : Root) : Table :=
  match rowAt t i with
  | some _ => setRow t i r
  | none => t ++ [(i, r)]

def v2Loop (stored old : List Root) : Table → Nat → List Root → Res Table
  | t, _, [] => .ok t
  | t, i, r :: rest =>
    if old[i]? = some r then v2Loop stored old t (i + 1) rest      -- i < len(oldRoots) && oldRoots[i] == root
    else if ¬ r ∈ stored then .reject                               -- failed to get sector ID
    else v2Loop stored old (upsert t i r) (i + 1) rest

def updateV2Sectors (stored : List Root) (t : Table) (old new : List Root) : Res Table :=
  match v2Loop stored old t 0 new with
  | .ok t' =>
    -- if len(newRoots) < len(oldRoots): DELETE … WHERE root_index >= len(newRoots)
    .ok (if new.length < old.length then t'.filter (fun p => decide (p.1 < new.length)) else t')
  | .reject => .reject
  | .panic => .panic
  | .injected => .injected

/-! ### Contracts, database, manager -/

/-- constants and the opaque hash function -/
structure Params (H : Type) where
  sectorSize : Nat
  maxRev     : Nat               -- types.MaxRevisionNumber = math.MaxUint64
  metaRoot   : List Root → H     -- rhp2.MetaRoot
  zeroH      : H                 -- types.Hash256{}

/-- the fields of the persisted (signed) revision the properties talk about -/
structure Rev (H : Type) where
  number   : Nat
  filesize : Nat
  capacity : Nat
  merkle   : H
deriving Repr, DecidableEq

structure Contract (H : Type) where
  id          : Nat
  v2          : Bool
  rev         : Rev H
  rows        : Table
  renewedTo   : Option Nat
  renewedFrom : Option Nat
deriving Repr, DecidableEq

structure DB (H : Type) where
  contracts : List (Contract H)
  stored    : List Root            -- stored_sectors
deriving Repr

/-- `Manager.sectorRoots`: newest binding first -/
abbrev Cache := List (Nat × List Root)

structure World (H : Type) where
  db    : DB H
  cache : Cache
deriving Repr

def World.empty {H : Type} : World H := { db := { contracts := [], stored := [] }, cache := [] }

def findC {H} (cs : List (Contract H)) (id : Nat) : Option (Contract H) := cs.find? (·.id == id)

def mapC {H} (cs : List (Contract H)) (id : Nat) (f : Contract H → Contract H) : List (Contract H) :=
  cs.map fun c => if c.id = id then f c else c

/-- `getSectorRoots`: nil when the id has no entry -/
def cacheGet : Cache → Nat → List Root
  | [], _ => []
  | (j, l) :: rest, id => if j = id then l else cacheGet rest id

def cacheSet (c : Cache) (id : Nat) (l : List Root) : Cache := (id, l) :: c

variable {H : Type} [DecidableEq H]

/-- `Store.StoreSector` (only the `stored_sectors` row matters here) -/
def storeSector (w : World H) (r : Root) : World H :=
  if r ∈ w.db.stored then w else { w with db := { w.db with stored := r :: w.db.stored } }

/-- `insertContract` / `insertV2Contract`: UNIQUE(contract_id) -/
def insertStep (id : Nat) (v2 : Bool) (rev : Rev H) : DB H → Res (DB H) := fun db =>
  match findC db.contracts id with
  | some _ => .reject
  | none => .ok { db with contracts := db.contracts ++ [{ id, v2, rev, rows := [], renewedTo := none, renewedFrom := none }] }

/-- `AddContract` / `AddV2Contract` -/
def form (w : World H) (id : Nat) (v2 : Bool) (rev : Rev H) (fault : Option Nat) : World H × Res Unit :=
  match runSteps [insertStep id v2 rev] fault 0 w.db with
  | .ok db' => ({ w with db := db' }, .ok ())
  | .reject => (w, .reject)
  | .panic => (w, .panic)
  | .injected => (w, .injected)

/-- `reviseContract`: UPDATE contracts SET … WHERE contract_id=? RETURNING id; the replay loop starts from
the caller's `oldRoots` -/
def reviseFirst (id : Nat) (rev : Rev H) (oldRoots : List Root) : DB H × Replay → Res (DB H × Replay) := fun (d, _) =>
  match findC d.contracts id with
  | none => .reject
  | some c =>
    if c.v2 then .reject
    else .ok ({ d with contracts := mapC d.contracts id fun c => { c with rev := rev } },
              { rows := c.rows, sectors := oldRoots.length, roots := oldRoots })

/-- one iteration of the loop over `sectorChanges` -/
def reviseAct (a : Action) : DB H × Replay → Res (DB H × Replay) := fun (d, rp) =>
  match replayStep d.stored rp a with
  | .ok rp' => .ok (d, rp')
  | .reject => .reject
  | .panic => .panic
  | .injected => .injected

/-- the transaction of `Store.ReviseContract` -/
def storeReviseV1 (db : DB H) (id : Nat) (rev : Rev H) (oldRoots : List Root) (acts : List Action)
    (fault : Option Nat) : Res (DB H) :=
  match runSteps (reviseFirst id rev oldRoots :: acts.map reviseAct) fault 0
      (db, { rows := [], sectors := 0, roots := [] }) with
  | .ok (d, rp) => .ok { d with contracts := mapC d.contracts id fun c => { c with rows := rp.rows } }
  | .reject => .reject
  | .panic => .panic
  | .injected => .injected

/-- `Manager.Lock` → `isGoodForModification` (status and window are outside this engine) -/
def lockV1 (w : World H) (P : Params H) (id : Nat) : Bool :=
  match findC w.db.contracts id with
  | none => false
  | some c => !c.v2 && c.rev.number != P.maxRev

/-- `Manager.ReviseContract` + the updater calls + `ContractUpdater.Commit` as the RHP2/RHP3 handlers use them:
the revision's size and root are taken from the updater. -/
def rpcV1 (P : Params H) (w : World H) (id : Nat) (acts : List Action) (revNumber : Nat) (fault : Option Nat) :
    World H × Res Unit × List Bool :=
  let (u, oks) := (Updater.new (cacheGet w.cache id)).run acts
  let rev0 : Rev H := match findC w.db.contracts id with
    | some c => c.rev
    | none => { number := 0, filesize := 0, capacity := 0, merkle := P.zeroH }
  let rev : Rev H := { rev0 with number := revNumber, filesize := P.sectorSize * u.roots.length, merkle := P.metaRoot u.roots }
  match storeReviseV1 w.db id rev u.old u.actions fault with
  | .ok db' => ({ db := db', cache := cacheSet w.cache id u.roots }, .ok (), oks)
  | .reject => (w, .reject, oks)
  | .panic => (w, .panic, oks)
  | .injected => (w, .injected, oks)

/-- `reviseV2Contract`: UPDATE contracts_v2 SET raw_revision=?, revision_number=? WHERE contract_id=? -/
def revise2Rev (id : Nat) (rev : Rev H) : DB H → Res (DB H) := fun d =>
  match findC d.contracts id with
  | none => .reject
  | some c => if !c.v2 then .reject else .ok { d with contracts := mapC d.contracts id fun c => { c with rev := rev } }

/-- `updateV2ContractSectors` on the contract's rows -/
def revise2Rows (id : Nat) (oldRoots newRoots : List Root) : DB H → Res (DB H) := fun d =>
  match findC d.contracts id with
  | none => .reject
  | some c =>
    match updateV2Sectors d.stored c.rows oldRoots newRoots with
    | .ok t => .ok { d with contracts := mapC d.contracts id fun c => { c with rows := t } }
    | .reject => .reject
    | .panic => .panic
    | .injected => .injected

/-- the transaction of `Store.ReviseV2Contract` -/
def storeReviseV2 (db : DB H) (id : Nat) (rev : Rev H) (oldRoots newRoots : List Root) (fault : Option Nat) :
    Res (DB H) :=
  runSteps [revise2Rev id rev, revise2Rows id oldRoots newRoots] fault 0 db

/-- what the caller of `ReviseV2Contract` hands in besides the root list -/
structure V2Revision (H : Type) where
  rev      : Rev H
  sameKeys : Bool     -- renter/host key, proof and expiration height unchanged
  sigsOK   : Bool     -- both signatures verify

/-- `Manager.ReviseV2Contract` -/
def reviseV2 (P : Params H) (w : World H) (id : Nat) (r : V2Revision H) (newRoots : List Root) (fault : Option Nat) :
    World H × Res Unit :=
  match findC w.db.contracts id with
  | none => (w, .reject)
  | some c =>
    if !c.v2 then (w, .reject)
    else if c.renewedTo.isSome then (w, .reject)                       -- renewed contracts cannot be revised
    else
      let oldRoots := cacheGet w.cache id
      if !r.sameKeys then (w, .reject)
      else if r.rev.filesize ≠ P.sectorSize * newRoots.length then (w, .reject)
      else if r.rev.capacity < r.rev.filesize then (w, .reject)
      else if !r.sigsOK then (w, .reject)
      else if r.rev.merkle ≠ P.metaRoot newRoots then (w, .reject)
      else match storeReviseV2 w.db id r.rev oldRoots newRoots fault with
        | .ok db' => ({ db := db', cache := cacheSet w.cache id newRoots }, .ok ())
        | .reject => (w, .reject)
        | .panic => (w, .panic)
        | .injected => (w, .injected)

/-- `LockV2Contract`: (Renewed, Revisable, Roots); the height condition is an input -/
def lockV2 (w : World H) (id : Nat) (heightOK : Bool) : Option (Bool × Bool × List Root) :=
  match findC w.db.contracts id with
  | none => none
  | some c =>
    if !c.v2 then none
    else
      let renewed := c.renewedTo.isSome
      some (renewed, !renewed && heightOK, cacheGet w.cache id)

/-- the predecessor's revision after the renewal: v1 stores the clearing revision, v2 leaves it alone -/
def clearedRev (clearing : Option (Rev H)) (c : Contract H) : Rev H :=
  match clearing with
  | some r => r
  | none => c.rev

/-- `clearContract` (v1: renewed_to and the clearing revision) / `updateResolvedV2Contract` (v2: renewed_to) -/
def renewClear (v2 : Bool) (oldId newId : Nat) (clearing : Option (Rev H)) : DB H → Res (DB H) := fun d =>
  match findC d.contracts oldId with
  | none => .reject                                                    -- UPDATE … RETURNING id: no rows
  | some c =>
    if c.v2 != v2 then .reject
    else .ok { d with contracts := mapC d.contracts oldId fun c =>
      { c with renewedTo := some newId, rev := clearedRev clearing c } }

/-- UPDATE … SET renewed_from=<old> WHERE id=<new> -/
def renewLink (oldId newId : Nat) : DB H → Res (DB H) := fun d =>
  .ok { d with contracts := mapC d.contracts newId fun c => { c with renewedFrom := some oldId } }

/-- UPDATE contract_sector_roots SET contract_id=<new> WHERE contract_id=<old> -/
def renewMove (oldId newId : Nat) : DB H → Res (DB H) := fun d =>
  match findC d.contracts oldId with
  | none => .reject
  | some o =>
    let cs1 := mapC d.contracts newId fun c => { c with rows := c.rows ++ o.rows }
    .ok { d with contracts := mapC cs1 oldId fun c => { c with rows := [] } }

/-- the transaction shared by `Store.RenewContract` and `Store.RenewV2Contract`:
insert the successor, update the predecessor (`renewed_to`, for v1 also the clearing revision),
set `renewed_from`, move the rows. -/
def storeRenew (db : DB H) (v2 : Bool) (oldId newId : Nat) (newRev : Rev H) (clearing : Option (Rev H))
    (fault : Option Nat) : Res (DB H) :=
  runSteps [insertStep newId v2 newRev, renewClear v2 oldId newId clearing, renewLink oldId newId, renewMove oldId newId]
    fault 0 db

/-- `Manager.RenewContract` (v1).  `clearing` is the final revision of the predecessor, `renewal` the
initial revision of the successor. -/
def renewV1 (P : Params H) (w : World H) (oldId newId : Nat) (renewal clearing : Rev H) (fault : Option Nat) :
    World H × Res Unit :=
  let existingRoots := cacheGet w.cache oldId
  if clearing.merkle ≠ P.zeroH then (w, .reject)
  else if clearing.filesize ≠ 0 then (w, .reject)
  else if clearing.number ≠ P.maxRev then (w, .reject)
  else if renewal.filesize ≠ P.sectorSize * existingRoots.length then (w, .reject)
  else if renewal.merkle ≠ P.metaRoot existingRoots then (w, .reject)
  else match storeRenew w.db false oldId newId renewal (some clearing) fault with
    | .ok db' => ({ db := db', cache := cacheSet w.cache newId existingRoots }, .ok ())
    | .reject => (w, .reject)
    | .panic => (w, .panic)
    | .injected => (w, .injected)

/-- `Manager.RenewV2Contract` -/
def renewV2 (P : Params H) (w : World H) (oldId newId : Nat) (fc : Rev H) (fault : Option Nat) :
    World H × Res Unit :=
  match findC w.db.contracts oldId with
  | none => (w, .reject)
  | some existing =>
    if !existing.v2 then (w, .reject)
    else if fc.filesize ≠ existing.rev.filesize then (w, .reject)
    else if fc.capacity ≠ existing.rev.capacity then (w, .reject)
    else if fc.merkle ≠ existing.rev.merkle then (w, .reject)
    else
      let existingRoots := cacheGet w.cache oldId
      if fc.merkle ≠ P.metaRoot existingRoots then (w, .reject)
      else match storeRenew w.db true oldId newId fc none fault with
        | .ok db' => ({ db := db', cache := cacheSet w.cache newId existingRoots }, .ok ())
        | .reject => (w, .reject)
        | .panic => (w, .panic)
        | .injected => (w, .injected)

/-- `contracts.NewManager` on the same database: the cache is rebuilt from the rows
(`SectorRoots()` then `V2SectorRoots()`; only contracts that own rows get an entry). -/
def restart (w : World H) : World H :=
  let entries (v2 : Bool) : Cache :=
    (w.db.contracts.filter fun c => c.v2 == v2 && !c.rows.isEmpty).map fun c => (c.id, load c.rows)
  { w with cache := entries true ++ entries false }

/-- number of rows (over all contracts) that reference root `r` -/
def refs (db : DB H) (r : Root) : Nat :=
  (db.contracts.map fun c => (c.rows.filter fun p => p.2 == r).length).sum

/-! ### Operations as the RPC handlers issue them (what the harness drives) -/

inductive Op (H : Type) where
  | store (r : Root)
  | form (id : Nat) (v2 : Bool) (rev : Rev H) (fault : Option Nat)
  /-- RHP2 write / RHP3 program: Manager.Lock, ReviseContract, updater calls, Commit, Unlock.
      `abort`: stop without committing when an updater call fails (what the handlers do). -/
  | rpc1 (id : Nat) (acts : List Action) (rn : Nat) (abort : Bool) (fault : Option Nat)
  /-- RHP4 modifying RPC: ReviseV2Contract (it repeats the renewed check itself) -/
  | rev2 (id : Nat) (r : V2Revision H) (newRoots : List Root) (fault : Option Nat)
  /-- RHP2 renew-and-clear / RHP3 renew: Manager.Lock, RenewContract, Unlock -/
  | renew1 (old new : Nat) (renewal clearing : Rev H) (fault : Option Nat)
  /-- RHP4 renew / refresh: LockV2Contract, (Renewed / Revisable check unless `force`), RenewV2Contract.
      The successor id of a v2 contract is a function of the predecessor id (`V2RenewalID`): if the
      predecessor already has a successor, a further renewal names that same id. -/
  | renew2 (old new : Nat) (fc : Rev H) (force : Bool) (fault : Option Nat)
  | restart

inductive Out where
  | done (r : Res Unit)   -- the manager call was made
  | refused               -- Lock / LockV2Contract (+ Revisable check) refused before the call
  | aborted               -- an updater call failed and the RPC stopped before Commit
deriving Repr, DecidableEq

def Out.accepted : Out → Bool
  | .done (.ok _) => true
  | _ => false

/-- the successor id a v2 renewal of `old` gets -/
def v2SuccessorId (w : World H) (old new : Nat) : Nat :=
  match findC w.db.contracts old with
  | some c => match c.renewedTo with
    | some s => s
    | none => new
  | none => new

def stepOp (P : Params H) (w : World H) : Op H → World H × Out × List Bool
  | .store r => (storeSector w r, .done (.ok ()), [])
  | .form id v2 rev fault => let (w', r) := form w id v2 rev fault; (w', .done r, [])
  | .rpc1 id acts rn abort fault =>
    if !lockV1 w P id then (w, .refused, [])
    else
      let oks := ((Updater.new (cacheGet w.cache id)).run acts).2
      if abort && oks.contains false then (w, .aborted, oks)
      else let (w', r, oks) := rpcV1 P w id acts rn fault; (w', .done r, oks)
  | .rev2 id r newRoots fault => let (w', res) := reviseV2 P w id r newRoots fault; (w', .done res, [])
  | .renew1 old new renewal clearing fault =>
    if !lockV1 w P old then (w, .refused, [])
    else let (w', r) := renewV1 P w old new renewal clearing fault; (w', .done r, [])
  | .renew2 old new fc force fault =>
    match lockV2 w old true with
    | none => (w, .refused, [])
    | some (renewed, revisable, _) =>
      if (renewed || !revisable) && !force then (w, .refused, [])
      else let (w', r) := renewV2 P w old (v2SuccessorId w old new) fc fault; (w', .done r, [])
  | .restart => (restart w, .done (.ok ()), [])

def run (P : Params H) (w : World H) (ops : List (Op H)) : World H :=
  ops.foldl (fun w op => (stepOp P w op).1) w

/-! ### What a session is handed when it acquires the contract lock; lock hand-off -/

/-- v1: `Manager.Lock` returns the persisted revision (read after the lock is acquired, and only if
`isGoodForModification` passes then); `ReviseContract` then copies the cached roots into the updater. -/
def lockViewV1 (P : Params H) (w : World H) (id : Nat) : Option (Rev H × List Root) :=
  if lockV1 w P id then
    match findC w.db.contracts id with
    | some c => some (c.rev, cacheGet w.cache id)
    | none => none
  else none

/-- v2: `LockV2Contract` returns (Revision, Renewed, Revisable, Roots), every field read after the lock is acquired. -/
def lockViewV2 (w : World H) (id : Nat) (heightOK : Bool) : Option (Rev H × Bool × Bool × List Root) :=
  match findC w.db.contracts id with
  | none => none
  | some c =>
    if !c.v2 then none
    else
      let renewed := c.renewedTo.isSome
      some (c.rev, renewed, !renewed && heightOK, cacheGet w.cache id)

/-- Lock hand-off: a caller that queued behind a holder of the same contract lock. The holder's operation runs
to completion first (the locker serialises them); the waiter's view is computed in the world the holder left —
not in the world in which the waiter started to wait. -/
def handOff {α : Type} (P : Params H) (w : World H) (holder : Op H) (view : World H → α) : World H × α :=
  let w' := (stepOp P w holder).1
  (w', view w')

end Hostd.Sectors
