/-
Model of host/contracts/lock.go (`locker.Lock` / `locker.Unlock`) as a
transition system at the granularity of the locker's critical sections
(everything done under `lr.mu` is one atomic step; the `select` in `Lock` is
two steps: committing to a case, and - for `ctx.Done()` - the later critical
section that decrements).  Core Lean only.

Heap objects.  `Lock` keeps the pointer `l` to the `*lock` it found in the map
while it waits *without* the mutex, and the cancel path later writes through
that pointer (`l.n--`) but deletes by *id* (`delete(lr.locks, id)`).  To
transcribe this exactly the model has a heap: the `*lock` objects allocated for
contract `id` are named `(id, g)`, `g = 0, 1, 2, …` in allocation order
(an object is only ever stored under the id it was allocated for), `ent id` is
the map `lr.locks` and a waiting thread remembers the generation `g` of the
object it holds a pointer to.  That pointers are never stale is a *theorem*
(`Props/C15.lean`), not an assumption of the model.
-/
namespace Hostd.Lock

/-- `lock{ch: make(chan struct{}, 1), n}`: `tokens` = number of values buffered in `ch`. -/
structure LockObj where
  n      : Int
  tokens : Nat
deriving DecidableEq, Repr

/-- capacity of `lock.ch` (`make(chan struct{}, 1)`, lock.go:58) -/
def chanCap : Nat := 1

/-- Program counter of one caller ("thread"). -/
inductive PC where
  | idle                                  -- not inside Lock, holds nothing
  | waiting (id g : Nat)                  -- lock.go:65-66: incremented `n` of object (id,g), mutex released, blocked in `select`
  | cancelCommitted (id g : Nat)          -- lock.go:67: `select` chose `<-ctx.Done()`, mutex not yet re-acquired
  | holding (id : Nat)                    -- Lock returned nil, Unlock not yet called
deriving DecidableEq, Repr

structure State where
  ent  : Nat → Option Nat          -- lr.locks: id ↦ generation of the object currently in the map
  obj  : Nat → Nat → LockObj       -- heap: object (id, g)
  next : Nat → Nat                 -- next unused generation per id
  pcs  : List PC                   -- one program counter per thread (any number of threads)

/-- `newLocker()` with `n` potential callers, all idle. -/
def init (n : Nat) : State :=
  { ent := fun _ => none, obj := fun _ _ => { n := 0, tokens := 0 }, next := fun _ => 0,
    pcs := List.replicate n .idle }

inductive Act where
  | lockFresh (t id : Nat)      -- lock.go:52-62  entry absent: create {n:1}, return nil
  | lockWait (t id : Nat)       -- lock.go:52-65  entry present: l.n++, release mutex, go to select
  | recv (t : Nat)              -- lock.go:75     `<-l.ch` chosen: token received, return nil
  | cancelCommit (t : Nat)      -- lock.go:67     `<-ctx.Done()` chosen
  | cancelFinish (t : Nat)      -- lock.go:68-74  lr.mu.Lock(); l.n--; if l.n == 0 { delete(lr.locks, id) }; return ctx.Err()
  | unlock (t : Nat)            -- lock.go:33-46  Unlock(id) by the holder
deriving DecidableEq, Repr

inductive Fault where
  | notEnabled      -- the step is not a transition of the system in this state
  | panicUnheld     -- lock.go:38 panic("unlocking unheld lock")
  | sendBlocks      -- lock.go:44 `l.ch <- struct{}{}` on a full channel, while holding lr.mu: deadlock
deriving DecidableEq, Repr

def setEnt (s : State) (id : Nat) (v : Option Nat) : State :=
  { s with ent := fun j => if j = id then v else s.ent j }

def setObj (s : State) (id g : Nat) (o : LockObj) : State :=
  { s with obj := fun j h => if j = id ∧ h = g then o else s.obj j h }

def setPc (s : State) (t : Nat) (pc : PC) : State :=
  { s with pcs := s.pcs.set t pc }

/-- One atomic step of one thread. -/
def step (s : State) : Act → Except Fault State
  | .lockFresh t id =>
    match s.pcs[t]? with
    | some .idle =>
      match s.ent id with
      | none =>
        let g := s.next id
        let s := setObj s id g { n := 1, tokens := 0 }
        let s := { s with next := fun j => if j = id then g + 1 else s.next j }
        let s := setEnt s id (some g)
        .ok (setPc s t (.holding id))
      | some _ => .error .notEnabled
    | _ => .error .notEnabled
  | .lockWait t id =>
    match s.pcs[t]? with
    | some .idle =>
      match s.ent id with
      | some g =>
        let o := s.obj id g
        let s := setObj s id g { o with n := o.n + 1 }
        .ok (setPc s t (.waiting id g))
      | none => .error .notEnabled
    | _ => .error .notEnabled
  | .recv t =>
    match s.pcs[t]? with
    | some (.waiting id g) =>
      let o := s.obj id g
      if o.tokens = 0 then .error .notEnabled
      else
        let s := setObj s id g { o with tokens := o.tokens - 1 }
        .ok (setPc s t (.holding id))
    | _ => .error .notEnabled
  | .cancelCommit t =>
    match s.pcs[t]? with
    | some (.waiting id g) => .ok (setPc s t (.cancelCommitted id g))
    | _ => .error .notEnabled
  | .cancelFinish t =>
    match s.pcs[t]? with
    | some (.cancelCommitted id g) =>
      -- writes through the pointer kept since before the select, deletes by id
      let o := s.obj id g
      let n' := o.n - 1
      let s := setObj s id g { o with n := n' }
      let s := if n' = 0 then setEnt s id none else s
      .ok (setPc s t .idle)
    | _ => .error .notEnabled
  | .unlock t =>
    match s.pcs[t]? with
    | some (.holding id) =>
      match s.ent id with
      | none => .error .panicUnheld
      | some g =>
        let o := s.obj id g
        let n' := o.n - 1
        if n' = 0 then
          let s := setObj s id g { o with n := n' }
          .ok (setPc (setEnt s id none) t .idle)
        else if o.tokens ≥ chanCap then .error .sendBlocks
        else
          let s := setObj s id g { n := n', tokens := o.tokens + 1 }
          .ok (setPc s t .idle)
    | _ => .error .notEnabled

/-- The `Lock` entry critical section picks its branch from the map. -/
def lockAct (s : State) (t id : Nat) : Act :=
  match s.ent id with
  | none => .lockFresh t id
  | some _ => .lockWait t id

/-- valid-transition checker used by the driver -/
def enabled (s : State) (a : Act) : Bool :=
  match step s a with
  | .ok _ => true
  | .error _ => false

/-- Run a schedule; `none` when some step is not a transition (or faults). -/
def exec (s : State) : List Act → Option State
  | [] => some s
  | a :: rest =>
    match step s a with
    | .ok s' => exec s' rest
    | .error _ => none

/-! ### observations -/

def cnt (p : PC → Bool) : List PC → Nat
  | [] => 0
  | x :: r => (if p x then 1 else 0) + cnt p r

def PC.isHold (i : Nat) : PC → Bool
  | .holding j => j == i
  | _ => false

def PC.isWait (i : Nat) : PC → Bool
  | .waiting j _ => j == i
  | _ => false

def PC.isCC (i : Nat) : PC → Bool
  | .cancelCommitted j _ => j == i
  | _ => false

/-- a thread keeps a pointer to an object of `i` other than `(i, g)` -/
def PC.isStale (i g : Nat) : PC → Bool
  | .waiting j h => j == i && h != g
  | .cancelCommitted j h => j == i && h != g
  | _ => false

def holders (s : State) (i : Nat) : Nat := cnt (PC.isHold i) s.pcs
def waiters (s : State) (i : Nat) : Nat := cnt (PC.isWait i) s.pcs
def cancelling (s : State) (i : Nat) : Nat := cnt (PC.isCC i) s.pcs
def stale (s : State) (i g : Nat) : Nat := cnt (PC.isStale i g) s.pcs

/-- tokens buffered in the channel of the object currently in the map -/
def curTokens (s : State) (i : Nat) : Nat :=
  match s.ent i with
  | none => 0
  | some g => (s.obj i g).tokens

/-- `len(lr.locks)` restricted to the ids `0 … k-1` in play -/
def lenLocks (s : State) (k : Nat) : Nat :=
  ((List.range k).filter fun i => (s.ent i).isSome).length

/-! ### Manager.Lock / LockV2Contract (lock.go:83-146)

After `cm.locks.Lock` succeeded both methods read the contract from the store;
on every error return they call `cm.locks.Unlock(id)` first.  `mgrAfterAcquire`
is that tail: `storeOk = false` is the error branch. -/
def mgrAfterAcquire (s : State) (t : Nat) (storeOk : Bool) : Except Fault State :=
  if storeOk then .ok s else step s (.unlock t)

/-! ### the lock users

Every function of the tree that acquires a contract lock.  `driven = true`: an exported
`contracts.Manager` method that takes the lock internally and returns without it; the harness calls
it on contracts prepared for each of its return paths and probes the contract afterwards.  The other
entries are the RPC handlers of rhp/v2 and rhp/v3 that hold the lock across a session/RPC (exercised
by the revision/revenue engines, listed here so that a *new* lock user is noticed).  The table is
compared with a go/parser scan of the tree on every run (`Drive/Lock.lean lockUsersStep`). -/
structure LockUser where
  pkg      : String
  fn       : String
  file     : String
  line     : Nat          -- of the acquiring call, informational
  acquires : String
  releases : String
  driven   : Bool
deriving Repr

def lockUsers : List LockUser :=
  [ { pkg := "host/contracts", fn := "Lock", file := "lock.go", line := 90, acquires := "cm.locks.Lock(ctx, id)",
      releases := "cm.locks.Unlock(id) before each error return; caller's Manager.Unlock", driven := true },
    { pkg := "host/contracts", fn := "LockV2Contract", file := "lock.go", line := 122, acquires := "cm.locks.Lock(context.Background(), id)",
      releases := "cm.locks.Unlock(id) before the error return; returned unlock func", driven := true },
    { pkg := "host/contracts", fn := "CheckIntegrity", file := "integrity.go", line := 68, acquires := "cm.Lock(ctx, contractID)",
      releases := "defer cm.Unlock(contractID): count mismatch, Merkle mismatch, success", driven := true },
    { pkg := "host/contracts", fn := "V2CheckIntegrity", file := "integrity.go", line := 157, acquires := "cm.LockV2Contract(contractID)",
      releases := "defer unlock(): count mismatch, Merkle mismatch, success", driven := true },
    { pkg := "rhp/v2", fn := "rpcLock", file := "rpc.go", line := 75, acquires := "sh.contracts.Lock(ctx, req.ContractID)",
      releases := "session: rpcUnlock / end of session", driven := false },
    { pkg := "rhp/v3", fn := "handleRPCRenew", file := "rpc.go", line := 305, acquires := "sh.contracts.Lock(ctx, parentID)",
      releases := "defer sh.contracts.Unlock", driven := false },
    { pkg := "rhp/v3", fn := "handleRPCExecute", file := "rpc.go", line := 514, acquires := "sh.contracts.Lock(ctx, id)",
      releases := "defer sh.contracts.Unlock", driven := false },
    { pkg := "rhp/v3", fn := "processContractPayment", file := "payments.go", line := 26, acquires := "sh.contracts.Lock(ctx, id)",
      releases := "defer sh.contracts.Unlock", driven := false },
    { pkg := "rhp/v3", fn := "processFundAccountPayment", file := "payments.go", line := 170, acquires := "sh.contracts.Lock(ctx, id)",
      releases := "defer sh.contracts.Unlock", driven := false } ]

/-- return paths of a driven lock user after its lock call returned nil -/
inductive UserPath where
  | storeError        -- Manager.Lock / LockV2Contract: lookup failed or contract not good for modification
  | countMismatch     -- len(roots) != Filesize / SectorSize
  | merkleMismatch    -- MetaRoot(roots) != FileMerkleRoot
  | success
deriving DecidableEq, Repr

/-- A lock user as an action of the system: after the acquisition (`lockFresh`, or `lockWait` then
`recv`) it runs its body *without touching the locker* and releases on every return path.  The path
decides what it returns, not whether it unlocks. -/
def userAfterAcquire (s : State) (t : Nat) (_p : UserPath) : Except Fault State :=
  step s (.unlock t)

end Hostd.Lock
