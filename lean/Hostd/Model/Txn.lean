/-
Model of the transaction discipline of hostd (engine `txn`, properties C09 and C18).

Every exported mutating operation of `persist/sqlite.Store` and of the managers
on top of it is an *operation shape*: a list of steps

    beginTx | stmt | commit | cacheWrite | memWrite | dataWrite | sync

`beginTx/stmt/commit` are calls on the database connection
(`persist/sqlite/store.go` `doTransaction`: `db.Begin`, `fn(tx)`, `tx.Commit`,
deferred `Rollback`), `cacheWrite/memWrite` are writes to the in-memory copies
the managers keep (sector root cache, account balances, webhook table, settings,
index tip), `dataWrite/sync` are volume file operations.

Semantics (`exec`): the `k`-th *fallible* step (database call, data write,
sync — memory writes cannot fail) may fail; a failure aborts the open
transaction (database back to its value before `beginTx`) and skips the rest of
the operation.  The abstract state is `(db, mirror)`: `mirror` is the in-memory
copy, `view db` is what that copy is supposed to show.

The shapes of the real operations are facts about the code: they are listed in
`codeShapes` with the place they were read from, checked by `ShapeOK` (a
decidable regular-expression test) and tied to the implementation by the fault
sweep of `harness/src/txn` (the driver compares the number of writing
transactions the code really performs with the table, and the observed outcome
of every injected failure with the all-or-nothing verdict).

Core Lean only.
-/
namespace Hostd.Txn

/-! ## steps, shapes, execution with a failure index -/

inductive Step where
  | beginTx | stmt | commit | cacheWrite | memWrite | dataWrite | sync
deriving DecidableEq, Repr

abbrev Shape := List Step

/-- steps that can fail (everything but the in-memory writes) -/
def Step.fallible : Step → Bool
  | .cacheWrite => false
  | .memWrite => false
  | _ => true

/-- writes to an in-memory copy -/
def Step.isMirror : Step → Bool
  | .cacheWrite => true
  | .memWrite => true
  | _ => false

/-- `db`: committed database value; `tx`: value seen inside the open
transaction; `nst`: statements executed so far by the operation; `mirror`: the
in-memory copy; `written/synced`: the data plane of `StoreSector`. -/
structure St (α β : Type) where
  db      : α
  tx      : Option α
  nst     : Nat
  mirror  : β
  written : Bool
  synced  : Bool

/-- What an operation does: the effect of its `i`-th statement and the value it
puts into the mirrors. -/
structure Sem (α β : Type) where
  eff  : Nat → α → α
  goal : β

inductive Res where
  | done | failed
deriving DecidableEq, Repr

variable {α β : Type}

def applyStep (m : Sem α β) (s : St α β) : Step → St α β
  | .beginTx => { s with tx := some s.db }
  | .stmt =>
    match s.tx with
    | some v => { s with tx := some (m.eff s.nst v), nst := s.nst + 1 }
    | none => { s with db := m.eff s.nst s.db, nst := s.nst + 1 }   -- statement outside a transaction: autocommit
  | .commit =>
    match s.tx with
    | some v => { s with db := v, tx := none }
    | none => s
  | .cacheWrite => { s with mirror := m.goal }
  | .memWrite => { s with mirror := m.goal }
  | .dataWrite => { s with written := true }
  | .sync => { s with synced := s.written }

/-- a failure rolls the open transaction back (`defer dbtx.Rollback()`) -/
def abort (s : St α β) : St α β := { s with tx := none }

/-- Run a shape; `k = some j`: the `j`-th fallible step (0-based) fails;
`k = none`: no failure. -/
def exec (m : Sem α β) : Shape → Option Nat → St α β → St α β × Res
  | [], _, s => (s, .done)
  | st :: rest, k, s =>
    if st.fallible then
      match k with
      | some 0 => (abort s, .failed)
      | some (j + 1) => exec m rest (some j) (applyStep m s st)
      | none => exec m rest none (applyStep m s st)
    else exec m rest k (applyStep m s st)

/-- composition of the statements `start, start+1, …, start+n-1` -/
def iter (eff : Nat → α → α) : Nat → Nat → α → α
  | _, 0, v => v
  | start, n + 1, v => iter eff (start + 1) n (eff start v)

/-- state between operations: no open transaction, mirror showing the database -/
def quiescent (view : α → β) (d : α) : St α β :=
  { db := d, tx := none, nst := 0, mirror := view d, written := false, synced := false }

/-- `mirror agrees with db` -/
def agrees (view : α → β) (s : St α β) : Prop := s.mirror = view s.db

/-- what survives a process exit, and what a constructor rebuilds from it -/
def persisted (s : St α β) : α := s.db
def rebuild (view : α → β) (d : α) : St α β := quiescent view d
def restart (view : α → β) (s : St α β) : St α β := rebuild view (persisted s)

/-- `beginTx stmt^n commit ms` -/
def singleTx (n : Nat) (ms : Shape) : Shape :=
  .beginTx :: (List.replicate n .stmt ++ .commit :: ms)

/-- the deliberately batched loops: one transaction per batch, `ns` = statements per batch -/
def batches : List Nat → Shape
  | [] => []
  | n :: ns => singleTx n [] ++ batches ns

/-- number of fallible steps of a shape -/
def fallibleCount (sh : Shape) : Nat := (sh.filter Step.fallible).length

/-! ## the table of operation shapes read from the code -/

inductive Kind where
  | single        -- one writing transaction, mirrors afterwards
  | batched       -- loop of independent transactions (DESIGN §6.2)
  | storeSector   -- reservation transaction, data write + sync, compensating transaction on failure
  | indexer       -- index.Manager.syncDB: per batch one writing transaction, follow-up actions, in-memory tip
deriving DecidableEq, Repr

structure OpShape where
  name     : String
  src      : String        -- where the shape was read
  kind     : Kind
  pre      : List Step     -- effectful steps before the first `beginTx`
  post     : List Step     -- steps after the `commit` of the (last) writing transaction
  mirrored : Bool          -- the operation changes data of which a manager keeps an in-memory copy
deriving Repr

/-- The regular-expression check of one entry: nothing effectful before the
transaction, only mirror writes after the commit, and an operation on mirrored
data does write the mirror. -/
def entryOK (o : OpShape) : Bool :=
  match o.kind with
  | .single => o.pre.isEmpty && o.post.all Step.isMirror && (!o.mirrored || !o.post.isEmpty)
  | .batched => o.pre.isEmpty && o.post.isEmpty && !o.mirrored
  | .storeSector => o.pre.isEmpty && o.post == [.dataWrite, .sync] && !o.mirrored
  | .indexer => o.pre.isEmpty && o.post.all Step.isMirror && !o.post.isEmpty

def ShapeOK (t : List OpShape) : Bool := t.all entryOK

private def S (name src : String) : OpShape :=
  { name, src, kind := .single, pre := [], post := [], mirrored := false }
private def B (name src : String) : OpShape :=
  { name, src, kind := .batched, pre := [], post := [], mirrored := false }
private def M (name src : String) (post : List Step) : OpShape :=
  { name, src, kind := .single, pre := [], post, mirrored := true }

/-- One entry per exported mutating operation the harness drives.  Store
methods: the body is one `s.transaction(func(tx){…})` (kind `single`) or a loop
of them (kind `batched`).  Manager methods (`M.`/`A.`/`W.`/`I.` prefixes): the
store call followed by the mirror writes that come after `err == nil`. -/
def codeShapes : List OpShape := [
  -- persist/sqlite/contracts.go
  S "AddContract"              "persist/sqlite/contracts.go:276",
  S "AddV2Contract"            "persist/sqlite/contracts.go:236",
  S "ReviseContract"           "persist/sqlite/contracts.go:364",
  S "ReviseV2Contract"         "persist/sqlite/contracts.go:351",
  S "RenewContract"            "persist/sqlite/contracts.go:289",
  S "RenewV2Contract"          "persist/sqlite/contracts.go:247",
  B "ExpireContractSectors"    "persist/sqlite/contracts.go:540 (batchExpireContractSectors :28)",
  B "ExpireV2ContractSectors"  "persist/sqlite/contracts.go:557 (batchExpireV2ContractSectors :45)",
  -- persist/sqlite/accounts.go
  S "CreditAccountWithContract" "persist/sqlite/accounts.go:178",
  S "DebitAccount"             "persist/sqlite/accounts.go:226",
  S "RHP4CreditAccounts"       "persist/sqlite/accounts.go:63",
  S "RHP4DebitAccount"         "persist/sqlite/accounts.go:34",
  -- persist/sqlite/registry.go
  S "SetRegistryValue"         "persist/sqlite/registry.go:34",
  -- persist/sqlite/settings.go
  S "UpdateSettings"           "persist/sqlite/settings.go:87",
  S "UpdatePinnedSettings"     "persist/sqlite/settings.go:38",
  S "UpdateLastAnnouncement"   "persist/sqlite/settings.go:197",
  S "RevertLastAnnouncement"   "persist/sqlite/settings.go:207",
  -- persist/sqlite/webhooks.go
  S "RegisterWebhook"          "persist/sqlite/webhooks.go:10",
  S "UpdateWebhook"            "persist/sqlite/webhooks.go:18",
  S "RemoveWebhook"            "persist/sqlite/webhooks.go:26",
  -- persist/sqlite/volumes.go
  S "AddVolume"                "persist/sqlite/volumes.go:315",
  S "GrowVolume"               "persist/sqlite/volumes.go:367",
  S "ShrinkVolume"             "persist/sqlite/volumes.go:379",
  B "RemoveVolume"             "persist/sqlite/volumes.go:326 (batchRemoveVolumeSectors :58, final delete :341)",
  S "SetReadOnly"              "persist/sqlite/volumes.go:419",
  S "SetAvailable"             "persist/sqlite/volumes.go:428",
  { name := "StoreSector", src := "persist/sqlite/volumes.go:154 (compensation :200)", kind := .storeSector,
    pre := [], post := [.dataWrite, .sync], mirrored := false },
  B "MigrateSectors"           "persist/sqlite/volumes.go:228",
  -- persist/sqlite/sectors.go
  S "RemoveSector"             "persist/sqlite/sectors.go:57",
  S "AddTempSector"            "persist/sqlite/sectors.go:103",
  S "AddTemporarySectors"      "persist/sqlite/sectors.go:126",
  B "ExpireTempSectors"        "persist/sqlite/sectors.go:149 (batchExpireTempSectors :36)",
  B "PruneSectors"             "persist/sqlite/sectors.go:247",
  -- persist/sqlite/metrics.go, peers.go
  S "IncrementRHPDataUsage"    "persist/sqlite/metrics.go:252",
  S "IncrementSectorStats"     "persist/sqlite/metrics.go:269",
  S "IncrementRegistryAccess"  "persist/sqlite/metrics.go:298",
  S "AddPeer"                  "persist/sqlite/peers.go:105",
  S "Ban"                      "persist/sqlite/peers.go:169",
  -- persist/sqlite/consensus.go; index/update.go:54-82 puts wallet, contracts, settings and SetLastIndex in ONE callback
  S "UpdateChainState"         "persist/sqlite/consensus.go:562; index/update.go:54",
  S "ResetChainState"          "persist/sqlite/consensus.go:56",
  -- managers: store call, then the mirror
  M "M.Commit"          "host/contracts/contracts.go:420 (ReviseContract :427, setSectorRoots :435)" [.cacheWrite],
  M "M.ReviseV2Contract" "host/contracts/manager.go:181 (store :231, setSectorRoots :236)" [.cacheWrite],
  M "M.RenewContract"   "host/contracts/manager.go:151 (store :172, setSectorRoots :175)" [.cacheWrite],
  M "M.RenewV2Contract" "host/contracts/manager.go:279 (store :331, setSectorRoots :334)" [.cacheWrite],
  S "M.AddContract"     "host/contracts/manager.go:136",
  S "M.AddV2Contract"   "host/contracts/manager.go:243",
  M "A.Credit"          "host/accounts/accounts.go:114 (store :133, balances :139)" [.memWrite],
  M "A.BudgetCommit"    "host/accounts/budget.go:122 (DebitAccount :130, balances :141-154)" [.memWrite],
  M "W.Register"        "webhooks/webhooks.go:155 (store :165, hooks/scopes :179-181)" [.memWrite, .memWrite],
  M "W.Update"          "webhooks/webhooks.go:207 (store :215, hooks/scopes :229-233)" [.memWrite, .memWrite],
  M "W.Remove"          "webhooks/webhooks.go:186 (store :194, hooks/scopes :201-202)" [.memWrite, .memWrite]
]

/-- Operations whose shape was NOT of the all-or-nothing form when the engine
was written (tree d711114), keyed by the name of the repair that changes them:
the in-memory copy is written *before* the store call (`settings`, `pin`), or
only after further fallible database calls (`syncdb`). -/
def deviantKeyed : List (String × OpShape) := [
  ("settings",
   { name := "S.UpdateSettings", src := "host/settings/settings.go:242 (m.settings = s :256, store.UpdateSettings :260)",
     kind := .single, pre := [.memWrite], post := [], mirrored := true }),
  ("pin",
   { name := "P.Update", src := "host/settings/pin/pin.go:227 (m.settings = p :247, store.UpdatePinnedSettings :249)",
     kind := .single, pre := [.memWrite], post := [], mirrored := true }),
  -- syncDB: the batch commits (update.go:54-82), then three ProcessActions calls that read and may write the
  -- database (:78-84, each returns early on error), and only then `m.index = index` (:86-88)
  ("syncdb",
   { name := "I.SyncDB", src := "index/update.go:25 (UpdateChainState :54, ProcessActions :78-84, m.index = index :87)",
     kind := .indexer, pre := [], post := [.beginTx, .stmt, .commit, .memWrite], mirrored := true })
]

def deviantShapes : List OpShape := deviantKeyed.map (·.2)

/-- The same operations after the repairs (known-findings.d/txn-fix-{2,3,4}):
store call first, then the copy; syncDB moves its tip whether or not the
follow-up actions fail, so their failure no longer stands between the commit
and the mirror write (they are operations of their own whose error is
reported afterwards). -/
def repairedShapes : List (String × OpShape) := [
  ("settings", M "S.UpdateSettings" "host/settings/settings.go UpdateSettings (store.UpdateSettings, then m.settings = s)" [.memWrite]),
  ("pin",      M "P.Update"         "host/settings/pin/pin.go Update (store.UpdatePinnedSettings, then m.settings = p)" [.memWrite]),
  ("syncdb",
   { name := "I.SyncDB", src := "index/update.go syncDB (UpdateChainState, actions with their error kept, m.index = index, return the error)",
     kind := .indexer, pre := [], post := [.memWrite], mirrored := true })
]

/-- The table for a tree in which the repairs named in `fixed` have been made
(`fixed` comes from the check's configuration, `driver_args` in lib/props.d). -/
def shapeTable (fixed : List String) : List OpShape :=
  codeShapes ++ (repairedShapes.filter fun p => fixed.contains p.1).map (·.2)

def deviantTable (fixed : List String) : List OpShape :=
  (deviantKeyed.filter fun p => !fixed.contains p.1).map (·.2)

def findShapeIn (fixed : List String) (name : String) : Option OpShape :=
  match (shapeTable fixed).find? (·.name == name) with
  | some o => some o
  | none => (deviantTable fixed).find? (·.name == name)

def findShape (name : String) : Option OpShape := findShapeIn [] name

/-- the full step list of a table entry, for `n` statements in a single
transaction resp. `ns` statements per batch -/
def OpShape.expand (o : OpShape) (ns : List Nat) : Shape :=
  match o.kind, ns with
  | .single, n :: _ => o.pre ++ singleTx n o.post
  | .single, [] => o.pre ++ singleTx 0 o.post
  | .batched, _ => batches ns
  | .storeSector, n :: _ => singleTx n o.post
  | .storeSector, [] => singleTx 0 o.post
  | .indexer, n :: _ => singleTx n o.post
  | .indexer, [] => singleTx 0 o.post

/-! ## StoreSector: reservation, data write, compensation (volumes.go:154-224) -/

/-- `undo`: the compensating transaction (`sector_id=null`, usage − 1); the
single-fault quantifier of C09 lets it run without a second failure. -/
def storeSector (m : Sem α β) (undo : α → α) (n : Nat) (k : Option Nat) (s : St α β) : St α β × Res :=
  match exec m (singleTx n []) k s with
  | (s1, .failed) => (s1, .failed)          -- fn is not called
  | (s1, .done) =>
    match exec m [.dataWrite, .sync] (k.map (· - (n + 2))) s1 with
    | (s2, .done) => (s2, .done)
    | (s2, .failed) => ({ s2 with db := undo s2.db }, .failed)

/-! ## chain batches and the processed-tip marker (index/update.go) -/

/-- persistent chain state `db` as of chain position `marker`, and the indexer's in-memory tip `mem`.
A position is the NAME of a chain index (a number given to every block of every fork), not a height: a batch
from `p` to `q` carries the blocks reverted on the way from `p` to the common ancestor and the blocks applied
from there to `q` (`chain.Manager.UpdatesSince`), so `q` may lie "behind" `p` (a reverts-only batch). -/
structure Idx (σ : Type) where
  db     : σ
  marker : Nat
  mem    : Nat

inductive Ev where
  | batch (target : Nat) (fails : Bool)   -- one `UpdateChainState` call moving the marker to `target`
  | restart                               -- process exit + `index.NewManager` (reads `store.Tip()`)
deriving Repr

/-- one indexer event; a failing batch changes nothing (`single_tx_atomic`), a
successful one moves wallet/contracts/settings state and marker together and
then the in-memory tip -/
def idxStep {σ : Type} (delta : Nat → Nat → σ → σ) (s : Idx σ) : Ev → Idx σ
  | .batch target fails =>
    if fails then s
    else { db := delta s.mem target s.db, marker := target, mem := target }
  | .restart => { s with mem := s.marker }

/-- the indexer with a marker that is only written by batches that apply something (`back p q`: the batch
from `p` to `q` only reverts): the data of such a batch commit, the marker stays, the in-memory tip moves -/
def idxStepNoMarkerOnRevert {σ : Type} (delta : Nat → Nat → σ → σ) (back : Nat → Nat → Bool) (s : Idx σ) : Ev → Idx σ
  | .batch target fails =>
    if fails then s
    else if back s.mem target then { db := delta s.mem target s.db, marker := s.marker, mem := target }
    else { db := delta s.mem target s.db, marker := target, mem := target }
  | .restart => { s with mem := s.marker }

def idxRun {σ : Type} (delta : Nat → Nat → σ → σ) (s : Idx σ) (evs : List Ev) : Idx σ :=
  evs.foldl (idxStep delta) s

/-! ## C18: persisted / memory split of the managers -/

namespace Restart

/-- association-list lookup with the empty list as default (`getSectorRoots` returns nil for a missing id) -/
def lookup (id : Nat) : List (Nat × List Nat) → List Nat
  | [] => []
  | (i, r) :: rest => if i = id then r else lookup id rest

def setKey (id : Nat) (r : List Nat) : List (Nat × List Nat) → List (Nat × List Nat)
  | [] => [(id, r)]
  | (i, x) :: rest => if i = id then (i, r) :: rest else (i, x) :: setKey id r rest

/-- contract row: id, persisted root list, superseded = `renewed_to` set -/
structure CRow where
  id : Nat
  roots : List Nat
  superseded : Bool
deriving DecidableEq, Repr

/-- contracts.Manager: persisted rows, in-memory `sectorRoots` -/
structure Roots where
  rows  : List CRow
  cache : List (Nat × List Nat)
deriving Repr

def rowRoots (id : Nat) : List CRow → List Nat
  | [] => []
  | c :: rest => if c.id = id then c.roots else rowRoots id rest

/-- `UPDATE … WHERE contract_id = id` -/
def setRow (id : Nat) (f : CRow → CRow) (rows : List CRow) : List CRow :=
  rows.map fun c => if c.id = id then f c else c

def hasRow (id : Nat) (rows : List CRow) : Bool := rows.any (·.id == id)

def isSuperseded (id : Nat) (rows : List CRow) : Bool := rows.any fun c => c.id == id && c.superseded

inductive ROp where
  | add (id : Nat)                         -- AddContract / AddV2Contract: no roots, cache untouched
  | revise (id : Nat) (roots : List Nat)   -- Commit / ReviseV2Contract: store, then setSectorRoots
  | renew (old new : Nat)                  -- RenewContract / RenewV2Contract: rows move, cache[new] := roots(old)
deriving Repr

def rstep (s : Roots) : ROp → Roots
  | .add id =>
    if hasRow id s.rows then s
    else { s with rows := s.rows ++ [{ id, roots := [], superseded := false }] }
  | .revise id roots =>
    if hasRow id s.rows then
      { rows := setRow id (fun c => { c with roots }) s.rows, cache := setKey id roots s.cache }
    else s
  | .renew old new =>
    -- a renewed contract cannot be renewed again (its successor's id is taken / its revision is final)
    if hasRow old s.rows && !hasRow new s.rows && !isSuperseded old s.rows then
      let r := lookup old s.cache   -- `existingRoots := cm.getSectorRoots(existing)`; the store moves the rows
      { rows := setRow old (fun c => { c with roots := [], superseded := true }) s.rows
                  ++ [{ id := new, roots := rowRoots old s.rows, superseded := false }],
        cache := setKey new r s.cache }
    else s

/-- `contracts.NewManager`: `store.SectorRoots()` ∪ `store.V2SectorRoots()` -/
def rebuildRoots (rows : List CRow) : List (Nat × List Nat) := rows.map fun c => (c.id, c.roots)

def restartRoots (s : Roots) : Roots := { s with cache := rebuildRoots s.rows }

/-- what exported paths serve: the root list of every non-superseded contract (DESIGN §6.5) -/
def observeRoots (s : Roots) : List (Nat × List Nat) :=
  (s.rows.filter (!·.superseded)).map fun c => (c.id, lookup c.id s.cache)

def reachRoots (ops : List ROp) : Roots := ops.foldl rstep { rows := [], cache := [] }

/-- accounts.AccountManager: persisted balances, in-memory `balances` (balance, open budgets) -/
structure Accts where
  bal  : List (Nat × Nat)
  pending : List (Nat × Nat × Nat)
deriving Repr

def balOf (a : Nat) : List (Nat × Nat) → Nat
  | [] => 0
  | (i, b) :: rest => if i = a then b else balOf a rest

def openOf (a : Nat) : List (Nat × Nat × Nat) → Option (Nat × Nat)
  | [] => none
  | (i, b, n) :: rest => if i = a then some (b, n) else openOf a rest

/-- `AccountManager.Balance`: the in-memory entry if there is one, else the store -/
def observeAcct (s : Accts) (a : Nat) : Nat :=
  match openOf a s.pending with
  | some (b, _) => b
  | none => balOf a s.bal

/-- `accounts.NewManager` starts with an empty map -/
def restartAccts (s : Accts) : Accts := { s with pending := [] }

/-- quiescent = no open budget (every budget was committed or rolled back) -/
def quiescentAccts (s : Accts) : Prop := s.pending = []

/-- webhooks: persisted table, in-memory `hooks` (the scope tree is a function of it) -/
structure Hook where
  id : Nat
  url : Nat
  scopes : List (List Nat)     -- a scope is a path; `[]` stands for "all"
deriving DecidableEq, Repr

structure Hooks where
  table : List Hook
  mem   : List Hook
deriving Repr

/-- `findMatchingHooks`: a hook registered on a prefix of the event's scope path (or on "all") matches -/
def isPrefix : List Nat → List Nat → Bool
  | [], _ => true
  | _ :: _, [] => false
  | a :: as, b :: bs => a == b && isPrefix as bs

def matching (hs : List Hook) (scope : List Nat) : List Nat :=
  (hs.filter fun h => h.scopes.any (isPrefix · scope)).map (·.id)

inductive HOp where
  | register (h : Hook)
  | update (id : Nat) (url : Nat) (scopes : List (List Nat))
  | remove (id : Nat)
deriving Repr

def updHook (id url : Nat) (scopes : List (List Nat)) (hs : List Hook) : List Hook :=
  hs.map fun h => if h.id = id then { h with url, scopes } else h

def hstep (s : Hooks) : HOp → Hooks
  | .register h => { table := s.table ++ [h], mem := s.mem ++ [h] }
  | .update id url scopes => { table := updHook id url scopes s.table, mem := updHook id url scopes s.mem }
  | .remove id => { table := s.table.filter (·.id ≠ id), mem := s.mem.filter (·.id ≠ id) }

/-- `webhooks.NewManager`; `loads` is the constructor fact: does it put the
result of `store.Webhooks()` into `hooks`/`scopes`? -/
def restartHooks (loads : Bool) (s : Hooks) : Hooks :=
  { s with mem := if loads then s.table else [] }

def observeHooks (s : Hooks) : List Hook × (List Nat → List Nat) := (s.mem, matching s.mem)

def reachHooks (ops : List HOp) : Hooks := ops.foldl hstep { table := [], mem := [] }

/-- settings.ConfigManager / pin.Manager: persisted row (none = no row yet) and in-memory copy, each a
value with a revision number.  `UpdateSettings` (persist/sqlite/settings.go:87-116) stores the value with
`settings_revision + 1` (0 on the first insert); the manager keeps the caller's struct, revision included. -/
structure Conf (γ : Type) where
  row : Option (γ × Nat)
  mem : γ × Nat

inductive COp (γ : Type) where
  | update (v : γ) (callerRev : Nat)     -- a successful UpdateSettings / Update

def cstep {γ : Type} (s : Conf γ) : COp γ → Conf γ
  | .update v callerRev =>
    { row := some (v, match s.row with
                      | some (_, r) => r + 1
                      | none => 0),
      mem := (v, callerRev) }

/-- `NewConfigManager`: `store.Settings()`; `ErrNoSettings` ⇒ the initial settings -/
def restartConf {γ : Type} (dflt : γ × Nat) (s : Conf γ) : Conf γ :=
  match s.row with
  | some r => { s with mem := r }
  | none => { s with mem := dflt }

def reachConf {γ : Type} (dflt : γ × Nat) (ops : List (COp γ)) : Conf γ :=
  ops.foldl cstep { row := none, mem := dflt }

/-! ### the manager views in more detail: root ORDER, settings FIELDS, volumes -/

/-- one row of `contract_sector_roots` / `contract_v2_sector_roots` of a contract: its `root_index`,
the `sector_id` it points to (ids grow in the order sectors were first stored) and that sector's root -/
structure RRow where
  idx : Nat
  sector : Nat
  root : Nat
deriving DecidableEq, Repr

def rootAt (i : Nat) : List RRow → Option Nat
  | [] => none
  | r :: rest => if r.idx = i then some r.root else rootAt i rest

/-- `SectorRoots()` / `V2SectorRoots()`: `… ORDER BY contract_id, root_index ASC` — for rows with the indices
`0 … n-1` that is: the root at index 0, at index 1, … whatever the physical order of the rows -/
def loadByIndex (n : Nat) (rows : List RRow) : List (Option Nat) := (List.range n).map fun i => rootAt i rows

/-- the rows hold the list `roots`: as many rows as roots and the row with index `i` carries `roots[i]`
(what the store's replay of the sector actions maintains — C03) -/
def Represents (roots : List Nat) (rows : List RRow) : Prop :=
  ∀ i, i < roots.length → rootAt i rows = roots[i]?

/-- the same query ordered by `sector_id` (insertion sort), to show that the ORDER BY column matters -/
def insertBySector (r : RRow) : List RRow → List RRow
  | [] => [r]
  | x :: rest => if r.sector ≤ x.sector then r :: x :: rest else x :: insertBySector r rest

def loadBySector (rows : List RRow) : List Nat := (rows.foldr insertBySector []).map (·.root)

/-- `contracts.NewManager` with the row level spelled out: `rrows id` are the stored rows of contract `id` -/
def rebuildRootsFrom (rrows : Nat → List RRow) (rows : List CRow) : List (Nat × List Nat) :=
  rows.map fun c => (c.id, (loadByIndex c.roots.length (rrows c.id)).filterMap id)

/-- A settings row as a vector of columns; `upd i`: column `i` is in the `ON CONFLICT DO UPDATE SET` list of
the upsert (persist/sqlite/settings.go). The first call inserts every column; later calls change the listed ones. -/
structure FConf where
  row : Option (Nat → Nat)
  mem : Nat → Nat

def fstep (upd : Nat → Bool) (s : FConf) (v : Nat → Nat) : FConf :=
  { row := some (match s.row with
                 | none => v
                 | some o => fun i => if upd i then v i else o i),
    mem := v }

def frestart (dflt : Nat → Nat) (s : FConf) : FConf :=
  match s.row with
  | some r => { s with mem := r }
  | none => { s with mem := dflt }

def freach (upd : Nat → Bool) (dflt : Nat → Nat) (vs : List (Nat → Nat)) : FConf :=
  vs.foldl (fstep upd) { row := none, mem := dflt }

/-- the column lists of the two upserts, as written in the code (id and settings_revision are handled apart) -/
def pinnedInsertCols : List String :=
  ["currency", "threshold", "storage_pinned", "storage_price", "ingress_pinned", "ingress_price",
   "egress_pinned", "egress_price", "max_collateral_pinned", "max_collateral"]      -- settings.go:39-40
def pinnedUpdateCols : List String :=
  ["currency", "threshold", "storage_pinned", "storage_price", "ingress_pinned", "ingress_price",
   "egress_pinned", "egress_price", "max_collateral_pinned", "max_collateral"]      -- settings.go:41-44
def settingsInsertCols : List String :=
  ["accepting_contracts", "net_address", "contract_price", "base_rpc_price", "sector_access_price",
   "collateral_multiplier", "max_collateral", "storage_price", "egress_price", "ingress_price",
   "max_account_balance", "max_account_age", "price_table_validity", "max_contract_duration", "window_size",
   "ingress_limit", "egress_limit", "registry_limit", "ddns_provider", "ddns_update_v4", "ddns_update_v6",
   "ddns_opts", "sector_cache_size"]                                                  -- settings.go:88-93
def settingsUpdateCols : List String :=
  ["accepting_contracts", "net_address", "contract_price", "base_rpc_price", "sector_access_price",
   "collateral_multiplier", "max_collateral", "storage_price", "egress_price", "ingress_price",
   "max_account_balance", "max_account_age", "price_table_validity", "max_contract_duration", "window_size",
   "ingress_limit", "egress_limit", "registry_limit", "ddns_provider", "ddns_update_v4", "ddns_update_v6",
   "ddns_opts", "sector_cache_size"]                                                  -- settings.go:95-107

/-- `upd` of a column list pair: is the `i`-th inserted column also updated? (columns beyond the list: yes) -/
def updOf (ins updc : List String) (i : Nat) : Bool :=
  match ins[i]? with
  | some c => updc.contains c
  | none => true

/-- storage.VolumeManager: persisted volume row, whether its data file can be opened right now, the
`available` flag, and `room`: writable (not read-only) with a free slot -/
structure Vol where
  id : Nat
  fileOk : Bool
  available : Bool
  room : Bool := true
deriving DecidableEq, Repr

/-- `loadVolumes` (host/storage/storage.go:107): open the file, `SetAvailable(id, opened)` — whatever the flag was -/
def restartVols (vs : List Vol) : List Vol := vs.map fun v => { v with available := v.fileOk }

/-- a `loadVolumes` that only confirms volumes which already are available (to show what the rule excludes) -/
def restartVolsSticky (vs : List Vol) : List Vol := vs.map fun v => { v with available := v.fileOk && v.available }

def observeVols (vs : List Vol) : List (Nat × Bool) := vs.map fun v => (v.id, v.available)

/-- what happens to volumes between and at restarts: a data file disappears or comes back; the host restarts -/
inductive VEv where
  | setFile (id : Nat) (ok : Bool)
  | restart
deriving Repr

def vstep (vs : List Vol) : VEv → List Vol
  | .setFile id ok => vs.map fun v => if v.id = id then { v with fileOk := ok } else v
  | .restart => restartVols vs

def vrun (vs : List Vol) (evs : List VEv) : List Vol := evs.foldl vstep vs

/-- `emptyLocation`: a sector can be stored iff some available, writable volume has a free slot -/
def canWrite (vs : List Vol) : Bool := vs.any fun v => v.available && v.room

/-! ### opening a database = pending migrations ∘ identity -/

inductive CStat where
  | pending | rejected | active | successful | failed | renewed
deriving DecidableEq, Repr

/-- a contract row as `recalcContractMetrics` reads it -/
structure MC where
  v2 : Bool
  status : CStat
  locked : Nat
  usage : Nat
deriving DecidableEq, Repr

/-- the stored aggregates: locked collateral, potential revenue, earned revenue -/
structure Totals where
  locked : Nat
  potential : Nat
  earned : Nat
deriving DecidableEq, Repr

def Totals.add (a b : Totals) : Totals := ⟨a.locked + b.locked, a.potential + b.potential, a.earned + b.earned⟩

/-- persist/sqlite/recalc.go:136-200: v1 `active` → locked + potential, v1 `successful` → earned;
v2 `active` → locked + potential, v2 `successful` and `renewed` → earned; every other status counts nothing -/
def contribOf (c : MC) : Totals :=
  match c.status with
  | .active => ⟨c.locked, c.usage, 0⟩
  | .successful => ⟨0, 0, c.usage⟩
  | .renewed => if c.v2 then ⟨0, 0, c.usage⟩ else ⟨0, 0, 0⟩
  | _ => ⟨0, 0, 0⟩

def recompute (cs : List MC) : Totals := cs.foldl (fun t c => t.add (contribOf c)) ⟨0, 0, 0⟩

/-- the same recomputation without the `renewed` clause (to show what the rule excludes) -/
def recomputeNoRenewed (cs : List MC) : Totals :=
  (cs.filter (·.status ≠ .renewed)).foldl (fun t c => t.add (contribOf c)) ⟨0, 0, 0⟩

/-- the part of the database the re-runnable migrations touch: contracts, the stored aggregates, the host's
net address (host name, optional port), the schema version -/
structure MDb where
  contracts : List MC
  totals : Totals
  host : Nat
  port : Option Nat
  version : Nat
deriving Repr

/-- the migrations that can run again on the current schema (persist/sqlite/migrations.go): 35 trims the port
from the net address, 36/37/38 are `recalcContractMetrics`, 39 is `CREATE INDEX IF NOT EXISTS` -/
inductive Mig where
  | trimPort | recalcMetrics | createIndex
deriving DecidableEq, Repr

def applyMig (db : MDb) : Mig → MDb
  | .trimPort => { db with port := none }
  | .recalcMetrics => { db with totals := recompute db.contracts }
  | .createIndex => db

/-- `migrations[version-1 ..]` for the versions 34 … 39 (target 39) -/
def migrationsFrom34 : List Mig := [.trimPort, .recalcMetrics, .recalcMetrics, .recalcMetrics, .createIndex]

def pendingOf (version : Nat) : List Mig := migrationsFrom34.drop (version - 34)

/-- `OpenDatabase` → `init` → `upgradeDatabase` (init.go:34-77): run what is pending, set the version -/
def openDb (db : MDb) : MDb := { (pendingOf db.version).foldl applyMig db with version := 39 }

/-- what the getters show of it -/
def observeDb (db : MDb) : List MC × Totals × Nat × Option Nat := (db.contracts, db.totals, db.host, db.port)

/-- what each constructor does (read from the code) -/
structure Ctor where
  name   : String
  src    : String
  loads  : Bool            -- rebuilds its in-memory state from the store
  writes : List String     -- store methods it calls that write
deriving Repr

def webhooksCtor : Ctor :=
  { name := "webhooks.NewManager", src := "webhooks/webhooks.go:349 (`_, err := store.Webhooks()` :359)", loads := false, writes := [] }

def codeCtors : List Ctor := [
  { name := "contracts.NewManager", src := "host/contracts/manager.go:386 (SectorRoots :409, V2SectorRoots :414)", loads := true, writes := [] },
  { name := "storage.NewVolumeManager", src := "host/storage/storage.go:973 (loadVolumes :107)", loads := true, writes := ["SetAvailable"] },
  webhooksCtor,
  { name := "settings.NewConfigManager", src := "host/settings/settings.go:428 (store.Settings :462)", loads := true, writes := [] },
  { name := "pin.NewManager", src := "host/settings/pin/pin.go:311 (store.PinnedSettings :338)", loads := true, writes := [] },
  { name := "accounts.NewManager", src := "host/accounts/accounts.go:186 (empty map; balances are read through)", loads := true, writes := [] },
  { name := "sqlite.OpenDatabase", src := "persist/sqlite/store.go:319, init.go:59 (version = target: nothing to do)", loads := true, writes := [] }
]

/-- the constructor facts for a tree in which the repairs named in `fixed` have been made
(`webhooks`: known-findings.d/txn-fix-1) -/
def webhooksCtorOf (fixed : List String) : Ctor := { webhooksCtor with loads := fixed.contains "webhooks" }

def ctorTable (fixed : List String) : List Ctor :=
  codeCtors.map fun c => if c.name == "webhooks.NewManager" then webhooksCtorOf fixed else c

/-- a constructor may only write `SetAvailable` (volume files found / not found) -/
def ctorReadOnly (c : Ctor) : Bool := c.writes.all (· == "SetAvailable")

end Restart

end Hostd.Txn
