/-
Model of the contract listing queries of persist/sqlite/contracts.go:
`buildContractFilter` / `buildV2ContractFilter` (WHERE clause builder incl. its
reject branches), `buildOrderBy` / `buildV2OrderBy`, and `Store.Contracts` /
`Store.V2Contracts` (count query + page query, LIMIT/OFFSET normalisation).
The v1 and the v2 builder are the same text up to the table/column names, so
one model serves both; a `Row` carries what the two SELECTs look at:

  v1 (`contracts`)            v2 (`contracts_v2`)          model
  contract_id                 contract_id                  id
  contract_status (INTEGER)   contract_status (TEXT)       status   (order-preserving code, see Drive/Query)
  renter_id -> public_key     renter_id -> public_key      renter
  renewed_from -> contract_id renewed_from -> contract_id  renewedFrom (NULL = none)
  renewed_to -> contract_id   renewed_to -> contract_id    renewedTo
  negotiation_height          negotiation_height           neg
  window_start                expiration_height            exp      (what "expiration height" filters/sorts on)

Core Lean only.
-/
namespace Hostd.Query

structure Row where
  id          : Nat
  status      : Nat
  renter      : Nat
  renewedFrom : Option Nat
  renewedTo   : Option Nat
  neg         : Nat
  exp         : Nat
deriving DecidableEq, Repr

/-- `ContractSortStatus`, `ContractSortNegotiationHeight`; every other string
(including `ContractSortExpirationHeight` and "") takes the `default:` branch. -/
inductive SortField where
  | status | negotiation | expiration
deriving DecidableEq, Repr

/-- `contracts.ContractFilter` / `contracts.V2ContractFilter`. -/
structure Filter where
  statuses    : List Nat := []
  ids         : List Nat := []
  renewedFrom : List Nat := []
  renewedTo   : List Nat := []
  renters     : List Nat := []
  minNeg      : Nat := 0
  maxNeg      : Nat := 0
  minExp      : Nat := 0
  maxExp      : Nat := 0
  limit       : Int := 0       -- Go `int`
  offset      : Nat := 0       -- Go `int`, only non-negative offsets are modelled
  sortField   : SortField := .expiration
  desc        : Bool := false
deriving Repr

inductive Err where
  | negBounds      -- "min negotiation height must be less than max negotiation height"
  | expBounds      -- "min expiration height must be less than max expiration height"
deriving DecidableEq, Repr

/-- The comparison the builder uses to refuse a pair of bounds that are both set
(`if filter.MinX ?? filter.MaxX { return error }`).  The model is parameterised
by it: the property demands `guardSpec`; the tree under test was found to
contain `guardInverted`. -/
abbrev Guard := Nat → Nat → Bool

/-- reject exactly a minimum above its maximum -/
def guardSpec : Guard := fun mn mx => decide (mn > mx)
/-- `if filter.Min… < filter.Max… { return error }` -/
def guardInverted : Guard := fun mn mx => decide (mn < mx)

/-- `x IN (…)`, the clause being absent when the Go slice is empty. -/
def inClause (l : List Nat) (v : Nat) : Bool := l.isEmpty || l.contains v

/-- `rf.contract_id IN (…)` over a LEFT JOIN: a NULL link never satisfies a present clause. -/
def inClauseOpt (l : List Nat) (v : Option Nat) : Bool :=
  l.isEmpty ||
    match v with
    | none => false
    | some x => l.contains x

/-- The `if min>0 && max>0 {guard; BETWEEN} else if min>0 {>=} else if max>0 {<=}` chain. -/
def boundClause (g : Guard) (e : Err) (mn mx : Nat) : Except Err (Nat → Bool) :=
  if mn > 0 ∧ mx > 0 then
    if g mn mx then .error e
    else .ok fun h => decide (mn ≤ h) && decide (h ≤ mx)
  else if mn > 0 then .ok fun h => decide (mn ≤ h)
  else if mx > 0 then .ok fun h => decide (h ≤ mx)
  else .ok fun _ => true

/-- `buildContractFilter` / `buildV2ContractFilter`: the WHERE predicate or the builder's error. -/
def buildFilter (g : Guard) (f : Filter) : Except Err (Row → Bool) :=
  match boundClause g .negBounds f.minNeg f.maxNeg with
  | .error e => .error e
  | .ok pn =>
    match boundClause g .expBounds f.minExp f.maxExp with
    | .error e => .error e
    | .ok pe =>
      .ok fun r =>
        inClause f.statuses r.status && inClause f.ids r.id &&
        inClauseOpt f.renewedFrom r.renewedFrom && inClauseOpt f.renewedTo r.renewedTo &&
        inClause f.renters r.renter && pn r.neg && pe r.exp

/-- the column named by `buildOrderBy` -/
def key : SortField → Row → Nat
  | .status, r => r.status
  | .negotiation, r => r.neg
  | .expiration, r => r.exp

/-- `ORDER BY <key> ASC|DESC` as a total preorder on rows -/
def rowLe (f : Filter) (a b : Row) : Bool :=
  if f.desc then decide (key f.sortField b ≤ key f.sortField a)
  else decide (key f.sortField a ≤ key f.sortField b)

/-- stable insertion sort (structural recursion, so that concrete queries evaluate by `decide`) -/
def insertRow (f : Filter) (a : Row) : List Row → List Row
  | [] => [a]
  | b :: t => if rowLe f a b then a :: b :: t else b :: insertRow f a t

def sortRows (f : Filter) : List Row → List Row
  | [] => []
  | a :: t => insertRow f a (sortRows f t)

/-- `if filter.Limit <= 0 || filter.Limit > 100 { filter.Limit = 100 }` -/
def effLimit (limit : Int) : Nat := if limit ≤ 0 ∨ limit > 100 then 100 else limit.toNat

/-- `api.handlePostContracts`: `if filter.Limit <= 0 || filter.Limit > 500 { filter.Limit = 500 }` -/
def apiClamp (limit : Int) : Int := if limit ≤ 0 ∨ limit > 500 then 500 else limit

/-- `LIMIT ? OFFSET ?` -/
def page (f : Filter) (l : List Row) : List Row := (l.drop f.offset).take (effLimit f.limit)

/-- `Store.Contracts` / `Store.V2Contracts`: (page, count) or the builder's error. -/
def query (g : Guard) (f : Filter) (rows : List Row) : Except Err (List Row × Nat) :=
  match buildFilter g f with
  | .error e => .error e
  | .ok p =>
    let ms := rows.filter p
    .ok (page f (sortRows f ms), ms.length)

/-! ### executable form of the specification (used by the driver as oracle) -/

/-- Decidable form of `Matches` (Props/C19 proves `matchesB f r = true ↔ Matches f r`). -/
def matchesB (f : Filter) (r : Row) : Bool :=
  (f.statuses.isEmpty || f.statuses.contains r.status) &&
  (f.ids.isEmpty || f.ids.contains r.id) &&
  (f.renewedFrom.isEmpty || (match r.renewedFrom with | none => false | some x => f.renewedFrom.contains x)) &&
  (f.renewedTo.isEmpty || (match r.renewedTo with | none => false | some x => f.renewedTo.contains x)) &&
  (f.renters.isEmpty || f.renters.contains r.renter) &&
  (f.minNeg == 0 || decide (f.minNeg ≤ r.neg)) && (f.maxNeg == 0 || decide (r.neg ≤ f.maxNeg)) &&
  (f.minExp == 0 || decide (f.minExp ≤ r.exp)) && (f.maxExp == 0 || decide (r.exp ≤ f.maxExp))

/-- a minimum above its maximum (both given) -/
def contradictoryB (f : Filter) : Bool :=
  (decide (f.minNeg > 0) && decide (f.maxNeg > 0) && decide (f.minNeg > f.maxNeg)) ||
  (decide (f.minExp > 0) && decide (f.maxExp > 0) && decide (f.minExp > f.maxExp))

def keysSortedB (f : Filter) : List Row → Bool
  | [] => true
  | [_] => true
  | a :: b :: rest => rowLe f a b && keysSortedB f (b :: rest)

def nodupIds : List Row → Bool
  | [] => true
  | a :: rest => !(rest.any (·.id == a.id)) && nodupIds rest

/-- The driver's acceptance test for an observed page `obs`, given the stored
rows `ms` that satisfy the filter: same key sequence as the slice of the sorted
matches (ties compared per key, not per row), only matching rows, no row twice. -/
def pageOk (f : Filter) (ms obs : List Row) : Bool :=
  (obs.map (key f.sortField) == (page f (sortRows f ms)).map (key f.sortField)) &&
  obs.all (fun r => ms.contains r) && nodupIds obs

end Hostd.Query
