/-
Model of the contract chain-state machine:
  persist/sqlite/consensus.go  ApplyContracts / RevertContracts / RejectContracts and the
                               eighteen apply*/revert* transition functions with their metric updates
  persist/sqlite/contracts.go  updateContractUsage / updateV2ContractUsage (usage routing),
                               the seven ContractActions selection queries
  persist/sqlite/recalc.go     recalcContractMetrics (the maintainers' definition of the metrics)
  host/contracts/update.go     Manager.UpdateChainState (apply, then RejectContracts(h - rejectBuffer))

The transition functions are an *interpreter of a table* (`Table`): for every function and prior
status the table says skip / panic / go (target status, confirmation and resolution column
operation, ordered metric helper calls with their `negative` flag).  `codeTable` transcribes
consensus.go.  General theorems are proved for any table satisfying decidable local conditions
(`TableOK`), which are discharged for `codeTable` by kernel evaluation.
Core Lean only.
-/
namespace Hostd.Chain

inductive St where
  | pending | rejected | active | successful | failed | renewed
deriving DecidableEq, Repr, Inhabited

inductive Ver where
  | v1 | v2
deriving DecidableEq, Repr, Inhabited

inductive Fault where
  | error (why : String)   -- the Go code returns an error (the batch is rolled back)
  | panic (why : String)   -- the Go code panics
deriving DecidableEq, Repr

/-- contracts.Usage (v2: proto4.Usage has no registry fields; they stay 0). -/
structure Usage where
  rpc : Nat := 0
  storage : Nat := 0
  ingress : Nat := 0
  egress : Nat := 0
  regRead : Nat := 0
  regWrite : Nat := 0
  acct : Nat := 0
  risked : Nat := 0
deriving DecidableEq, Repr, Inhabited

def Usage.add (a b : Usage) : Usage :=
  { rpc := a.rpc + b.rpc, storage := a.storage + b.storage, ingress := a.ingress + b.ingress,
    egress := a.egress + b.egress, regRead := a.regRead + b.regRead, regWrite := a.regWrite + b.regWrite,
    acct := a.acct + b.acct, risked := a.risked + b.risked }

/-- the six revenue categories of the potential / earned metrics -/
structure Rev6 where
  rpc : Nat := 0
  storage : Nat := 0
  ingress : Nat := 0
  egress : Nat := 0
  regRead : Nat := 0
  regWrite : Nat := 0
deriving DecidableEq, Repr, Inhabited

def Usage.rev6 (u : Usage) : Rev6 :=
  { rpc := u.rpc, storage := u.storage, ingress := u.ingress, egress := u.egress,
    regRead := u.regRead, regWrite := u.regWrite }

def Rev6.add (a b : Rev6) : Rev6 :=
  { rpc := a.rpc + b.rpc, storage := a.storage + b.storage, ingress := a.ingress + b.ingress,
    egress := a.egress + b.egress, regRead := a.regRead + b.regRead, regWrite := a.regWrite + b.regWrite }

def Rev6.le (a b : Rev6) : Bool :=
  a.rpc ≤ b.rpc && a.storage ≤ b.storage && a.ingress ≤ b.ingress && a.egress ≤ b.egress &&
  a.regRead ≤ b.regRead && a.regWrite ≤ b.regWrite

def Rev6.sub (a b : Rev6) : Rev6 :=
  { rpc := a.rpc - b.rpc, storage := a.storage - b.storage, ingress := a.ingress - b.ingress,
    egress := a.egress - b.egress, regRead := a.regRead - b.regRead, regWrite := a.regWrite - b.regWrite }

structure Contract where
  id : Nat
  ver : Ver
  status : St := .pending
  /-- v1 `formation_confirmed`; v2 `confirmation_index IS NOT NULL` -/
  confirmed : Bool := false
  /-- v2 height of `confirmation_index` (v1: unused) -/
  confH : Option Nat := none
  /-- v1 `resolution_height`; v2 height of `resolution_index` -/
  resH : Option Nat := none
  /-- `revision_number` of the latest revision the host signed -/
  rev : Nat := 0
  /-- v1 `confirmed_revision_number`; v2 `revision_number` of the stored state element (none = no element) -/
  confRev : Option Nat := none
  neg : Nat := 0
  /-- v1 window start / v2 proof height -/
  wStart : Nat := 0
  /-- v1 window end / v2 expiration height -/
  wEnd : Nat := 0
  locked : Nat := 0
  usage : Usage := {}
deriving DecidableEq, Repr, Inhabited

structure Metrics where
  active : Nat := 0
  rejected : Nat := 0
  successful : Nat := 0
  failed : Nat := 0
  renewed : Nat := 0
  locked : Nat := 0
  risked : Nat := 0
  pot : Rev6 := {}
  earned : Rev6 := {}
deriving DecidableEq, Repr, Inhabited

structure State where
  cs : List Contract := []
  m : Metrics := {}
deriving Repr, Inhabited

/-! ## transition table -/

inductive Fn where
  | aForm | aSucc | aRenew | aFail      -- apply
  | rForm | rSucc | rRenew | rFail      -- revert
  | reject
deriving DecidableEq, Repr

inductive Bucket where
  | collateral | potential | earned
deriving DecidableEq, Repr

inductive ColOp where
  | keep | set | clear
deriving DecidableEq, Repr

structure Go where
  target : St
  conf : ColOp            -- formation_confirmed / confirmation_index
  res : ColOp             -- resolution_height / resolution_index
  ops : List (Bucket × Bool)   -- ordered metric helper calls, Bool = `negative`
deriving DecidableEq, Repr

inductive Cell where
  | skip | panic | error | go (g : Go)
deriving DecidableEq, Repr

abbrev Table := Ver → Fn → St → Cell

/-- consensus.go as it stands after the `fix:` commits (see known-findings.json):
revertSuccessfulContracts passes both statement arguments, revertFailed(V2)Contracts performs the
transition, revertSuccessfulV2Contracts writes `active`. -/
def codeTable : Table
  -- applyContractFormation
  | .v1, .aForm, .pending => .go ⟨.active, .set, .keep, [(.potential, false), (.collateral, false)]⟩
  | .v1, .aForm, .rejected => .go ⟨.active, .set, .keep, [(.potential, false), (.collateral, false)]⟩
  | .v1, .aForm, _ => .skip
  -- applySuccessfulContracts
  | .v1, .aSucc, .successful => .skip
  | .v1, .aSucc, .active => .go ⟨.successful, .keep, .set, [(.earned, false), (.potential, true), (.collateral, true)]⟩
  | .v1, .aSucc, .failed => .go ⟨.successful, .keep, .set, [(.earned, false)]⟩
  | .v1, .aSucc, _ => .panic
  -- applyFailedContracts (resolution_height=NULL)
  | .v1, .aFail, .failed => .skip
  | .v1, .aFail, .active => .go ⟨.failed, .keep, .clear, [(.potential, true), (.collateral, true)]⟩
  | .v1, .aFail, .successful => .go ⟨.failed, .keep, .clear, [(.earned, true)]⟩
  | .v1, .aFail, _ => .panic
  -- revertContractFormation
  | .v1, .rForm, .active => .go ⟨.pending, .clear, .keep, [(.collateral, true), (.potential, true)]⟩
  | .v1, .rForm, _ => .panic
  -- revertSuccessfulContracts
  | .v1, .rSucc, .successful => .go ⟨.active, .keep, .clear, [(.potential, false), (.earned, true), (.collateral, false)]⟩
  | .v1, .rSucc, _ => .panic
  -- revertFailedContracts
  | .v1, .rFail, .failed => .go ⟨.active, .keep, .clear, [(.potential, false), (.collateral, false)]⟩
  | .v1, .rFail, _ => .panic
  -- v1 has no renewal resolution
  | .v1, .aRenew, _ => .error
  | .v1, .rRenew, _ => .error
  -- RejectContracts
  | _, .reject, .pending => .go ⟨.rejected, .keep, .keep, []⟩
  | _, .reject, _ => .panic
  -- applyV2ContractFormation
  | .v2, .aForm, .pending => .go ⟨.active, .set, .keep, [(.collateral, false), (.potential, false)]⟩
  | .v2, .aForm, .rejected => .go ⟨.active, .set, .keep, [(.collateral, false), (.potential, false)]⟩
  | .v2, .aForm, _ => .skip
  -- applySuccessfulV2Contracts(status = successful)
  | .v2, .aSucc, .successful => .skip
  | .v2, .aSucc, .active => .go ⟨.successful, .keep, .set, [(.earned, false), (.potential, true), (.collateral, true)]⟩
  | .v2, .aSucc, _ => .panic
  -- applySuccessfulV2Contracts(status = renewed)
  | .v2, .aRenew, .renewed => .skip
  | .v2, .aRenew, .active => .go ⟨.renewed, .keep, .set, [(.earned, false), (.potential, true), (.collateral, true)]⟩
  | .v2, .aRenew, _ => .panic
  -- applyFailedV2Contracts
  | .v2, .aFail, .failed => .skip
  | .v2, .aFail, .active => .go ⟨.failed, .keep, .set, [(.potential, true), (.collateral, true)]⟩
  | .v2, .aFail, _ => .panic
  -- revertV2ContractFormation
  | .v2, .rForm, .active => .go ⟨.pending, .clear, .keep, [(.collateral, true), (.potential, true)]⟩
  | .v2, .rForm, _ => .panic
  -- revertSuccessfulV2Contracts(successful / renewed)
  | .v2, .rSucc, .successful => .go ⟨.active, .keep, .clear, [(.potential, false), (.earned, true), (.collateral, false)]⟩
  | .v2, .rSucc, _ => .panic
  | .v2, .rRenew, .renewed => .go ⟨.active, .keep, .clear, [(.potential, false), (.earned, true), (.collateral, false)]⟩
  | .v2, .rRenew, _ => .panic
  -- revertFailedV2Contracts
  | .v2, .rFail, .failed => .go ⟨.active, .keep, .clear, [(.potential, false), (.collateral, false)]⟩
  | .v2, .rFail, _ => .panic

/-! ## metric helpers (incrementNumericStat / incrementCurrencyStat with the negative guard) -/

def decN (what : String) (cur d : Nat) : Except Fault Nat :=
  if cur < d then .error (.panic s!"negative stat value: {what}") else .ok (cur - d)

def decRev (what : String) (cur d : Rev6) : Except Fault Rev6 :=
  if d.le cur then .ok (cur.sub d) else .error (.panic s!"negative stat value: {what}")

def countGet (m : Metrics) : St → Nat
  | .active => m.active | .rejected => m.rejected | .successful => m.successful
  | .failed => m.failed | .renewed => m.renewed | .pending => 0

def countSet (m : Metrics) (s : St) (n : Nat) : Metrics :=
  match s with
  | .active => { m with active := n } | .rejected => { m with rejected := n }
  | .successful => { m with successful := n } | .failed => { m with failed := n }
  | .renewed => { m with renewed := n } | .pending => m

/-- updateStatusMetrics / updateV2StatusMetrics -/
def countMove (old new : St) (m : Metrics) : Except Fault Metrics :=
  if old = new then .ok m else do
    let m1 ← if old = .pending then pure m else do
      let n ← decN "contracts" (countGet m old) 1
      pure (countSet m old n)
    pure (if new = .pending then m1 else countSet m1 new (countGet m1 new + 1))

/-- one metric helper call: updateCollateralMetrics / update(V2)PotentialRevenueMetrics / update(V2)EarnedRevenueMetrics -/
def metricOp (c : Contract) (m : Metrics) : Bucket × Bool → Except Fault Metrics
  | (.collateral, false) => .ok { m with locked := m.locked + c.locked, risked := m.risked + c.usage.risked }
  | (.collateral, true) => do
      let l ← decN "lockedCollateral" m.locked c.locked
      let r ← decN "riskedCollateral" m.risked c.usage.risked
      pure { m with locked := l, risked := r }
  | (.potential, false) => .ok { m with pot := m.pot.add c.usage.rev6 }
  | (.potential, true) => do
      let p ← decRev "potentialRevenue" m.pot c.usage.rev6
      pure { m with pot := p }
  | (.earned, false) => .ok { m with earned := m.earned.add c.usage.rev6 }
  | (.earned, true) => do
      let p ← decRev "earnedRevenue" m.earned c.usage.rev6
      pure { m with earned := p }

def metricOps (c : Contract) : List (Bucket × Bool) → Metrics → Except Fault Metrics
  | [], m => .ok m
  | op :: rest, m => do
      let m1 ← metricOp c m op
      metricOps c rest m1

/-! ## firing one transition function on one contract -/

def colBool (op : ColOp) (cur : Bool) : Bool :=
  match op with | .keep => cur | .set => true | .clear => false

def colOpt (op : ColOp) (h : Nat) (cur : Option Nat) : Option Nat :=
  match op with | .keep => cur | .set => some h | .clear => none

/-- contract part of a transition (no metrics) -/
def fireC (T : Table) (fn : Fn) (h : Nat) (c : Contract) : Except Fault Contract :=
  match T c.ver fn c.status with
  | .skip => .ok c
  | .panic => .error (.panic "unexpected contract state transition")
  | .error => .error (.error "no such transition")
  | .go g => .ok { c with status := g.target, confirmed := colBool g.conf c.confirmed,
                           confH := if c.ver = .v2 then colOpt g.conf h c.confH else c.confH,
                           resH := colOpt g.res h c.resH }

/-- metric part of a transition -/
def fireM (T : Table) (fn : Fn) (c : Contract) (m : Metrics) : Except Fault Metrics :=
  match T c.ver fn c.status with
  | .go g => do
      let m1 ← countMove c.status g.target m
      metricOps c g.ops m1
  | _ => .ok m

def findC (ver : Ver) (id : Nat) : List Contract → Option Contract
  | [] => none
  | c :: rest => if c.ver = ver ∧ c.id = id then some c else findC ver id rest

def setC (c' : Contract) : List Contract → List Contract
  | [] => []
  | c :: rest => if c.ver = c'.ver ∧ c.id = c'.id then c' :: rest else c :: setC c' rest

/-- apply a transition function to the contract `(ver,id)`; missing contract = sql.ErrNoRows = error -/
def fire (T : Table) (ver : Ver) (fn : Fn) (h : Nat) (s : State) (id : Nat) : Except Fault State :=
  match findC ver id s.cs with
  | none => .error (.error "contract not found")
  | some c => do
      let c' ← fireC T fn h c
      let m' ← fireM T fn c s.m
      pure { cs := setC c' s.cs, m := m' }

def fireAll (T : Table) (ver : Ver) (fn : Fn) (h : Nat) : List Nat → State → Except Fault State
  | [], s => .ok s
  | id :: rest, s => do
      let s1 ← fire T ver fn h s id
      fireAll T ver fn h rest s1

/-- record revision number `n` as the one on chain: v1 `confirmed_revision_number := n`; v2 the state
element's `revision_number := n` if an element is stored -/
def setRev (c : Contract) (n : Nat) : Contract :=
  match c.ver with
  | .v1 => { c with confRev := some n }
  | .v2 => { c with confRev := c.confRev.map (fun _ => n) }

/-- applyContractRevision: `UPDATE contracts SET confirmed_revision_number=? WHERE contract_id=?` (n ≠ 1 → error);
applyV2ContractRevision: contract must exist, the element update affects zero rows when no element is stored. -/
def setConfRev (ver : Ver) (s : State) (idrev : Nat × Nat) : Except Fault State :=
  match findC ver idrev.1 s.cs with
  | none => .error (.error "no rows updated")
  | some c => .ok { s with cs := setC (setRev c idrev.2) s.cs }

def setConfRevAll (ver : Ver) : List (Nat × Nat) → State → Except Fault State
  | [], s => .ok s
  | x :: rest, s => do
      let s1 ← setConfRev ver s x
      setConfRevAll ver rest s1

/-- v2 formation upserts the state element before looking at the status -/
def upsertElem (s : State) (idrev : Nat × Nat) : Except Fault State :=
  match findC .v2 idrev.1 s.cs with
  | none => .error (.error "contract not found")
  | some c => .ok { s with cs := setC { c with confRev := some idrev.2 } s.cs }

def deleteElem (s : State) (id : Nat) : Except Fault State :=
  match findC .v2 id s.cs with
  | none => .error (.error "contract not found")
  | some c => .ok { s with cs := setC { c with confRev := none } s.cs }

def formV2All (T : Table) (h : Nat) : List (Nat × Nat) → State → Except Fault State
  | [], s => .ok s
  | x :: rest, s => do
      let s1 ← upsertElem s x
      let s2 ← fire T .v2 .aForm h s1 x.1
      formV2All T h rest s2

def unformV2All (T : Table) (h : Nat) : List Nat → State → Except Fault State
  | [], s => .ok s
  | id :: rest, s => do
      let s1 ← deleteElem s id
      let s2 ← fire T .v2 .rForm h s1 id
      unformV2All T h rest s2

/-- contracts.StateChanges restricted to what the store reads from it -/
structure Changes where
  form1 : List Nat := []
  rev1 : List (Nat × Nat) := []     -- (id, revision number to record: new on apply, previous on revert)
  succ1 : List Nat := []
  fail1 : List Nat := []
  form2 : List (Nat × Nat) := []    -- (id, revision number of the confirmed element)
  rev2 : List (Nat × Nat) := []
  succ2 : List Nat := []
  renew2 : List Nat := []
  fail2 : List Nat := []
deriving Repr, Inhabited

/-- updateTx.ApplyContracts -/
def applyContracts (T : Table) (h : Nat) (ch : Changes) (s : State) : Except Fault State := do
  let s ← fireAll T .v1 .aForm h ch.form1 s
  let s ← setConfRevAll .v1 ch.rev1 s
  let s ← fireAll T .v1 .aSucc h ch.succ1 s
  let s ← fireAll T .v1 .aFail h ch.fail1 s
  let s ← formV2All T h ch.form2 s
  let s ← setConfRevAll .v2 ch.rev2 s
  let s ← fireAll T .v2 .aSucc h ch.succ2 s
  let s ← fireAll T .v2 .aRenew h ch.renew2 s
  fireAll T .v2 .aFail h ch.fail2 s

/-- updateTx.RevertContracts -/
def revertContracts (T : Table) (h : Nat) (ch : Changes) (s : State) : Except Fault State := do
  let s ← fireAll T .v1 .rForm h ch.form1 s
  let s ← setConfRevAll .v1 ch.rev1 s
  let s ← fireAll T .v1 .rSucc h ch.succ1 s
  let s ← fireAll T .v1 .rFail h ch.fail1 s
  let s ← unformV2All T h (ch.form2.map (·.1)) s
  let s ← setConfRevAll .v2 ch.rev2 s
  let s ← fireAll T .v2 .rSucc h ch.succ2 s
  let s ← fireAll T .v2 .rRenew h ch.renew2 s
  fireAll T .v2 .rFail h ch.fail2 s

/-- rejectContracts / rejectV2Contracts selection: `contract_status <> rejected AND NOT confirmed AND negotiation_height < height` -/
def rejectSel (ver : Ver) (height : Nat) (c : Contract) : Bool :=
  c.ver = ver && c.status != .rejected && !c.confirmed && c.neg < height

def rejectIds (ver : Ver) (height : Nat) (cs : List Contract) : List Nat :=
  (cs.filter (rejectSel ver height)).map (·.id)

/-- updateTx.RejectContracts(height) -/
def rejectContracts (T : Table) (height : Nat) (s : State) : Except Fault State := do
  let r1 := rejectIds .v1 height s.cs
  let r2 := rejectIds .v2 height s.cs
  let s ← fireAll T .v1 .reject 0 r1 s
  fireAll T .v2 .reject 0 r2 s

/-- one applied block as Manager.UpdateChainState processes it -/
def applyBlock (T : Table) (rb : Nat) (h : Nat) (ch : Changes) (s : State) : Except Fault State := do
  let s ← applyContracts T h ch s
  if h ≥ rb then rejectContracts T (h - rb) s else pure s

/-! ## usage-changing operations (updateContractUsage / updateV2ContractUsage) -/

/-- `reviseContract` + `updateContractUsage(tx, id, ZeroCurrency, usage)` and the v2 analogue:
the revision number and usage are written to the row and the usage is routed to potential
(+ risked collateral) when the contract is active, to earned when successful (v2: or renewed). -/
def addUsage (ver : Ver) (id : Nat) (newRev : Nat) (u : Usage) (s : State) : Except Fault State :=
  match findC ver id s.cs with
  | none => .error (.error "contract not found")
  | some c =>
    let c' := { c with rev := newRev, usage := c.usage.add u }
    let m := s.m
    let m' :=
      if c.status = .active then
        { m with pot := m.pot.add u.rev6, risked := m.risked + u.risked }
      else if c.status = .successful ∨ c.status = .renewed then   -- `renewed` exists for v2 only (Go type)
        { m with earned := m.earned.add u.rev6 }
      else m
    .ok { cs := setC c' s.cs, m := m' }

/-- AddContract / AddV2Contract: a new pending row (v1 starts with confirmed_revision_number = 0,
v2 without a state element); a duplicate contract id violates the UNIQUE constraint -/
def addContract (c : Contract) (s : State) : Except Fault State :=
  match findC c.ver c.id s.cs with
  | some _ => .error (.error "UNIQUE constraint failed")
  | none =>
    let c0 := { c with status := .pending, confirmed := false, confH := none, resH := none,
                       confRev := if c.ver = .v1 then some 0 else none }
    .ok { s with cs := s.cs ++ [c0] }

/-- ResetChainState as far as contracts are concerned: the v2 state elements are deleted -/
def resetChain (s : State) : State :=
  { s with cs := s.cs.map fun c => if c.ver = .v2 then { c with confRev := none } else c }

/-! ## chain view and well-formed updates -/

/-- what C01 talks about: status (modulo the one-way rejection), formation confirmation,
confirmed-revision flag, resolution height -/
structure View where
  cls : St
  confirmed : Bool
  confH : Option Nat
  revConfirmed : Bool
  resH : Option Nat
deriving DecidableEq, Repr

def clsOf : St → St
  | .rejected => .pending
  | s => s

/-- `COALESCE(revision_number = confirmed_revision_number, false)` / `c.revision_number = cs.revision_number` -/
def revConfirmed (c : Contract) : Bool := c.confRev == some c.rev

def viewOf (c : Contract) : View :=
  { cls := clsOf c.status, confirmed := c.confirmed, confH := c.confH,
    revConfirmed := revConfirmed c, resH := c.resH }

def ids1 (ch : Changes) : List Nat :=
  ch.form1 ++ ch.rev1.map (·.1) ++ ch.succ1 ++ ch.fail1
def ids2 (ch : Changes) : List Nat :=
  ch.form2.map (·.1) ++ ch.rev2.map (·.1) ++ ch.succ2 ++ ch.renew2 ++ ch.fail2

def statusIs (X : State) (ver : Ver) (p : St → Bool) (id : Nat) : Bool :=
  match findC ver id X.cs with
  | some c => p c.status
  | none => false

def unconfirmedSt : St → Bool
  | .pending => true | .rejected => true | _ => false
def activeSt : St → Bool
  | .active => true | _ => false

/-- A block of changes is well-formed on top of the chain state `X` (what consensus guarantees):
every contract is touched by at most one event; a formation only for a contract that is not yet
confirmed on this chain; revisions and resolutions only for confirmed, unresolved contracts. -/
def wfApply (X : State) (ch : Changes) : Bool :=
  (ids1 ch).Nodup && (ids2 ch).Nodup &&
  ch.form1.all (statusIs X .v1 unconfirmedSt) &&
  (ch.rev1.map (·.1)).all (statusIs X .v1 activeSt) &&
  ch.succ1.all (statusIs X .v1 activeSt) && ch.fail1.all (statusIs X .v1 activeSt) &&
  (ch.form2.map (·.1)).all (statusIs X .v2 unconfirmedSt) &&
  (ch.rev2.map (·.1)).all (statusIs X .v2 activeSt) &&
  ch.succ2.all (statusIs X .v2 activeSt) && ch.renew2.all (statusIs X .v2 activeSt) &&
  ch.fail2.all (statusIs X .v2 activeSt)

/-- `wfApply` relaxed by the one combination consensus additionally allows: a v2 contract revised by
one transaction and resolved (proof or renewal) by another transaction of the same block.  The
history theorems of `Props/C01.lean` assume `wfApply`; the driver's monitors also run on this
relaxed domain (the model processes revision and resolution in the order ApplyContracts does). -/
def wfApplyR (X : State) (ch : Changes) : Bool :=
  let both := (ch.rev2.map (·.1)).filter fun i => ch.succ2.contains i || ch.renew2.contains i
  wfApply X { ch with rev2 := ch.rev2.filter fun x => !both.contains x.1 }

def prevRevOk (X : State) (ver : Ver) (x : Nat × Nat) : Bool :=
  match findC ver x.1 X.cs with
  | some c => c.confRev == some x.2
  | none => false

/-- A revert is well-formed when it undoes the block on top of the chain: the same events, with the
revisions carrying the revision number that was on chain below that block (state `Xbelow`). -/
def wfRevert (Xbelow : State) (applied reverted : Changes) : Bool :=
  applied.form1 == reverted.form1 && applied.rev1.map (·.1) == reverted.rev1.map (·.1) &&
  applied.succ1 == reverted.succ1 && applied.fail1 == reverted.fail1 &&
  applied.form2.map (·.1) == reverted.form2.map (·.1) && applied.rev2.map (·.1) == reverted.rev2.map (·.1) &&
  applied.succ2 == reverted.succ2 && applied.renew2 == reverted.renew2 && applied.fail2 == reverted.fail2 &&
  reverted.rev1.all (prevRevOk Xbelow .v1) && reverted.rev2.all (prevRevOk Xbelow .v2)

/-! ## recomputation (recalcContractMetrics + counts per status) -/

def Metrics.add (a b : Metrics) : Metrics :=
  { active := a.active + b.active, rejected := a.rejected + b.rejected, successful := a.successful + b.successful,
    failed := a.failed + b.failed, renewed := a.renewed + b.renewed, locked := a.locked + b.locked,
    risked := a.risked + b.risked, pot := a.pot.add b.pot, earned := a.earned.add b.earned }

/-- what one contract contributes to the metrics (recalcContractMetrics: active contracts feed
locked/risked collateral and potential revenue, successful and renewed ones earned revenue;
every non-pending status is counted) -/
def contrib (c : Contract) : Metrics :=
  match c.status with
  | .active => { active := 1, locked := c.locked, risked := c.usage.risked, pot := c.usage.rev6 }
  | .successful => { successful := 1, earned := c.usage.rev6 }
  | .renewed => { renewed := 1, earned := c.usage.rev6 }
  | .failed => { failed := 1 }
  | .rejected => { rejected := 1 }
  | .pending => {}

def recompute : List Contract → Metrics
  | [] => {}
  | c :: rest => (contrib c).add (recompute rest)

/-! ## lifecycle action selection (the seven ContractActions queries) -/

/-- rebroadcastContracts: `formation_confirmed=false AND contract_status <> rejected` -/
def selRebroadcast1 (c : Contract) : Bool := c.ver = .v1 && !c.confirmed && c.status != .rejected
/-- broadcastRevision: `formation_confirmed AND confirmed_revision_number != revision_number AND window_start BETWEEN h AND h+buf` -/
def selRevision1 (h buf : Nat) (c : Contract) : Bool :=
  c.ver = .v1 && c.confirmed && c.confRev != some c.rev && h ≤ c.wStart && c.wStart ≤ h + buf
/-- proofContracts: `formation_confirmed AND resolution_height IS NULL AND window_start <= h AND window_end > h` -/
def selProof1 (h : Nat) (c : Contract) : Bool :=
  c.ver = .v1 && c.confirmed && c.resH.isNone && c.wStart ≤ h && h < c.wEnd
/-- rebroadcastV2Contracts: `confirmation_index IS NULL AND contract_status <> rejected` -/
def selRebroadcast2 (c : Contract) : Bool := c.ver = .v2 && !c.confirmed && c.status != .rejected
/-- broadcastV2Revision: INNER JOIN element, `confirmation_index IS NOT NULL AND resolution_index IS NULL AND cs.revision_number != c.revision_number AND proof_height BETWEEN h AND h+buf` -/
def selRevision2 (h buf : Nat) (c : Contract) : Bool :=
  c.ver = .v2 && c.confirmed && c.resH.isNone && c.confRev.isSome && c.confRev != some c.rev &&
  h ≤ c.wStart && c.wStart ≤ h + buf
/-- proofV2Contracts: INNER JOIN element, `confirmation_index IS NOT NULL AND resolution_index IS NULL AND proof_height <= h AND expiration_height > h` -/
def selProof2 (h : Nat) (c : Contract) : Bool :=
  c.ver = .v2 && c.confirmed && c.resH.isNone && c.confRev.isSome && c.wStart ≤ h && h < c.wEnd
/-- expireV2Contracts: INNER JOIN element, `resolution_index IS NULL AND expiration_height <= h` -/
def selExpire2 (h : Nat) (c : Contract) : Bool :=
  c.ver = .v2 && c.resH.isNone && c.confRev.isSome && c.wEnd ≤ h

def selIds (p : Contract → Bool) (cs : List Contract) : List Nat := (cs.filter p).map (·.id)

end Hostd.Chain

/-! ## per-contract event semantics (the projection of Apply/RevertContracts on one contract) -/
namespace Hostd.Chain

/-- what one block can do to one contract -/
inductive Ev where
  | form (rev : Nat)   -- formation confirmed (v2: revision number of the created element)
  | revise (n : Nat)   -- revision: `n` is the number to record — connecting a block: the new revision on
                       -- chain; disconnecting it: the revision that was on chain below the block
  | succ | renew | fail
deriving DecidableEq, Repr

def evApply (T : Table) (h : Nat) (c : Contract) : Ev → Except Fault Contract
  | .form r => fireC T .aForm h (if c.ver = .v2 then { c with confRev := some r } else c)
  | .revise n => .ok (setRev c n)
  | .succ => fireC T .aSucc h c
  | .renew => fireC T .aRenew h c
  | .fail => fireC T .aFail h c

def evRevert (T : Table) (h : Nat) (c : Contract) : Ev → Except Fault Contract
  | .form _ => fireC T .rForm h (if c.ver = .v2 then { c with confRev := none } else c)
  | .revise n => .ok (setRev c n)
  | .succ => fireC T .rSucc h c
  | .renew => fireC T .rRenew h c
  | .fail => fireC T .rFail h c

/-- the events of one block for one contract, in the order Apply/RevertContracts process them -/
def evsApply (T : Table) (h : Nat) (c : Contract) : List Ev → Except Fault Contract
  | [] => .ok c
  | e :: es => do
      let c1 ← evApply T h c e
      evsApply T h c1 es

def evsRevert (T : Table) (h : Nat) (c : Contract) : List Ev → Except Fault Contract
  | [] => .ok c
  | e :: es => do
      let c1 ← evRevert T h c e
      evsRevert T h c1 es

/-- RejectContracts as seen by one contract -/
def rejectC (T : Table) (height : Nat) (c : Contract) : Except Fault Contract :=
  if rejectSel c.ver height c then fireC T .reject 0 c else .ok c

/-- one block connected / disconnected, as seen by one contract (`[]`: the block does not touch it;
two events: a v2 contract revised by one transaction and resolved by another of the same block) -/
inductive HOp where
  | apply (h : Nat) (es : List Ev)
  | revert (h : Nat) (es : List Ev)
deriving DecidableEq, Repr

def stepH (T : Table) (rb : Nat) (c : Contract) : HOp → Except Fault Contract
  | .apply h es => do
      let c1 ← evsApply T h c es
      if h ≥ rb then rejectC T (h - rb) c1 else pure c1
  | .revert h es => evsRevert T h c es

/-- processing only the blocks of a chain, oldest first, without the rejection rule -/
def replaySpec (T : Table) (c0 : Contract) : List (Nat × List Ev) → Except Fault Contract
  | [] => .ok c0
  | (h, es) :: rest => do
      let c1 ← evsApply T h c0 es
      replaySpec T c1 rest

/-- the event is one consensus can emit for a contract whose chain state is `X` -/
def evValid (X : Contract) : Ev → Bool
  | .form _ => X.status == .pending
  | .revise _ => X.status == .active
  | .succ => X.status == .active
  | .fail => X.status == .active
  | .renew => X.status == .active && X.ver == .v2

/-- the events one block may carry for one contract: none, one, or — v2 only — a revision followed
by the resolution (storage proof or renewal) of the revised contract -/
def evsValid (X : Contract) : List Ev → Bool
  | [] => true
  | [e] => evValid X e
  | [.revise _, .succ] => X.status == .active && X.ver == .v2
  | [.revise _, .renew] => X.status == .active && X.ver == .v2
  | _ => false

/-- event `e'` of a disconnected block undoes event `e` the block was connected with on top of the
chain state `Xb`: the same kind of event; a revision carries the number recorded below the block -/
def evMatch (Xb : Contract) : Ev → Ev → Bool
  | .form _, .form _ => true
  | .revise _, .revise o => Xb.confRev == some o
  | .succ, .succ => true
  | .renew, .renew => true
  | .fail, .fail => true
  | _, _ => false

def evsMatch (Xb : Contract) : List Ev → List Ev → Bool
  | [], [] => true
  | e :: es, e' :: es' => evMatch Xb e e' && evsMatch Xb es es'
  | _, _ => false

end Hostd.Chain

namespace Hostd.Chain

/-- the revision number a list of (id, revision) pairs carries for contract `i` -/
def revFor (i : Nat) (xs : List (Nat × Nat)) : Option Nat := (xs.find? (·.1 == i)).map (·.2)

def evIf (b : Bool) (e : Ev) : List Ev := if b then [e] else []
def evOpt (o : Option Nat) (f : Nat → Ev) : List Ev :=
  match o with
  | some n => [f n]
  | none => []

/-- the events a block's changes carry for contract `(ver,id)`, in the order of the stages of
Apply/RevertContracts (the same function serves connected and disconnected blocks: a disconnected
block's revision entries carry the previous revision number) -/
def eventsFor (ver : Ver) (id : Nat) (ch : Changes) : List Ev :=
  match ver with
  | .v1 =>
    evIf (ch.form1.contains id) (.form 0) ++ evOpt (revFor id ch.rev1) .revise ++
    evIf (ch.succ1.contains id) .succ ++ evIf (ch.fail1.contains id) .fail
  | .v2 =>
    evOpt (revFor id ch.form2) .form ++ evOpt (revFor id ch.rev2) .revise ++
    evIf (ch.succ2.contains id) .succ ++ evIf (ch.renew2.contains id) .renew ++ evIf (ch.fail2.contains id) .fail

/-! ## well-formed blocks, stated through the per-contract events

`wfApplyP X ch`: on top of the best-chain state `X` the block `ch` carries, for every stored contract,
events consensus can emit for it (`evsValid`), mentions no contract twice in one list and only
contracts the host stores.  `wfRevertP Xb applied reverted`: the block `reverted` undoes the block
`applied` that was connected on top of `Xb`.  These are the hypotheses of the C01 theorems
(`Props/C01.lean`, `Props/C01G.lean`) and what the driver evaluates to classify a generated block. -/

def listsNodupB (ch : Changes) : Bool :=
  ch.form1.Nodup && (ch.rev1.map (·.1)).Nodup && ch.succ1.Nodup && ch.fail1.Nodup &&
  (ch.form2.map (·.1)).Nodup && (ch.rev2.map (·.1)).Nodup && ch.succ2.Nodup && ch.renew2.Nodup && ch.fail2.Nodup

def idsExist (X : State) (ch : Changes) : Bool :=
  (ids1 ch).all (fun i => (findC .v1 i X.cs).isSome) && (ids2 ch).all (fun i => (findC .v2 i X.cs).isSome)

def wfApplyP (X : State) (ch : Changes) : Bool :=
  listsNodupB ch && idsExist X ch && X.cs.all (fun c => evsValid c (eventsFor c.ver c.id ch))

def wfRevertP (Xb : State) (applied reverted : Changes) : Bool :=
  listsNodupB reverted && idsExist Xb reverted &&
  Xb.cs.all (fun c => evsMatch c (eventsFor c.ver c.id applied) (eventsFor c.ver c.id reverted))

end Hostd.Chain
