/-
Model of hostd's sector storage (engine `volumes`, properties C08 and C02). Core Lean only.

Metadata layer (C08) — transcription of
  persist/sqlite/volumes.go   StoreSector (both transactions), MigrateSectors, AddVolume, GrowVolume,
                              ShrinkVolume, RemoveVolume (batchRemoveVolumeSectors), SetReadOnly,
                              SetAvailable, emptyLocation, emptyLocationForMigration
  persist/sqlite/sectors.go   RemoveSector, AddTempSector, AddTemporarySectors, ExpireTempSectors,
                              PruneSectors, incrementVolumeUsage
  persist/sqlite/contracts.go ReviseContract (append/trim/update/swap), ReviseV2Contract,
                              ExpireContractSectors, ExpireV2ContractSectors
  persist/sqlite/metrics.go   incrementNumericStat (panics when a counter would become negative)

Data layer (C02) — host/storage/storage.go + volume.go: writeSector, ReadSector (cache first),
  readLocation, migrateSector, Sync, RemoveSector, ResizeVolume/RemoveVolume orchestration, the LRU
  sector cache (which stores and returns the *caller's pointer*), and process death.

Tables are lists; a volume's slot table is `List Slot` (position = `volume_index`, so
UNIQUE(volume_id, volume_index) is structural). Choices the property does not constrain (which empty
slot `emptyLocation` returns, the row id SQLite assigns to a volume) are ORACLE arguments: the harness
reports what the implementation chose, the model validates eligibility (`Res.badOracle` otherwise).

Ghost fields (no counterpart in the code, used to state the theorems): `fresh`, `unsynced`, `lostNow`.
-/
namespace Hostd.Volumes

abbrev SectorId := Nat
abbrev BufId := Nat

/-- What a 4 MiB region holds, up to what the property can tell apart. -/
inductive Content where
  | zero
  | garbage
  | dataOf (r : SectorId)
deriving DecidableEq, Repr, Inhabited

/-- One row of `volume_sectors` plus the bytes at `volume_index * SectorSize` of the volume file. -/
structure Slot where
  sec     : Option SectorId := none   -- volume_sectors.sector_id
  content : Content := .zero          -- file content
  durable : Bool := true              -- content has been fsynced
deriving DecidableEq, Repr

/-- One row of `storage_volumes` with its `volume_sectors` rows. -/
structure Volume where
  id        : Nat
  total     : Nat := 0       -- total_sectors
  used      : Nat := 0       -- used_sectors
  readOnly  : Bool := false
  available : Bool := false
  slots     : List Slot := []
deriving DecidableEq, Repr

inductive S1 where
  | pending | rejected | active | successful | failed
deriving DecidableEq, Repr

inductive S2 where
  | pending | rejected | active | renewed | successful | failed
deriving DecidableEq, Repr

/-- v1 contract: `contracts` row (status, window_end) with its `contract_sector_roots`. -/
structure C1 where
  id     : Nat
  status : S1 := .pending
  wEnd   : Nat
  roots  : List SectorId := []
deriving DecidableEq, Repr

/-- v2 contract: `contracts_v2` row (status, expiration_height) with its `contract_v2_sector_roots`. -/
structure C2 where
  id     : Nat
  status : S2 := .pending
  expH   : Nat
  roots  : List SectorId := []
deriving DecidableEq, Repr

/-- `temp_storage_sector_roots` row. -/
structure Temp where
  sec : SectorId
  exp : Nat
deriving DecidableEq, Repr

/-- `host_stats`: totalSectors, physicalSectors, contractSectors, tempSectors, lostSectors. -/
structure Metrics where
  total    : Nat := 0
  physical : Nat := 0
  contract : Nat := 0
  temp     : Nat := 0
  lost     : Nat := 0
deriving DecidableEq, Repr

/-- A `StoreSector` call between its first transaction (slot committed) and the end of `fn`. -/
structure Pending where
  w   : Nat
  r   : SectorId
  v   : Nat
  i   : Nat
  buf : BufId
deriving DecidableEq, Repr

/-- How the bound "rejected" parameter of the two contract-expiry queries is typed.
`contracts.contract_status` is INTEGER, `contracts_v2.contract_status` is TEXT; SQLite compares an
INTEGER parameter with a TEXT column as text ('1' vs 'rejected': never equal) and a word with an
INTEGER column as unequal. -/
inductive RejParam where
  | v1const        -- contracts.ContractStatusRejected (uint8 1)
  | v2const        -- contracts.V2ContractStatusRejected ("rejected")
deriving DecidableEq, Repr

structure Facts where
  rej1 : RejParam     -- parameter $2 of deleteExpiredContractSectors
  rej2 : RejParam     -- parameter $2 of deleteExpiredV2ContractSectors
  /-- the sector cache holds private copies: `writeSector` / `readLocation` cache a copy and a cache hit
  returns a copy (false: the cache stores and returns the callers' pointers) -/
  cacheCopies : Bool := false
  /-- `StoreSector`'s rollback is `… WHERE id=$1 AND sector_id=$2` and only decrements the usage when
  a row was affected (false: unconditional) -/
  rollbackChecked : Bool := false
  /-- `VolumeManager.Sync` is serialised and clears a volume's dirty flag BEFORE the fsync (false: fsync,
  then `delete(vm.changedVolumes, id)`, not serialised) -/
  syncSerial : Bool := false
  /-- `ResizeVolume` reads the volume's size after it has set the `resizing` status, under the manager's
  mutex (false: before the status check, so a second resize can start from a stale total) -/
  resizeStatLocked : Bool := false
  /-- when an fsync fails, `Sync` leaves the dirty flags of the volumes it has not reached yet set
  (false: it took the whole set of flags up front and only re-flags the failing volume) -/
  syncKeepsRest : Bool := true
  /-- a forced `batchRemoveVolumeSectors` also lowers `used_sectors` by the occupied rows it deleted
  (false: only the physical-sector metric is lowered; harmless once the volume row is gone, visible when
  the removal stops between two batches) -/
  removeUpdatesUsed : Bool := false
deriving DecidableEq, Repr

/-- the tree as it is now (after fix 039186a) -/
def Facts.code : Facts := { rej1 := .v1const, rej2 := .v2const }
/-- the tree before the fix: both queries bound the v1 integer constant -/
def Facts.beforeFix : Facts := { rej1 := .v1const, rej2 := .v1const }
/-- the tree with the proposed repairs of the cache aliasing and of the rollback double decrement -/
def Facts.fixed : Facts := { rej1 := .v1const, rej2 := .v2const, cacheCopies := true, rollbackChecked := true }
/-- … plus the proposed repairs of `Sync` and `ResizeVolume` -/
def Facts.fixed2 : Facts := { Facts.fixed with syncSerial := true, resizeStatLocked := true }

def Facts.match1 (f : Facts) (s : S1) : Bool :=
  match f.rej1 with
  | .v1const => s == .rejected
  | .v2const => false
def Facts.match2 (f : Facts) (s : S2) : Bool :=
  match f.rej2 with
  | .v2const => s == .rejected
  | .v1const => false

structure State where
  -- database (every field below is committed state)
  vols    : List Volume := []
  stored  : List SectorId := []        -- stored_sectors (rows are never deleted)
  c1      : List C1 := []
  c2      : List C2 := []
  temps   : List Temp := []
  m       : Metrics := {}
  recent  : List SectorId := []        -- last_access_timestamp ≥ the prune cut-off (accessed since the last `tick`)
  -- process memory of the VolumeManager
  heap      : List Content := []       -- sector buffers (index = buffer identity / pointer)
  cache     : List (SectorId × BufId) := []   -- LRU, most recent first; values are POINTERS
  cacheSize : Nat := 0
  changed   : List Nat := []           -- changedVolumes (per-volume dirty flag)
  syncer    : Option (List Nat) := none  -- a running Sync(): the volumes it still has to handle
  inflight  : List Nat := []           -- volumes a running Sync() is in the middle of (between its two phases)
  pending   : List Pending := []       -- writers inside StoreSector's fn
  -- ghost
  fresh    : List SectorId := []       -- acknowledged to a writer since the last tick / crash and still located
  unsynced : List SectorId := []       -- data written since the last Sync / restart
  lostNow  : List SectorId := []       -- location dropped at some point by a forced removal / RemoveSector
deriving Repr

inductive Res where
  | ok
  | exist                      -- StoreSector fast path: root already has a location, nil without calling fn
  | placed (v i : Nat)
  | buf (b : BufId)
  | migrated (ok failed : Nat)
  | notEnoughStorage
  | sectorNotFound
  | volumeNotEmpty
  | volumeNotFound
  | migrationFailed
  | error (why : String)
  | panic (why : String)
  | badOracle (why : String)
deriving DecidableEq, Repr

/-! ### list primitives -/

def modAt {α : Type} (i : Nat) (f : α → α) : List α → List α
  | [] => []
  | x :: xs => match i with
    | 0 => f x :: xs
    | j + 1 => x :: modAt j f xs

def addNew (a : Nat) (l : List Nat) : List Nat := if l.contains a then l else a :: l

def updVol (id : Nat) (g : Volume → Volume) (vs : List Volume) : List Volume :=
  vs.map fun v => if v.id = id then g v else v

def findVol (id : Nat) : List Volume → Option Volume
  | [] => none
  | v :: vs => if v.id = id then some v else findVol id vs

def modSlot (v i : Nat) (f : Slot → Slot) (vs : List Volume) : List Volume :=
  updVol v (fun vol => { vol with slots := modAt i f vol.slots }) vs

def slotAt (vs : List Volume) (v i : Nat) : Option Slot :=
  match findVol v vs with
  | none => none
  | some vol => vol.slots[i]?

def setSec (x : Option SectorId) (sl : Slot) : Slot := { sl with sec := x }

def isOcc (sl : Slot) : Bool := sl.sec.isSome
def isFree (sl : Slot) : Bool := sl.sec.isNone
def holds (r : SectorId) (sl : Slot) : Bool := sl.sec == some r

/-- number of occupied slots of a slot table -/
def occ (sl : List Slot) : Nat := sl.countP isOcc

def sumBy (g : Volume → Nat) : List Volume → Nat
  | [] => 0
  | v :: vs => g v + sumBy g vs

/-- number of slots holding `r` over all volumes (UNIQUE(sector_id) ⇒ ≤ 1) -/
def cnt (vs : List Volume) (r : SectorId) : Nat := sumBy (fun v => v.slots.countP (holds r)) vs

def located (vs : List Volume) (r : SectorId) : Bool := vs.any fun v => v.slots.any (holds r)

def idxOf (r : SectorId) : List Slot → Nat → Option Nat
  | [], _ => none
  | x :: xs, k => if holds r x then some k else idxOf r xs (k + 1)

/-- `sectorLocation`: the slot holding `r` -/
def findLoc : List Volume → SectorId → Option (Nat × Nat)
  | [], _ => none
  | v :: vs, r => match idxOf r v.slots 0 with
    | some i => some (v.id, i)
    | none => findLoc vs r

/-- `emptyLocation`'s WHERE clause: `sv.available=true AND sv.read_only=false` -/
def writable (v : Volume) : Bool := v.available && !v.readOnly
def hasFree (v : Volume) : Bool := v.slots.any isFree
/-- `emptyLocation` finds a row -/
def hasEligible (vs : List Volume) : Bool := vs.any fun v => writable v && hasFree v
/-- `(v, i)` is a row `emptyLocation` may return -/
def eligibleAt (vs : List Volume) (v i : Nat) : Bool :=
  match findVol v vs with
  | none => false
  | some vol => writable vol && (match vol.slots[i]? with
      | some sl => isFree sl
      | none => false)

def refd1 (s : State) (r : SectorId) : Bool := s.c1.any fun c => c.roots.contains r
def refd2 (s : State) (r : SectorId) : Bool := s.c2.any fun c => c.roots.contains r
def refdT (s : State) (r : SectorId) : Bool := s.temps.any fun t => t.sec == r
/-- `HasSector`: some contract (v1, v2) or temp row references `r` -/
def referenced (s : State) (r : SectorId) : Bool := refd1 s r || refd2 s r || refdT s r

/-! ### volumes -/

/-- `AddVolume` (`addVolume`): id chosen by SQLite (oracle), `available` defaults to false. -/
def addVolume (s : State) (id : Nat) (ro : Bool) : State × Res :=
  if (findVol id s.vols).isSome then (s, .badOracle "volume id in use")
  else ({ s with vols := s.vols ++ [{ id := id, readOnly := ro }] }, .ok)

/-- `GrowVolume` / `growVolume` -/
def grow (s : State) (v n : Nat) : State × Res :=
  if n = 0 then (s, .panic "maxSectors must be greater than 0") else
  match findVol v s.vols with
  | none => (s, .error "failed to get last volume index")
  | some vol =>
    if vol.total ≥ n then (s, .ok)
    else
      ({ s with
          vols := updVol v (fun x => { x with slots := x.slots ++ List.replicate (n - x.total) {}, total := n }) s.vols
          m := { s.m with total := s.m.total + (n - vol.total) } }, .ok)

/-- `ShrinkVolume` -/
def shrink (s : State) (v n : Nat) : State × Res :=
  if n = 0 then (s, .panic "maxSectors must be greater than 0") else
  match findVol v s.vols with
  | none => (s, .error "failed to get volume size")
  | some vol =>
    if occ (vol.slots.drop n) ≠ 0 then (s, .volumeNotEmpty)
    else if n > vol.total then (s, .panic "maxSectors must be less than totalSectors")
    else if s.m.total < vol.total - n then (s, .panic "negative stat value: totalSectors")
    else
      ({ s with
          vols := updVol v (fun x => { x with slots := x.slots.take n, total := n }) s.vols
          m := { s.m with total := s.m.total - (vol.total - n) } }, .ok)

def occList (sl : List Slot) : List SectorId := sl.filterMap (·.sec)

/-- `Store.RemoveVolume` (all batches of `batchRemoveVolumeSectors`, then the volume row) -/
def removeVolume (s : State) (v : Nat) (force : Bool) : State × Res :=
  match findVol v s.vols with
  | none => (s, .volumeNotFound)
  | some vol =>
    let lost := occ vol.slots
    if !force && lost > 0 then (s, .volumeNotEmpty)
    else if s.m.physical < lost then (s, .panic "negative stat value: physicalSectors")
    else if s.m.total < vol.slots.length then (s, .panic "negative stat value: totalSectors")
    else
      ({ s with
          vols := s.vols.filter (fun x => x.id != v)
          m := { s.m with physical := s.m.physical - lost, lost := s.m.lost + lost
                          total := s.m.total - vol.slots.length }
          fresh := s.fresh.filter (fun r => !(occList vol.slots).contains r)
          lostNow := occList vol.slots ++ s.lostNow }, .ok)

/-! ### the batched loops, one transaction at a time

`RemoveVolume`, the three expiry loops and `PruneSectors` work in batches of `sqlSectorBatchSize` rows, one
transaction each, with a pause in between; `MigrateSectors` commits per sector. A crash, a cancelled
context, an error or a concurrent writer can stop them between two transactions. Which rows a batch
takes (`… LIMIT $n` without an order) is the implementation's choice: oracle. -/

/-- rows at the positions in `gone` taken out of a slot table: (kept, removed) -/
def splitIdx (gone : List Nat) : List Slot → Nat → List Slot × List Slot
  | [], _ => ([], [])
  | x :: xs, k =>
    let r := splitIdx gone xs (k + 1)
    if gone.contains k then (r.1, x :: r.2) else (x :: r.1, r.2)

/-- one `batchRemoveVolumeSectors(id, force)` transaction that deleted the rows at positions `gone` -/
def removeRows (f : Facts) (s : State) (v : Nat) (force : Bool) (gone : List Nat) : State × Res :=
  match findVol v s.vols with
  | none => (s, .ok)                      -- no rows, nothing updated
  | some vol =>
    if !force && occ vol.slots > 0 then (s, .volumeNotEmpty)
    else
      let kept := (splitIdx gone vol.slots 0).1
      let removed := (splitIdx gone vol.slots 0).2
      let lost := occ removed
      if s.m.physical < lost then (s, .panic "negative stat value: physicalSectors")
      else if s.m.total < removed.length then (s, .panic "negative stat value: totalSectors")
      else
        ({ s with
            vols := updVol v (fun x => { x with slots := kept, total := x.total - removed.length
                                                used := if f.removeUpdatesUsed then x.used - lost else x.used }) s.vols
            m := { s.m with physical := s.m.physical - lost, lost := s.m.lost + lost, total := s.m.total - removed.length }
            fresh := s.fresh.filter (fun r => !(occList removed).contains r)
            lostNow := occList removed ++ s.lostNow }, .ok)

def setReadOnly (s : State) (v : Nat) (b : Bool) : State :=
  { s with vols := updVol v (fun x => { x with readOnly := b }) s.vols }

def setAvailable (s : State) (v : Nat) (b : Bool) : State :=
  { s with vols := updVol v (fun x => { x with available := b }) s.vols }

/-! ### StoreSector -/

def placeAt (vs : List Volume) (v i : Nat) (r : SectorId) : List Volume :=
  updVol v (fun x => { x with slots := modAt i (setSec (some r)) x.slots, used := x.used + 1 }) vs

def clearAt (vs : List Volume) (v i : Nat) : List Volume :=
  updVol v (fun x => { x with slots := modAt i (setSec none) x.slots, used := x.used - 1 }) vs

def cacheGet (r : SectorId) : List (SectorId × BufId) → Option BufId
  | [] => none
  | (k, b) :: rest => if k = r then some b else cacheGet r rest

/-- `lru.Cache.Add` -/
def cacheAdd (size : Nat) (r : SectorId) (b : BufId) (c : List (SectorId × BufId)) : List (SectorId × BufId) :=
  ((r, b) :: c.filter (fun e => e.1 != r)).take size

def cacheRemove (r : SectorId) (c : List (SectorId × BufId)) : List (SectorId × BufId) :=
  c.filter (fun e => e.1 != r)

/-- First transaction of `StoreSector(root, fn)` for writer `w` holding buffer `b`:
`insertSectorDBID`, `sectorLocation` (fast path `exists`), `emptyLocation`, slot update,
`incrementVolumeUsage(+1)`. `ch` is where the implementation put the sector (oracle). -/
def reserve (s : State) (w : Nat) (r : SectorId) (b : BufId) (ch : Option (Nat × Nat)) : State × Res :=
  if s.pending.any (fun p => p.w == w) then (s, .badOracle "writer busy")
  else if located s.vols r then
    ({ s with stored := addNew r s.stored, recent := r :: s.recent, fresh := r :: s.fresh }, .exist)
  else if !hasEligible s.vols then (s, .notEnoughStorage)
  else match ch with
    | none => (s, .badOracle "no location reported")
    | some (v, i) =>
      if !eligibleAt s.vols v i then (s, .badOracle "ineligible location")
      else
        ({ s with
            vols := placeAt s.vols v i r
            stored := addNew r s.stored
            recent := r :: s.recent
            m := { s.m with physical := s.m.physical + 1 }
            pending := ⟨w, r, v, i, b⟩ :: s.pending }, .placed v i)

def findPending (w : Nat) : List Pending → Option Pending
  | [] => none
  | p :: ps => if p.w = w then some p else findPending w ps

def syncVol (v : Nat) (vs : List Volume) : List Volume :=
  updVol v (fun x => { x with slots := x.slots.map fun sl => { sl with durable := true } }) vs

/-- End of `StoreSector` for writer `w`: `fn` wrote the buffer (`ok`), or failed and the second
transaction rolls the slot back (`UPDATE volume_sectors SET sector_id=null WHERE id=$1` and
`incrementVolumeUsage(-1)`, both unconditional). -/
def finish (s : State) (w : Nat) (ok : Bool) : State × Res :=
  match findPending w s.pending with
  | none => (s, .badOracle "no such writer")
  | some p =>
    let s0 := { s with pending := s.pending.filter (fun q => q.w != w) }
    match findVol p.v s0.vols with
    | none => (s0, .error "volume not found; rollback failed")
    | some vol =>
      if ok then
        match s.heap[p.buf]? with
        | none => (s0, .badOracle "unknown buffer")
        | some c =>
          ({ s0 with
              vols := modSlot p.v p.i (fun sl => { sl with content := c, durable := false }) s0.vols
              cache := cacheAdd s.cacheSize p.r p.buf s.cache
              changed := addNew p.v s.changed
              fresh := p.r :: s.fresh
              unsynced := p.r :: s.unsynced }, .ok)
      else if vol.used = 0 then (s0, .panic "volume usage is negative")
      else if s0.m.physical = 0 then (s0, .panic "negative stat value: physicalSectors")
      else
        ({ s0 with vols := clearAt s0.vols p.v p.i
                   m := { s0.m with physical := s0.m.physical - 1 } }, .error "data write failed")

/-! ### references -/

inductive Change where
  | append (r : SectorId)
  | trim (n : Nat)
  | update (i : Nat) (r : SectorId)
  | swap (i j : Nat)
deriving DecidableEq, Repr

/-- result of replaying one sector change of `ReviseContract` -/
inductive ChRes where
  | ok (roots : List SectorId)
  | err
  | panic     -- Go index out of range: `roots[change.A]` after `swapSectors` returned early for A = B
deriving DecidableEq, Repr

def applyChange (stored : List SectorId) (roots : List SectorId) : Change → ChRes
  | .append r => if stored.contains r then .ok (roots ++ [r]) else .err
  | .trim n => if n ≤ roots.length then .ok (roots.take (roots.length - n)) else .err
  | .update i r => if i < roots.length ∧ stored.contains r then .ok (roots.set i r) else .err
  | .swap i j =>
    if i = j then (if i < roots.length then .ok roots else .panic)
    else match roots[i]?, roots[j]? with
      | some a, some b => .ok ((roots.set i b).set j a)
      | _, _ => .err

def applyChanges (stored : List SectorId) : List SectorId → List Change → ChRes
  | roots, [] => .ok roots
  | roots, c :: cs => match applyChange stored roots c with
    | .ok roots' => applyChanges stored roots' cs
    | other => other

def findC1 (id : Nat) : List C1 → Option C1
  | [] => none
  | c :: cs => if c.id = id then some c else findC1 id cs
def findC2 (id : Nat) : List C2 → Option C2
  | [] => none
  | c :: cs => if c.id = id then some c else findC2 id cs

def sumLen1 (cs : List C1) : Nat := match cs with
  | [] => 0
  | c :: cs => c.roots.length + sumLen1 cs
def sumLen2 (cs : List C2) : Nat := match cs with
  | [] => 0
  | c :: cs => c.roots.length + sumLen2 cs

def setRoots1 (id : Nat) (roots : List SectorId) (cs : List C1) : List C1 :=
  cs.map fun c => if c.id = id then { c with roots := roots } else c
def setRoots2 (id : Nat) (roots : List SectorId) (cs : List C2) : List C2 :=
  cs.map fun c => if c.id = id then { c with roots := roots } else c

/-- `ReviseContract(revision, roots, usage, sectorChanges)`: all-or-nothing -/
def revise1 (s : State) (c : Nat) (chs : List Change) : State × Res :=
  match findC1 c s.c1 with
  | none => (s, .error "failed to update contract")
  | some con =>
    match applyChanges s.stored con.roots chs with
    | .err => (s, .error "failed to apply sector change")
    | .panic => (s, .panic "index out of range")
    | .ok roots' =>
      if s.m.contract + roots'.length < con.roots.length then (s, .panic "negative stat value: contractSectors")
      else
        ({ s with c1 := setRoots1 c roots' s.c1
                  m := { s.m with contract := s.m.contract + roots'.length - con.roots.length } }, .ok)

/-- roots `updateV2ContractSectors` looks up in `stored_sectors` (positions that differ from the old list) -/
def needLookup : List SectorId → List SectorId → List SectorId
  | _, [] => []
  | [], n :: ns => n :: needLookup [] ns
  | o :: os, n :: ns => if o = n then needLookup os ns else n :: needLookup os ns

/-- `ReviseV2Contract(id, revision, oldRoots, newRoots, usage)` with `oldRoots` = the stored list -/
def revise2 (s : State) (c : Nat) (newRoots : List SectorId) : State × Res :=
  match findC2 c s.c2 with
  | none => (s, .error "failed to update contract")
  | some con =>
    if !(needLookup con.roots newRoots).all (fun r => s.stored.contains r) then (s, .error "failed to get sector ID")
    else if s.m.contract + newRoots.length < con.roots.length then (s, .panic "negative stat value: contractSectors")
    else
      ({ s with c2 := setRoots2 c newRoots s.c2
                m := { s.m with contract := s.m.contract + newRoots.length - con.roots.length } }, .ok)

/-- `AddTempSector`: the sector must have a location -/
def addTemp (s : State) (r : SectorId) (exp : Nat) : State × Res :=
  if !located s.vols r then (s, .sectorNotFound)
  else ({ s with temps := s.temps ++ [⟨r, exp⟩], m := { s.m with temp := s.m.temp + 1 } }, .ok)

/-- `AddTemporarySectors` (deprecated, used by RHP3): only needs the `stored_sectors` rows -/
def addTemps (s : State) (l : List Temp) : State × Res :=
  if !l.all (fun t => s.stored.contains t.sec) then (s, .error "failed to add temp sector root")
  else ({ s with temps := s.temps ++ l, m := { s.m with temp := s.m.temp + l.length } }, .ok)

def addC1 (s : State) (id wEnd : Nat) : State × Res :=
  if (findC1 id s.c1).isSome then (s, .badOracle "contract id in use")
  else ({ s with c1 := s.c1 ++ [{ id := id, wEnd := wEnd }] }, .ok)
def addC2 (s : State) (id expH : Nat) : State × Res :=
  if (findC2 id s.c2).isSome then (s, .badOracle "contract id in use")
  else ({ s with c2 := s.c2 ++ [{ id := id, expH := expH }] }, .ok)

/-- contract status changes are the chain engine's business (C01/C06); here they are inputs -/
def setStatus1 (s : State) (id : Nat) (st : S1) : State :=
  { s with c1 := s.c1.map fun c => if c.id = id then { c with status := st } else c }
def setStatus2 (s : State) (id : Nat) (st : S2) : State :=
  { s with c2 := s.c2.map fun c => if c.id = id then { c with status := st } else c }

/-! ### expiry and prune -/

/-- WHERE clause of `deleteExpiredContractSectors`: `c.window_end < $1 OR c.contract_status=$2` -/
def dead1 (f : Facts) (h : Nat) (c : C1) : Bool := decide (c.wEnd < h) || f.match1 c.status
/-- WHERE clause of `deleteExpiredV2ContractSectors`: `c.expiration_height < $1 OR c.contract_status=$2` -/
def dead2 (f : Facts) (h : Nat) (c : C2) : Bool := decide (c.expH < h) || f.match2 c.status
/-- WHERE clause of `deleteTempSectors`: `expiration_height <= $1` -/
def deadT (h : Nat) (t : Temp) : Bool := decide (t.exp ≤ h)

def expire1 (f : Facts) (s : State) (h : Nat) : State × Res :=
  let removed := sumLen1 (s.c1.filter (dead1 f h))
  if s.m.contract < removed then (s, .panic "negative stat value: contractSectors")
  else ({ s with c1 := s.c1.map (fun c => if dead1 f h c then { c with roots := [] } else c)
                 m := { s.m with contract := s.m.contract - removed } }, .ok)

def expire2 (f : Facts) (s : State) (h : Nat) : State × Res :=
  let removed := sumLen2 (s.c2.filter (dead2 f h))
  if s.m.contract < removed then (s, .panic "negative stat value: contractSectors")
  else ({ s with c2 := s.c2.map (fun c => if dead2 f h c then { c with roots := [] } else c)
                 m := { s.m with contract := s.m.contract - removed } }, .ok)

def expireTemp (s : State) (h : Nat) : State × Res :=
  let removed := (s.temps.filter (deadT h)).length
  if s.m.temp < removed then (s, .panic "negative stat value: tempSectors")
  else ({ s with temps := s.temps.filter (fun t => !deadT h t)
                 m := { s.m with temp := s.m.temp - removed } }, .ok)

/-- time passes beyond the prune interval: no sector counts as recently accessed any more -/
def tick (s : State) : State := { s with recent := [], fresh := [] }

/-- WHERE clause of `updatePruneableVolumeSectors` for the sector of a slot -/
def prunable (s : State) (r : SectorId) : Bool := !referenced s r && !s.recent.contains r

def pruneSlot (s : State) (sl : Slot) : Slot :=
  match sl.sec with
  | some r => if prunable s r then { sl with sec := none } else sl
  | none => sl

def pruneVol (s : State) (v : Volume) : Volume :=
  let sl' := v.slots.map (pruneSlot s)
  { v with slots := sl', used := v.used - (occ v.slots - occ sl') }

def prunedIn (s : State) (v : Volume) : Nat := occ v.slots - occ (v.slots.map (pruneSlot s))

/-- `PruneSectors(ctx, cutoff)` (all batches) -/
def prune (s : State) : State × Res :=
  if s.vols.any (fun v => v.used < prunedIn s v) then (s, .panic "volume usage is negative")
  else if s.m.physical < sumBy (prunedIn s) s.vols then (s, .panic "negative stat value: physicalSectors")
  else ({ s with vols := s.vols.map (pruneVol s)
                 m := { s.m with physical := s.m.physical - sumBy (prunedIn s) s.vols } }, .ok)

/-- new root list of a contract after a partial expiry, as observed -/
def keptRoots (keep : List (Nat × List SectorId)) (id : Nat) (roots : List SectorId) : List SectorId :=
  match keep.find? (fun e => e.1 == id) with
  | some e => e.2
  | none => roots

/-- some batches of `ExpireContractSectors(h)`: rows of dead contracts deleted, `keep` = what is left -/
def expire1Part (f : Facts) (s : State) (h : Nat) (keep : List (Nat × List SectorId)) : State × Res :=
  let c1' := s.c1.map fun c => { c with roots := keptRoots keep c.id c.roots }
  if !s.c1.all (fun c => (keptRoots keep c.id c.roots).length ≤ c.roots.length &&
        (keptRoots keep c.id c.roots).all (fun r => c.roots.contains r) &&
        (dead1 f h c || keptRoots keep c.id c.roots == c.roots)) then (s, .badOracle "not a partial expiry")
  else if s.m.contract < sumLen1 s.c1 - sumLen1 c1' then (s, .panic "negative stat value: contractSectors")
  else ({ s with c1 := c1', m := { s.m with contract := s.m.contract - (sumLen1 s.c1 - sumLen1 c1') } }, .ok)

def expire2Part (f : Facts) (s : State) (h : Nat) (keep : List (Nat × List SectorId)) : State × Res :=
  let c2' := s.c2.map fun c => { c with roots := keptRoots keep c.id c.roots }
  if !s.c2.all (fun c => (keptRoots keep c.id c.roots).length ≤ c.roots.length &&
        (keptRoots keep c.id c.roots).all (fun r => c.roots.contains r) &&
        (dead2 f h c || keptRoots keep c.id c.roots == c.roots)) then (s, .badOracle "not a partial expiry")
  else if s.m.contract < sumLen2 s.c2 - sumLen2 c2' then (s, .panic "negative stat value: contractSectors")
  else ({ s with c2 := c2', m := { s.m with contract := s.m.contract - (sumLen2 s.c2 - sumLen2 c2') } }, .ok)

/-- some batches of `ExpireTempSectors(h)`: `keep` = the rows that are left -/
def expireTempPart (s : State) (h : Nat) (keep : List Temp) : State × Res :=
  if !(keep.length ≤ s.temps.length && keep.all (fun t => s.temps.contains t) &&
        (s.temps.filter (fun t => !deadT h t)).all (fun t => keep.contains t)) then (s, .badOracle "not a partial expiry")
  else if s.m.temp < s.temps.length - keep.length then (s, .panic "negative stat value: tempSectors")
  else ({ s with temps := keep, m := { s.m with temp := s.m.temp - (s.temps.length - keep.length) } }, .ok)

/-- some batches of `PruneSectors`: the slots in `cleared` were released, one by one -/
def prunePart (s : State) : List (Nat × Nat) → State × Res
  | [] => (s, .ok)
  | (v, i) :: rest =>
    match slotAt s.vols v i, findVol v s.vols with
    | some sl, some vol =>
      match sl.sec with
      | some r =>
        if !prunable s r then (s, .badOracle "pruned a slot that is referenced or recent")
        else if vol.used = 0 then (s, .panic "volume usage is negative")
        else if s.m.physical = 0 then (s, .panic "negative stat value: physicalSectors")
        else prunePart { s with vols := clearAt s.vols v i, m := { s.m with physical := s.m.physical - 1 } } rest
      | none => (s, .badOracle "pruned an empty slot")
    | _, _ => (s, .badOracle "no such slot")

/-! ### RemoveSector -/

def zeroSlot (sl : Slot) : Slot := { sl with content := .zero, durable := true }

/-- `VolumeManager.RemoveSector` (`data = true`: also zero + fsync + cache eject) /
`Store.RemoveSector` (`data = false`) -/
def removeSector (s : State) (r : SectorId) (data : Bool) : State × Res :=
  if !s.stored.contains r then (s, .sectorNotFound) else
  let s := { s with recent := r :: s.recent }
  match findLoc s.vols r with
  | none => (s, .sectorNotFound)
  | some (v, i) =>
    match findVol v s.vols with
    | none => (s, .error "volume row missing")
    | some vol =>
      if vol.used = 0 then (s, .panic "volume usage is negative")
      else if s.m.physical = 0 then (s, .panic "negative stat value: physicalSectors")
      else
        let vs := clearAt s.vols v i
        let vs := if data then syncVol v (modSlot v i zeroSlot vs) else vs
        ({ s with vols := vs
                  m := { s.m with physical := s.m.physical - 1, lost := s.m.lost + 1 }
                  cache := if data then cacheRemove r s.cache else s.cache
                  fresh := s.fresh.filter (fun x => x != r)
                  lostNow := r :: s.lostNow }, .ok)

/-! ### migration -/

/-- what the implementation's `migrateFn` saw for one sector (oracle) and how the harness meddled:
`inj = 0` untouched, `1` fail before the copy, `2` fail after copy+sync -/
structure Move where
  fromI : Nat
  toV   : Nat
  toI   : Nat
  inj   : Nat
  ok    : Bool
deriving DecidableEq, Repr

/-- lowest occupied index ≥ `cursor` (`ORDER BY vs.volume_index ASC LIMIT 1`) -/
def nextOcc : List Slot → Nat → Nat → Option (Nat × SectorId)
  | [], _, _ => none
  | x :: xs, k, c =>
    if k ≥ c then
      match x.sec with
      | some r => some (k, r)
      | none => nextOcc xs (k + 1) c
    else nextOcc xs (k + 1) c

def freeBelow (sl : List Slot) (n : Nat) : Bool := (sl.take n).any isFree

/-- `emptyLocationForMigration(tx, volumeID, startIndex)` finds a row -/
def canPlace (vs : List Volume) (v start : Nat) : Bool :=
  hasEligible vs || (decide (start > 0) && (match findVol v vs with
    | some vol => freeBelow vol.slots start
    | none => false))

/-- `(tv, ti)` is a row `emptyLocationForMigration` may return -/
def validTo (vs : List Volume) (v start tv ti : Nat) : Bool :=
  if hasEligible vs then eligibleAt vs tv ti
  else decide (start > 0) && decide (tv = v) && decide (ti < start) && (match slotAt vs v ti with
    | some sl => isFree sl
    | none => false)

/-- the two slot updates + `incrementVolumeUsage` pair of a successful migration -/
def moveMeta (vs : List Volume) (v i tv ti : Nat) (r : SectorId) : List Volume :=
  if v = tv then
    updVol v (fun x => { x with slots := modAt ti (setSec (some r)) (modAt i (setSec none) x.slots) }) vs
  else placeAt (clearAt vs v i) tv ti r

/-- `migrateSector(from, to)` + the metadata swap for one sector -/
def moveOne (s : State) (v i : Nat) (r : SectorId) (mv : Move) : State × Bool :=
  if mv.inj = 1 then (s, false) else
  match slotAt s.vols v i with
  | none => (s, false)
  | some sl =>
    -- readLocation: fresh buffer with the disk content, cached under the root
    let b := s.heap.length
    let s := { s with heap := s.heap ++ [sl.content], cache := cacheAdd s.cacheSize r b s.cache }
    if sl.content ≠ .dataOf r then (s, false)        -- "sector corrupt"
    else
      -- WriteSector + Sync of the target volume
      let vs := syncVol mv.toV (modSlot mv.toV mv.toI (fun x => { x with content := sl.content, durable := false }) s.vols)
      let s := { s with vols := vs }
      if mv.inj = 2 then (s, false)
      else ({ s with vols := moveMeta s.vols v i mv.toV mv.toI r }, true)

/-- `MigrateSectors(ctx, v, start, fn)` driven by the list of callbacks the implementation made -/
def migrateGo (s : State) (v start : Nat) : Nat → Nat → Nat → List Move → State × Res
  | cursor, nOk, nFail, [] =>
    match findVol v s.vols with
    | none => (s, .migrated nOk nFail)
    | some vol =>
      match nextOcc vol.slots 0 cursor with
      | none => (s, .migrated nOk nFail)
      | some _ => if canPlace s.vols v start then (s, .badOracle "migration stopped early") else (s, .notEnoughStorage)
  | cursor, nOk, nFail, mv :: rest =>
    match findVol v s.vols with
    | none => (s, .badOracle "no such volume")
    | some vol =>
      match nextOcc vol.slots 0 cursor with
      | none => (s, .badOracle "nothing left to migrate")
      | some (i, r) =>
        if i ≠ mv.fromI then (s, .badOracle "unexpected source index")
        else if !validTo s.vols v start mv.toV mv.toI then (s, .badOracle "ineligible location")
        else
          let (s', ok) := moveOne s v i r mv
          if ok ≠ mv.ok then (s', .badOracle "migrate outcome")
          else if ok then
            if v ≠ mv.toV ∧ s'.m.physical = 0 then (s', .panic "negative stat value: physicalSectors")
            else migrateGo s' v start (i + 1) (nOk + 1) nFail rest
          else migrateGo s' v start (i + 1) nOk (nFail + 1) rest

def migrate (s : State) (v start : Nat) (moves : List Move) : State × Res :=
  migrateGo s v start start 0 0 moves

/-- `MigrateSectors` stopped after the callbacks in `moves` (context cancelled, process death): every
sector migrated so far is committed -/
def migratePart (s : State) (v start : Nat) (moves : List Move) : State × Res :=
  match migrate s v start moves with
  | (s', .badOracle "migration stopped early") => (s', .error "interrupted")
  | other => other

/-! ### reads, buffers, sync, process death -/

def cacheTouch (r : SectorId) (b : BufId) (c : List (SectorId × BufId)) : List (SectorId × BufId) :=
  (r, b) :: c.filter (fun e => e.1 != r)

/-- `VolumeManager.ReadSector`: cache first (returns the cached POINTER), else `SectorLocation` +
`readLocation` (fresh buffer, added to the cache) -/
def read (s : State) (r : SectorId) : State × Res :=
  match cacheGet r s.cache with
  | some b => ({ s with cache := cacheTouch r b s.cache }, .buf b)
  | none =>
    if !s.stored.contains r then (s, .sectorNotFound) else
    let s := { s with recent := r :: s.recent }
    match findLoc s.vols r with
    | none => (s, .sectorNotFound)
    | some (v, i) =>
      match slotAt s.vols v i with
      | none => (s, .error "slot missing")
      | some sl =>
        let b := s.heap.length
        ({ s with heap := s.heap ++ [sl.content], cache := cacheAdd s.cacheSize r b s.cache }, .buf b)

/-- a caller creates a buffer holding `c` -/
def newBuf (s : State) (c : Content) : State × BufId := ({ s with heap := s.heap ++ [c] }, s.heap.length)

/-- a caller overwrites (part of) a buffer it holds a pointer to -/
def mutate (s : State) (b : BufId) (c : Content) : State × Res :=
  if b < s.heap.length then ({ s with heap := s.heap.set b c }, .ok) else (s, .badOracle "unknown buffer")

/-- `VolumeManager.Sync`: fsync of every changed volume -/
def sync (s : State) : State :=
  { s with vols := s.changed.foldl (fun vs v => syncVol v vs) s.vols, changed := [], unsynced := [] }

def resizeCache (s : State) (n : Nat) : State := { s with cache := s.cache.take n, cacheSize := n }

def nonDurable (vs : List Volume) (v i : Nat) : Bool :=
  match slotAt vs v i with
  | some sl => !sl.durable
  | none => false

def crashSlots (v : Nat) (lost : List (Nat × Nat)) : List Slot → Nat → List Slot
  | [], _ => []
  | x :: xs, k =>
    (if lost.contains (v, k) then { x with content := .garbage, durable := true } else { x with durable := true })
      :: crashSlots v lost xs (k + 1)

/-- The process dies and restarts: the database is at its last commit (= every committed field as it
is; in-flight writers are gone, their slot reservations stay), unsynced file contents listed in
`lost` (oracle, ⊆ non-durable slots) are gone, cache and `changedVolumes` are empty, volumes that
open are marked available. -/
def crash (s : State) (lost : List (Nat × Nat)) : State × Res :=
  if !lost.all (fun p => nonDurable s.vols p.1 p.2) then (s, .badOracle "durable content cannot vanish")
  else
    ({ s with vols := s.vols.map (fun v => { v with slots := crashSlots v.id lost v.slots 0, available := true })
              cache := [], changed := [], syncer := none, inflight := [], pending := [], fresh := [], unsynced := [] }, .ok)

/-- `VolumeManager.Close` (fsync everything) then restart -/
def restart (s : State) : State × Res :=
  if !s.pending.isEmpty then (s, .badOracle "writers in flight") else
  crash { s with vols := s.vols.map fun v => { v with slots := v.slots.map fun sl => { sl with durable := true } } } []

/-! ### Sync in two phases

`VolumeManager.Sync` collects the dirty volumes and then, per volume, calls `vol.Sync()` (fsync) and
updates `changedVolumes`. Other goroutines (uploads into the same volume) run between the phases.
Current code: fsync, then `delete(changedVolumes, id)`. Repaired shape (`syncSerial`): Sync calls are
serialised, the flag is cleared first, then the fsync. `inflight` = volumes between the two phases. -/

/-- some slot holding `r` is not fsynced -/
def hasDirty (vs : List Volume) (r : SectorId) : Bool :=
  vs.any fun v => v.slots.any fun sl => sl.sec == some r && !sl.durable

def syncBegin (s : State) : State × Res :=
  match s.syncer with
  | some _ => (s, .badOracle "a Sync is running")
  | none => ({ s with syncer := some s.changed }, .ok)

/-- `vol.Sync()` of a running Sync returned -/
def syncFsync (f : Facts) (s : State) (v : Nat) : State × Res :=
  match s.syncer with
  | none => (s, .badOracle "no Sync running")
  | some rem =>
    let vs := syncVol v s.vols
    if f.syncSerial then
      -- second phase: the flag was cleared before
      if s.inflight.contains v then
        ({ s with vols := vs, inflight := s.inflight.filter (fun x => x != v), syncer := some (rem.filter (fun x => x != v))
                  unsynced := s.unsynced.filter (hasDirty vs) }, .ok)
      else (s, .badOracle "flag not cleared yet")
    else
      -- first phase
      if rem.contains v && !s.inflight.contains v then
        ({ s with vols := vs, inflight := v :: s.inflight, unsynced := s.unsynced.filter (hasDirty vs) }, .ok)
      else (s, .badOracle "not to be synced")

/-- the dirty flag of `v` is cleared by a running Sync -/
def syncClear (f : Facts) (s : State) (v : Nat) : State × Res :=
  match s.syncer with
  | none => (s, .badOracle "no Sync running")
  | some rem =>
    if f.syncSerial then
      -- first phase
      if rem.contains v && !s.inflight.contains v then
        ({ s with changed := s.changed.filter (fun x => x != v), inflight := v :: s.inflight }, .ok)
      else (s, .badOracle "not to be synced")
    else
      -- second phase: `delete(vm.changedVolumes, id)` after the fsync returned
      if s.inflight.contains v then
        ({ s with changed := s.changed.filter (fun x => x != v), inflight := s.inflight.filter (fun x => x != v)
                  syncer := some (rem.filter (fun x => x != v)) }, .ok)
      else (s, .badOracle "fsync not done yet")

/-- `vol.Sync()` of a running Sync failed: Sync re-flags the volume and returns the error; the flags
of the volumes it has not reached yet were never cleared -/
def syncFsyncFail (f : Facts) (s : State) (v : Nat) : State × Res :=
  match s.syncer with
  | none => (s, .badOracle "no Sync running")
  | some rem =>
    if f.syncSerial then
      if s.inflight.contains v then
        ({ s with changed := addNew v s.changed, inflight := s.inflight.filter (fun x => x != v), syncer := none }, .error "fsync failed")
      else (s, .badOracle "flag not cleared yet")
    else
      if rem.contains v && !s.inflight.contains v then ({ s with syncer := none }, .error "fsync failed")
      else (s, .badOracle "not to be synced")

/-- An uncontended `Sync()` in which the fsyncs of the volumes `oks` succeeded (in the order the
implementation happened to take them: oracle) and then, possibly, the fsync of `fail` failed.
The volumes not reached keep their dirty flag — unless `syncKeepsRest` is off. -/
def syncPartial (f : Facts) (s : State) (oks : List Nat) (fail : Option Nat) : State × Res :=
  if !s.inflight.isEmpty || s.syncer.isSome then (s, .badOracle "a Sync is running")
  else if !oks.all (fun v => s.changed.contains v) then (s, .badOracle "fsync of a volume that is not dirty")
  else if !(match fail with | some v => s.changed.contains v && !oks.contains v | none => true) then (s, .badOracle "failing volume")
  else if fail.isNone && !s.changed.all (fun v => oks.contains v || (findVol v s.vols).isNone) then (s, .badOracle "Sync skipped a dirty volume")
  else
    let vs := oks.foldl (fun vs v => syncVol v vs) s.vols
    let changed' :=
      if f.syncKeepsRest then s.changed.filter (fun v => !oks.contains v)
      else match fail with
        | some v => [v]
        | none => []
    ({ s with vols := vs, changed := changed', unsynced := s.unsynced.filter (hasDirty vs) },
      match fail with | some _ => .error "fsync failed" | none => .ok)

def syncEnd (s : State) : State × Res :=
  match s.syncer with
  | some [] => if s.inflight.isEmpty then ({ s with syncer := none }, .ok) else (s, .badOracle "Sync not finished")
  | _ => (s, .badOracle "Sync not finished")

/-! ### VolumeManager orchestration -/

/-- `VolumeManager.AddVolume` + its initialisation goroutine -/
def vmAddVolume (s : State) (id n : Nat) : State × Res :=
  if n = 0 then (s, .error "max sectors must be greater than 0") else
  match addVolume s id false with
  | (s1, .ok) => grow (setAvailable s1 id true) id n
  | other => other

/-- `VolumeManager.ResizeVolume` + goroutine (`shrinkVolume` / `growVolume`) -/
def vmResize (s : State) (v n : Nat) (moves : List Move) : State × Res :=
  match findVol v s.vols with
  | none => (s, .volumeNotFound)
  | some vol =>
    if vol.total > n then
      let reset := !vol.readOnly
      let s1 := if reset then setReadOnly s v true else s
      let (s2, r) := migrate s1 v n moves
      let (s3, r3) := match r with
        | .migrated _ 0 => shrink s2 v n
        | .migrated _ _ => (s2, .migrationFailed)
        | other => (s2, other)
      (if reset then setReadOnly s3 v false else s3, r3)
    else if vol.total < n then grow s v n
    else (s, .ok)

/-- `VolumeManager.RemoveVolume` + goroutine: read-only (never reset), migrate everything, remove -/
def vmRemove (s : State) (v : Nat) (force : Bool) (moves : List Move) : State × Res :=
  match findVol v s.vols with
  | none => (s, .volumeNotFound)
  | some _ =>
    let s1 := setReadOnly s v true
    let (s2, r) := migrate s1 v 0 moves
    match r with
    | .migrated _ failed =>
      if !force && failed > 0 then (s2, .migrationFailed)
      else removeVolume s2 v force
    | other => (s2, other)

/-- `resizeBatchSize` (default build) -/
def resizeBatch : Nat := 64

def truncSlots (cut n : Nat) : List Slot → Nat → List Slot
  | [], _ => []
  | x :: xs, k =>
    (if k ≥ cut then { x with content := if k < n then .zero else .garbage, durable := true } else x) :: truncSlots cut n xs (k + 1)

/-- the data file is truncated to `cut` sectors and then extended (with zeroes) to `n` sectors -/
def truncFile (v cut n : Nat) (vs : List Volume) : List Volume :=
  updVol v (fun x => { x with slots := truncSlots cut n x.slots 0 }) vs

/-- `ResizeVolume(v, n)` whose goroutine works with `cur` as the volume's total: the value
`vm.vs.Volume(id)` returned BEFORE the status check. `growVolume(cur, n)` truncates the data file to
`min (cur + resizeBatch) n` sectors in its first batch (`volume.Resize`), `GrowVolume` is a no-op while
the target is below the real total; `shrinkVolume(cur, n)` ends in `ShrinkVolume(n)`, which panics when
`n` exceeds the real total. With `resizeStatLocked` the size is read under the status guard: `cur` is
the real total. -/
def vmResizeStale (f : Facts) (s : State) (cur v n : Nat) (moves : List Move) : State × Res :=
  match findVol v s.vols with
  | none => (s, .volumeNotFound)
  | some vol =>
    if f.resizeStatLocked || cur == vol.total then vmResize s v n moves
    else if cur < n then
      let cut := min (cur + resizeBatch) n
      let s1 := if cut < vol.total then { s with vols := truncFile v cut n s.vols } else s
      if vol.total < n then grow s1 v n else (s1, .ok)
    else if cur > n then
      if n > vol.total then (s, .panic "maxSectors must be less than totalSectors")
      else vmResize s v n moves
    else (s, .ok)

/-! ### operations and histories -/

inductive Op where
  | addVolume (id : Nat) (ro : Bool)
  | grow (v n : Nat)
  | shrink (v n : Nat)
  | removeVolume (v : Nat) (force : Bool)
  | setReadOnly (v : Nat) (b : Bool)
  | setAvailable (v : Nat) (b : Bool)
  | reserve (w : Nat) (r : SectorId) (b : BufId) (ch : Option (Nat × Nat))
  | finish (w : Nat) (ok : Bool)
  | revise1 (c : Nat) (chs : List Change)
  | revise2 (c : Nat) (roots : List SectorId)
  | addTemp (r : SectorId) (exp : Nat)
  | addTemps (l : List Temp)
  | addC1 (id wEnd : Nat)
  | addC2 (id expH : Nat)
  | setStatus1 (id : Nat) (st : S1)
  | setStatus2 (id : Nat) (st : S2)
  | expire1 (h : Nat)
  | expire2 (h : Nat)
  | expireTemp (h : Nat)
  | tick
  | prune
  | removeSector (r : SectorId) (data : Bool)
  | migrate (v start : Nat) (moves : List Move)
  | read (r : SectorId)
  | newBuf (c : Content)
  | mutate (b : BufId) (c : Content)
  | sync
  | resizeCache (n : Nat)
  | crash (lost : List (Nat × Nat))
  | restart
  | vmAddVolume (id n : Nat)
  | vmResize (v n : Nat) (moves : List Move)
  | vmRemove (v : Nat) (force : Bool) (moves : List Move)
  | syncBegin
  | syncFsync (v : Nat)
  | syncClear (v : Nat)
  | syncEnd
  | vmResizeStale (cur v n : Nat) (moves : List Move)
  | syncFsyncFail (v : Nat)
  | syncPartial (oks : List Nat) (fail : Option Nat)
  | removeRows (v : Nat) (force : Bool) (gone : List Nat)
  | expire1Part (h : Nat) (keep : List (Nat × List SectorId))
  | expire2Part (h : Nat) (keep : List (Nat × List SectorId))
  | expireTempPart (h : Nat) (keep : List Temp)
  | prunePart (cleared : List (Nat × Nat))
  | migratePart (v start : Nat) (moves : List Move)
deriving Repr

def step (f : Facts) (s : State) : Op → State × Res
  | .addVolume id ro => addVolume s id ro
  | .grow v n => grow s v n
  | .shrink v n => shrink s v n
  | .removeVolume v force => removeVolume s v force
  | .setReadOnly v b => (setReadOnly s v b, .ok)
  | .setAvailable v b => (setAvailable s v b, .ok)
  | .reserve w r b ch => reserve s w r b ch
  | .finish w ok => finish s w ok
  | .revise1 c chs => revise1 s c chs
  | .revise2 c roots => revise2 s c roots
  | .addTemp r exp => addTemp s r exp
  | .addTemps l => addTemps s l
  | .addC1 id wEnd => addC1 s id wEnd
  | .addC2 id expH => addC2 s id expH
  | .setStatus1 id st => (setStatus1 s id st, .ok)
  | .setStatus2 id st => (setStatus2 s id st, .ok)
  | .expire1 h => expire1 f s h
  | .expire2 h => expire2 f s h
  | .expireTemp h => expireTemp s h
  | .tick => (tick s, .ok)
  | .prune => prune s
  | .removeSector r data => removeSector s r data
  | .migrate v start moves => migrate s v start moves
  | .read r => read s r
  | .newBuf c => ((newBuf s c).1, .buf (newBuf s c).2)
  | .mutate b c => mutate s b c
  | .sync => (sync s, .ok)
  | .resizeCache n => (resizeCache s n, .ok)
  | .crash lost => crash s lost
  | .restart => restart s
  | .vmAddVolume id n => vmAddVolume s id n
  | .vmResize v n moves => vmResize s v n moves
  | .vmRemove v force moves => vmRemove s v force moves
  | .syncBegin => syncBegin s
  | .syncFsync v => syncFsync f s v
  | .syncClear v => syncClear f s v
  | .syncEnd => syncEnd s
  | .vmResizeStale cur v n moves => vmResizeStale f s cur v n moves
  | .syncFsyncFail v => syncFsyncFail f s v
  | .syncPartial oks fail => syncPartial f s oks fail
  | .removeRows v force gone => removeRows f s v force gone
  | .expire1Part h keep => expire1Part f s h keep
  | .expire2Part h keep => expire2Part f s h keep
  | .expireTempPart h keep => expireTempPart s h keep
  | .prunePart cleared => prunePart s cleared
  | .migratePart v start moves => migratePart s v start moves

def run (f : Facts) (s : State) (ops : List Op) : State := ops.foldl (fun s op => (step f s op).1) s

/-! ### the two repairs, selectable through `Facts` -/

/-- every cache entry gets a private buffer holding a copy of what it pointed to -/
def unaliasGo : List Content → List (SectorId × BufId) → List Content × List (SectorId × BufId)
  | heap, [] => (heap, [])
  | heap, (r, b) :: rest =>
    let c := match heap[b]? with
      | some c => c
      | none => Content.garbage      -- a cached pointer is always valid (never taken, see `unalias_good`)
    let res := unaliasGo (heap ++ [c]) rest
    (res.1, (r, heap.length) :: res.2)

/-- Copy semantics of the sector cache: after the operation no buffer a caller knows is shared with
the cache (equivalent to caching a copy in `writeSector` / `readLocation` and returning a copy on a hit). -/
def unalias (s : State) : State :=
  { s with heap := (unaliasGo s.heap s.cache).1, cache := (unaliasGo s.heap s.cache).2 }

def fixCache (f : Facts) (s : State) : State := if f.cacheCopies then unalias s else s

/-- `finish` with the conditional rollback: the slot is only released (and the usage only decremented)
if it still holds the sector -/
def finishChecked (s : State) (w : Nat) (ok : Bool) : State × Res :=
  match findPending w s.pending with
  | none => (s, .badOracle "no such writer")
  | some p =>
    if ok then finish s w ok
    else
      let stillThere := match slotAt s.vols p.v p.i with
        | some sl => sl.sec == some p.r
        | none => false
      if stillThere then finish s w ok
      else ({ s with pending := s.pending.filter (fun q => q.w != w) }, .error "data write failed")

def finishF (f : Facts) (s : State) (w : Nat) (ok : Bool) : State × Res :=
  if f.rollbackChecked then finishChecked s w ok else finish s w ok

/-- one operation of the tree described by `f` -/
def stepF (f : Facts) (s : State) (op : Op) : State × Res :=
  let res := match op with
    | .finish w ok => finishF f s w ok
    | op => step f s op
  (fixCache f res.1, res.2)

def runF (f : Facts) (s : State) (ops : List Op) : State := ops.foldl (fun s op => (stepF f s op).1) s

def init (cacheSize : Nat) : State := { cacheSize := cacheSize }

/-- `expire h` (three queries), time passes, prune -/
def reclaim (f : Facts) (s : State) (h : Nat) : State :=
  let s1 := (expire1 f s h).1
  let s2 := (expire2 f s1 h).1
  let s3 := (expireTemp s2 h).1
  (prune (tick s3)).1

/-- content a `ReadSector(r)` hands out, if it succeeds -/
def readContent (s : State) (r : SectorId) : Option Content :=
  match read s r with
  | (s', .buf b) => s'.heap[b]?
  | _ => none

end Hostd.Volumes
