/-
Model of the ephemeral-account ledger (engine `accounts`, properties C04 and C11):

* `host/accounts/accounts.go`, `budget.go`   — `AccountManager.{Balance,Credit,Budget}`,
  `Budget.{Spend,Refund,Commit,Rollback}` (in-memory reservations on top of the store)
* `persist/sqlite/accounts.go`               — `CreditAccountWithContract`, `DebitAccount`,
  `RHP4CreditAccounts`, `RHP4DebitAccount`, `incrementContractAccountFunding`,
  `distributeRHP3AccountUsage`, `distributeRHP4AccountUsage`
* `persist/sqlite/contracts.go`              — `incrementContractUsage`, `incrementV2ContractUsage`
  (which usage columns are persisted)

Facts read off the code and built into the model:
* RHP3 and RHP4 accounts live in ONE table `accounts` keyed by the 32-byte account key
  (`bal`, `accts`); the funding rows and the contracts are in separate tables per protocol
  version (`rows1/c1` = `contract_account_funding/contracts`, `rows2/c2` = the `_v2` tables).
* every operation is atomic: manager methods run under `AccountManager.mu`, store methods inside
  one SQLite transaction with a deferred rollback (ASSUMPTION of the model, trusted base); hence
  "all interleavings of concurrent RPCs" = all sequences of the operations below.
* money is `Nat`; every Go subtraction that can panic (`types.Currency.Sub`) is an explicit
  `panic` outcome here, never a truncated subtraction.

Core Lean only.
-/
namespace Hostd.Accounts

abbrev Acct := Nat
abbrev Cid  := Nat
abbrev Bid  := Nat

/-- A behaviour of the code that C04 depends on and that is wrong on the current tree.
The model is parameterised by it; `Facts.current` is the current tree, `Facts.repaired` the
tree with the proposed patch.  The driver infers the fact from the observations. -/
structure Facts where
  /-- `RHP4DebitAccount` decrements the `accountBalance` metric -/
  rhp4DebitMetric   : Bool
deriving DecidableEq, Repr

def Facts.current  : Facts := ⟨false⟩
def Facts.repaired : Facts := ⟨true⟩

/-- `contracts.Usage` / `accounts.Usage` / `proto4.Usage` (union of their fields). -/
structure Usage where
  rpc              : Nat := 0
  storage          : Nat := 0
  egress           : Nat := 0
  ingress          : Nat := 0
  registryRead     : Nat := 0
  registryWrite    : Nat := 0
  accountFunding   : Nat := 0
  riskedCollateral : Nat := 0
deriving DecidableEq, Repr

/-- `accounts.Usage.Total()`; also the total revenue recorded on a contract. -/
def Usage.total3 (u : Usage) : Nat :=
  u.rpc + u.storage + u.egress + u.ingress + u.registryRead + u.registryWrite

abbrev Usage.revenue (u : Usage) : Nat := u.total3

/-- what `distributeRHP4AccountUsage` attributes: Storage, Ingress, Egress, RPC -/
def Usage.dist4 (u : Usage) : Nat := u.rpc + u.storage + u.egress + u.ingress

/-- `proto4.Usage.RenterCost()` -/
def Usage.cost4 (u : Usage) : Nat := u.rpc + u.storage + u.egress + u.ingress + u.accountFunding

/-- `accounts.Usage.Add` (six RHP3 categories) -/
def Usage.add3 (a b : Usage) : Usage :=
  { a with rpc := a.rpc + b.rpc, storage := a.storage + b.storage, egress := a.egress + b.egress,
           ingress := a.ingress + b.ingress, registryRead := a.registryRead + b.registryRead,
           registryWrite := a.registryWrite + b.registryWrite }

/-- `accounts.Usage.Sub` panics iff some component underflows -/
def Usage.le3 (b a : Usage) : Bool :=
  b.rpc ≤ a.rpc && b.storage ≤ a.storage && b.egress ≤ a.egress && b.ingress ≤ a.ingress &&
  b.registryRead ≤ a.registryRead && b.registryWrite ≤ a.registryWrite

def Usage.sub3 (a b : Usage) : Usage :=
  { a with rpc := a.rpc - b.rpc, storage := a.storage - b.storage, egress := a.egress - b.egress,
           ingress := a.ingress - b.ingress, registryRead := a.registryRead - b.registryRead,
           registryWrite := a.registryWrite - b.registryWrite }

/-- a row of `contract_account_funding` / `contract_v2_account_funding` -/
structure Row where
  contract : Cid
  account  : Acct
  amount   : Nat
deriving DecidableEq, Repr

def upd {β : Type} (f : Nat → β) (k : Nat) (v : β) : Nat → β := fun x => if x = k then v else f x

@[simp] theorem upd_same {β : Type} (f : Nat → β) (k : Nat) (v : β) : upd f k v k = v := by simp [upd]
@[simp] theorem upd_other {β : Type} (f : Nat → β) (k x : Nat) (v : β) (h : x ≠ k) : upd f k v x = f x := by
  simp [upd, h]

/-! ### funding tables -/

/-- Σ amount of the rows of contract `c` (what `checkContractAccountFunding` recomputes) -/
def rowsum (c : Cid) : List Row → Nat
  | [] => 0
  | r :: rest => (if r.contract = c then r.amount else 0) + rowsum c rest

/-- Σ amount of the rows of account `a` -/
def acctsum (a : Acct) : List Row → Nat
  | [] => 0
  | r :: rest => (if r.account = a then r.amount else 0) + acctsum a rest

/-- `incrementContractAccountFunding` and the upsert of `RHP4CreditAccounts`:
`amount += amt` on the (contract, account) row, appended (new rowid) when missing. -/
def upsert : List Row → Cid → Acct → Nat → List Row
  | [], c, a, amt => [{ contract := c, account := a, amount := amt }]
  | r :: rest, c, a, amt =>
    if r.contract = c ∧ r.account = a then { r with amount := r.amount + amt } :: rest
    else r :: upsert rest c a amt

/-- result of attributing the remaining usage to ONE funding row -/
structure RowRes where
  left : Usage     -- usage still unattributed
  rem  : Nat       -- what remains of the row
  add  : Usage     -- `additionalUsage` for the contract

/-- body of the loop of `distributeRHP3AccountUsage` for one row: the six `distributeFunds`
calls in the order of the code (storage, ingress, egress, registry read, registry write, rpc);
each moves `min(usage, remainder)`. -/
def distRow3 (u : Usage) (amt : Nat) : RowRes :=
  let v1 := min u.storage amt;        let r1 := amt - v1
  let v2 := min u.ingress r1;         let r2 := r1 - v2
  let v3 := min u.egress r2;          let r3 := r2 - v3
  let v4 := min u.registryRead r3;    let r4 := r3 - v4
  let v5 := min u.registryWrite r4;   let r5 := r4 - v5
  let v6 := min u.rpc r5;             let r6 := r5 - v6
  { left := { u with storage := u.storage - v1, ingress := u.ingress - v2, egress := u.egress - v3,
                     registryRead := u.registryRead - v4, registryWrite := u.registryWrite - v5,
                     rpc := u.rpc - v6 },
    rem := r6,
    add := { storage := v1, ingress := v2, egress := v3, registryRead := v4, registryWrite := v5, rpc := v6 } }

/-- same for `distributeRHP4AccountUsage`: storage, ingress, egress, rpc -/
def distRow4 (u : Usage) (amt : Nat) : RowRes :=
  let v1 := min u.storage amt;   let r1 := amt - v1
  let v2 := min u.ingress r1;    let r2 := r1 - v2
  let v3 := min u.egress r2;     let r3 := r2 - v3
  let v4 := min u.rpc r3;        let r4 := r3 - v4
  { left := { u with storage := u.storage - v1, ingress := u.ingress - v2, egress := u.egress - v3,
                     rpc := u.rpc - v4 },
    rem := r4,
    add := { storage := v1, ingress := v2, egress := v3, rpc := v4 } }

/-- `updateContractUsage(tx, id, 0, additionalUsage)` → `incrementContractUsage`: all eight
usage columns of `contracts` receive the additional usage (`total.Add(usage)`). -/
def addUsage1 (c add : Usage) : Usage :=
  { c with rpc := c.rpc + add.rpc, storage := c.storage + add.storage,
           ingress := c.ingress + add.ingress, egress := c.egress + add.egress,
           registryRead := c.registryRead + add.registryRead,
           registryWrite := c.registryWrite + add.registryWrite,
           accountFunding := c.accountFunding + add.accountFunding,
           riskedCollateral := c.riskedCollateral + add.riskedCollateral }

/-- `incrementV2ContractUsage`: `existing.Add(usage)` on the six `proto4.Usage` fields -/
def addUsage2 (c add : Usage) : Usage :=
  { c with rpc := c.rpc + add.rpc, storage := c.storage + add.storage,
           ingress := c.ingress + add.ingress, egress := c.egress + add.egress,
           accountFunding := c.accountFunding + add.accountFunding,
           riskedCollateral := c.riskedCollateral + add.riskedCollateral }

/-- result of the distribution loop -/
structure DistRes where
  rows : List Row          -- the funding table afterwards
  left : Usage             -- usage that found no funding source
  cs   : Cid → Usage       -- contracts afterwards
  bad  : Bool              -- some `Currency.Sub` would have panicked (contract total < moved)

/-- `contract.Usage.AccountFunding.Sub(moved)` (the caller records whether it underflows) -/
def Usage.subFunding (c : Usage) (moved : Nat) : Usage := { c with accountFunding := c.accountFunding - moved }

/-- The loop shared by `distributeRHP3AccountUsage` and `distributeRHP4AccountUsage`
(`rowFn` = the `distributeFunds` calls of that version, `addFn` = its usage increment): over the
rows of account `a` with a non-zero amount (`contractFunding`/`contractV2Funding` skip zero rows),
in table order.  Per row: attribute, write the remainder (DELETE at zero), subtract the moved
amount from the contract's unspent funding (`AccountFunding.Sub(f.Amount.Sub(remainder))` —
panics on underflow), add the usage to the contract. -/
def distG (rowFn : Usage → Nat → RowRes) (addFn : Usage → Usage → Usage) (a : Acct) :
    List Row → Usage → (Cid → Usage) → DistRes
  | [], u, cs => { rows := [], left := u, cs := cs, bad := false }
  | r :: rest, u, cs =>
    if r.account = a ∧ r.amount ≠ 0 then
      let rr := rowFn u r.amount
      let moved := r.amount - rr.rem
      let c := cs r.contract
      let c' := addFn (c.subFunding moved) rr.add
      let t := distG rowFn addFn a rest rr.left (upd cs r.contract c')
      { rows := if rr.rem = 0 then t.rows else { r with amount := rr.rem } :: t.rows,
        left := t.left, cs := t.cs, bad := decide (c.accountFunding < moved) || t.bad }
    else
      let t := distG rowFn addFn a rest u cs
      { rows := r :: t.rows, left := t.left, cs := t.cs, bad := t.bad }

/-- `distributeRHP3AccountUsage` -/
def dist3 : Acct → List Row → Usage → (Cid → Usage) → DistRes := distG distRow3 addUsage1

/-- `distributeRHP4AccountUsage` -/
def dist4 : Acct → List Row → Usage → (Cid → Usage) → DistRes := distG distRow4 addUsage2

/-! ### the store (one SQLite transaction per operation) -/

structure Store where
  accts    : List Acct        -- keys of table `accounts`
  bal      : Acct → Nat       -- `accounts.balance` (0 for absent keys)
  mBalance : Nat              -- metric `accountBalance`
  mActive  : Nat              -- metric `activeAccounts`
  rows1    : List Row         -- `contract_account_funding`
  rows2    : List Row         -- `contract_v2_account_funding`
  c1       : Cid → Usage      -- usage columns of `contracts`
  c2       : Cid → Usage      -- usage columns of `contracts_v2`
  n1       : Nat              -- v1 contracts 0..n1-1 exist
  n2       : Nat
  -- history variables (not in the code): Σ accepted deposits, Σ committed withdrawals, Σ RHP4 debits
  dep      : Acct → Nat
  wd       : Acct → Nat
  r4deb    : Nat

def Store.init (n1 n2 : Nat) : Store :=
  { accts := [], bal := fun _ => 0, mBalance := 0, mActive := 0, rows1 := [], rows2 := [],
    c1 := fun _ => {}, c2 := fun _ => {}, n1 := n1, n2 := n2, dep := fun _ => 0, wd := fun _ => 0, r4deb := 0 }

/-- Σ of all balances -/
def sumBal (bal : Acct → Nat) : List Acct → Nat
  | [] => 0
  | a :: rest => bal a + sumBal bal rest

/-- the account upsert shared by both credit paths -/
def Store.deposit (st : Store) (a : Acct) (amt : Nat) : Store :=
  { st with accts := if a ∈ st.accts then st.accts else st.accts ++ [a],
            mActive := if a ∈ st.accts then st.mActive else st.mActive + 1,
            bal := upd st.bal a (st.bal a + amt),
            dep := upd st.dep a (st.dep a + amt) }

/-- `CreditAccountWithContract`; `none` = error (contract unknown), nothing changed -/
def Store.credit3 (st : Store) (a : Acct) (c : Cid) (amt cost : Nat) : Option Store :=
  if c < st.n1 then
    let st := st.deposit a amt
    some { st with
      mBalance := st.mBalance + amt,
      c1 := upd st.c1 c { (st.c1 c) with rpc := (st.c1 c).rpc + cost,
                                          accountFunding := (st.c1 c).accountFunding + amt },
      rows1 := upsert st.rows1 c a amt }
  else none

inductive DebitOut where
  | ok | missing | insufficient | panic
deriving DecidableEq, Repr

/-- `DebitAccount` (RHP3) -/
def Store.debit3 (st : Store) (a : Acct) (u : Usage) : Store × DebitOut :=
  if a ∉ st.accts then (st, .missing)
  else if st.bal a < u.total3 then (st, .insufficient)
  else
    let d := dist3 a st.rows1 u st.c1
    if d.bad then (st, .panic)
    else if st.mBalance < u.total3 then (st, .panic)
    else ({ st with bal := upd st.bal a (st.bal a - u.total3), rows1 := d.rows, c1 := d.cs,
                    mBalance := st.mBalance - u.total3,
                    wd := upd st.wd a (st.wd a + u.total3) }, .ok)

/-- the deposit loop of `RHP4CreditAccounts`; returns the balances it reports -/
def Store.deposits4 (st : Store) (c : Cid) : List (Acct × Nat) → Store × List Nat
  | [] => (st, [])
  | (a, amt) :: rest =>
    let st1 := st.deposit a amt
    let st2 := { st1 with rows2 := upsert st1.rows2 c a amt }
    let r := Store.deposits4 st2 c rest
    (r.1, (st.bal a + amt) :: r.2)

/-- `RHP4CreditAccounts`: the metric is raised by `usage.AccountFunding` (caller supplied) -/
def Store.credit4 (st : Store) (c : Cid) (deps : List (Acct × Nat)) (u : Usage) : Option (Store × List Nat) :=
  if c < st.n2 then
    let r := st.deposits4 c deps
    some ({ r.1 with c2 := upd r.1.c2 c (addUsage2 (r.1.c2 c) u),
                     mBalance := r.1.mBalance + u.accountFunding }, r.2)
  else none

/-- `RHP4DebitAccount` -/
def Store.debit4 (f : Facts) (st : Store) (a : Acct) (u : Usage) : Store × DebitOut :=
  if a ∉ st.accts then (st, .insufficient)
  else if st.bal a < u.cost4 then (st, .insufficient)
  else
    let d := dist4 a st.rows2 u st.c2
    if d.bad then (st, .panic)
    else if f.rhp4DebitMetric && decide (st.mBalance < u.cost4) then (st, .panic)
    else ({ st with bal := upd st.bal a (st.bal a - u.cost4), rows2 := d.rows, c2 := d.cs,
                    mBalance := if f.rhp4DebitMetric then st.mBalance - u.cost4 else st.mBalance,
                    wd := upd st.wd a (st.wd a + u.cost4),
                    r4deb := st.r4deb + u.cost4 }, .ok)

/-! ### the account manager -/

/-- `accountState` -/
structure Mem where
  balance  : Nat
  openTxns : Nat
deriving DecidableEq, Repr

/-- `Budget` -/
structure Budget where
  acct   : Acct
  max    : Nat
  usage  : Usage
  closed : Bool      -- `committed`
deriving DecidableEq, Repr

structure State where
  st      : Store
  mem     : Acct → Option Mem     -- `AccountManager.balances`
  budgets : List Budget           -- every budget ever handed out; `Bid` = position
  /-- history variable: RHP4 deposits that arrived while the key had an in-memory entry
  (the manager does not see them until the entry is dropped) -/
  stale   : Acct → Nat

def init (n1 n2 : Nat) : State :=
  { st := Store.init n1 n2, mem := fun _ => none, budgets := [], stale := fun _ => 0 }

inductive Out where
  | ok | exceeded | insufficient | err | panic
deriving DecidableEq, Repr

/-- weight of a budget in the reservations of account `a` -/
def Budget.w (a : Acct) (b : Budget) : Nat := if b.closed = false ∧ b.acct = a then b.max else 0

/-- Σ max of the open budgets of `a` -/
def resv (a : Acct) : List Budget → Nat
  | [] => 0
  | b :: rest => b.w a + resv a rest

/-- number of open budgets of `a` -/
def nOpen (a : Acct) : List Budget → Nat
  | [] => 0
  | b :: rest => (if b.closed = false ∧ b.acct = a then 1 else 0) + nOpen a rest

/-- `AccountManager.getBalance` -/
def getBalance (s : State) (a : Acct) : Nat :=
  match s.mem a with
  | some m => m.balance
  | none => s.st.bal a

/-- `AccountManager.Credit`; returns the new balance it reports -/
def credit (s : State) (a : Acct) (c : Cid) (amt cost : Nat) (refund : Bool) (maxBal : Nat) : State × Out × Nat :=
  let nb := getBalance s a + amt
  if !refund && decide (maxBal < nb) then (s, .exceeded, 0)
  else match s.st.credit3 a c amt cost with
    | none => (s, .err, 0)
    | some st' =>
      let mem' := match s.mem a with
        | some m => upd s.mem a (some { m with balance := nb })
        | none => s.mem
      ({ s with st := st', mem := mem' }, .ok, nb)

/-- `AccountManager.Budget` -/
def budget (s : State) (a : Acct) (amt : Nat) : State × Out :=
  let m : Mem := match s.mem a with
    | some m => m
    | none => { balance := s.st.bal a, openTxns := 0 }
  if m.balance < amt then (s, .insufficient)
  else ({ s with mem := upd s.mem a (some { balance := m.balance - amt, openTxns := m.openTxns + 1 }),
                 budgets := s.budgets ++ [{ acct := a, max := amt, usage := {}, closed := false }] }, .ok)

/-- `Budget.Spend` -/
def spend (s : State) (i : Bid) (u : Usage) : State × Out :=
  match s.budgets[i]? with
  | none => (s, .err)
  | some b =>
    let nu := b.usage.add3 u
    if b.max < nu.total3 then (s, .insufficient)
    else ({ s with budgets := s.budgets.set i { b with usage := nu } }, .ok)

/-- `Budget.Refund` -/
def refund (s : State) (i : Bid) (u : Usage) : State × Out :=
  match s.budgets[i]? with
  | none => (s, .err)
  | some b =>
    if b.closed then (s, .panic)
    else if !u.le3 b.usage then (s, .panic)
    else ({ s with budgets := s.budgets.set i { b with usage := b.usage.sub3 u } }, .ok)

/-- drop one open transaction of `a`, returning `back` to the spendable balance -/
def release (mem : Acct → Option Mem) (a : Acct) (m : Mem) (back : Nat) : Acct → Option Mem :=
  if m.openTxns - 1 = 0 then upd mem a none
  else upd mem a (some { balance := m.balance + back, openTxns := m.openTxns - 1 })

/-- `Budget.Commit`; `storeFails` = the store's `DebitAccount` returns an (injected) error -/
def commit (s : State) (i : Bid) (storeFails : Bool) : State × Out :=
  match s.budgets[i]? with
  | none => (s, .err)
  | some b =>
    if b.closed then (s, .ok)
    else if storeFails then (s, .err)
    else match s.st.debit3 b.acct b.usage with
      | (_, .missing) => (s, .err)
      | (_, .insufficient) => (s, .err)
      | (_, .panic) => (s, .panic)
      | (st', .ok) =>
        let rem := b.max - b.usage.total3
        let bs := s.budgets.set i { b with max := 0, usage := {}, closed := true }
        match s.mem b.acct with
        | none => ({ s with st := st', budgets := bs }, .panic)      -- "account missing from memory"
        | some m =>
          let mem' := release s.mem b.acct m rem
          ({ s with st := st', budgets := bs, mem := mem',
                    stale := if m.openTxns - 1 = 0 then upd s.stale b.acct 0 else s.stale }, .ok)

/-- `Budget.Rollback` -/
def rollback (s : State) (i : Bid) : State × Out :=
  match s.budgets[i]? with
  | none => (s, .err)
  | some b =>
    if b.closed then (s, .ok)
    else match s.mem b.acct with
      | none => (s, .panic)
      | some m =>
        ({ s with budgets := s.budgets.set i { b with closed := true },
                  mem := release s.mem b.acct m b.max,
                  stale := if m.openTxns - 1 = 0 then upd s.stale b.acct 0 else s.stale }, .ok)

/-- Σ of the deposits addressed to `a` -/
def depsFor (a : Acct) : List (Acct × Nat) → Nat
  | [] => 0
  | (a', amt) :: rest => (if a' = a then amt else 0) + depsFor a rest

def sumDeps : List (Acct × Nat) → Nat
  | [] => 0
  | (_, amt) :: rest => amt + sumDeps rest

/-- `contracts.Manager.CreditAccountsWithContract` = `RHP4CreditAccounts` -/
def rhp4credit (s : State) (c : Cid) (deps : List (Acct × Nat)) (u : Usage) : State × Out × List Nat :=
  match s.st.credit4 c deps u with
  | none => (s, .err, [])
  | some (st', bals) =>
    ({ s with st := st',
              stale := fun a => if (s.mem a).isSome then s.stale a + depsFor a deps else s.stale a }, .ok, bals)

/-- `contracts.Manager.DebitAccount` = `RHP4DebitAccount` -/
def rhp4debit (f : Facts) (s : State) (a : Acct) (u : Usage) : State × Out :=
  match s.st.debit4 f a u with
  | (_, .missing) => (s, .insufficient)
  | (_, .insufficient) => (s, .insufficient)
  | (_, .panic) => (s, .panic)
  | (st', .ok) => ({ s with st := st' }, .ok)

inductive Op where
  | credit (a : Acct) (c : Cid) (amt cost : Nat) (refund : Bool) (maxBal : Nat)
  | budget (a : Acct) (amt : Nat)
  | spend (i : Bid) (u : Usage)
  | refund (i : Bid) (u : Usage)
  | commit (i : Bid) (storeFails : Bool)
  | rollback (i : Bid)
  | rhp4credit (c : Cid) (deps : List (Acct × Nat)) (u : Usage)
  | rhp4debit (a : Acct) (u : Usage)
deriving Repr

def step (f : Facts) (s : State) : Op → State × Out
  | .credit a c amt cost r mb => let x := credit s a c amt cost r mb; (x.1, x.2.1)
  | .budget a amt => budget s a amt
  | .spend i u => spend s i u
  | .refund i u => refund s i u
  | .commit i sf => commit s i sf
  | .rollback i => rollback s i
  | .rhp4credit c deps u => let x := rhp4credit s c deps u; (x.1, x.2.1)
  | .rhp4debit a u => rhp4debit f s a u

def run (f : Facts) (s : State) (ops : List Op) : State := ops.foldl (fun s op => (step f s op).1) s

end Hostd.Accounts
