/-
Model of host/registry/registry.go (Manager.Put/Get/Entries) on top of
persist/sqlite/registry.go (SetRegistryValue, registryLimits) and of the
protocol ordering of go.sia.tech/core/rhp/v3.ValidateRegistryUpdate.
Core Lean only.
-/
namespace Hostd.Registry

/-- What the model needs to know about a registry entry.  `work` is the
big-endian value of `RegistryEntry.Work()`, `primary` says
`Type = EntryTypePubKey ∧ Data[:20] = hostID[:20]`, `tag` identifies the
value bytes (data, revision, type, signature) for comparison of reads. -/
structure Entry where
  rev     : Nat
  typ     : Nat
  work    : Nat
  primary : Bool
  tag     : Nat
deriving DecidableEq, Repr

abbrev Key := Nat

structure State where
  entries : List (Key × Entry)
  limit   : Nat
  metric  : Int
deriving Repr

def init (limit : Nat) : State := { entries := [], limit := limit, metric := 0 }

inductive Out where
  | accepted | invalid | order | full
deriving DecidableEq, Repr

def find (k : Key) : List (Key × Entry) → Option Entry
  | [] => none
  | (k', e) :: rest => if k' = k then some e else find k rest

def replace (k : Key) (e : Entry) : List (Key × Entry) → List (Key × Entry)
  | [] => []
  | (k', e') :: rest => if k' = k then (k', e) :: rest else (k', e') :: replace k e rest

/-- `rhp3.ValidateRegistryUpdate(old, new, hostID) == nil`. -/
def supersedes (old new : Entry) : Bool :=
  if new.rev > old.rev then true
  else if new.rev < old.rev then false
  else if new.work > old.work then true
  else if new.work < old.work then false
  else if new.typ = 1 then false
  else if !new.primary then false
  else if old.primary then false
  else true

def get (s : State) (k : Key) : Option Entry := find k s.entries

/-- `Manager.Put`: `valid` is the result of `ValidateRegistryEntry`. -/
def put (s : State) (k : Key) (e : Entry) (valid : Bool) : State × Out :=
  if !valid then (s, .invalid)
  else match find k s.entries with
    | none =>
      if s.entries.length ≥ s.limit then (s, .full)
      else ({ s with entries := (k, e) :: s.entries, metric := s.metric + 1 }, .accepted)
    | some old =>
      if supersedes old e then ({ s with entries := replace k e s.entries }, .accepted)
      else (s, .order)

def setLimit (s : State) (n : Nat) : State := { s with limit := n }

inductive Op where
  | put (k : Key) (e : Entry) (valid : Bool)
  | limit (n : Nat)
deriving Repr

def step (s : State) : Op → State
  | .put k e v => (put s k e v).1
  | .limit n => setLimit s n

def run (s : State) (ops : List Op) : State := ops.foldl step s

end Hostd.Registry
