/-
Line protocol shared by every engine driver (core Lean only).

A trace line has the form
    <op> k=v k=v ... => k=v k=v ...
The part before `=>` is the operation (what the harness did to the real code),
the part after it is what the implementation was observed to answer.
Values are decimal naturals, integers, bare words, or bracketed comma lists
without blanks: `[1,2,3]`, `[]`.
-/
namespace Hostd.Proto

structure Line where
  op   : String
  args : List (String × String)
  obs  : List (String × String)
deriving Repr

def splitKV (tok : String) : String × String :=
  match tok.splitOn "=" with
  | [k] => (k, "")
  | k :: rest => (k, "=".intercalate rest)
  | [] => ("", "")

def tokens (s : String) : List String :=
  (s.trimAscii.toString.splitOn " ").filter (· ≠ "")

def parseLine (s : String) : Option Line :=
  match tokens s with
  | [] => none
  | op :: rest =>
    let (a, o) := rest.span (· ≠ "=>")
    some { op := op, args := a.map splitKV, obs := (o.drop 1).map splitKV }

def lookup (kv : List (String × String)) (k : String) : Option String :=
  (kv.find? (·.1 == k)).map (·.2)

def getNat (kv : List (String × String)) (k : String) : Option Nat :=
  (lookup kv k).bind String.toNat?

def getInt (kv : List (String × String)) (k : String) : Option Int :=
  (lookup kv k).bind String.toInt?

def getStr (kv : List (String × String)) (k : String) : Option String := lookup kv k

def parseList (s : String) : Option (List String) :=
  if s.startsWith "[" && s.endsWith "]" then
    let inner := ((s.drop 1).dropEnd 1).toString
    if inner == "" then some [] else some (inner.splitOn ",")
  else none

def getNatList (kv : List (String × String)) (k : String) : Option (List Nat) :=
  (lookup kv k).bind fun s => (parseList s).bind fun l => l.mapM String.toNat?

def getIntList (kv : List (String × String)) (k : String) : Option (List Int) :=
  (lookup kv k).bind fun s => (parseList s).bind fun l => l.mapM String.toInt?

def getStrList (kv : List (String × String)) (k : String) : Option (List String) :=
  (lookup kv k).bind parseList

def showNatList (l : List Nat) : String := "[" ++ ",".intercalate (l.map toString) ++ "]"
def showIntList (l : List Int) : String := "[" ++ ",".intercalate (l.map toString) ++ "]"
def showStrList (l : List String) : String := "[" ++ ",".intercalate l ++ "]"

/-- What a driver says about one trace line. -/
inductive Verdict where
  | ok
  | mismatch (field model impl : String)   -- model and implementation disagree
  | monitor (name detail : String)         -- property predicate false on the implementation's own observation
  | badline (why : String)
deriving Repr

/-- Generic driver loop: `step` consumes a parsed line, returns new state and verdicts. -/
partial def loop {σ : Type} (h : IO.FS.Stream) (init : σ)
    (step : σ → Line → σ × List Verdict) (stats : σ → String) : IO Unit := do
  let rec go (s : σ) (n : Nat) (bad : Nat) : IO Unit := do
    let line ← h.getLine
    if line.isEmpty then
      IO.println s!"STATS lines={n} flagged={bad} {stats s}"
      return ()
    if line.trimAscii.toString.isEmpty || line.startsWith "#" then
      go s (n+1) bad
    else
      match parseLine line with
      | none => go s (n+1) bad
      | some l =>
        let (s', vs) := step s l
        let mut b := bad
        for v in vs do
          match v with
          | .ok => pure ()
          | .mismatch f m i =>
            b := b + 1
            IO.println s!"MISMATCH line={n+1} op={l.op} field={f} model={m} impl={i}"
          | .monitor nm d =>
            b := b + 1
            IO.println s!"MONITOR line={n+1} op={l.op} name={nm} detail={d}"
          | .badline w =>
            b := b + 1
            IO.println s!"BADLINE line={n+1} op={l.op} why={w}"
        go s' (n+1) b
  go init 0 0

/-- compare helper -/
def cmp (field model impl : String) : List Verdict :=
  if model == impl then [] else [.mismatch field model impl]

end Hostd.Proto
